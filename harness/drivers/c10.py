"""C10 -- blurring, edge and border pixel sets match their definitions for every mask.

Masks.tla enumerates every mask inside the bound (including masks with unmasked pixels on the outer ring, holes,
diagonal contacts); the real derive_indexes / derive_mask / derive_grid / blurring API is run on each and the recorded
views are judged by Trace_Masks.tla (two-sided edge postcondition, border relative to the reported edge set)."""
import numpy as np

from harness import core, exact
from harness.drivers import masks_common as mc

KERNELS_QUICK = [(1, 1), (3, 3), (1, 3), (3, 1), (5, 3)]
KERNELS_FULL = [(1, 1), (3, 3), (1, 3), (3, 1), (5, 3), (3, 5), (5, 5), (1, 5), (5, 1), (7, 3)]


def _cells_of_grid(grid, h, w, sy, sx, oy, ox):
    """alpha: coordinates -> [i, j] cells (rejecting off-centre coordinates)."""
    g = np.asarray(grid, dtype=float).reshape(-1, 2)
    if g.shape[0] == 0:
        return []
    i = (h - 1) / 2.0 - (g[:, 0] - oy) / sy
    j = (g[:, 1] - ox) / sx + (w - 1) / 2.0
    out = []
    for a, b in zip(i, j):
        ra, rb = round(a), round(b)
        if abs(a - ra) > 1e-6 or abs(b - rb) > 1e-6:
            out.append([-2, -2])
        else:
            out.append([int(ra), int(rb)])
    return out


def records_for(inst, kernels, seed=0):
    import autoarray as aa
    from autoarray import exc

    h, w, u = inst
    rng = np.random.default_rng(seed + 31 * h + w + 977 * len(u))
    m = np.ones(h * w, dtype=bool)
    m[u] = False
    m = m.reshape(h, w)
    sy, sx = [(1.0, 1.0), (0.5, 2.0), (0.1, 0.3)][int(rng.integers(0, 3))]
    oy, ox = [(0.0, 0.0), (1.5, -2.0), (-0.3, 0.7)][int(rng.integers(0, 3))]
    lay = (len(u) + h + 2 * w) % 3  # memory layout of the array handed over: C order, Fortran order, transposed view
    mask = aa.Mask2D(mask=m if lay == 0 else (np.asfortranarray(m) if lay == 1 else np.ascontiguousarray(m.T).T), pixel_scales=(sy, sx), origin=(oy, ox))
    # history: a decoy mask with the same row-major contents but another shape (and one with the same shape and other
    # contents) is inspected first; nothing it computed may leak into the judged mask
    for shp in {(w, h), (1, h * w), (h * w, 1)} - {(h, w)}:
        decoy = aa.Mask2D(mask=m.reshape(shp).copy(), pixel_scales=(sy, sx))
        try:  # the decoy is not judged (its own shape is judged as another instance); it must only not disturb the judged mask
            decoy.derive_indexes.edge_slim, decoy.derive_indexes.border_slim, decoy.derive_indexes.native_for_slim
            decoy.derive_mask.edge, decoy.derive_mask.border
        except Exception:  # noqa: BLE001
            pass
    di, dm, dg = mask.derive_indexes, mask.derive_mask, mask.derive_grid
    lin = lambda mk: [int(x) for x in np.flatnonzero(~np.asarray(mk, dtype=bool).ravel())]
    recs = []
    raised = []

    def view(name, fn):
        # an exception of the code under test inside the property's domain is a verdict (rejection), not a machinery failure
        try:
            return fn()
        except Exception as e:  # noqa: BLE001
            raised.append(f"{name}:{type(e).__name__}")
            return []

    rec = {"p": "C10", "api": "sets", "h": h, "w": w, "u": u,
           "edge_slim": view("edge_slim", lambda: np.asarray(di.edge_slim).astype(int).tolist()),
           "edge_native": view("edge_native", lambda: np.asarray(di.edge_native).astype(int).reshape(-1, 2).tolist()),
           "edge_mask": view("edge_mask", lambda: lin(dm.edge)),
           "edge_grid": view("edge_grid", lambda: _cells_of_grid(dg.edge, h, w, sy, sx, oy, ox)),
           "border_slim": view("border_slim", lambda: np.asarray(di.border_slim).astype(int).tolist()),
           "border_native": view("border_native", lambda: np.asarray(di.border_native).astype(int).reshape(-1, 2).tolist()),
           "border_mask": view("border_mask", lambda: lin(dm.border)),
           "border_grid": view("border_grid", lambda: _cells_of_grid(dg.border, h, w, sy, sx, oy, ox))}
    rec["raised"] = raised
    sets_first = rec
    recs.append(rec)
    if len(u) > 1:
        # history: the derive objects HELD since before are read again after the mask was edited in place (one unmasked pixel
        # masked): every view describes the current entries
        k0 = u[(len(u) * 7) // 11]
        mask[k0 // w, k0 % w] = True
        u2 = [x for x in u if x != k0]
        raised = []
        rec2 = {"p": "C10", "api": "sets", "h": h, "w": w, "u": u2, "edited_in_place": True,
                "edge_slim": view("edge_slim", lambda: np.asarray(di.edge_slim).astype(int).tolist()),
                "edge_native": view("edge_native", lambda: np.asarray(di.edge_native).astype(int).reshape(-1, 2).tolist()),
                "edge_mask": view("edge_mask", lambda: lin(dm.edge)),
                "edge_grid": view("edge_grid", lambda: _cells_of_grid(dg.edge, h, w, sy, sx, oy, ox)),
                "border_slim": view("border_slim", lambda: np.asarray(di.border_slim).astype(int).tolist()),
                "border_native": view("border_native", lambda: np.asarray(di.border_native).astype(int).reshape(-1, 2).tolist()),
                "border_mask": view("border_mask", lambda: lin(dm.border)),
                "border_grid": view("border_grid", lambda: _cells_of_grid(dg.border, h, w, sy, sx, oy, ox))}
        rec2["raised"] = list(raised)
        recs.append(rec2)
        mask[k0 // w, k0 % w] = False  # restore: the remaining records are about the instance's own mask
    eb_raised = []
    try:
        eb = lin(dm.edge_buffed)
    except Exception as e:  # noqa: BLE001
        eb, eb_raised = [], [f"edge_buffed:{type(e).__name__}"]
    recs.append({"p": "C10", "api": "edge_buffed", "h": h, "w": w, "u": u, "out": eb, "raised": eb_raised})
    # growth beyond the listed property: Mask2D.from_pixel_coordinates (buffer / invert) is the Buffed set of Masks.tla
    coords = [[int(k) // w, int(k) % w] for k in u]
    for b_, inv_ in ((0, False), (1, False), (2, True)):
        mk_ = aa.Mask2D.from_pixel_coordinates(shape_native=(h, w), pixel_coordinates=coords, pixel_scales=1.0, buffer=b_, invert=inv_)
        recs.append({"p": "C10", "api": "from_pixel_coordinates", "h": h, "w": w, "u": u, "b": b_, "invert": inv_, "out": lin(mk_)})
    for kh, kw in kernels:
        r = {"p": "C10", "api": "blurring", "h": h, "w": w, "u": u, "kh": kh, "kw": kw, "raised": False, "out": [], "grid": []}
        try:
            bm = dm.blurring_from(kernel_shape_native=(kh, kw))
            r["out"] = lin(bm)
        except exc.MaskException:
            r["raised"] = True
        if not r["raised"]:
            try:
                bg = aa.Grid2D.blurring_grid_from(mask=mask, kernel_shape_native=(kh, kw))
                cells = _cells_of_grid(bg, h, w, sy, sx, oy, ox)
                r["grid"] = [c[0] * w + c[1] if c[0] >= 0 else -2 for c in cells]
            except exc.MaskException:
                r["grid"] = [-3]
        recs.append(r)
    return recs


def _many(args):
    insts, kernels, seed = args
    out = []
    for inst in insts:
        out.extend(records_for(inst, kernels, seed))
    return out


def run(ctx):
    quick = ctx.quick
    max_cells = 9 if quick else 12
    shapes = [s for s in mc.shapes_upto(max_cells) if min(s) >= 1]
    extra = [(3, 4), (4, 3)] if quick else [(4, 4), (3, 5), (5, 3)]
    extra = [s for s in extra if s not in shapes]
    kernels = KERNELS_QUICK if quick else KERNELS_FULL
    ctx.bounds = {"exhaustive_masks_up_to_cells": max_cells, "extra_exhaustive_shapes": extra, "kernels": kernels,
                  "random_masks": 200 if quick else 2000, "random_max_side": 12}
    insts = mc.enumerate_masks(ctx, shapes + extra, kernels=kernels[:5])
    ctx.exhaustive = True
    rng = np.random.default_rng(ctx.seed)
    rnd = mc.random_masks(rng, ctx.bounds["random_masks"])
    allinst = insts + rnd
    groups = [(allinst[k : k + 40], kernels, ctx.seed) for k in range(0, len(allinst), 40)]
    recs = []
    for part in core.pmap(_many, groups):
        recs.extend(part)
    ctx.replayed = len(insts)
    ctx.sample(recs[len(recs) // 3])
    ctx.sample(recs[-1])
    mc.validate(ctx, recs, "C10")
    ctx.note(f"{len(insts)} exhaustive masks + {len(rnd)} random masks -> {len(recs)} records validated by Trace_Masks")
    ctx.assumptions = ["grid views are abstracted to cells through the mask's own pixel scales/origin (C02 decides those)",
                       "border is judged relative to the edge set the implementation reports (two-sided edge statement)"]


def replay(ctx, rp):
    rec = rp["record"]
    recs = [r for r in records_for((rec["h"], rec["w"], rec["u"]), KERNELS_FULL, ctx.seed) if r["api"] == rec["api"]
            and r.get("kh") == rec.get("kh") and r.get("kw") == rec.get("kw")]
    rej = mc.validate(ctx, recs, "C10-replay")
    print("replayed", len(recs), "records; rejected:", [(r["clauses"]) for r in rej])
    return ctx.finish()
