"""C15 -- preloaded and cached intermediate results never change inversion outputs.

Preloads.tla is a history machine: one shared Preloads object (any subset of the ten public slots that the inversions consult),
inversions of every make-up (formalism x numbers of mappers / linear function lists x own operated matrices), several successive
inversions, reads in any order, with the in-place F += H fast path, the defensive copy and the embedding of the secondary
(partial) quantities modelled explicitly (CopyOnUse / CopySecondary / EmbedMapperVector = FALSE yield TLC's counterexamples).
TLC explores it exhaustively (wide: every subset x make-up, short histories; deep: the slots with dynamics, long histories);
every (subset, make-up) instance the machine enumerates and simulated behaviours are replayed on real inversions of C04 lattice
instances (S->C): each slot is filled from a reference inversion on the identical dataset and linear objects, the way
Preloads.set_* does; every read is abstracted (value = fresh + k*H?) and validated by Trace_Preloads.tla together with the bytes
of every preloaded buffer (arrays, values of dictionaries, w-tilde tables) before/after the read (C->S)."""
import json

import numpy as np

from harness import core, exact
from harness.drivers import inv_common as ic

PRIMARY = ["w_tilde", "curvature_matrix", "regularization_matrix", "log_det_regularization_matrix_term", "operated_mapping_matrix"]
# secondary slot -> the attribute of the reference inversion that Preloads.set_curvature_matrix / set_linear_func_inversion_dicts copy
SEC_ATTR = {
    "data_vector_mapper": "_data_vector_mapper",
    "curvature_matrix_mapper_diag": "_curvature_matrix_mapper_diag",
    "mapper_operated_mapping_matrix_dict": "mapper_operated_mapping_matrix_dict",
    "linear_func_operated_mapping_matrix_dict": "linear_func_operated_mapping_matrix_dict",
    "data_linear_func_matrix_dict": "data_linear_func_matrix_dict",
}
SECONDARY = list(SEC_ATTR)
ALL = PRIMARY + SECONDARY
DEEP = ["curvature_matrix", "data_vector_mapper", "curvature_matrix_mapper_diag", "regularization_matrix", "data_linear_func_matrix_dict"]
QS = ["data_vector", "curvature_matrix", "regularization_matrix", "curvature_reg_matrix", "reconstruction",
      "mapped_reconstructed_data", "regularization_term", "log_det_curvature_reg_matrix_term",
      "log_det_regularization_matrix_term", "operated_mapping_matrix"]
# layouts (m = mapper, f / F = linear function list, o = function list with its own operated matrix) and the make-up they realise
LAYOUTS = ["m", "F", "mf", "fm", "mm", "om", "mo", "omf"]
FORMALISMS = ["mapping", "w_tilde"]


def makeup_of(layout, formalism):
    return {"f": formalism, "nm": layout.count("m"), "nf": len(layout) - layout.count("m"), "ov": "o" in layout}


def _mk_key(mk):
    return (int(mk["nm"]), int(mk["nf"]), bool(mk["ov"]))


LAYOUTS_OF = {}
for _l in LAYOUTS:
    LAYOUTS_OF.setdefault(_mk_key(makeup_of(_l, "mapping")), []).append(_l)

_B = lambda x: "TRUE" if x else "FALSE"
DEFS = ("MCSlots == {" + ", ".join('"%s"' % s for s in ALL) + "}\n"
        + "MCDeep == {" + ", ".join('"%s"' % s for s in DEEP) + "}\n"
        + "MCMakeUps == {" + ", ".join('[f |-> "%s", nm |-> %d, nf |-> %d, ov |-> %s]' % (f, k[0], k[1], _B(k[2]))
                                        for f in FORMALISMS for k in LAYOUTS_OF) + "}")
TRACE_ENV = {"JAVA_TOOL_OPTIONS": "-XX:ParallelGCThreads=2 -XX:CICompilerCount=2"}


def _cfg(kind, *, slots="MCSlots", copy_on_use=True, copy_secondary=True, embed=True, runs=3, reads=3, readset="Quantities"):
    c = ("CONSTANTS\n  Slots <- %s\n  MakeUps <- MCMakeUps\n  CopyOnUse = %s\n  CopySecondary = %s\n  EmbedMapperVector = %s\n"
         "  MaxRuns = %d\n  MaxReads = %d\n  ReadSet <- %s\n  DumpInstances = %s\n  KeepHistory = %s\n"
         % (slots, _B(copy_on_use), _B(copy_secondary), _B(embed), runs, reads, readset, _B(kind == "wide"), _B(kind == "sim")))
    if kind in ("wide", "deep"):
        c += ("SPECIFICATION Spec\nVIEW view\nINVARIANT TypeOK\nINVARIANT OutputsEqualFresh\nINVARIANT PreloadBuffersNeverChange\n"
              "INVARIANT SecondarySlotBuffersNeverChange\nINVARIANT CachedCurvatureIsCurvature\n")
    elif kind == "sim":
        c += "SPECIFICATION Spec\nINVARIANT OutputsEqualFresh\n"
    else:
        c += "SPECIFICATION TraceSpec\nPOSTCONDITION TraceAccepted\n"
    return c


def _instance(rng, layout):
    while True:
        inst = ic.random_instance(rng, H=7, W=7, interior=3, layouts=(layout.lower().replace("o", "f"),), kshapes=((1, 1), (3, 3), (1, 3), (3, 1)))
        for ch, o in zip(layout, inst["objs"]):
            if ch == "o":  # a function list that supplies its own operated mapping matrix
                o["override"] = True
                o["me"] = 0
        if layout == "F":  # a single REGULARISED function list and no mapper: still the in-place F += H path
            inst["objs"][0]["reg"] = True
            inst["objs"][0]["me"] = 0
            if len(inst["objs"][0]["M"][0]) < 2:
                continue
        # at least one regularised object, every mapper regularised with enough data to be well conditioned
        for o in inst["objs"]:
            if o["type"] == "mapper":
                o["reg"] = True
        if len(inst["u"]) >= 4:
            # configuration and memory layout of the preloaded arrays are part of the instance: the unconstrained solver next to
            # the production default (positive-only), C-ordered next to Fortran-ordered preloads (equal values either way)
            inst["solver"] = ["default", "unconstrained", "default", "unconstrained"][int(rng.integers(0, 4))]
            inst["memory"] = ["C", "F", "F", "C"][int(rng.integers(0, 4))]
            return inst


def _layout_of(inst):
    return "".join("m" if o["type"] == "mapper" else ("o" if o.get("override") else "f") for o in inst["objs"])


_SOLVED = ("reconstruction", "mapped_reconstructed_data", "regularization_term", "log_det_curvature_reg_matrix_term")
_COND = 1.0  # condition number of F + H of the behaviour being executed (set by _reference)


def _k_of(value, fresh, H, solved=False):
    """alpha: value = fresh + k*H ?  -> k, or -99.  'The same ... as computing afresh' is decided to numerical precision: 1e-9 of
    the largest entry, and for the quantities that go through the solve of (F + H) s = D that bound times cond(F + H) / 1e4 where
    the system is ill conditioned (two orders of summation of the same numbers legitimately differ by eps * cond there)"""
    v = np.asarray(value, dtype=float)
    f = np.asarray(fresh, dtype=float)
    if v.shape != f.shape:
        return -99
    tol = 1e-9 * max(1.0, float(np.abs(f).max()) if f.size else 1.0)
    if solved:
        tol *= max(1.0, _COND / 1e4)
    if np.allclose(v, f, rtol=0, atol=tol):
        return 0
    if H is not None and np.asarray(H).shape == v.shape:
        for k in (1, 2, 3, 4, 5, -1):
            if np.allclose(v, f + k * np.asarray(H), rtol=0, atol=tol * 10):
                return k
    return -99


def _fp(v):
    """fingerprint of the buffers behind one slot (array / dictionary of arrays / w-tilde tables / number)"""
    if isinstance(v, dict):
        return tuple([len(v)] + [exact.fp(np.asarray(x)) for x in v.values()])
    if hasattr(v, "curvature_preload"):
        return tuple(exact.fp(np.asarray(getattr(v, a))) for a in ("curvature_preload", "indexes", "lengths"))
    if isinstance(v, np.ndarray):
        return exact.fp(v)
    return repr(v)


def execute(beh, inst, formalism, reuse_objects, ref_formalism=None):
    """beh: list of events from the model (Preloads / NewInversion / Read q). Returns trace records."""
    import autoarray as aa

    ref_formalism = ref_formalism or formalism
    single = len(inst["objs"]) == 1
    mk = makeup_of(_layout_of(inst), formalism)
    ds, objs, skw = ic.build(inst)
    extra = {"use_positive_only_solver": False} if inst.get("solver") == "unconstrained" else {}
    st = lambda f=formalism: aa.SettingsInversion(use_w_tilde=(f == "w_tilde"), **extra, **skw)
    global _LAYOUT
    _LAYOUT = np.asfortranarray if inst.get("memory") == "F" else (lambda a: a)
    try:
        return _execute2(beh, inst, formalism, reuse_objects, ref_formalism, aa, single, mk, ds, objs, st)
    except _ReferenceRaised as e:
        if extra and "InversionException" in str(e):
            # the unconstrained solver refuses some well-posed systems (its degenerate-solution check, C05's business): such an
            # instance is replayed with the production default solver instead
            inst2 = dict(inst, solver="default")
            return execute(beh, inst2, formalism, reuse_objects, ref_formalism)
        # the inversion WITHOUT preloads raises on a well-posed instance of the family: a verdict (rejected read), not a
        # machinery failure
        return [{"a": "Preloads", "filled": [], "mk": mk, "ref": ref_formalism, "raised": False, "present": []}, {"a": "NewInversion"},
                {"a": "Read", "q": "reconstruction", "formalism": formalism, "single": single, "raised": True,
                 "err": f"inversion without preloads raised {e}", "k": 0, "pre_k": 0, "pre_ok": True, "sec_changed": [], "cached": [], "filled": []}]


_LAYOUT = lambda a: a  # memory layout given to the preloaded arrays of the behaviour being executed


class _ReferenceRaised(Exception):
    pass


def _reference(aa, ds, objs, st):
    ref = aa.Inversion(dataset=ds, linear_obj_list=objs, settings=st())
    fresh = {}
    fresh["operated_mapping_matrix"] = np.array(ref.operated_mapping_matrix)
    fresh["data_vector"] = np.array(ref.data_vector)
    fresh["curvature_matrix"] = np.array(ref.curvature_matrix).copy()
    fresh["regularization_matrix"] = np.array(ref.regularization_matrix).copy()
    Hm = fresh["regularization_matrix"]
    ref2 = aa.Inversion(dataset=ds, linear_obj_list=objs, settings=st())
    fresh["curvature_reg_matrix"] = np.array(ref2.curvature_reg_matrix).copy()
    global _COND
    try:
        _COND = float(np.linalg.cond(fresh["curvature_reg_matrix"]))
    except Exception:  # noqa: BLE001
        _COND = 1.0
    if not np.isfinite(_COND):
        _COND = 1e16
    for q in ("reconstruction", "mapped_reconstructed_data", "regularization_term", "log_det_curvature_reg_matrix_term",
              "log_det_regularization_matrix_term"):
        fresh[q] = np.array(getattr(ref2, q), dtype=float).copy()
    return fresh, Hm


def _execute2(beh, inst, formalism, reuse_objects, ref_formalism, aa, single, mk, ds, objs, st):
    try:
        fresh, Hm = _reference(aa, ds, objs, st)
    except Exception as e:  # noqa: BLE001
        raise _ReferenceRaised(f"{type(e).__name__}: {str(e)[:80]}")
    recs = []
    pre = None
    pre_fp, sec_fp = {}, {}
    filled = []
    for ev in beh:
        if ev["a"] == "Preloads":
            filled = sorted(ev["filled"]["__set__"] if isinstance(ev["filled"], dict) else ev["filled"])
            rec = {"a": "Preloads", "filled": filled, "mk": mk, "ref": ref_formalism, "raised": False, "present": []}
            recs.append(rec)
            kw = {}
            if "w_tilde" in filled:
                kw["w_tilde"] = ds.w_tilde
                kw["use_w_tilde"] = formalism == "w_tilde"
            if "curvature_matrix" in filled:
                kw["curvature_matrix"] = _LAYOUT(fresh["curvature_matrix"].copy())
            if "regularization_matrix" in filled:
                kw["regularization_matrix"] = _LAYOUT(fresh["regularization_matrix"].copy())
            if "log_det_regularization_matrix_term" in filled:
                kw["log_det_regularization_matrix_term"] = float(fresh["log_det_regularization_matrix_term"])
            if "operated_mapping_matrix" in filled:
                kw["operated_mapping_matrix"] = _LAYOUT(fresh["operated_mapping_matrix"].copy())
            if any(s in SEC_ATTR for s in filled):
                # the secondary slots hold the very objects a reference inversion on the identical dataset and linear objects
                # delivers (Preloads.set_curvature_matrix / set_linear_func_inversion_dicts assign them without copying)
                doing = "construction"
                try:
                    refinv = aa.Inversion(dataset=ds, linear_obj_list=objs, settings=st(ref_formalism))
                    for s in filled:
                        if s in SEC_ATTR:
                            doing = SEC_ATTR[s]
                            v = getattr(refinv, SEC_ATTR[s])
                            if v is not None:
                                kw[s] = v
                except Exception as e:  # noqa: BLE001
                    rec["raised"] = True
                    rec["err"] = f"{doing} of the reference inversion: {type(e).__name__}: {str(e)[:80]}"
                    return recs
            rec["present"] = sorted(s for s in filled if s in kw)
            pre = aa.Preloads(**kw)
            pre_fp = {k: _fp(v) for k, v in kw.items() if k in PRIMARY and k != "curvature_matrix"}
            sec_fp = {k: _fp(v) for k, v in kw.items() if k in SEC_ATTR}
            inv = None
        elif ev["a"] == "NewInversion":
            if reuse_objects:
                o2 = objs
            else:
                _, o2, _ = ic.build(inst)
            inv = aa.Inversion(dataset=ds, linear_obj_list=o2, settings=st(), preloads=pre)
            recs.append({"a": "NewInversion"})
        else:
            q = ev["q"]
            r = {"a": "Read", "q": q, "formalism": formalism, "single": single, "raised": False, "k": 0, "pre_k": 0, "pre_ok": True,
                 "sec_changed": [], "cached": [], "filled": filled}
            try:
                val = getattr(inv, q)
                r["k"] = _k_of(val, fresh[q], Hm if q in ("curvature_matrix", "curvature_reg_matrix") else None, solved=q in _SOLVED)
            except Exception as e:
                r["raised"] = True
                r["err"] = f"{type(e).__name__}: {str(e)[:80]}"
            if pre is not None:
                if getattr(pre, "curvature_matrix", None) is not None:
                    r["pre_k"] = _k_of(pre.curvature_matrix, fresh["curvature_matrix"], Hm)
                for k, f0 in pre_fp.items():
                    if _fp(getattr(pre, k)) != f0:
                        r["pre_ok"] = False
                for k, f0 in sec_fp.items():  # edge-triggered: every change of a secondary buffer is reported at the read that made it
                    f1 = _fp(getattr(pre, k))
                    if f1 != f0:
                        r["sec_changed"].append(k)
                        sec_fp[k] = f1
            r["cached"] = sorted(set(inv.__dict__) & {"curvature_matrix", "curvature_reg_matrix"})
            recs.append(r)
    return recs


def _exec_many(args):
    out = []
    for job in args:
        beh, inst, formalism, reuse, reff = job
        rr = execute(beh, inst, formalism, reuse, reff)
        for r in rr:
            r["_ctx"] = {"behaviour": beh, "instance": inst, "formalism": formalism, "reuse_objects": reuse, "ref_formalism": reff}
        out.append(rr)
    return out


def validate(ctx, episodes, tag):
    import concurrent.futures as cf

    recs = []
    ctxs = {}
    # interleave the episodes over the chunks (costly and cheap ones spread evenly); a chunk holds whole episodes
    nrec = sum(len(ep) for ep in episodes)
    nch = max(1, min(32, -(-nrec // 2500)))
    chunks = [[] for _ in range(nch)]
    for k, ep in enumerate(episodes):
        for r in ep:
            c = r.pop("_ctx", None)
            r["id"] = len(recs)
            ctxs[r["id"]] = c
            recs.append(r)
            chunks[k % nch].append(r)
    chunks = [ch for ch in chunks if ch]
    rejects, drift = [], 0

    def one(kc):
        k, ch = kc
        res, rej = ctx.validate_trace("Trace_Preloads", _cfg("trace", runs=99, reads=9999), ch, tag=f"{tag}_{k}", defs=DEFS, env=TRACE_ENV)
        return rej, len(res.by_kind("drift"))

    with cf.ThreadPoolExecutor(max_workers=min(16, len(chunks) or 1)) as ex:
        for rej, d in ex.map(one, list(enumerate(chunks))):
            rejects.extend(rej)
            drift += d
    for rj in rejects:
        rec = recs[rj["id"]]
        c = ctxs.get(rj["id"]) or {}
        if rec["a"] == "Preloads":
            what = f"filling {rec['filled']} from a {rec['ref']} reference inversion, make-up {rec['mk']}: {rec.get('err', '')} failed {rj['clauses']}"
        else:
            what = (f"read {rec['q']} ({rec['formalism']}, layout {_layout_of(c['instance']) if c else '?'}, filled={rec['filled']}): k={rec['k']} "
                    f"pre_k={rec['pre_k']} pre_ok={rec['pre_ok']} changed={rj.get('slot', rec['sec_changed'])}"
                    f"{' ' + rec.get('err', '') if rec['raised'] else ''} failed {rj['clauses']}")
        ctx.violation(rj["sig"], what, {"replay": c, "record": rec, "failed_clauses": rj["clauses"], "spec_wanted": rj.get("want")},
                      cls=",".join(rj["clauses"]))
    return rejects, drift


def _script(rng, n1, n2):
    """a behaviour of the machine chosen by the driver: two successive inversions, n1 / n2 reads in a drawn order"""
    a = [QS[int(k)] for k in rng.permutation(len(QS))[:n1]]
    b = [QS[int(k)] for k in rng.permutation(len(QS))[:n2]]
    return [{"a": "NewInversion"}] + [{"a": "Read", "q": q} for q in a] + [{"a": "NewInversion"}] + [{"a": "Read", "q": q} for q in b]


def run(ctx):
    import concurrent.futures as cf

    quick = ctx.quick
    rng = np.random.default_rng(ctx.seed)
    reads = 3 if quick else 5
    ctx.bounds = {"slots": ALL, "slots_of_the_deep_machine": DEEP, "make_ups": [dict(zip(("nm", "nf", "ov"), k)) for k in LAYOUTS_OF],
                  "wide_machine": "every subset of the 10 slots x 12 make-ups, 2 runs x 2 reads, one read per class of equal dynamics",
                  "deep_machine": f"every subset of the 5 slots with dynamics x 12 make-ups, 3 runs x {reads} reads, every quantity",
                  "simulated_behaviours": 120 if quick else 8000,
                  "layouts": ["m", "F (one regularised function list)", "mf", "fm", "mm", "om / mo / omf (o = function list with its own operated matrix)"],
                  "formalisms": FORMALISMS, "reference_formalism": "same as the inversions; the other one for every 4th behaviour"}
    # ---- TLC on the bounded machine: wide (all subsets x make-ups, dumps its instances) and deep (long histories) side by side
    with cf.ThreadPoolExecutor(max_workers=2) as ex:
        fw = ex.submit(ctx.tlc, "Preloads", _cfg("wide", runs=2, reads=2, readset="ClassRepresentatives"), defs=DEFS, tag="MC_Preloads_wide",
                       timeout=900, coverage=not quick)
        fd = ex.submit(ctx.tlc, "Preloads", _cfg("deep", slots="MCDeep", runs=3, reads=reads), defs=DEFS, tag="MC_Preloads_deep",
                       timeout=900, coverage=True, workers=4)
        wide, deep = fw.result(), fd.result()
    insts = wide.by_kind("inst")
    if len(insts) != 2 ** len(ALL) * 2 * len(LAYOUTS_OF):
        raise core.MachineryError(f"the machine dumped {len(insts)} instances, expected {2 ** len(ALL) * 2 * len(LAYOUTS_OF)}")
    ctx.exhaustive = True
    if not quick:
        for nm, kw in (("CopyOnUse", {"copy_on_use": False}), ("CopySecondary", {"copy_secondary": False}), ("EmbedMapperVector", {"embed": False})):
            bug = ctx.tlc("Preloads", _cfg("deep", slots="MCDeep", runs=2, reads=2, **kw), defs=DEFS, tag=f"MC_Preloads_no_{nm}", timeout=300,
                          allow_errors=True, workers=4)
            if not bug.errors:
                raise core.MachineryError(f"{nm}=FALSE gave no counterexample: the machine does not depend on the switch")
            ctx.note(f"{nm}=FALSE (design-level counterexample expected): {bug.errors[:1]}")
    jobs = []

    def add(beh, inst, formalism):
        j = len(jobs)
        other = FORMALISMS[1 - FORMALISMS.index(formalism)]
        jobs.append((beh, inst, formalism, bool((j // 2) % 2), other if j % 4 == 3 else formalism))

    # ---- behaviours simulated by TLC
    nsim = ctx.bounds["simulated_behaviours"]
    simdir = ctx.work / "sim"
    simdir.mkdir(exist_ok=True)
    ctx.tlc("Preloads", _cfg("sim", runs=3, reads=reads), defs=DEFS, tag="SIM", timeout=600,
            simulate=f"file={simdir}/b,num={nsim}", depth=3 * (reads + 1) + 1, seed=ctx.seed, workers=1)
    for f in sorted(simdir.iterdir()):
        states = core.parse_sim_file(f)
        if not states:
            continue
        beh = states[-1][1]["hist"]
        ctx.states += len(beh)
        ctx.transitions += len(beh) - 1
        mk = beh[0]["mk"]
        lay = LAYOUTS_OF[_mk_key(mk)]
        add(beh, _instance(rng, lay[len(jobs) % len(lay)]), mk["f"])
    nsimjobs = len(jobs)
    # ---- every (subset, make-up) instance the wide machine enumerated (quick: every subset in one make-up, rotating with the seed)
    insts.sort(key=lambda r: (sorted(r["filled"]), r["mk"]["f"], _mk_key(r["mk"])))
    nmk = 2 * len(LAYOUTS_OF)
    subsets_realised = set()
    for k, r in enumerate(insts):
        sub, j = divmod(k, nmk)
        if quick and (sub + ctx.seed) % nmk != j:
            continue
        lay = LAYOUTS_OF[_mk_key(r["mk"])]
        beh = [{"a": "Preloads", "filled": sorted(r["filled"])}] + (_script(rng, 6, 3) if quick else _script(rng, 10, 4))
        add(beh, _instance(rng, lay[(sub + len(jobs)) % len(lay)]), r["mk"]["f"])
        subsets_realised.add(tuple(sorted(r["filled"])))
    if len(subsets_realised) != 2 ** len(ALL):
        raise core.MachineryError(f"only {len(subsets_realised)} of the {2 ** len(ALL)} subsets of slots were realised")
    ctx.bounds["subset_instances_realised"] = len(jobs) - nsimjobs
    # ---- systematic family (behaviours of the same machine, chosen rather than drawn): every single slot, the primary / secondary /
    # full sets x every layout x both formalisms, two successive inversions reading every quantity (forward, then backward)
    slotsets = [[s_] for s_ in ALL] + [list(PRIMARY), list(SECONDARY), list(ALL)]
    nsys = 0
    for li, layout in enumerate(LAYOUTS):
        for si, ss in enumerate(slotsets):
            if quick and (li + si + ctx.seed) % 2:
                continue
            for formalism in FORMALISMS:
                beh = [{"a": "Preloads", "filled": ss}, {"a": "NewInversion"}] + [{"a": "Read", "q": q} for q in QS] \
                      + [{"a": "NewInversion"}] + [{"a": "Read", "q": q} for q in reversed(QS)]
                add(beh, _instance(rng, layout), formalism)
                nsys += 1
    ctx.bounds["systematic_behaviours"] = nsys
    groups = [jobs[k : k + 8] for k in range(0, len(jobs), 8)]
    episodes = []
    for part in core.pmap(_exec_many, groups):
        episodes.extend(part)
    ctx.replayed = len(jobs)
    ctx.sample({"behaviour_from_TLC": jobs[0][0], "layout": _layout_of(jobs[0][1]), "formalism": jobs[0][2]})
    shown = next((ep for ep in episodes[nsimjobs:] if len(set(ep[0]["filled"]) & set(SECONDARY)) >= 2 and ep[0]["mk"]["nf"] > 0), episodes[nsimjobs])
    ctx.sample({"enumerated_instance_as_recorded": [{k: v for k, v in r.items() if k != "_ctx"} for r in shown[:4]]})
    rejects, drift = validate(ctx, episodes, "C15")
    ctx.note(f"{len(jobs)} behaviours replayed on real inversions ({nsimjobs} simulated by TLC, {len(jobs) - nsimjobs - nsys} enumerated "
             f"(subset, make-up) instances, {nsys} systematic); model drift records (cache set / slot contents differ, informational): {drift}")
    ctx.assumptions = ["'the same as computing afresh' is decided to numerical precision: 1e-9 of the largest entry; for quantities behind the solve of (F+H)s = D the bound grows with cond(F+H)/1e4 on ill-conditioned systems (different memory layouts of equal preloads legitimately change the order of summation)",
                       "values are compared with a fresh inversion on identical inputs within 1e-9 relative; curvature-like values are "
                       "abstracted to the multiplicity k in fresh + k*H",
                       "every preloaded buffer (arrays, values of the dictionaries, w-tilde tables) is fingerprinted (SHA-256) before/after every read",
                       "every mapper is regularised (an unregularised mapper makes the mapper diagonal blocks of the two formalisms differ by the "
                       "diagonal constant, so slots filled by a reference of the other formalism would not be 'computed from identical inputs')",
                       "slots consumed outside the inversions (relocated_grid, mapper_list, image-plane mesh grids) are not part of the machine"]


def replay(ctx, rp):
    c = rp["replay"]
    rr = execute(c["behaviour"], c["instance"], c["formalism"], c["reuse_objects"], c.get("ref_formalism"))
    for r in rr:
        r["_ctx"] = c
    rej, drift = validate(ctx, [rr], "replay")
    print("replayed", len(rr), "events; rejected:", [(r["sig"], r["clauses"]) for r in rej])
    return ctx.finish()
