"""C15 -- preloaded and cached intermediate results never change inversion outputs.

Preloads.tla is a history machine: one shared Preloads object (any subset of the public slots), several successive inversions,
reads in any order, with the in-place F += H fast path and the defensive copy modelled explicitly (CopyOnUse = FALSE yields
TLC's counterexample: the second inversion reads F+H as F). TLC explores it exhaustively; simulated behaviours are replayed on
real inversions of C04 lattice instances in both formalisms and for several object mixes (S->C), every read is abstracted
(value = fresh + k*H?) and validated by Trace_Preloads.tla together with the bytes of the preloaded buffers (C->S)."""
import json

import numpy as np

from harness import core, exact
from harness.drivers import inv_common as ic

ALL = ["w_tilde", "curvature_matrix", "regularization_matrix", "log_det_regularization_matrix_term", "operated_mapping_matrix"]
QS = ["data_vector", "curvature_matrix", "regularization_matrix", "curvature_reg_matrix", "reconstruction",
      "mapped_reconstructed_data", "regularization_term", "log_det_curvature_reg_matrix_term",
      "log_det_regularization_matrix_term", "operated_mapping_matrix"]


def _cfg(kind, copy_on_use=True, single=True, runs=3, reads=3):
    q = lambda s: '"' + s + '"'
    c = ("CONSTANTS\n  Slots <- MCSlots\n  CopyOnUse = %s\n  MaxRuns = %d\n  MaxReads = %d\n  SingleReg = %s\n"
         % ("TRUE" if copy_on_use else "FALSE", runs, reads, "TRUE" if single else "FALSE"))
    if kind == "mc":
        c += "SPECIFICATION Spec\nVIEW view\nINVARIANT OutputsEqualFresh\nINVARIANT PreloadBuffersNeverChange\nINVARIANT CachedCurvatureIsCurvature\n"
    elif kind == "sim":
        c += "SPECIFICATION Spec\nINVARIANT OutputsEqualFresh\n"
    else:
        c += "SPECIFICATION TraceSpec\nPOSTCONDITION TraceAccepted\n"
    return c


DEFS = "MCSlots == {" + ", ".join('"%s"' % s for s in ALL) + "}"


def _instance(rng, layout):
    while True:
        inst = ic.random_instance(rng, H=7, W=7, interior=3, layouts=(layout.lower().replace("o", "f"),), kshapes=((1, 1), (3, 3), (1, 3), (3, 1)))
        for ch, o in zip(layout, inst["objs"]):
            if ch == "o":  # a function list that supplies its own operated mapping matrix
                o["override"] = True
                o["me"] = 0
        if layout == "F":  # a single REGULARISED function list and no mapper: still the in-place F += H path
            inst["objs"][0]["reg"] = True
            inst["objs"][0]["me"] = 0
            if len(inst["objs"][0]["M"][0]) < 2:
                continue
        # at least one regularised object, every mapper regularised with enough data to be well conditioned
        for o in inst["objs"]:
            if o["type"] == "mapper":
                o["reg"] = True
        if len(inst["u"]) >= 4:
            return inst


def _k_of(value, fresh, H):
    """alpha: value = fresh + k*H ?  -> k, or -99"""
    v = np.asarray(value, dtype=float)
    f = np.asarray(fresh, dtype=float)
    if v.shape != f.shape:
        return -99
    tol = 1e-9 * max(1.0, float(np.abs(f).max()) if f.size else 1.0)
    if np.allclose(v, f, rtol=0, atol=tol):
        return 0
    if H is not None and np.asarray(H).shape == v.shape:
        for k in (1, 2, 3, 4, 5, -1):
            if np.allclose(v, f + k * np.asarray(H), rtol=0, atol=tol * 10):
                return k
    return -99


def execute(beh, inst, formalism, reuse_objects):
    """beh: list of events from the model (Preloads / NewInversion / Read q). Returns trace records."""
    import autoarray as aa

    single = len(inst["objs"]) == 1
    ds, objs, skw = ic.build(inst)
    st = lambda: aa.SettingsInversion(use_w_tilde=(formalism == "w_tilde"), **skw)
    try:
        return _execute2(beh, inst, formalism, reuse_objects, aa, single, ds, objs, st)
    except _ReferenceRaised as e:
        # the inversion WITHOUT preloads raises on a well-posed instance of the family: a verdict (rejected read), not a
        # machinery failure
        return [{"a": "Preloads", "filled": []}, {"a": "NewInversion"},
                {"a": "Read", "q": "reconstruction", "formalism": formalism, "single": single, "raised": True,
                 "err": f"inversion without preloads raised {e}", "k": 0, "pre_k": 0, "pre_ok": True, "cached": [], "filled": []}]


class _ReferenceRaised(Exception):
    pass


def _reference(aa, ds, objs, st):
    ref = aa.Inversion(dataset=ds, linear_obj_list=objs, settings=st())
    fresh = {}
    fresh["operated_mapping_matrix"] = np.array(ref.operated_mapping_matrix)
    fresh["data_vector"] = np.array(ref.data_vector)
    fresh["curvature_matrix"] = np.array(ref.curvature_matrix).copy()
    fresh["regularization_matrix"] = np.array(ref.regularization_matrix).copy()
    Hm = fresh["regularization_matrix"]
    ref2 = aa.Inversion(dataset=ds, linear_obj_list=objs, settings=st())
    fresh["curvature_reg_matrix"] = np.array(ref2.curvature_reg_matrix).copy()
    for q in ("reconstruction", "mapped_reconstructed_data", "regularization_term", "log_det_curvature_reg_matrix_term",
              "log_det_regularization_matrix_term"):
        fresh[q] = np.array(getattr(ref2, q), dtype=float).copy()
    return fresh, Hm


def _execute2(beh, inst, formalism, reuse_objects, aa, single, ds, objs, st):
    try:
        fresh, Hm = _reference(aa, ds, objs, st)
    except Exception as e:  # noqa: BLE001
        raise _ReferenceRaised(f"{type(e).__name__}: {str(e)[:80]}")
    recs = []
    pre = None
    pre_fp = {}
    filled = []
    for ev in beh:
        if ev["a"] == "Preloads":
            filled = sorted(ev["filled"]["__set__"] if isinstance(ev["filled"], dict) else ev["filled"])
            kw = {}
            if "w_tilde" in filled:
                kw["w_tilde"] = ds.w_tilde
                kw["use_w_tilde"] = formalism == "w_tilde"
            if "curvature_matrix" in filled:
                kw["curvature_matrix"] = fresh["curvature_matrix"].copy()
            if "regularization_matrix" in filled:
                kw["regularization_matrix"] = fresh["regularization_matrix"].copy()
            if "log_det_regularization_matrix_term" in filled:
                kw["log_det_regularization_matrix_term"] = float(fresh["log_det_regularization_matrix_term"])
            if "operated_mapping_matrix" in filled:
                kw["operated_mapping_matrix"] = fresh["operated_mapping_matrix"].copy()
            pre = aa.Preloads(**kw)
            pre_fp = {k: exact.fp(v) for k, v in kw.items() if isinstance(v, np.ndarray)}
            recs.append({"a": "Preloads", "filled": filled})
            inv = None
        elif ev["a"] == "NewInversion":
            if reuse_objects:
                o2 = objs
            else:
                _, o2, _ = ic.build(inst)
            inv = aa.Inversion(dataset=ds, linear_obj_list=o2, settings=st(), preloads=pre)
            recs.append({"a": "NewInversion"})
        else:
            q = ev["q"]
            r = {"a": "Read", "q": q, "formalism": formalism, "single": single, "raised": False, "k": 0, "pre_k": 0, "pre_ok": True,
                 "cached": [], "filled": filled}
            try:
                val = getattr(inv, q)
                r["k"] = _k_of(val, fresh[q], Hm if q in ("curvature_matrix", "curvature_reg_matrix") else None)
                if q == "curvature_reg_matrix" and r["k"] != -99:
                    pass
            except Exception as e:
                r["raised"] = True
                r["err"] = f"{type(e).__name__}: {str(e)[:80]}"
            if pre is not None:
                if getattr(pre, "curvature_matrix", None) is not None:
                    r["pre_k"] = _k_of(pre.curvature_matrix, fresh["curvature_matrix"], Hm)
                for k, f0 in pre_fp.items():
                    if k != "curvature_matrix" and exact.fp(getattr(pre, k)) != f0:
                        r["pre_ok"] = False
            r["cached"] = sorted(set(inv.__dict__) & {"curvature_matrix", "curvature_reg_matrix"})
            recs.append(r)
    return recs


def _exec_many(args):
    out = []
    for beh, inst, formalism, reuse in args:
        rr = execute(beh, inst, formalism, reuse)
        for r in rr:
            r["_ctx"] = {"behaviour": beh, "instance": inst, "formalism": formalism, "reuse_objects": reuse}
        out.append(rr)
    return out


def validate(ctx, episodes, tag):
    import concurrent.futures as cf

    recs = []
    ctxs = {}
    # SingleReg is a constant of the specification: validate single-object and several-object episodes separately
    episodes = sorted(episodes, key=lambda ep: not any(r.get("single") for r in ep))
    for ep in episodes:
        for r in ep:
            c = r.pop("_ctx", None)
            r["id"] = len(recs)
            ctxs[r["id"]] = c
            recs.append(r)
    # chunk at episode boundaries (each starts with a Preloads record)
    chunks, cur, cur_single = [], [], None
    k = 0
    while k < len(recs):
        e = k + 1
        while e < len(recs) and recs[e]["a"] != "Preloads":
            e += 1
        ep_single = any(r.get("single") for r in recs[k:e])
        if cur and (len(cur) >= 2500 or ep_single != cur_single):
            chunks.append((cur_single, cur))
            cur = []
        cur_single = ep_single
        cur.extend(recs[k:e])
        k = e
    if cur:
        chunks.append((cur_single, cur))
    rejects, drift = [], 0

    def one(kc):
        k, (sgl, ch) = kc
        res, rej = ctx.validate_trace("Trace_Preloads", _cfg("trace", single=bool(sgl), runs=99, reads=9999), ch, tag=f"{tag}_{k}", defs=DEFS)
        return rej, len(res.by_kind("drift"))

    with cf.ThreadPoolExecutor(max_workers=min(16, len(chunks) or 1)) as ex:
        for rej, d in ex.map(one, list(enumerate(chunks))):
            rejects.extend(rej)
            drift += d
    for rj in rejects:
        rec = recs[rj["id"]]
        c = ctxs.get(rj["id"]) or {}
        ctx.violation(rj["sig"], f"read {rec['q']} ({rec['formalism']}, filled={rec['filled']}): k={rec['k']} pre_k={rec['pre_k']} "
                      f"pre_ok={rec['pre_ok']}{' ' + rec.get('err', '') if rec['raised'] else ''} failed {rj['clauses']}",
                      {"replay": c, "record": rec, "failed_clauses": rj["clauses"], "spec_wanted": rj.get("want")}, cls=",".join(rj["clauses"]))
    return rejects, drift


def run(ctx):
    quick = ctx.quick
    rng = np.random.default_rng(ctx.seed)
    ctx.bounds = {"slots": ALL, "runs": 3, "reads_per_run": 3 if quick else 5, "simulated_behaviours": 120 if quick else 8000,
                  "layouts": ["m", "F (one regularised function list)", "mf", "fm", "mm", "om / mo / omf (o = function list with its own operated matrix)"], "formalisms": ["mapping", "w_tilde"]}
    reads = ctx.bounds["reads_per_run"]
    for single in (True, False):
        ctx.tlc("Preloads", _cfg("mc", True, single, 3, reads), defs=DEFS, tag=f"MC_Preloads_{'single' if single else 'multi'}", timeout=900)
    ctx.exhaustive = True
    if not quick:
        bug = ctx.tlc("Preloads", _cfg("mc", False, True, 2, 2), defs=DEFS, tag="MC_Preloads_nocopy", timeout=300, allow_errors=True)
        ctx.note(f"CopyOnUse=FALSE (design-level counterexample expected): {bug.errors[:1]}")
    jobs = []
    nsim = ctx.bounds["simulated_behaviours"]
    for single in (True, False):
        simdir = ctx.work / f"sim_{single}"
        simdir.mkdir(exist_ok=True)
        ctx.tlc("Preloads", _cfg("sim", True, single, 3, reads), defs=DEFS, tag=f"SIM_{single}", timeout=600,
                simulate=f"file={simdir}/b,num={nsim // 2}", depth=3 * (reads + 1) + 1, seed=ctx.seed, workers=1)
        for f in sorted(simdir.iterdir()):
            states = core.parse_sim_file(f)
            if not states:
                continue
            beh = states[-1][1]["hist"]
            ctx.states += len(beh)
            ctx.transitions += len(beh) - 1
            layout = ["m", "F"][len(jobs) % 2] if single else ["mf", "fm", "mm", "om", "mo", "omf"][len(jobs) % 6]
            inst = _instance(rng, layout)
            jobs.append((beh, inst, ["mapping", "w_tilde"][len(jobs) % 2], bool((len(jobs) // 2) % 2)))
    # systematic family (behaviours of the same machine, chosen rather than drawn): every single slot and the full set x every
    # layout x both formalisms, two successive inversions reading every quantity (forward, then backward)
    sys_layouts = ["m", "F", "mf", "fm", "mm", "om", "mo", "omf"]
    slotsets = [[s_] for s_ in ALL] + [list(ALL)]
    nsys = 0
    for li, layout in enumerate(sys_layouts):
        for si, ss in enumerate(slotsets):
            if quick and (li + si) % 2:
                continue
            for formalism in ("mapping", "w_tilde"):
                beh = [{"a": "Preloads", "filled": ss}, {"a": "NewInversion"}] + [{"a": "Read", "q": q} for q in QS] \
                      + [{"a": "NewInversion"}] + [{"a": "Read", "q": q} for q in reversed(QS)]
                jobs.append((beh, _instance(rng, layout), formalism, bool(nsys % 2)))
                nsys += 1
    ctx.bounds["systematic_behaviours"] = nsys
    groups = [jobs[k : k + 4] for k in range(0, len(jobs), 4)]
    episodes = []
    for part in core.pmap(_exec_many, groups):
        episodes.extend(part)
    ctx.replayed = len(jobs)
    ctx.sample({"behaviour_from_TLC": jobs[0][0], "layout": [o["type"] for o in jobs[0][1]["objs"]], "formalism": jobs[0][2]})
    ctx.sample({"recorded_reads": [{k: v for k, v in r.items() if k != "_ctx"} for r in episodes[0][:4]]})
    rejects, drift = validate(ctx, episodes, "C15")
    ctx.note(f"{len(jobs)} behaviours replayed on real inversions; model drift records (cache set differs, informational): {drift}")
    ctx.assumptions = ["values are compared with a fresh inversion on identical inputs within 1e-9 relative; curvature-like values are "
                       "abstracted to the multiplicity k in fresh + k*H", "preloaded arrays are fingerprinted (SHA-256) before/after every read"]


def replay(ctx, rp):
    c = rp["replay"]
    rr = execute(c["behaviour"], c["instance"], c["formalism"], c["reuse_objects"])
    for r in rr:
        r["_ctx"] = c
    rej, drift = validate(ctx, [rr], "replay")
    print("replayed", len(rr), "events; rejected:", [(r["sig"], r["clauses"]) for r in rej])
    return ctx.finish()
