"""C06 -- mapping matrices conserve flux and encode the claimed interpolation; the unique-mapping encoding stands for
the same matrix; neighbour lists are the mesh adjacency.

Mapper.tla, machine Spec (rectangular): Init takes (a) every table of source-plane positions on a small lattice for the
  given sub-size maps and mesh shapes (exhaustive), (b) a seeded family of larger instances (masks <= 3x3 in a 5x5 frame,
  per-pixel sub sizes 1..3, meshes 3x3/3x4/4x3/5x3, positions = smooth distortion + jitter, clusters on the far edges,
  repeated cells), (c) every mesh shape 3..6 x 3..6 for the neighbour graph.  TLC checks the design-level theorems
  (cells cover the bounding box, rows non-negative and summing to one, accumulated matrix = defined entry, unique mapping
  encoder = dense matrix without repeated source pixels, corner/edge/centre neighbour table = 4-connectivity, symmetric).
Mapper.tla, machine DelSpec (Delaunay): every vertex set (no three collinear) of 4 (thorough: 5) lattice points with EVERY set
  of candidate simplices; TLC checks that the validity predicates used on recorded executions accept exactly the Delaunay
  triangulation in general position, only empty-circle triangles otherwise, that an accepted answer tiles the hull, that
  barycentric weights sum to one exactly on the closed triangle and do not depend on the containing triangle taken.
S->C: every instance enumerated by Spec is built with the real API (Mask2D, OverSamplerUniform with per-pixel sub sizes,
  Mesh2DRectangular.overlay_grid / mesh.Rectangular.mapper_grids_from, MapperRectangular / the Mapper factory); the cells and
  the matrix predicted by the machine are compared with pix_sub_weights and mapping_matrix.
C->S: one record per mapper (pix_sub_weights, mapping_matrix, unique_mappings, neighbors, simplices) is judged by
  Trace_Mapper.tla: the replayed instances, seeded larger rectangular instances (masks <= 4x4, meshes up to 6x6, sub 1..4) and
  seeded Delaunay instances (6..14 lattice vertices in general position, 20..60 sub-pixel positions inside and outside the
  hull; and hub meshes -- a centre ringed by 13..20 lattice points, so that neighbour lists of high degree are judged) for which
  the specification states what a valid answer is (any correct triangulation library is accepted).
Near edges: a position may carry an exact dyadic offset (pos + fine/2^16): DelSpec probes both sides of every simplex edge at 2^-8,
  2^-12, 2^-16 of the integer normal, edge midpoints and the surroundings of every vertex, dumps every accepted answer in general
  position with the weights it wants for its probes, and the driver replays them into the real Delaunay mapper (S->C); the seeded
  Delaunay / hub meshes carry 2..6 such positions each.  Inside/outside is the sign of integer determinants: no tolerance.
Scale: an instance has a list `scales` of exponents k; it is realised at tick length tau * 2^k for each of them (mask pixel scale,
  data grid and mesh vertices all multiplied by 2^k, which is exact): enumerated rectangular instances at 2, replayed DelSpec answers at
  3, seeded Delaunay meshes at 2 scales in rotation; identical abstractions share one record (field `scales`), different ones are judged
  separately.  Nothing the specification wants takes the scale as an argument; CellsScaleAndShiftFree / DelaunayScaleAndShiftFree are the
  design theorems.  Rectangular instances are also translated by 4096 ticks.
History: every mapper carries a non-constant positive adapt image and, for a share of the instances, pixel_signals_from(signal_scale)
  is called once or twice before / between the four judged reads (action PixelSignals of the machine: nothing judged changes)."""
import json
import math
import zlib

import numpy as np

from harness import core

OFF = -2
TAUS = [2.0**-6, 2.0**-3, 0.25, 1.0, 0.05, 0.1, 1.0 / 3.0, 0.7, 4.0]
DEL_TAUS = [2.0**-4, 0.25, 0.5, 1.0, 2.0, 0.05, 0.1, 1.0 / 3.0]
# SCALE: every instance is realised at tick length tau * 2^k for exponents k taken in rotation from these lists (multiplying every
# coordinate by a power of two is exact, so nothing the mapper publishes may change).  Delaunay: the unchanged tree (scipy/qhull
# included) is correct for 2^-500 .. 2^+200 and over/underflows beyond; rectangular: overlay_grid's absolute 1e-8 buffer limits
# the tick to about 2^-19 .. 2^+17 (see the assumptions), so tau * 2^k stays inside 2^-16 .. 2^+12.
DEL_SCALES = [-100, -60, -24, -12, 0, 8, 20, 60, 100]
RECT_SCALES = [-10, -8, -5, 0, 4, 8, 10]
FINE_E = 65536  # positions may carry an exact dyadic offset fine/FINE_E (a hair off an edge: 2^-8 .. 2^-16 of an integer normal)
JIT = 0.02  # jitter (in ticks) of rectangular positions: < 1/(2*6) - margin, the cell of a point is constant on its open cell
MESHES = [(3, 3), (3, 4), (4, 3), (5, 3)]
BIG_MESHES = [(3, 3), (3, 5), (4, 6), (6, 4), (6, 6), (5, 3), (3, 6), (6, 3)]

MC_CONSTS = """CONSTANTS
  ExhFamilies <- MCExhFamilies
  ExhL = %d
  NeighbourShapes <- MCNeighbourShapes
  DelSizes <- MCDelSizes
  DelL = %d
  DelE = 65536
"""
MC_CFG = MC_CONSTS + """SPECIFICATION Spec
INVARIANT InputsOffBoundaries
INVARIANT CellsCoverTheBox
INVARIANT CellsScaleAndShiftFree
INVARIANT RowsNonNegative
INVARIANT RowsSumToOne
INVARIANT EntryFormula
INVARIANT UniqueEncodesDense
INVARIANT NeighboursSymmetric
INVARIANT RectNeighboursAre4Connectivity
"""
MC_DEL_CFG = MC_CONSTS + """SPECIFICATION DelSpec
INVARIANT ValidityCharacterisesDelaunay
INVARIANT ValidityIsSound
INVARIANT SomeAnswerIsValid
INVARIANT ValidTilesExactly
INVARIANT BarycentricWellDefined
INVARIANT ProbesSeparateTheSides
INVARIANT DelaunayScaleAndShiftFree
INVARIANT SimplexAdjacencySymmetric
"""
TRACE_CFG = """CONSTANTS
  ExhFamilies = {}
  ExhL = 0
  NeighbourShapes = {}
  DelSizes = {}
  DelL = 0
  DelE = 1
SPECIFICATION TraceSpec
POSTCONDITION TraceAccepted
"""


def _tla_seq(xs):
    return "<<" + ", ".join(str(int(x)) for x in xs) + ">>"


def _defs(families, nbr_shapes, del_sizes):
    return (
        "MCExhFamilies == {" + ", ".join(f"<<{_tla_seq(s)}, {_tla_seq(m)}>>" for s, m in families) + "}\n"
        "MCNeighbourShapes == {" + ", ".join(_tla_seq(s) for s in nbr_shapes) + "}\n"
        "MCDelSizes == {" + ", ".join(str(s) for s in del_sizes) + "}\n"
    )


# ================================================================================================================
# exact lattice geometry used by the GENERATORS only (never to judge an output)
# ================================================================================================================
def _orient(a, b, c):
    return (b[0] - a[0]) * (c[1] - a[1]) - (b[1] - a[1]) * (c[0] - a[0])


def _incircle(a, b, c, d):
    ay, ax, by, bx, cy, cx = a[0] - d[0], a[1] - d[1], b[0] - d[0], b[1] - d[1], c[0] - d[0], c[1] - d[1]
    return ((ay * ay + ax * ax) * (by * cx - bx * cy) - (by * by + bx * bx) * (ay * cx - ax * cy)
            + (cy * cy + cx * cx) * (ay * bx - ax * by))


def _general_position_with(V, p):
    n = len(V)
    for i in range(n):
        if V[i] == p:
            return False
        for j in range(i + 1, n):
            if _orient(V[i], V[j], p) == 0:
                return False
            for k in range(j + 1, n):
                if _incircle(V[i], V[j], V[k], p) == 0:
                    return False
    return True


def _brute_delaunay(V):
    n = len(V)
    T = []
    for i in range(n):
        for j in range(i + 1, n):
            for k in range(j + 1, n):
                o = _orient(V[i], V[j], V[k])
                if o == 0:
                    continue
                if all(_incircle(V[i], V[j], V[k], V[m]) * o <= 0 for m in range(n) if m not in (i, j, k)):
                    T.append((i, j, k))
    return T


def _in_closed_tri(V, t, p):
    a, b, c = V[t[0]], V[t[1]], V[t[2]]
    s = 1 if _orient(a, b, c) > 0 else -1
    return _orient(a, b, p) * s >= 0 and _orient(b, c, p) * s >= 0 and _orient(c, a, p) * s >= 0


def _hull_edges(V):
    n = len(V)
    out = []
    for i in range(n):
        for j in range(i + 1, n):
            sg = [np.sign(_orient(V[i], V[j], V[m])) for m in range(n) if m not in (i, j)]
            if all(s >= 0 for s in sg) or all(s <= 0 for s in sg):
                out.append((i, j))
    return out


def _orient_q(a, b, q):
    """E times twice the signed area of (a, b, q) for a query point q = (y, x, dy, dx, E) = (y + dy/E, x + dx/E)"""
    return _orient(a, b, (q[0], q[1])) * q[4] + ((b[0] - a[0]) * q[3] - (b[1] - a[1]) * q[2])


def _draw_probes(rng, V, T, hull, m):
    """m positions a hair away from simplex edges (both sides, hull edges included) and from vertices: an edge point plus
    k * 2^-e times the integer normal, e in {8, 12, 16}; never exactly on the line of a hull edge.  -> [(pos, fine)]"""
    E = FINE_E
    edges = sorted({tuple(sorted((t[i], t[j]))) for t in T for i, j in ((0, 1), (1, 2), (0, 2))})
    hull_set = {tuple(sorted(h)) for h in hull}
    out = []
    for _ in range(20 * m):
        if len(out) == m:
            break
        g = int(rng.choice([1, 16, 256])) * int(rng.integers(1, 4))  # k * 2^(16-e)
        if rng.random() < 0.75:
            i, j = edges[int(rng.integers(0, len(edges)))]
            a, b = V[i], V[j]
            quarter = int(rng.integers(1, 4))
            side = int(rng.choice([-1, 1]))
            if (i, j) not in hull_set and rng.random() < 0.1:
                side = 0  # exactly on an interior edge: either simplex, same weights
            fine = ((b[0] - a[0]) * (E // 4) * quarter - side * g * (b[1] - a[1]), (b[1] - a[1]) * (E // 4) * quarter + side * g * (b[0] - a[0]))
        else:
            a = V[int(rng.integers(0, len(V)))]
            fine = (int(rng.integers(-1, 2)) * g, int(rng.integers(-1, 2)) * g)
            if fine == (0, 0):
                continue
        q = (a[0], a[1], fine[0], fine[1], E)
        if any(_orient_q(V[i], V[j], q) == 0 for i, j in hull):
            continue
        out.append(([int(a[0]), int(a[1])], [int(fine[0]), int(fine[1])]))
    return out


def _on_segment(a, b, p):
    return _orient(a, b, p) == 0 and min(a[0], b[0]) <= p[0] <= max(a[0], b[0]) and min(a[1], b[1]) <= p[1] <= max(a[1], b[1])


# ================================================================================================================
# instance generation.  An instance is a JSON-able dict:
#   kind, id, sub [per pixel], pos [[y,x] ticks per sub-pixel], my, mx | V [[y,x]], mask {h,w,u}, tau, origin [oy,ox] (ticks),
#   jseed (jitter seed, rectangular only), via ("direct" | "mesh"), order (permutation of the four reads)
# ================================================================================================================
def _rect_ok(pos, my, mx):
    ys = [p[0] for p in pos]
    xs = [p[1] for p in pos]
    y0, y1, x0, x1 = min(ys), max(ys), min(xs), max(xs)
    if y1 <= y0 or x1 <= x0:
        return False
    for y, x in pos:
        if y not in (y0, y1) and ((y1 - y) * my) % (y1 - y0) == 0:
            return False
        if x not in (x0, x1) and ((x - x0) * mx) % (x1 - x0) == 0:
            return False
    return True


def _repair_rect(rng, pos, my, mx):
    """move points that sit exactly on an interior cell boundary (their cell is not defined) to a neighbouring tick"""
    pos = [list(p) for p in pos]
    for _ in range(200):
        ys = [p[0] for p in pos]
        xs = [p[1] for p in pos]
        y0, y1, x0, x1 = min(ys), max(ys), min(xs), max(xs)
        if y1 == y0:
            pos[int(rng.integers(0, len(pos)))][0] += int(rng.integers(1, 4))
            continue
        if x1 == x0:
            pos[int(rng.integers(0, len(pos)))][1] += int(rng.integers(1, 4))
            continue
        bad = False
        for p in pos:
            if p[0] not in (y0, y1) and ((y1 - p[0]) * my) % (y1 - y0) == 0:
                p[0] += 1 if p[0] + 1 <= y1 else -1
                bad = True
            if p[1] not in (x0, x1) and ((p[1] - x0) * mx) % (x1 - x0) == 0:
                p[1] += 1 if p[1] + 1 <= x1 else -1
                bad = True
        if not bad:
            return pos
    return None


def _sub_pixel_plane(cells, sub):
    """image-plane coordinates (pixel units) of every sub-pixel, pixel after pixel, row-major inside a pixel"""
    out = []
    for (r, c), s in zip(cells, sub):
        for a in range(s):
            for b in range(s):
                out.append((-(r + (a + 0.5) / s), c + (b + 0.5) / s))
    return np.array(out)


def _random_mask(rng, frame, block):
    h = w = frame
    bh, bw = int(rng.integers(1, block + 1)), int(rng.integers(1, block + 1))
    r0, c0 = int(rng.integers(0, h - bh + 1)), int(rng.integers(0, w - bw + 1))
    cells = [(r, c) for r in range(r0, r0 + bh) for c in range(c0, c0 + bw) if rng.random() < 0.65]
    if not cells:
        cells = [(r0 + int(rng.integers(0, bh)), c0 + int(rng.integers(0, bw)))]
    return {"h": h, "w": w, "u": [r * w + c for r, c in cells]}, cells


def _mask_for(n, key, frame=5):
    """a deterministic mask with n unmasked pixels (the mapper only sees their number and order)"""
    rng = np.random.default_rng([key % (2**31), n, 77])
    idx = sorted(int(x) for x in rng.choice(frame * frame, size=n, replace=False))
    return {"h": frame, "w": frame, "u": idx}


def _draw_signals(rng, share):
    """history: [[slot, signal_scale]...] -- pixel_signals_from is called before the judged read number `slot` (0 = before all)"""
    if rng.random() >= share:
        return []
    out = [[0 if rng.random() < 0.6 else int(rng.integers(0, 4)), float(rng.choice([0.5, 1.0, 2.0]))]]
    if rng.random() < 0.4:
        out.append([int(rng.integers(0, 4)), float(rng.choice([0.0, 1.0, 3.0]))])
    return out


def _far_origin(origin, tau, scales, far):
    """translation by a large exact offset (in ticks) when the coordinates then stay below 2^21, where overlay_grid's 1e-8 buffer is
    still far above the floating-point resolution"""
    if far and tau * 2.0 ** max(scales) <= 256.0:
        return [4096.0, -2048.5]
    return origin


def gen_rect(rng, idx, big=False):
    for _ in range(100):
        mask, cells = _random_mask(rng, 7 if big else 5, 4 if big else 3)
        n = len(cells)
        top = 4 if big else 3
        if rng.random() < 0.4:
            sub = [int(rng.integers(1, top + 1))] * n
        else:
            sub = [int(x) for x in rng.integers(1, top + 1, size=n)]
        meshes = BIG_MESHES if big else MESHES
        my, mx = meshes[int(rng.integers(0, len(meshes)))]
        ns = sum(s * s for s in sub)
        if ns < 2:
            continue
        style = int(rng.integers(0, 5))
        ext = int(rng.integers(3, 41))
        if style == 0:  # smooth distortion of the image plane plus jitter
            g = _sub_pixel_plane(cells, sub)
            A = rng.normal(size=(2, 2)) + np.eye(2) * rng.choice([-1.5, 1.5])
            q = rng.normal(size=(2, 2)) * 0.15
            src = g @ A.T + (g**2) @ q.T
            src = (src - src.min(0)) / np.maximum(src.max(0) - src.min(0), 1e-9) * ext
            pos = np.rint(src + rng.integers(-1, 2, size=src.shape) * (rng.random() < 0.5)).astype(int).tolist()
        elif style == 1:  # anything
            pos = rng.integers(0, ext + 1, size=(ns, 2)).astype(int).tolist()
        elif style == 2:  # crowd on the far (bottom / right) edges and corners of the mesh
            pos = []
            for _k in range(ns):
                y = 0 if rng.random() < 0.6 else int(rng.integers(0, ext + 1))
                x = ext if rng.random() < 0.6 else int(rng.integers(0, ext + 1))
                if rng.random() < 0.3:
                    y, x = int(rng.integers(0, max(ext // (2 * my), 1) + 1)), ext - int(rng.integers(0, max(ext // (2 * mx), 1) + 1))
                pos.append([y, x])
            pos[int(rng.integers(0, ns))] = [ext, 0]
        elif style == 3:  # few distinct source cells: repeated source pixels inside a row
            pts = rng.integers(0, ext + 1, size=(int(rng.integers(2, 5)), 2))
            pos = pts[rng.integers(0, len(pts), size=ns)].astype(int).tolist()
        else:  # elongated boxes (one extent much smaller than the other)
            e2 = int(rng.integers(1, 4))
            pos = np.stack([rng.integers(0, ext + 1, size=ns), rng.integers(0, e2 + 1, size=ns)], axis=1)
            if rng.random() < 0.5:
                pos = pos[:, ::-1]
            pos = pos.astype(int).tolist()
        shift = [int(rng.integers(-20, 21)), int(rng.integers(-20, 21))]
        pos = [[p[0] + shift[0], p[1] + shift[1]] for p in pos]
        pos = _repair_rect(rng, pos, my, mx)
        if pos is None or not _rect_ok(pos, my, mx):
            continue
        return {"kind": "rect", "id": idx, "sub": sub, "pos": pos, "my": my, "mx": mx, "mask": mask,
                "tau": float(TAUS[int(rng.integers(0, len(TAUS)))]), "origin": [float(rng.choice([0.0, 0.0, -3.25, 17.3])), float(rng.choice([0.0, 1.5, -0.7]))],
                "jseed": int(rng.integers(0, 2**31 - 1)), "via": "mesh" if rng.random() < 0.5 else "direct",
                "order": [int(x) for x in rng.permutation(4)], "scalar_sub": bool(len(set(sub)) == 1 and rng.random() < 0.5),
                "signals": _draw_signals(rng, 0.4), "scales": [int(rng.choice(RECT_SCALES))], "far": bool(rng.random() < 0.3)}
    raise core.MachineryError("could not draw a rectangular instance")


def complete_dumped(inp, key):
    """gamma for an instance enumerated by TLC: add the concrete choices the abstract instance leaves open"""
    n = len(inp["sub"])
    return {"kind": "rect", "id": int(inp.get("id", 0)), "sub": [int(s) for s in inp["sub"]], "pos": [[int(p[0]), int(p[1])] for p in inp["pos"]],
            "my": int(inp["my"]), "mx": int(inp["mx"]), "mask": _mask_for(n, key), "tau": float(TAUS[key % len(TAUS)]),
            "origin": [[0.0, 0.0], [-3.25, 1.5], [17.3, -0.7]][key % 3], "jseed": key % (2**31 - 1), "via": "mesh" if key % 2 else "direct",
            "order": [int(x) for x in np.random.default_rng(key % 97).permutation(4)], "scalar_sub": bool(len(set(inp["sub"])) == 1 and key % 4 < 2),
            "signals": _draw_signals(np.random.default_rng(key), 0.3),
            "scales": [RECT_SCALES[key % 7], RECT_SCALES[(key % 7 + 1 + (key // 7) % 6) % 7]], "far": key % 5 == 0}


def _draw_plain_vertices(rng):
    L = int(rng.integers(8, 13))
    P = int(rng.integers(6, 15))
    V = []
    tries = 0
    while len(V) < P and tries < 4000:
        tries += 1
        p = (int(rng.integers(0, L + 1)), int(rng.integers(0, L + 1)))
        if _general_position_with(V, p):
            V.append(p)
    return (V if len(V) == P else None), L


def _draw_fan_vertices(rng):
    """a hub: a centre ringed by 13..20 lattice points (general position), plus a few other points; the centre is a Delaunay
    neighbour of (nearly) every ring point, so the mesh has a vertex of high degree"""
    L = 40
    K = int(rng.integers(13, 21))
    c = (20 + int(rng.integers(-2, 3)), 20 + int(rng.integers(-2, 3)))
    R = float(rng.uniform(11.0, 16.0))
    th0 = float(rng.uniform(0, 2 * math.pi))
    V = [c]
    for k in range(K):
        for _try in range(200):
            th = th0 + 2 * math.pi * (k + float(rng.uniform(-0.2, 0.2))) / K
            r = R + float(rng.uniform(-1.2, 1.2))
            p = (int(round(c[0] + r * math.sin(th))), int(round(c[1] + r * math.cos(th))))
            if 0 <= p[0] <= L and 0 <= p[1] <= L and _general_position_with(V, p):
                V.append(p)
                break
        else:
            return None, L
    for _extra in range(int(rng.integers(0, 5))):
        for _try in range(200):
            p = (int(rng.integers(0, L + 1)), int(rng.integers(0, L + 1)))
            if _general_position_with(V, p):
                V.append(p)
                break
    if rng.random() < 0.5:  # the hub need not be vertex 0
        j = int(rng.integers(0, len(V)))
        V[0], V[j] = V[j], V[0]
    return V, L


def max_degree(V, T):
    deg = [set() for _ in V]
    for t in T:
        for a in t:
            deg[a].update(x for x in t if x != a)
    return max(len(d) for d in deg)


def gen_delaunay(rng, idx, fan=False):
    for _ in range(200):
        V, L = _draw_fan_vertices(rng) if fan else _draw_plain_vertices(rng)
        if V is None:
            continue
        T = _brute_delaunay(V)
        if fan and max_degree(V, T) < 13:
            continue
        hull = _hull_edges(V)

        def area_of_containing(p):
            for t in T:
                if _in_closed_tri(V, t, p):
                    return abs(_orient(V[t[0]], V[t[1]], V[t[2]]))
            return None

        def on_hull_boundary(p):
            return any(_on_segment(V[i], V[j], p) for i, j in hull)

        n = int(rng.integers(3, 10))
        sub, pos = [], []
        total = 0
        for _pix in range(n):
            for _try in range(60):
                s = int(rng.choice([1, 2, 2, 3]))
                if total + s * s > 60:
                    s = 1
                if rng.random() < 0.65:  # near a random point of a random Delaunay triangle (mostly inside the hull)
                    t = T[int(rng.integers(0, len(T)))]
                    lam = rng.dirichlet([1.0, 1.0, 1.0])
                    cy, cx = (int(round(sum(l * V[k][c] for l, k in zip(lam, t)))) for c in (0, 1))
                else:
                    cy, cx = int(rng.integers(-3, L + 4)), int(rng.integers(-3, L + 4))
                g = int(rng.choice([1, 1, 2]))
                pts = []
                for a in range(s):
                    for b in range(s):
                        pts.append((cy - g * a + int(rng.integers(-1, 2)) * (g > 1), cx + g * b + int(rng.integers(-1, 2)) * (g > 1)))
                if any(on_hull_boundary(p) for p in pts):
                    continue
                lcm = 1
                for p in pts:
                    a2 = area_of_containing(p)
                    if a2:
                        lcm = lcm * a2 // math.gcd(lcm, a2)
                if lcm * s * s > 2**20:
                    continue
                sub.append(s)
                pos.extend([list(p) for p in pts])
                total += s * s
                break
        if not (20 <= total <= 60) or len(sub) < 1:
            continue
        inside = sum(1 for p in pos if area_of_containing(tuple(p)) is not None)
        if inside == 0 or inside == len(pos):
            if rng.random() < 0.8:
                continue
        # pixels (sub size 1) whose position is a hair away from an edge or a vertex of the mesh
        fine = [[0, 0] for _ in pos]
        for ppos, pfine in _draw_probes(rng, V, T, hull, int(rng.integers(2, 7))):
            at = int(rng.integers(0, len(sub) + 1))  # anywhere in the pixel order
            start = sum(x * x for x in sub[:at])
            sub.insert(at, 1)
            pos.insert(start, ppos)
            fine.insert(start, pfine)
        oy, ox = (0, 0) if rng.random() < 0.5 else (int(rng.integers(-8, 9)), int(rng.integers(-8, 9)))
        return {"kind": "delaunay", "id": idx, "sub": sub, "pos": pos, "V": [list(v) for v in V], "mask": _mask_for(len(sub), idx * 7919 + L),
                "tau": float(DEL_TAUS[int(rng.integers(0, len(DEL_TAUS)))]), "origin": [float(oy), float(ox)], "jseed": 0,
                "via": "mesh" if rng.random() < 0.5 else "direct", "order": [int(x) for x in rng.permutation(4)],
                "scalar_sub": bool(len(set(sub)) == 1 and rng.random() < 0.5), "signals": _draw_signals(rng, 0.6),
                "fine": fine, "E": FINE_E, "scales": sorted(int(x) for x in rng.choice(DEL_SCALES, size=2, replace=False))}
    raise core.MachineryError("could not draw a Delaunay instance")


def inst_from_del_dump(d, idx):
    """gamma for an accepted (vertex set, simplices) state of DelSpec: one pixel (sub size 1) per probe"""
    key = zlib.crc32(json.dumps([d["V"], idx]).encode()) % (2**31)
    want = d["want"]
    n = len(want)
    return {"kind": "delaunay", "id": idx, "sub": [1] * n, "pos": [[int(w["q"][0]), int(w["q"][1])] for w in want],
            "fine": [[int(w["q"][2]), int(w["q"][3])] for w in want], "E": FINE_E, "V": [[int(v[0]), int(v[1])] for v in d["V"]],
            "mask": _mask_for(n, key, frame=11), "tau": float(DEL_TAUS[key % len(DEL_TAUS)]), "origin": [[0.0, 0.0], [-3.0, 5.0]][key % 2], "jseed": 0,
            "via": "mesh" if key % 2 else "direct", "order": [int(x) for x in np.random.default_rng(key % 97).permutation(4)],
            "scalar_sub": bool(key % 4 < 2), "signals": _draw_signals(np.random.default_rng(key), 0.3),
            "scales": [DEL_SCALES[(key + j * 4) % len(DEL_SCALES)] for j in range(3)]}


def compare_del(rec, want):
    """S->C: the weight of every vertex predicted by DelSpec for every probe against the recorded pix_sub_weights"""
    for q, w in enumerate(want):
        if q >= len(rec["sizes"]) or q >= len(rec["map"]):
            return {"what": "pix_sub_weights", "probe": w["q"], "predicted": w, "real": "missing"}
        size, row, wn, dq = rec["sizes"][q], rec["map"][q], rec["wn"][q], rec["dq"][q]
        real = {"size": size, "mappings": row, "weights_times_dq": wn, "dq": dq}
        if w["inside"]:
            ok = size == 3
            if ok:
                for k in range(len(rec["V"])):
                    got = sum(wn[j] for j in range(3) if row[j] == k)
                    ok = ok and got * int(w["den"]) == int(w["w"][k]) * dq
        else:
            ok = size == 1 and row[0] in [int(x) for x in w["near"]]
        if not ok:
            return {"what": "pix_sub_weights of a point a hair off an edge / vertex", "probe": w["q"], "predicted": w, "real": real}
    return None


def _gen_one(args):
    seed, kind, idx = args
    rng = np.random.default_rng([seed, 6, idx])
    if kind in ("delaunay", "fan"):
        return gen_delaunay(rng, idx, fan=(kind == "fan"))
    return gen_rect(rng, idx, big=(kind == "big"))


def _generate(seed, kind, first_id, n):
    """n seeded instances with ids first_id.. (each from its own generator, so the family does not depend on the process layout)"""
    return core.pmap(_gen_one, [(seed, kind, first_id + k) for k in range(n)])


# ================================================================================================================
# gamma / the real calls / alpha
# ================================================================================================================
def build_mapper(inst):
    import autoarray as aa

    m = inst["mask"]
    mk = np.ones(m["h"] * m["w"], dtype=bool)
    mk[m["u"]] = False
    k2 = 2.0 ** int(inst.get("scale", 0))
    mask = aa.Mask2D(mask=mk.reshape(m["h"], m["w"]), pixel_scales=k2)
    sub = inst["sub"]
    over = aa.OverSamplerUniform(mask=mask, sub_size=int(sub[0]) if inst.get("scalar_sub") else np.array(sub, dtype=int))
    tau = inst["tau"] * k2  # the tick length of this realisation
    # the origin is given in ticks: the lattice is origin + tau * Z^2
    origin = inst["origin"]
    if inst["kind"] == "rect":
        origin = _far_origin(origin, inst["tau"], inst.get("scales") or [0], inst.get("far", False))
    off = np.array(origin, dtype=float) * tau
    pos = np.array(inst["pos"], dtype=float)
    if inst["kind"] == "rect":
        pos = pos + np.random.default_rng(inst["jseed"]).uniform(-JIT, JIT, size=pos.shape)
    elif inst.get("fine"):
        pos = pos + np.array(inst["fine"], dtype=float) / float(inst["E"])  # exact in binary floating point
    grid = aa.Grid2DIrregular(off + tau * pos)
    # a non-constant, strictly positive adapt image (what pixel_signals_from reads); never part of the judged values
    npx = len(sub)
    adapt = aa.Array2D(values=0.3 + np.abs(np.sin(1.0 + 1.7 * np.arange(npx) + (inst["id"] % 13))) * (1.0 + inst["id"] % 3), mask=mask)
    if inst["kind"] == "rect":
        shape = (inst["my"], inst["mx"])
        if inst["via"] == "mesh":
            mg = aa.mesh.Rectangular(shape=shape).mapper_grids_from(mask=mask, source_plane_data_grid=grid, border_relocator=None, adapt_data=adapt)
            return aa.Mapper(mapper_grids=mg, over_sampler=over, regularization=None)
        mesh = aa.Mesh2DRectangular.overlay_grid(shape_native=shape, grid=grid)
        mg = aa.MapperGrids(mask=mask, source_plane_data_grid=grid, source_plane_mesh_grid=mesh, image_plane_mesh_grid=None, adapt_data=adapt)
        return aa.MapperRectangular(mapper_grids=mg, over_sampler=over, border_relocator=None, regularization=None)
    verts = off + tau * np.array(inst["V"], dtype=float)
    if inst["via"] == "mesh":
        mg = aa.mesh.Delaunay().mapper_grids_from(mask=mask, source_plane_data_grid=grid, border_relocator=None,
                                                  source_plane_mesh_grid=aa.Grid2DIrregular(verts), adapt_data=adapt)
        return aa.Mapper(mapper_grids=mg, over_sampler=over, regularization=None)
    mesh = aa.Mesh2DDelaunay(values=verts)
    mg = aa.MapperGrids(mask=mask, source_plane_data_grid=grid, source_plane_mesh_grid=mesh, image_plane_mesh_grid=None, adapt_data=adapt)
    return aa.MapperDelaunay(mapper_grids=mg, over_sampler=over, border_relocator=None, regularization=None)


def _ints(a, scale, offl, name, tol=1e-6):
    """alpha: a*scale must be integers (within tol); anything else becomes the sentinel OFF and is named in offl"""
    x = np.asarray(a, dtype=float) * scale
    r = np.rint(x)
    ok = np.isfinite(x) & (np.abs(x - r) <= tol) & (np.abs(r) < 2**30)
    if not np.all(ok):
        offl.append(name)
    r = np.where(ok, r, OFF)
    return r.astype(np.int64)


def records_of(inst):
    """the instance realised at each of its scales; realisations with the same abstraction share one record (field `scales`)"""
    out, errs = [], []
    for k in inst.get("scales") or [0]:
        try:
            rec = record_of(dict(inst, scale=int(k)))
        except core.MachineryError:
            raise
        except Exception as e:  # the real code raised on a legal instance
            errs.append(f"at scale 2^{k}: {type(e).__name__}: {e}")
            continue
        for o in out:
            if all(o[f] == rec[f] for f in rec if f != "scales"):
                o["scales"].append(int(k))
                break
        else:
            out.append(rec)
    return out, errs


def record_of(inst):
    """run the real code on one realisation of the instance and abstract everything a user reads from the mapper"""
    mp = build_mapper(inst)
    reads = {}
    names = ["psw", "M", "uniq", "nbr"]
    signals = {}
    for slot, scale in inst.get("signals", []):
        signals.setdefault(int(slot), []).append(float(scale))
    for step, k in enumerate(inst.get("order", [0, 1, 2, 3])):
        # the pixel signals of the adaptive schemes are another read of the same mapper: evaluated before / between the
        # judged reads they must leave them as they are
        for scale in signals.get(step, []):
            sig = np.asarray(mp.pixel_signals_from(signal_scale=scale))
            if sig.shape != (mp.pixels,) or not np.all(np.isfinite(sig)):
                raise RuntimeError(f"pixel_signals_from(signal_scale={scale}) returned shape {sig.shape} / non-finite values")
        nm = names[k]
        if nm == "psw":
            reads[nm] = mp.pix_sub_weights
        elif nm == "M":
            reads[nm] = np.array(mp.mapping_matrix)
        elif nm == "uniq":
            reads[nm] = mp.unique_mappings
        else:
            reads[nm] = mp.neighbors
    sub = inst["sub"]
    n = len(sub)
    offl = []
    rect = inst["kind"] == "rect"
    P = inst["my"] * inst["mx"] if rect else len(inst["V"])
    fine = inst.get("fine") or [[0, 0] for _ in inst["pos"]]
    E = int(inst.get("E", 1))
    rec = {"kind": inst["kind"], "id": inst["id"], "scales": [int(inst.get("scale", 0))], "sub": sub, "pos": inst["pos"], "fine": fine, "E": E, "P": P}
    if rect:
        rec["my"], rec["mx"] = inst["my"], inst["mx"]
    else:
        rec["V"] = inst["V"]
        rec["simp"] = _ints(np.asarray(mp.source_plane_mesh_grid.delaunay.simplices), 1, offl, "simplices").tolist()
    # ---- pix_sub_weights
    psw = reads["psw"]
    mp_ = np.atleast_2d(np.asarray(psw.mappings))
    maps = _ints(mp_, 1, offl, "mappings")
    sizes = _ints(np.asarray(psw.sizes).ravel(), 1, offl, "sizes")
    wts = np.atleast_2d(np.asarray(psw.weights, dtype=float))
    nsub = maps.shape[0]
    dq = np.ones(nsub, dtype=np.int64)
    if not rect:
        V = inst["V"]
        for q in range(nsub):
            if q < len(sizes) and sizes[q] == 3 and maps.shape[1] >= 3 and all(0 <= maps[q, k] < P for k in range(3)):
                d = abs(_orient(V[maps[q, 0]], V[maps[q, 1]], V[maps[q, 2]]))
                if q < len(fine) and (fine[q][0] or fine[q][1]):
                    d *= E  # a position with an offset has weights over (2*area) * E
                dq[q] = d if d > 0 else 1
    wn = _ints(wts * dq[: wts.shape[0], None] if wts.shape[0] == nsub else wts, 1, offl, "weights")
    rec["map"], rec["sizes"], rec["wn"], rec["dq"] = maps.tolist(), sizes.tolist(), wn.tolist(), dq.tolist()
    # ---- row denominators: sub_i^2 * lcm of the sub-pixel denominators of the row
    drow = []
    start = 0
    for i in range(n):
        l = 1
        for q in range(start, min(start + sub[i] ** 2, nsub)):
            l = l * int(dq[q]) // math.gcd(l, int(dq[q]))
        start += sub[i] ** 2
        d = sub[i] ** 2 * l
        if d >= 2**30:
            offl.append("row-denominator-too-large")
            d = 1
        drow.append(int(d))
    rec["drow"] = drow
    # ---- mapping matrix
    M = np.atleast_2d(reads["M"])
    if M.shape[0] == n:
        rec["M"] = _ints(M * np.array(drow, dtype=float)[:, None], 1, offl, "mapping_matrix").tolist()
    else:
        rec["M"] = _ints(M, 1, offl, "mapping_matrix").tolist()
    # ---- unique mappings (rows cut at pix_lengths)
    um = reads["uniq"]
    d2p = np.atleast_2d(np.asarray(um.data_to_pix_unique))
    dw = np.atleast_2d(np.asarray(um.data_weights, dtype=float))
    pl = np.asarray(um.pix_lengths).ravel()
    uniq, uw, ulen = [], [], []
    for i in range(len(pl)):
        ln = int(pl[i]) if float(pl[i]).is_integer() else -1
        if i >= d2p.shape[0] or i >= dw.shape[0] or ln < 0 or ln > d2p.shape[1] or ln > dw.shape[1]:
            ulen.append(-1)
            uniq.append([])
            uw.append([])
            continue
        ulen.append(ln)
        uniq.append(_ints(d2p[i, :ln], 1, offl, "data_to_pix_unique").tolist())
        uw.append(_ints(dw[i, :ln] * (drow[i] if i < n else 1), 1, offl, "data_weights").tolist())
    rec["uniq"], rec["uw"], rec["ulen"] = uniq, uw, ulen
    # ---- neighbours
    nb = reads["nbr"]
    rec["nbr"] = _ints(np.atleast_2d(np.asarray(nb)), 1, offl, "neighbors").tolist()
    rec["nsizes"] = _ints(np.asarray(nb.sizes).ravel(), 1, offl, "neighbors.sizes").tolist()
    rec["offl"] = sorted(set(offl))
    return rec


def sig_of(inst):
    sc = "uniform-sub" if len(set(inst["sub"])) == 1 else "per-pixel-sub"
    if inst["kind"] == "rect":
        return f"rect/{'square-mesh' if inst['my'] == inst['mx'] else 'non-square-mesh'}/{sc}"
    return f"delaunay/{sc}"


def _replay_group(args):
    """S->C for a group of (instance, prediction) pairs: returns, per instance, ([(record, mismatch | None)], [errors])"""
    out = []
    for inst, pred in args:
        recs, errs = records_of(inst)
        judged = []
        for rec in recs:
            mism = None
            if pred is not None and "want" in pred:
                mism = compare_del(rec, pred["want"])
            elif pred is not None:
                cells = [row[0] if row else OFF for row in rec["map"]]
                if cells != pred["cells"]:
                    mism = {"what": "pix_sub_weights.mappings", "predicted": pred["cells"], "real": cells}
                elif rec["M"] != pred["m"]:
                    mism = {"what": "mapping_matrix * sub^2", "predicted": pred["m"], "real": rec["M"]}
            judged.append((rec, mism))
        out.append((judged, errs))
    return out


def validate(ctx, insts, recs, tag):
    import concurrent.futures as cf

    for k, r in enumerate(recs):
        r["id"] = k
    chunk = min(max(600, -(-len(recs) // 8)), 4000)  # few JVM starts, at most eight at a time
    nchunks = max(1, -(-len(recs) // chunk))
    chunks = [recs[k::nchunks] for k in range(nchunks)]  # round robin: the costly Delaunay records are spread over all chunks
    dummy = ctx.work / "no_insts.json"
    dummy.write_text("[]")

    def one(args):
        k, ch = args
        return ctx.validate_trace("Trace_Mapper", TRACE_CFG, ch, tag=f"{tag}-{k}", timeout=1800, env={"INST_FILE": str(dummy)})[1]

    rejects = []
    with cf.ThreadPoolExecutor(max_workers=min(8, len(chunks) or 1)) as ex:
        for rej in ex.map(one, list(enumerate(chunks))):
            rejects.extend(rej)
    for rj in rejects:
        inst, rec = insts[rj["id"]], recs[rj["id"]]
        shape = f"{rec['my']}x{rec['mx']} mesh" if rec["kind"] == "rect" else f"{rec['P']} vertices"
        ctx.violation(
            rj["sig"],
            f"{rec['kind']} mapper, {shape}, sub={rec['sub']}: failed {rj['clauses']}",
            {"inst": inst, "record": rec, "failed_clauses": rj["clauses"], "spec_wanted": rj.get("want")},
            cls=",".join(rj["clauses"]),
        )
    return rejects


# ================================================================================================================
def run(ctx):
    quick = ctx.quick
    if quick:
        families = [([1, 1], m) for m in MESHES] + [([1, 1, 1], m) for m in MESHES] + [([2], (4, 3))]
    else:
        families = [(s, m) for s in ([1, 1], [1, 1, 1], [2]) for m in MESHES] + [([1, 2], (3, 4)), ([2, 1], (4, 3))]
    exh_l = 2
    nbr_shapes = [(a, b) for a in range(3, 7) for b in range(3, 7)]
    del_sizes = [4] if quick else [4, 5]
    n_seeded = 300 if quick else 4000
    n_big = 150 if quick else 2500
    n_del = 150 if quick else 2000
    n_fan = 24 if quick else 300
    ctx.bounds = {
        "exhaustive_position_tables": {"lattice": f"(0..{exh_l})^2", "families(sub sizes, mesh shape)": [[list(a), list(b)] for a, b in families]},
        "seeded_rectangular_in_machine": {"n": n_seeded, "mask": "<=3x3 block in a 5x5 frame", "sub": "1..3 per pixel", "mesh_shapes": [list(s) for s in MESHES],
                                          "positions": "smooth distortion+jitter / uniform / far-edge crowd / repeated cells / elongated boxes, extents 3..40 ticks, any offset"},
        "neighbour_graph_shapes": "3..6 x 3..6 (all)",
        "delaunay_validity_machine": {"vertices": del_sizes, "lattice": "(0..3)^2, no three collinear, translated to touch both axes", "simplices": "every set of at most 2n-4 vertex triples"},
        "trace_only_rectangular": {"n": n_big, "mask": "<=4x4 block in a 7x7 frame", "sub": "1..4 per pixel", "mesh_shapes": [list(s) for s in BIG_MESHES]},
        "trace_only_delaunay": {"n": n_del, "vertices": "6..14 lattice points in general position in (0..8..12)^2", "sub_pixels": "20..60, inside and outside the hull, "
                                "plus 2..6 pixels whose position is an edge point (1/4, 1/2, 3/4 along a simplex or hull edge) +- k*2^-e*(integer normal), e in {8,12,16}, "
                                "k in 1..3, or a vertex +- k*2^-e; 10% exactly on an interior edge"},
        "delaunay_probe_replay": "every accepted answer of DelSpec in general position (quick: a seeded subset of 200) with all its probes: both sides of every "
                                 "simplex edge at 2^-8, 2^-12, 2^-16 of the normal from the midpoint, interior/hull midpoints off the hull lines, 8 offsets of 2^-16 around every vertex",
        "trace_only_delaunay_hubs": {"n": n_fan, "vertices": "a centre ringed by 13..20 lattice points + 0..4 others in (0..40)^2, general position, "
                                                              "a vertex of degree >= 13 guaranteed"},
        "history": "adapt image 0.3 + k|sin| per pixel; pixel_signals_from(signal_scale in {0, 0.5, 1, 2, 3}) once or twice before/between the reads "
                   "for 30% (exhaustive), 40% (seeded rectangular), 60% (Delaunay) of the mappers",
        "scales": {"delaunay_exponents": DEL_SCALES, "rectangular_exponents": RECT_SCALES, "realisations": "enumerated rectangular: 2 per instance (quick: 2 for every third, 1 otherwise), DelSpec answers: 3, "
                   "seeded Delaunay/hub: 2, seeded rectangular: 1 (tick length = tau * 2^k)", "rect_far_origin_ticks": [4096.0, -2048.5]},
        "tick_lengths": TAUS, "tick_lengths_delaunay": DEL_TAUS, "rect_jitter_ticks": JIT,
    }
    # ---- the bounded machines
    seeded = _generate(ctx.seed, "rect", 1, n_seeded)
    f = ctx.work / "insts.json"
    f.write_text(json.dumps([{k: s[k] for k in ("kind", "id", "sub", "pos", "my", "mx")} for s in seeded]))
    defs = _defs(families, nbr_shapes, del_sizes)
    cfg_args = (exh_l, 3)
    import threading

    bg = {}

    def del_machine():
        try:
            bg["res"] = ctx.tlc("Mapper", MC_DEL_CFG % cfg_args, defs=defs, env={"INST_FILE": str(f)}, tag="MC_MapperDelaunay", timeout=3000,
                                workers=4 if quick else 8, coverage=False)
        except BaseException as e:  # noqa
            bg["err"] = e

    th = threading.Thread(target=del_machine)
    th.start()
    res = ctx.tlc("Mapper", MC_CFG % cfg_args, defs=defs, env={"INST_FILE": str(f)}, tag="MC_Mapper", timeout=3000, workers=8, coverage=False)
    dumps = res.by_kind("inst")
    # per-action coverage of the rectangular machine on a small family (coverage slows the big run down by a factor of four)
    empty = ctx.work / "no_insts.json"
    empty.write_text("[]")
    cov_defs = _defs([([1, 1], (3, 4))], [(3, 4)], [4])
    ctx.tlc("Mapper", MC_CFG % (1, 2), defs=cov_defs, env={"INST_FILE": str(empty)}, tag="MC_Mapper_coverage", timeout=600, workers=2, coverage=True)
    ctx.tlc("Mapper", MC_DEL_CFG % (1, 2), defs=cov_defs, env={"INST_FILE": str(empty)}, tag="MC_MapperDelaunay_coverage", timeout=600, workers=2, coverage=True)
    n_exh = sum(1 for d in dumps if d["inp"]["id"] == 0)
    if len(dumps) != n_exh + n_seeded or res.distinct != 5 * len(dumps) + 2 * len(nbr_shapes):
        raise core.MachineryError(f"Mapper.tla enumerated {len(dumps)} instances / {res.distinct} states; expected {n_seeded} seeded + exhaustive, 5 states each")
    ctx.exhaustive = True
    by_id = {s["id"]: s for s in seeded}
    pairs = []
    for d in dumps:
        inp = d["inp"]
        if inp["id"] == 0:
            key = zlib.crc32(json.dumps([inp["sub"], inp["pos"], inp["my"], inp["mx"]]).encode()) % (2**31)
            inst = complete_dumped(inp, key)
            if quick and key % 3:  # quick tier: two scales for every third enumerated instance, one (in rotation) for the others
                inst["scales"] = inst["scales"][:1]
        else:
            inst = by_id[inp["id"]]
            if inst["pos"] != [list(p) for p in inp["pos"]]:
                raise core.MachineryError("seeded instance changed on its way through TLC")
        pairs.append((inst, {"cells": [int(c) for c in d["cells"]], "m": [[int(x) for x in row] for row in d["m"]]}))
    # ---- trace-only instances (beyond the machine's bounds)
    big = _generate(ctx.seed, "big", 100001, n_big)
    dels = _generate(ctx.seed, "delaunay", 200001, n_del) + _generate(ctx.seed, "fan", 300001, n_fan)
    pairs += [(b, None) for b in big] + [(d, None) for d in dels]
    insts, recs = [], []
    n_mism = [0]
    n_real = [0]

    def replay_pairs(prs):
        groups = [prs[k : k + 40] for k in range(0, len(prs), 40)]
        for grp, part in zip(groups, core.pmap(_replay_group, groups)):
            for (inst, pred), (judged, errs) in zip(grp, part):
                shape = f"{inst['my']}x{inst['mx']} mesh" if inst["kind"] == "rect" else f"{len(inst['V'])} vertices"
                for err in errs:
                    ctx.violation(sig_of(inst) + "/raised", f"{inst['kind']} mapper raised on a legal instance {err}", {"inst": inst, "error": err}, cls="raised")
                for rec, mism in judged:
                    n_real[0] += len(rec["scales"])
                    if mism is not None:
                        n_mism[0] += 1
                        ctx.violation(sig_of(inst) + ("/points-near-edges" if inst["kind"] == "delaunay" else ""),
                                      f"replay of a Mapper.tla state at scales 2^{rec['scales']}: {mism['what']} differs from the machine's prediction "
                                      f"({shape}, sub={inst['sub'][:12]})", {"inst": dict(inst, scales=rec["scales"]), "record": rec, "mismatch": mism},
                                      cls="replay:" + mism["what"])
                    insts.append(dict(inst, scales=rec["scales"]))
                    recs.append(rec)

    replay_pairs(pairs)
    th.join()
    if "err" in bg:
        raise bg["err"]
    rd = bg["res"]
    del_dumps = rd.by_kind("del")
    n_accepted = len(del_dumps)
    if rd.distinct != 2 * rd.init_states + n_accepted or rd.init_states == 0 or not del_dumps:
        raise core.MachineryError(f"DelSpec: {rd.distinct} states for {rd.init_states} initial states and {n_accepted} probed answers")
    # ---- S->C for DelSpec: every accepted answer in general position, with its probes a hair off the edges and vertices
    del_dumps = sorted(del_dumps, key=lambda d: json.dumps(d["V"]))  # TLC's workers print in any order
    if quick and len(del_dumps) > 200:  # quick tier: a seeded subset of the accepted answers (thorough: all of them)
        pick = np.random.default_rng([ctx.seed, 66]).choice(len(del_dumps), size=200, replace=False)
        del_dumps = [del_dumps[int(k)] for k in sorted(pick)]
    del_pairs = [(inst_from_del_dump(d, 400001 + k), {"want": d["want"]}) for k, d in enumerate(del_dumps)]
    replay_pairs(del_pairs)
    n_probes = sum(len(d["want"]) for d in del_dumps)
    ctx.replayed = len(dumps) + len(del_dumps)
    rej = validate(ctx, insts, recs, "C06")
    kinds = {}
    for r in recs:
        kinds[r["kind"]] = kinds.get(r["kind"], 0) + 1
    outside = sum(1 for r in recs if r["kind"] == "delaunay" for s in r["sizes"] if s == 1)
    degs = [max(r["nsizes"]) for r in recs if r["kind"] == "delaunay" and r["nsizes"]]
    inside = sum(1 for r in recs if r["kind"] == "delaunay" for s in r["sizes"] if s == 3)
    if recs:
        k = min(n_exh // 2, len(recs) - 1)
        ctx.sample({"instance": {f: insts[k][f] for f in ("sub", "pos", "my", "mx", "tau", "origin", "via", "mask") if f in insts[k]}, "record": recs[k]})
    dl = [r for r in recs if r["kind"] == "delaunay"]
    if dl:
        ctx.sample({"delaunay_record": dl[0]})
    ctx.note(f"Spec: {n_exh} exhaustive + {n_seeded} seeded rectangular instances + {len(nbr_shapes)} neighbour graphs, all replayed; "
             f"DelSpec: {rd.init_states} (vertex set, simplex set) pairs judged, {n_accepted} accepted answers in general position, {len(del_dumps)} of them replayed "
             f"with {n_probes} probes at 2^-8..2^-16 from edges and vertices; replay mismatches: {n_mism[0]}")
    ctx.note(f"{len(recs)} records validated by Trace_Mapper ({kinds}); Delaunay sub-pixels inside the hull: {inside}, outside: {outside}; Delaunay meshes whose largest reported neighbour list has >= 13 entries: "
             f"{sum(1 for d in degs if d >= 13)} (largest {max(degs) if degs else 0}); rejected: {len(rej)}")
    ctx.note(f"realisations (instance x scale): {n_real[0]} in {len(recs)} distinct records; records shared by more than one scale: "
             f"{sum(1 for r in recs if len(r['scales']) > 1)}; scale exponents seen: {sorted({k for r in recs for k in r['scales']})}")
    ctx.note(f"mappers on which pixel_signals_from was evaluated before / between the judged reads: {sum(1 for i in insts if i.get('signals'))} "
             f"(Delaunay: {sum(1 for i in insts if i.get('signals') and i['kind'] == 'delaunay')}), "
             f"before the first read: {sum(1 for i in insts if any(s[0] == 0 for s in i.get('signals', [])))}")
    ctx.assumptions = [
        "positions and vertices lie on a tick lattice; one tick is >= 2^-6 scaled units, so the 1e-8 buffer of overlay_grid (< 1e-6 tick) "
        "cannot move a lattice point across a cell boundary (points are >= 1/6 tick away from interior boundaries); bounding boxes are non-degenerate",
        "rectangular positions are jittered by +-0.02 tick (the cell of a point is constant on its open cell); Delaunay positions are exact lattice points, "
        "never exactly on the hull boundary (where inside/outside is decided by floating-point tolerance), vertex sets in general position",
        "a position with an offset is pos + fine/2^16 ticks, exact in binary floating point; the smallest offset (2^-16 of the normal) is >= 1e-8 in barycentric "
        "units on every mesh used, six orders above qhull's default find_simplex tolerance (2e-14), so the unchanged tree classifies every probe exactly at all "
        "three scales (no back-off was needed); positions exactly on the line of a hull edge are never generated, exactly on an interior edge either simplex is accepted",
        "scale range: on the unchanged tree (scipy/qhull included) Delaunay mappers are judged correct by Trace_Mapper for tick lengths 2^-500 .. 2^+200 and raise "
        "(overflow / underflow of the area products) at 2^+300 and 2^-1000; the check uses 2^-104 .. 2^+101.  Rectangular mappers depend on overlay_grid's ABSOLUTE "
        "buffer of 1e-8: below a tick of about 2^-20 the buffer moves cell boundaries past lattice points (first rejections at 2^-20 .. 2^-26), above about 2^+17 "
        "(coordinates > 1e7) the buffer falls below the floating-point resolution, the extreme points land outside the mesh and the mapper raises IndexError; the check "
        "keeps the tick inside 2^-16 .. 2^+12 and coordinates below 2^21",
        "alpha multiplies weights by the exact denominators (2*area of the reported triangle, sub_i^2 * lcm per row) and rejects values farther than 1e-6 from an integer",
        "TLC 1.8 / SANY / CommunityModules; scipy.spatial.Delaunay is treated as part of the implementation (its simplices are judged, not trusted)",
    ]


def replay(ctx, rp):
    inst = rp["inst"]
    recs, errs = records_of(inst)
    rej = validate(ctx, [inst] * len(recs), recs, "C06-replay")
    print(f"replayed the instance at scales 2^{inst.get('scales') or [0]}: {len(recs)} distinct records; raised: {errs}; rejected clauses:", [r["clauses"] for r in rej])
    return ctx.finish()
