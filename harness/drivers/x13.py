"""X13 -- a dataset's derived members are the documented functions of its current data, noise map, PSF, mask and over-sampling,
after any sequence of derivations.

DatasetGrids.tla explores, exhaustively inside the bound, the tree of ALL derivation sequences
    Imaging(...) ; apply_mask ; apply_over_sampling ; apply_noise_scaling ; trimmed_after_convolution_from ; copy.copy
(every mask / every noise-scaling region of tiny frames, every subset of given schemes, PSF shapes 1x1 .. 3x3, inputs with and
without covariance matrix / padding / noise check / initial mask) and checks the design theorems on every node.  Every node of the
tree is replayed on real objects (one object graph per tree: a child is derived from the very object its siblings are derived
from, after ALL members of that object were read -- so stale caches, lost references and in-place edits surface), everything
read is abstracted by a rejecting alpha and judged by TLC against Trace_DatasetGrids.tla (one named clause per member; signature
<member>:after-<last action>).  A sample of leaves is replayed cold (no reads before the last step); seeded random larger frames
(up to 9x9) with longer histories, Interferometer datasets on every real-space mask of tiny frames and PSF-only constructor
probes extend the reach."""
import copy
import itertools
import json

import numpy as np

from harness import core

OFF = -999999
INV_S = 1 << 16
SUBS = [2, 3] + list(range(5, 70))  # sub size of scheme id k is SUBS[k-1] (never 4, the library's default for pixelizations)
TICKS = [1.0, 0.5, 0.25, 2.0, 0.125, 0.05, 0.1, 1.0 / 3.0]
ACT_FIELDS = ("a", "mh", "mw", "m", "req", "mode", "nval", "snr", "zero", "kh", "kw")
BLANK = {"a": "none", "mh": 0, "mw": 0, "m": [], "req": [0, 0, 0], "mode": "value", "nval": 0, "snr": 1, "zero": False, "kh": 1, "kw": 1}

MC_CFG = """CONSTANTS
  Insts <- MCInsts
  FullCells = {full}
  FamMasks <- MCFamMasks
  FamRegions <- MCFamRegions
  Requests <- MCRequests
  RequestsLean <- MCRequestsLean
  TrimKernels <- MCTrim
  ScaleModes <- MCModes
  ScaleModesLean <- MCModesLean
  Geoms <- MCGeoms
SPECIFICATION Spec
INVARIANT StateIsFoldOfHistory
INVARIANT SurvivorsKeepCoordinatesAndValues
INVARIANT MaskedCellsShowZero
INVARIANT MaskedDatasetHasItsBlurringRegion
INVARIANT SchemesMergeAsDocumented
INVARIANT ParentHoldsTheUnmaskedData
INVARIANT OnlyTheLastMaskCounts
PROPERTY NoiseScalingTouchesExactlyTheRegion
PROPERTY OverSamplingKeepsTheRest
"""

TRACE_CFG = """CONSTANTS
  Insts <- TrInsts
  FullCells = 0
  FamMasks = {}
  FamRegions = {}
  Requests = {}
  RequestsLean = {}
  TrimKernels = {}
  ScaleModes = {}
  ScaleModesLean = {}
  Geoms = {}
SPECIFICATION TraceSpec
POSTCONDITION TraceAccepted
"""

JVM_ENV = {"JAVA_TOOL_OPTIONS": "-XX:ParallelGCThreads=2 -XX:CICompilerCount=2"}


# ------------------------------------------------------------------------------------------------------------------
# TLA+ literals
# ------------------------------------------------------------------------------------------------------------------
def tla(v):
    if isinstance(v, bool):
        return "TRUE" if v else "FALSE"
    if isinstance(v, int):
        return str(v) if v >= 0 else f"({v})"
    if isinstance(v, str):
        return json.dumps(v)
    if isinstance(v, (list, tuple)):
        return "<<" + ", ".join(tla(x) for x in v) + ">>"
    if isinstance(v, (set, frozenset)):
        return "{" + ", ".join(tla(x) for x in sorted(v, key=repr)) + "}"
    if isinstance(v, dict):
        return "[" + ", ".join(f"{k} |-> {tla(x)}" for k, x in v.items()) + "]"
    raise TypeError(type(v))


MACHINE_FIELDS = ("kind", "h", "w", "u0", "dv", "nv", "kh", "kw", "norm", "pad", "check", "os", "hasC", "depth", "fullr", "lean")


# ------------------------------------------------------------------------------------------------------------------
# instances (gamma side: everything the abstract instance does not fix is drawn from the seed)
# ------------------------------------------------------------------------------------------------------------------
def kernel_for(rng, kh, kw):
    """integer mantissas summing to a power of two (so that normalisation is exact), mixed signs allowed"""
    if kh == 0:
        return [], 1
    n = kh * kw
    for _ in range(200):
        kv = [int(x) for x in rng.integers(-2, 6, size=n)]
        s = sum(kv)
        if s in (1, 2, 4, 8, 16, 32) and any(kv) and (n == 1 or s != max(kv) or n > 1):
            return kv, s
    kv = [0] * n
    kv[n // 2] = 4
    return kv, 4


def covariance(n):
    """symmetric, strictly diagonally dominant (every principal sub-matrix is positive definite), distinct diagonal"""
    c = [[0] * n for _ in range(n)]
    for a in range(n):
        c[a][a] = 8 + a
        if a + 1 < n:
            c[a][a + 1] = c[a + 1][a] = 1 + (a % 2)
        if a + 3 < n:
            c[a][a + 3] = c[a + 3][a] = 1
    return c


def make_ini(rng, h, w, depth, kind="img", psf=(0, 0), norm=True, pad=False, check=True, os=(0, 0, 0), hasC=False, u0=None,
             bad_noise=None, store=None, fullr=2, lean=True, positive=False):
    n = h * w
    mags = rng.permutation(n) + 1
    dv = [int(4 * m * (1 if positive or rng.random() < 0.6 else -1)) for m in mags]
    if n > 3 and not positive and rng.random() < 0.3:
        dv[int(rng.integers(0, n))] = 0
    nv = [int(x) for x in (rng.permutation(15)[:n] + 1 if n <= 15 else rng.integers(1, 16, size=n))]
    if bad_noise is not None:
        nv[int(rng.integers(0, n)) if u0 is None else int(rng.choice(u0))] = int(bad_noise)
    kv, ksum = kernel_for(rng, *psf)
    g = {"hy": int(rng.integers(1, 4)), "hx": int(rng.integers(1, 4)), "oy": int(rng.integers(-3, 4)), "ox": int(rng.integers(-3, 4))}
    ini = {"kind": kind, "h": h, "w": w, "u0": list(range(n)) if u0 is None else sorted(int(x) for x in u0), "dv": dv, "nv": nv,
           "kh": int(psf[0]), "kw": int(psf[1]), "norm": bool(norm), "pad": bool(pad), "check": bool(check), "os": [int(x) for x in os],
           "hasC": bool(hasC), "depth": int(depth), "fullr": int(fullr), "lean": bool(lean),
           # gamma parameters (not part of the machine's instance)
           "g": g, "kv": kv, "ksum": ksum, "subs": SUBS, "cv": covariance(n) if hasC else [], "invS": INV_S,
           "ue": int(rng.integers(-3, 4)), "ke": int(rng.integers(1, 4)), "ce": int(rng.integers(-2, 3)), "tau": int(rng.integers(0, len(TICKS))),
           "store": bool(rng.integers(0, 2)) if store is None else bool(store),
           "vis": {"dr": [], "di": [], "nr": [], "ni": [], "uv": []}, "tclass": "dft"}
    if kind == "interf":
        nvis = int(rng.integers(1, 5))
        ini["vis"] = {"dr": [int(x) for x in rng.integers(-6, 7, size=nvis)], "di": [int(x) for x in rng.integers(-6, 7, size=nvis)],
                      "nr": [int(2 ** x) for x in rng.integers(0, 3, size=nvis)], "ni": [int(2 ** x) for x in rng.integers(0, 3, size=nvis)],
                      "uv": [int(x) for x in rng.integers(-4, 5, size=2 * nvis)]}
        ini["tclass"] = ["dft", "sub"][int(rng.integers(0, 2))]
        ini["dv"], ini["nv"] = [0] * n, [1] * n
    return ini


def instances(rng, quick):
    """the constructor instances of the bounded machine: every dimension of the constructor is met on the 2x2 frame (every mask; at
    depth 2 with the rich alphabets -- every subset of schemes in a request, every region -- in the thorough tier), the tiniest
    frames go deeper with the lean alphabets, larger and non-square frames shallower"""
    out = []
    rich = dict(fullr=4, lean=False)
    r2 = {} if quick else rich
    # 2x2, depth 2: PSF shapes x constructor flags (not the full product: each dimension against a varying background)
    out.append(make_ini(rng, 2, 2, 2, psf=(0, 0), os=(0, 0, 0), hasC=True, **rich))
    out.append(make_ini(rng, 2, 2, 2, psf=(1, 3), os=(0, 1, 0), norm=False, **r2))
    out.append(make_ini(rng, 2, 2, 2, psf=(3, 1), os=(1, 2, 3), pad=True, **r2))
    out.append(make_ini(rng, 2, 2, 2, psf=(1, 1), os=(1, 1, 0), check=False, bad_noise=0, **r2))
    out.append(make_ini(rng, 2, 2, 2, psf=(3, 3), os=(0, 0, 1), check=False, bad_noise=-2, hasC=True, **r2))
    out.append(make_ini(rng, 2, 2, 1, psf=(1, 3), check=True, bad_noise=0))          # the constructor raises
    out.append(make_ini(rng, 2, 2, 2, psf=(3, 3), u0=[0, 3], pad=True, os=(0, 2, 1)))  # data given masked, padded at construction
    out.append(make_ini(rng, 2, 2, 2, psf=(0, 0), u0=[1, 2, 3], os=(1, 0, 0)))        # data given masked
    # 2x2, depth 3 (lean alphabets, regions from the family): thorough tier
    if not quick:
        out.append(make_ini(rng, 2, 2, 3, psf=(3, 3), os=(1, 0, 2), hasC=True))
        out.append(make_ini(rng, 2, 2, 3, psf=(0, 0), os=(0, 0, 0), hasC=True))
        out.append(make_ini(rng, 2, 2, 3, psf=(1, 3), os=(0, 1, 0), pad=True))
    # 1x2 / 2x1 / 1x1: deeper
    dd = 3 if quick else 4
    out.append(make_ini(rng, 1, 2, dd, psf=(1, 3), os=(1, 0, 0), hasC=True))
    out.append(make_ini(rng, 2, 1, dd, psf=(3, 1), os=(0, 0, 0)))
    out.append(make_ini(rng, 1, 2, dd, psf=(0, 0), os=(0, 1, 2), check=False, bad_noise=-1))
    out.append(make_ini(rng, 1, 1, dd, psf=(3, 3), os=(0, 0, 1), hasC=True))
    if not quick:
        out.append(make_ini(rng, 2, 1, 3, psf=(3, 3), os=(1, 0, 2), hasC=True, norm=False))
    # 3x3 (trimmable without padding) and non-square frames
    out.append(make_ini(rng, 3, 3, 1 if quick else 2, psf=(3, 3), os=(1, 0, 0), hasC=not quick))
    out.append(make_ini(rng, 1, 3, 2, psf=(1, 3), os=(0, 0, 2), hasC=True))
    # 5x5: the smallest frame with a noise-scaling region that has an interior (the edge of the region is not the region)
    out.append(make_ini(rng, 5, 5, 1 if quick else 2, psf=(3, 3), os=(0, 1, 0), positive=True, fullr=0))
    if not quick:
        out.append(make_ini(rng, 2, 3, 2, psf=(3, 1), os=(0, 1, 0), hasC=True))
        out.append(make_ini(rng, 3, 2, 2, psf=(1, 3), os=(2, 0, 1), norm=False))
        out.append(make_ini(rng, 3, 3, 2, psf=(0, 0), os=(0, 0, 0)))
        out.append(make_ini(rng, 3, 1, 3, psf=(3, 1), os=(1, 0, 0), hasC=True))
    # Interferometer: every real-space mask of a 2x2 frame (1x3 and part of 2x3 in addition in the thorough tier)
    frames = [(2, 2)] if quick else [(2, 2), (1, 3), (2, 3)]
    for h, w in frames:
        for r in range(1, h * w + 1):
            for u in itertools.combinations(range(h * w), r):
                if (h, w) == (2, 3) and rng.random() < 0.6:
                    continue
                out.append(make_ini(rng, h, w, 2 if h * w <= 4 else 1, kind="interf", u0=list(u), lean=quick,
                                    os=[(0, 0, 0), (1, 0, 0), (0, 1, 2), (1, 2, 3)][int(rng.integers(0, 4))]))
    return out


def families(rng, quick):
    """masks / regions of the frames that are too large for `every subset` in this tier"""
    fm, fr = [], []
    for (h, w), k in (((3, 3), 12 if quick else 40), ((2, 3), 10), ((3, 2), 10), ((1, 3), 7), ((3, 1), 7)):
        n = h * w
        seen = set()
        seen.add(tuple(range(n)))
        seen.add((n // 2,))
        while len(seen) < min(k, 2 ** n - 1):
            m = tuple(int(x) for x in np.flatnonzero(rng.random(n) < rng.choice([0.3, 0.6, 0.85])))
            if m:
                seen.add(m)
        fm += [{"h": h, "w": w, "m": set(m)} for m in sorted(seen)]
    block = lambda h, w, y0, y1, x0, x1: {"h": h, "w": w, "m": {i * w + j for i in range(y0, y1) for j in range(x0, x1)}}  # noqa: E731
    fm += [block(5, 5, 1, 4, 1, 4), block(5, 5, 0, 5, 0, 5), block(5, 5, 2, 3, 2, 3), block(5, 5, 0, 2, 1, 5), block(5, 5, 1, 4, 0, 3)]
    fr += [block(5, 5, 1, 4, 1, 4), block(5, 5, 0, 5, 0, 5), block(5, 5, 2, 4, 1, 3), block(5, 5, 0, 0, 0, 0), block(5, 5, 1, 4, 1, 3)]
    for (h, w), k in (((2, 2), 5), ((3, 3), 4 if quick else 12), ((2, 3), 6), ((3, 2), 6), ((1, 3), 4), ((3, 1), 4), ((1, 2), 3), ((2, 1), 3)):
        n = h * w
        seen = {(), tuple(range(n))}
        while len(seen) < min(k, 2 ** n):
            seen.add(tuple(int(x) for x in np.flatnonzero(rng.random(n) < 0.5)))
        fr += [{"h": h, "w": w, "m": set(m)} for m in sorted(seen)]
    return fm, fr


# ------------------------------------------------------------------------------------------------------------------
# gamma: abstract instance -> real objects;  alpha: real objects -> integers (rejecting)
# ------------------------------------------------------------------------------------------------------------------
class Conc:
    """the concrete world of one constructor instance: units, geometry, scheme objects by id, masks"""

    def __init__(self, ini):
        import autoarray as aa

        self.aa = aa
        self.ini = ini
        self.u = 2.0 ** ini["ue"]
        self.ku = 2.0 ** ini["ke"]
        self.cu = 2.0 ** ini["ce"]
        self.tau = TICKS[ini["tau"]]
        g = ini["g"]
        self.ps = (2 * g["hy"] * self.tau, 2 * g["hx"] * self.tau)
        self.origin = (g["oy"] * self.tau, g["ox"] * self.tau)
        self._schemes = {}
        self._ids = {}

    def scheme(self, k):
        if k == 0:
            return None
        if k not in self._schemes:
            o = self.aa.OverSamplingUniform(sub_size=SUBS[k - 1])
            self._schemes[k] = o
            self._ids[id(o)] = k
        return self._schemes[k]

    def sid(self, obj):
        return 0 if obj is None else self._ids.get(id(obj), -1)

    def mask(self, h, w, unmasked):
        m = np.ones(h * w, dtype=bool)
        m[list(unmasked)] = False
        return self.aa.Mask2D(mask=m.reshape(h, w), pixel_scales=self.ps, origin=self.origin)

    def osd(self, ids):
        return self.aa.OverSamplingDataset(uniform=self.scheme(ids[0]), non_uniform=self.scheme(ids[1]), pixelization=self.scheme(ids[2]))

    def construct(self):
        aa, ini = self.aa, self.ini
        h, w = ini["h"], ini["w"]
        m0 = self.mask(h, w, ini["u0"])
        if ini["kind"] == "interf":
            v = ini["vis"]
            nvis = len(v["dr"])

            class XSubDFT(aa.TransformerDFT):
                pass

            self.tcls = {"dft": aa.TransformerDFT, "sub": XSubDFT}
            data = aa.Visibilities(visibilities=(np.array(v["dr"], float) + 1j * np.array(v["di"], float)) * self.u)
            noise = aa.VisibilitiesNoiseMap(visibilities=(np.array(v["nr"], float) + 1j * np.array(v["ni"], float)) * self.u)
            uv = np.array(v["uv"], float).reshape(nvis, 2) * self.ku
            return aa.Interferometer(data=data, noise_map=noise, uv_wavelengths=uv, real_space_mask=m0,
                                     transformer_class=self.tcls[ini["tclass"]], over_sampling=self.osd(ini["os"]))
        dv = np.array(ini["dv"], float).reshape(h, w) * self.u
        nv = np.array(ini["nv"], float).reshape(h, w) * self.u
        if ini["store"]:
            data = aa.Array2D(values=dv, mask=m0, store_native=True)
            noise = aa.Array2D(values=nv, mask=m0, store_native=True)
        else:  # slim input
            data = aa.Array2D(values=dv[~np.asarray(m0)], mask=m0)
            noise = aa.Array2D(values=nv[~np.asarray(m0)], mask=m0)
        psf = None
        if ini["kh"] > 0:
            psf = aa.Kernel2D.no_mask(values=np.array(ini["kv"], float).reshape(ini["kh"], ini["kw"]) * self.ku, pixel_scales=self.ps)
        ncm = np.array(ini["cv"], float) * self.cu if ini["hasC"] else None
        return aa.Imaging(data=data, noise_map=noise, psf=psf, noise_covariance_matrix=ncm, over_sampling=self.osd(ini["os"]),
                          pad_for_convolver=ini["pad"], use_normalized_psf=ini["norm"], check_noise_map=ini["check"])

    def step(self, ds, a):
        k = a["a"]
        if k == "mask":
            return ds.apply_mask(mask=self.mask(a["mh"], a["mw"], a["m"]))
        if k == "os":
            return ds.apply_over_sampling(over_sampling=self.osd(a["req"]))
        if k == "scale":
            mk = self.mask(a["mh"], a["mw"], a["m"])
            if a["mode"] == "value":
                return ds.apply_noise_scaling(mask=mk, noise_value=a["nval"] * self.u, should_zero_data=a["zero"])
            return ds.apply_noise_scaling(mask=mk, signal_to_noise_value=float(a["snr"]), should_zero_data=a["zero"])
        if k == "trim":
            return ds.trimmed_after_convolution_from(kernel_shape=(a["kh"], a["kw"]))
        if k == "copy":
            return copy.copy(ds)
        raise core.MachineryError(f"unknown step {a}")


def ints(arr, unit):
    with np.errstate(all="ignore"):
        a = np.asarray(arr, dtype=float).ravel() / unit
        r = np.rint(a)
        ok = np.isfinite(a) & (np.abs(a - r) <= 1e-6) & (np.abs(r) < 2 ** 31 - 1)
    return [int(v) if k else OFF for v, k in zip(r, ok)]


def lin(mask):
    return [int(x) for x in np.flatnonzero(~np.asarray(mask, dtype=bool).ravel())]


def pairs(grid, tau):
    g = np.asarray(grid, dtype=float).reshape(-1, 2)
    v = ints(g, tau)
    return [[v[2 * k], v[2 * k + 1]] for k in range(g.shape[0])]


def _sub_list(x, n):
    a = np.asarray(x)
    if a.ndim == 0:
        a = np.full(n, a)
    return [int(v) if float(v).is_integer() else OFF for v in a.ravel()]


def flags(ds, dead=False, exc=""):
    if dead:
        return {"dead": True, "exc": exc, "par": False, "ncm": False}
    return {"dead": False, "exc": "", "par": getattr(ds, "unmasked", None) is not None,
            "ncm": getattr(ds, "noise_covariance_matrix", None) is not None}


# values a member takes when reading it raised: each fails its clause whatever the specification expects (the verdict on an
# exception of the code under test is a rejection by the specification, never a machinery failure)
FAIL = {"shape_native": [0, 0], "shape_slim": -1, "ps": [OFF, OFF], "mask": [], "origin": [OFF, OFF],
        "gu": [], "gu_mask": [], "su": 99, "grid_is_uniform": False, "gn_k": "exc", "gn": [], "sn": 99, "gp": [], "sp": 99, "pix_sub": OFF,
        "blur_k": "exc", "gb": [], "br_mask": [], "br_sub": [], "osp_k": "exc", "osp_mask": [], "osp_sub": [],
        "stored_native": False, "ds": [], "dn": [], "ns": [], "nn": [], "sxn": [], "snr_at": [],
        "ncm_k": "exc", "ncm": [], "inv_k": "exc", "inv": [],
        "psf_k": "exc", "psf_shape": [0, 0], "psf_n": [], "psf_n_ok": False, "psf_r": [], "psf_r_ok": False,
        "conv_k": "exc", "conv_mask": [], "conv_shape": [0, 0], "conv_blur": [], "conv_kshape": [0, 0],
        "wt_k": "exc", "wt_nl": -1, "wt_sum": -2, "wt_np": -3, "wt_ni": -4, "wt_n0": OFF, "wt_n0_scalar": True,
        "unmasked": False, "par_shape": [0, 0],
        "dr": [], "di": [], "nr": [], "ni": [], "uv": [], "tr_class": "exc", "tr_mask": [], "tr_uv": [], "sxr": [], "sxi": []}


def _frame(c, ds, o):
    o["shape_native"] = [int(x) for x in ds.shape_native]
    o["shape_slim"] = int(ds.shape_slim)
    o["ps"] = ints(ds.pixel_scales, c.tau)
    o["mask"] = lin(ds.mask)
    o["origin"] = ints(ds.mask.origin, c.tau)


def _uniform(c, ds, o):
    gu = ds.grids.uniform
    o["gu"], o["gu_mask"], o["su"] = pairs(gu.slim, c.tau), lin(gu.mask), c.sid(gu.over_sampling)
    o["grid_is_uniform"] = bool(ds.grid is gu)


def _non_uniform(c, ds, o):
    gn = ds.grids.non_uniform
    o["gn_k"] = "none" if gn is None else "grid"
    o["gn"] = [] if gn is None else pairs(gn.slim, c.tau)
    o["sn"] = 0 if gn is None else c.sid(gn.over_sampling)


def _pixelization(c, ds, o):
    gp = ds.grids.pixelization
    o["gp"], o["sp"] = pairs(gp.slim, c.tau), c.sid(gp.over_sampling)
    ps_ = getattr(gp.over_sampling, "sub_size", None)
    o["pix_sub"] = int(ps_) if isinstance(ps_, (int, np.integer)) else OFF


def _blurring(c, ds, o):
    from autoarray import exc

    try:
        gb = ds.grids.blurring
        o["blur_k"] = "none" if gb is None else "grid"
        o["gb"] = [] if gb is None else pairs(gb.slim if len(gb) else np.zeros((0, 2)), c.tau)
    except exc.MaskException:  # the documented refusal when the blurring region leaves the frame (C10)
        o["blur_k"], o["gb"] = "err", []


def _relocator(c, ds, o):
    br = ds.grids.border_relocator
    o["br_mask"], o["br_sub"] = lin(br.mask), _sub_list(br.sub_size, len(lin(br.mask)))


def _sampler(c, ds, o):
    osp = ds.grids.over_sampler_pixelization
    o["osp_k"], o["osp_mask"], o["osp_sub"] = "ok", lin(osp.mask), _sub_list(osp.sub_size, len(lin(osp.mask)))


def _values(c, ds, o):
    o["stored_native"] = bool(getattr(ds.data, "store_native", False))
    o["ds"], o["dn"] = ints(ds.data.slim, c.u), ints(ds.data.native, c.u)
    o["ns"], o["nn"] = ints(ds.noise_map.slim, c.u), ints(ds.noise_map.native, c.u)


def _snr(c, ds, o):
    with np.errstate(all="ignore"):
        snr = np.asarray(ds.signal_to_noise_map.slim, dtype=float)
        o["sxn"] = ints(snr * np.asarray(ds.noise_map.slim, dtype=float), c.u)
        mx = ds.signal_to_noise_max
        o["snr_at"] = [int(x) for x in np.flatnonzero(snr == mx)]


def _covariance(c, ds, o):
    ncm = ds.noise_covariance_matrix
    o["ncm_k"], o["ncm"], o["inv_k"], o["inv"] = "none", [], "none", []
    if ncm is not None:
        m = np.asarray(ncm, dtype=float)
        o["ncm_k"] = "mat"
        o["ncm"] = [ints(row, c.cu) for row in m] if m.ndim == 2 else [[OFF]]
        try:
            inv = np.asarray(ds.noise_covariance_matrix_inv, dtype=float)
            o["inv_k"] = "mat"
            o["inv"] = [[int(np.rint(x * c.cu * INV_S)) if np.isfinite(x) and abs(x * c.cu * INV_S) < 2 ** 30 else OFF for x in row] for row in inv]
        except Exception as e:  # noqa: BLE001
            o["inv_k"] = "err:" + type(e).__name__


def _psf(c, ds, o):
    psf = ds.psf
    o["psf_k"], o["psf_shape"], o["psf_n"], o["psf_n_ok"], o["psf_r"], o["psf_r_ok"] = "none", [0, 0], [], False, [], False
    if psf is not None:
        o["psf_k"], o["psf_shape"] = "psf", [int(x) for x in psf.shape_native]
        o["psf_n"] = ints(np.asarray(psf.native, dtype=float) * c.ini["ksum"], 1.0)
        o["psf_r"] = ints(psf.native, c.ku)
        o["psf_n_ok"], o["psf_r_ok"] = OFF not in o["psf_n"], OFF not in o["psf_r"]


def _convolver(c, ds, o):
    o["conv_k"], o["conv_mask"], o["conv_shape"], o["conv_blur"], o["conv_kshape"] = "none", [], [0, 0], [], [0, 0]
    try:
        cv = ds.convolver
    except Exception as e:  # noqa: BLE001  (no convolver: without a PSF, or when the blurring region leaves the frame)
        o["conv_k"] = "err:" + type(e).__name__
        return
    if cv is not None:
        o["conv_k"], o["conv_mask"], o["conv_shape"] = "ok", lin(cv.mask), [int(x) for x in np.asarray(cv.mask).shape]
        o["conv_blur"], o["conv_kshape"] = lin(cv.blurring_mask), [int(x) for x in cv.kernel.shape_native]


def _w_tilde(c, ds, o):
    o["wt_k"], o["wt_nl"], o["wt_sum"], o["wt_np"], o["wt_ni"], o["wt_n0"], o["wt_n0_scalar"] = "skip", 0, 0, 0, 0, 0, True
    if len(lin(ds.mask)) > 16:  # O(n^2) Python loops without numba
        return
    try:
        wt = ds.w_tilde
    except Exception:  # noqa: BLE001  (no tables: without a PSF, or for a kernel that does not fit the frame)
        o["wt_k"] = "err"
        return
    o["wt_k"], o["wt_nl"], o["wt_sum"] = "ok", int(np.asarray(wt.lengths).shape[0]), int(np.sum(wt.lengths))
    o["wt_np"], o["wt_ni"] = int(np.asarray(wt.curvature_preload).shape[0]), int(np.asarray(wt.indexes).shape[0])
    n0 = np.asarray(wt.noise_map_value, dtype=float)
    o["wt_n0_scalar"], o["wt_n0"] = bool(n0.ndim == 0), ints(n0.ravel()[:1], c.u)[0]


def _parent(c, ds, o):
    par = getattr(ds, "unmasked", None)
    o["unmasked"] = par is not None
    o["par_shape"] = [int(x) for x in par.shape_native] if par is not None else [0, 0]


def _visibilities(c, ds, o):
    d, n = np.asarray(ds.data), np.asarray(ds.noise_map)
    o["dr"], o["di"], o["nr"], o["ni"] = ints(d.real, c.u), ints(d.imag, c.u), ints(n.real, c.u), ints(n.imag, c.u)
    o["uv"] = ints(ds.uv_wavelengths, c.ku)
    s = np.asarray(ds.signal_to_noise_map)
    o["sxr"], o["sxi"] = ints(s.real * n.real, c.u), ints(s.imag * n.imag, c.u)


def _transformer(c, ds, o):
    t = ds.transformer
    o["tr_class"] = next((k for k, v in c.tcls.items() if type(t) is v), "other")
    o["tr_mask"], o["tr_uv"] = lin(t.real_space_mask), ints(t.uv_wavelengths, c.ku)


def _no_convolver(c, ds, o):
    o["conv_k"] = "none" if ds.convolver is None else "ok"


GROUPS_COMMON = (_frame, _uniform, _non_uniform, _pixelization, _blurring, _relocator, _sampler)
GROUPS_IMG = (_values, _snr, _covariance, _psf, _convolver, _w_tilde, _parent)
GROUPS_INTF = (_visibilities, _transformer, _no_convolver)


def observe(c, ds):
    """alpha of everything X13 speaks about, read from one dataset object (every member once)"""
    o = {"raised": []}
    groups = GROUPS_COMMON + (GROUPS_INTF if c.ini["kind"] == "interf" else GROUPS_IMG)
    for grp in groups:
        part = {}
        try:
            grp(c, ds, part)
        except Exception as e:  # noqa: BLE001
            o["raised"].append(f"{grp.__name__[1:]}:{type(e).__name__}")
        o.update(part)
    for k, v in FAIL.items():
        o.setdefault(k, v)
    return o


def trace_ini(ini):
    return {k: v for k, v in ini.items() if k not in ("depth", "fullr", "lean")}


def node_record(c, steps, fl, o, mode, only=""):
    return {"k": "node", "ini": trace_ini(c.ini), "steps": list(steps), "fl": list(fl), "o": o, "mode": mode, "only": only}


def do_step(c, ds, a):
    try:
        return c.step(ds, a), None
    except Exception as e:  # noqa: BLE001  (the verdict on an exception is the specification's)
        return None, type(e).__name__


def replay_tree(args):
    """warm replay of one tree: `tree` = nested {key: (step, subtree)}; returns node records"""
    from harness import repo_env

    repo_env.setup()
    ini, tree, with_root = args
    c = Conc(ini)
    out = []
    try:
        root = c.construct()
        fl0 = [flags(root)]
    except Exception as e:  # noqa: BLE001
        root, fl0 = None, [flags(None, True, type(e).__name__)]
    if with_root:
        out.append(node_record(c, [], fl0, observe(c, root) if root is not None else {}, "warm"))
    if root is None:
        if with_root:
            out[-1]["below"] = 0
        elif tree:  # (a constructor that raises where the machine derives from it: judged at the root record of the instance)
            out.append({"k": "skipped", "below": count_nodes(tree)})
        return out

    def rec(ds, steps, fl, sub):
        for _, (a, child) in sub.items():
            nd, err = do_step(c, ds, a)
            st2 = steps + [a]
            if nd is None:  # the verdict on the exception is the specification's; nothing can be derived from a call that raised
                out.append(node_record(c, st2, fl + [flags(None, True, err)], {}, "warm"))
                out[-1]["below"] = count_nodes(child)
                continue
            fl2 = fl + [flags(nd)]
            out.append(node_record(c, st2, fl2, observe(c, nd), "warm"))
            rec(nd, st2, fl2, child)

    if not with_root:
        observe(c, root)  # the root is read before anything is derived from it, as in the task that recorded it
    rec(root, [], fl0, tree)
    return out


def replay_cold(args):
    """cold replay of one history: nothing is read before the last step"""
    from harness import repo_env

    repo_env.setup()
    ini, steps = args
    c = Conc(ini)
    try:
        ds = c.construct()
    except Exception as e:  # noqa: BLE001
        return [node_record(c, [], [flags(None, True, type(e).__name__)], {}, "cold")]
    fl = [flags(ds)]
    for k, a in enumerate(steps):
        nd, err = do_step(c, ds, a)
        if nd is None:
            return [node_record(c, steps[: k + 1], fl + [flags(None, True, err)], {}, "cold")]
        ds = nd
        fl.append(flags(ds))
    return [node_record(c, steps, fl, observe(c, ds), "cold")]


# ------------------------------------------------------------------------------------------------------------------
# seeded random larger frames and longer histories (the specification decides what is inside the documented domain)
# ------------------------------------------------------------------------------------------------------------------
def _foot_leaves(um, kh, kw):
    if kh == 0:
        return False
    h, w = um.shape
    ii, jj = np.nonzero(um)
    return bool(np.any((ii < kh // 2) | (ii > h - 1 - kh // 2) | (jj < kw // 2) | (jj > w - 1 - kw // 2)))


def random_history(rng, length, quick):
    """a constructor instance and a history on a frame up to 9x9; a light shadow of the frame bookkeeping keeps most steps inside the domain"""
    h, w = int(rng.integers(3, 10)), int(rng.integers(3, 10))
    psf = [(0, 0), (1, 1), (1, 3), (3, 1), (3, 3), (3, 5), (5, 3), (5, 5)][int(rng.integers(0, 8))]
    ids = iter(range(1, 100))
    os0 = [next(ids) if rng.random() < 0.5 else 0 for _ in range(3)]
    ini = make_ini(rng, h, w, length, psf=psf, norm=rng.random() < 0.8, pad=rng.random() < 0.15, check=rng.random() < 0.85, os=os0,
                   hasC=(h * w <= 16 and rng.random() < 0.7) or (h * w <= 30 and rng.random() < 0.15),
                   u0=None if rng.random() < 0.85 else [int(x) for x in np.flatnonzero(rng.random(h * w) < 0.6)] or [0])
    um = np.zeros((h, w), bool)
    um.ravel()[ini["u0"]] = True
    cur = {"h": h, "w": w, "full": bool(um.all()), "par": None}
    if ini["pad"] and _foot_leaves(um, *psf):
        cur = {"h": h + psf[0] - 1, "w": w + psf[1] - 1, "full": False, "par": None}
    steps = []
    for k in range(length):
        base = (cur["h"], cur["w"]) if cur["full"] else cur["par"]
        choices = ["os", "copy", "trim"] + (["mask", "mask"] if base else []) + (["scale", "scale"] if cur["full"] else [])
        a = dict(BLANK)
        a["a"] = str(rng.choice(choices))
        if a["a"] == "mask":
            bh, bw = base
            style = int(rng.integers(0, 4))
            m = rng.random((bh, bw)) < [0.3, 0.6, 0.9, 0.5][style]
            if style == 3:  # an interior block: no padding needed
                m[:, :] = False
                m[bh // 3 : max(bh // 3 + 1, bh - bh // 3), bw // 3 : max(bw // 3 + 1, bw - bw // 3)] = True
            if not m.any():
                m[bh // 2, bw // 2] = True
            a.update(mh=bh, mw=bw, m=[int(x) for x in np.flatnonzero(m.ravel())])
            cur = {"h": bh, "w": bw, "full": bool(m.all()), "par": (bh, bw)}
            if _foot_leaves(m, *psf):
                cur.update(h=bh + psf[0] - 1, w=bw + psf[1] - 1, full=False)
        elif a["a"] == "os":
            a["req"] = [next(ids) if rng.random() < 0.4 else 0 for _ in range(3)]
        elif a["a"] == "scale":
            hh, ww = cur["h"], cur["w"]
            m = np.zeros((hh, ww), bool)
            if rng.random() < 0.7 and hh >= 3 and ww >= 3:  # an interior block: its edge is pinned
                y0, x0 = int(rng.integers(1, hh - 1)), int(rng.integers(1, ww - 1))
                m[y0 : int(rng.integers(y0 + 1, hh)), x0 : int(rng.integers(x0 + 1, ww))] = True
            else:
                m = rng.random((hh, ww)) < 0.3
            a.update(mh=hh, mw=ww, m=[int(x) for x in np.flatnonzero(m.ravel())], mode="value" if rng.random() < 0.6 else "snr",
                     nval=16 * (k + 1), snr=int(rng.choice([1, 2])), zero=bool(rng.random() < 0.6))
            cur["par"] = None
        elif a["a"] == "trim":
            ks = [(1, 3), (3, 1), (3, 3), (5, 5), psf if psf[0] else (3, 3)][int(rng.integers(0, 5))]
            if cur["h"] - ks[0] + 1 < 1 or cur["w"] - ks[1] + 1 < 1:
                a["a"] = "copy"
            else:
                a.update(kh=ks[0], kw=ks[1])
                cur.update(h=cur["h"] - ks[0] + 1, w=cur["w"] - ks[1] + 1)
                if not cur["full"]:
                    cur["full"] = False  # (may become all-unmasked: the specification decides)
        steps.append(a)
    return ini, steps


def replay_linear(args):
    """warm replay of one random history: a record per step"""
    from harness import repo_env

    repo_env.setup()
    ini, steps = args
    tree = {}
    t = tree
    for k, a in enumerate(steps):
        t[str(k)] = (a, {})
        t = t[str(k)][1]
    return replay_tree((ini, tree, True))


def psf_probe(args):
    """constructor probes with even-sized / non-square PSFs: only `psf` (normalised, shape kept) is judged"""
    from harness import repo_env

    repo_env.setup()
    ini = args
    c = Conc(ini)
    ds = c.construct()
    o = {}
    _psf(c, ds, o)
    return [node_record(c, [], [flags(ds)], o, "warm", only="psf")]


# ------------------------------------------------------------------------------------------------------------------
def validate(ctx, records, tag, chunk=900):
    import concurrent.futures as cf

    for n, r in enumerate(records):
        r["id"] = n
    nchunks = max(1, min(48, (len(records) + chunk - 1) // chunk))
    chunks = [records[k::nchunks] for k in range(nchunks)]
    rejects, unjudged = [], []

    def one(args):
        k, ch = args
        res, rej = ctx.validate_trace("Trace_DatasetGrids", TRACE_CFG, ch, tag=f"{tag}-{k}", timeout=3000, env=JVM_ENV)
        return rej, res.by_kind("unjudged")

    with cf.ThreadPoolExecutor(max_workers=min(16, len(chunks))) as ex:
        for rej, unj in ex.map(one, list(enumerate(chunks))):
            rejects.extend(rej)
            unjudged.extend(unj)
    for rj in rejects:
        rec = records[rj["id"]]
        ini = rec["ini"]
        hist = " ; ".join(_show(a) for a in rec["steps"]) or "(constructor)"
        ctx.violation(
            rj["sig"],
            f"{ini['kind']} {ini['h']}x{ini['w']} psf {ini['kh']}x{ini['kw']} os {ini['os']} {'native' if ini['store'] else 'slim'}-stored "
            f"[{rec['mode']}]: {hist}: failed {rj['clauses']}",
            {"record": rec, "failed_clauses": rj["clauses"], "spec_wanted": rj.get("want")},
            cls=",".join(rj["clauses"]),
        )
    return rejects, {u["id"] for u in unjudged}


def _show(a):
    k = a["a"]
    if k == "mask":
        return f"apply_mask({a['mh']}x{a['mw']} unmasked {a['m']})"
    if k == "os":
        return f"apply_over_sampling(ids {a['req']})"
    if k == "scale":
        return f"apply_noise_scaling(region {a['m']}, {'noise_value' if a['mode'] == 'value' else 'signal_to_noise_value=' + str(a['snr'])}, zero={a['zero']})"
    if k == "trim":
        return f"trimmed_after_convolution_from(({a['kh']},{a['kw']}))"
    return k


def build_trees(insts, dumped):
    """the tree of histories per instance from the machine's dump (every history is dumped once)"""
    trees = [dict() for _ in insts]
    n = 0
    for r in dumped:
        t = trees[r["iid"] - 1]
        hist = r["hist"]
        for k, a in enumerate(hist):
            key = json.dumps(a, sort_keys=True)
            if key not in t:
                if k != len(hist) - 1:
                    t[key] = (a, {})  # (a prefix dumped later)
                else:
                    t[key] = (a, {})
                    n += 1
            t = t[key][1]
    return trees, n


def count_nodes(t):
    return sum(1 + count_nodes(c) for _, (a, c) in t.items())


def leaves(t, prefix=()):
    for _, (a, c) in t.items():
        p = prefix + (a,)
        if c:
            yield from leaves(c, p)
        else:
            yield list(p)


def run(ctx):
    import time

    t0 = time.time()
    quick = ctx.quick
    rng = np.random.default_rng(ctx.seed)
    insts = instances(rng, quick)
    fm, fr = families(rng, quick)
    full = 4 if quick else 6
    requests_lean = [(True, False, False), (False, False, True), (False, True, True), (False, False, False)]
    requests = [tuple(bool(x) for x in q) for q in itertools.product((False, True), repeat=3)]  # any subset of schemes given
    modes_lean = [{"mode": "value", "zero": True, "snr": 1}, {"mode": "snr", "zero": False, "snr": 2}]
    modes = modes_lean + ([] if quick else [{"mode": "value", "zero": False, "snr": 1}, {"mode": "snr", "zero": True, "snr": 1}])
    trims = [(3, 1), (1, 3), (3, 3)]
    defs = "\n".join([
        "MCInsts == " + tla([{k: i[k] for k in MACHINE_FIELDS} for i in insts]),
        "MCFamMasks == " + tla(set()) if not fm else "MCFamMasks == {" + ", ".join(tla(x) for x in fm) + "}",
        "MCFamRegions == {" + ", ".join(tla(x) for x in fr) + "}",
        "MCRequests == {" + ", ".join(tla(list(q)) for q in requests) + "}",
        "MCRequestsLean == {" + ", ".join(tla(list(q)) for q in requests_lean) + "}",
        "MCTrim == {" + ", ".join(tla(list(k)) for k in trims) + "}",
        "MCModes == {" + ", ".join(tla(m) for m in modes) + "}",
        "MCModesLean == {" + ", ".join(tla(m) for m in modes_lean) + "}",
        "MCGeoms == {" + ", ".join(tla(g) for g in ({"hy": 1, "hx": 1, "oy": 0, "ox": 0}, {"hy": 2, "hx": 3, "oy": -1, "ox": 5})) + "}",
    ])
    res = ctx.tlc("DatasetGrids", MC_CFG.format(full=full), defs=defs, tag="MC_DatasetGrids", timeout=3000, coverage=quick,
                  env={"_JAVA_OPTIONS": "-Xmx8g"})
    dumped = res.by_kind("inst")
    if res.init_states != len(insts) or len(dumped) != res.distinct - len(insts):
        raise core.MachineryError(f"DatasetGrids.tla: {res.init_states} initial states for {len(insts)} instances, {len(dumped)} histories dumped "
                                  f"for {res.distinct} states")
    t1 = time.time()
    trees, _ = build_trees(insts, dumped)
    nnodes = sum(count_nodes(t) for t in trees)
    if nnodes != len(dumped):
        raise core.MachineryError(f"history tree has {nnodes} nodes, the machine dumped {len(dumped)}")
    ctx.exhaustive = True
    ctx.bounds = {"instances": len(insts), "imaging_instances": sum(i["kind"] == "img" for i in insts),
                  "frames_depths_alphabets": sorted({(i["h"], i["w"], i["depth"], i["kind"], "lean" if i["lean"] else "rich") for i in insts}),
                  "every_mask_up_to_cells": full, "every_region_up_to_cells_rich_lean": [4, 2], "requests_rich": len(requests),
                  "requests_lean": requests_lean, "scale_modes_rich": modes, "scale_modes_lean": modes_lean,
                  "trim_kernels": trims, "derivation_sequences": len(dumped)}
    # S -> C: replay every node, one task per (instance, first step) subtree (the root is read first in every task)
    tasks = []
    for ini, t in zip(insts, trees):
        tasks.append((ini, {}, True))
        keys = list(t.keys())
        per = max(1, len(keys) // 24)
        for k in range(0, len(keys), per):
            tasks.append((ini, {x: t[x] for x in keys[k : k + per]}, False))
    recs = []
    for part in core.pmap(replay_tree, tasks, chunksize=1):
        recs.extend(part)
    below = sum(r.pop("below", 0) for r in recs)
    recs = [r for r in recs if r["k"] != "skipped"]
    if len(recs) + below != len(dumped) + len(insts):
        raise core.MachineryError(f"replayed {len(recs)} nodes (+{below} below calls that raised), expected {len(dumped) + len(insts)}")
    ctx.replayed = len(recs)
    n_machine = len(recs)
    # cold replays of a seeded sample of leaves
    allleaves = [(ini, lf) for ini, t in zip(insts, trees) for lf in leaves(t)]
    ncold = min(len(allleaves), 400 if quick else 6000)
    pick = rng.choice(len(allleaves), size=ncold, replace=False) if allleaves else []
    for part in core.pmap(replay_cold, [allleaves[int(k)] for k in pick]):
        recs.extend(part)
    n_cold = len(recs) - n_machine
    # seeded random larger frames, longer histories
    nrand = 150 if quick else 2500
    hists = [random_history(rng, int(rng.integers(3, 7 if quick else 9)), quick) for _ in range(nrand)]
    for part in core.pmap(replay_linear, hists):
        recs.extend(part)
    n_rand = len(recs) - n_machine - n_cold
    # PSF probes: even-sized and non-square kernels, normalised or not
    probes = []
    for kh, kw in itertools.product((1, 2, 3), (1, 2, 3)):
        for norm in (True, False):
            probes.append(make_ini(rng, 3, 4, 0, psf=(kh, kw), norm=norm))
    for part in core.pmap(psf_probe, probes, procs=1):
        recs.extend(part)
    ctx.bounds.update({"cold_replays": n_cold, "random_histories": nrand, "random_nodes": n_rand, "random_max_frame": "9x9", "psf_probes": len(probes)})
    ctx.sample({k: v for k, v in recs[len(insts) + 3].items() if k != "ini"} if len(recs) > len(insts) + 3 else recs[0])
    ctx.sample({"ini": recs[-len(probes) - 1]["ini"], "steps": recs[-len(probes) - 1]["steps"]})
    t2 = time.time()
    rejects, unjudged = validate(ctx, recs, "X13")
    ctx.note(f"phases: TLC enumeration {t1 - t0:.1f}s, replay into the real API {t2 - t1:.1f}s, trace validation {time.time() - t2:.1f}s")
    machine_unjudged = [k for k in unjudged if k < n_machine + n_cold]
    if machine_unjudged:
        raise core.MachineryError(f"{len(machine_unjudged)} nodes enumerated by the machine were not judged by the trace specification "
                                  f"(e.g. record {machine_unjudged[0]})")
    if below:
        ctx.note(f"{below} enumerated nodes lie below a call that raised and could not be replayed (the raising call itself is judged)")
    ctx.note(f"{len(dumped)} derivation sequences of {len(insts)} constructor instances enumerated by TLC, every node replayed warm "
             f"({n_machine} nodes), {n_cold} leaves cold, {n_rand} nodes of {nrand} random histories "
             f"({len([k for k in unjudged if k >= n_machine + n_cold])} of them outside the documented domain: observed, not judged), "
             f"{len(probes)} PSF probes; {len(recs)} records judged by Trace_DatasetGrids")
    ctx.assumptions = [
        "apply_noise_scaling is judged on unmasked datasets only (its docstring: 'can only be applied before actual masking'); with a "
        "signal_to_noise_value only where C10 pins the edge of the region and the median of the edge data is positive (sign not documented)",
        "a data / noise-map shape mismatch is accepted by the constructor (no documented check): observed, not judged",
        "defaults of unspecified schemes are not pinned: the uniform / non_uniform grid must carry none of the given objects, the "
        "pixelization grid a uniform default whose sub size the border relocator and the pixelization over-sampler share",
        "apply_mask on an all-unmasked TRIMMED dataset that still holds a different unmasked parent: which of the two is masked is not "
        "documented (observed, not judged); a dataset constructed from already masked data has no parent to re-mask",
        "a dataset whose PSF was kept un-normalised (use_normalized_psf=False) may hold it normalised or as given after a derivation",
        "w_tilde: lengths of the tables and the noise value they were built for only (C04 decides their values); values of dirty_* are X04's",
        "purity of the reads is C11's; here every read happens once per object, all members at every node (warm) or only at the end (cold)",
    ]


def replay(ctx, rp):
    rec = rp["record"]
    ini = dict(rec["ini"])
    ini["depth"] = len(rec["steps"])
    if rec.get("only") == "psf":
        recs = psf_probe(ini)
    elif rec["mode"] == "cold":
        recs = replay_cold((ini, rec["steps"]))
    else:
        recs = replay_linear((ini, rec["steps"]))[-1:]
    rej, _ = validate(ctx, recs, "X13-replay")
    print("replayed", len(recs), "records; rejected:", [r["clauses"] for r in rej])
    return ctx.finish()
