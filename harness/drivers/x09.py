"""X09 -- mesh geometry: neighbour tables, edge lists, overlay grids, areas and interpolation describe the actual
adjacency and cells of the mesh.

MeshGeom.tla: (a) rectangular meshes -- 4-adjacency in the documented order, frame cells, the overlay grid on the half-cell
  lattice; the corner/edge/centre case table of the code as second formulation; (b) Delaunay / Voronoi meshes on lattice
  points -- adjacency DEFINED by the empty-circle property in integers (orientation and in-circle determinants), hull =
  unbounded cells = open fans, Voronoi cell areas as exact rationals (kites of the fan), the capped areas of the split cross,
  barycentric / nearest-vertex interpolation.  TLC explores the machine exhaustively (every rectangular shape x box x buffer;
  every lattice point set up to MaxVertices grown vertex by vertex, tabulated when in general position) and checks the design
  theorems (4-adjacency, symmetry, the case table valid exactly from 2x2, Euler counts, hull = unbounded cells, kites tile the
  triangles, ...).
S->C: every enumerated mesh is built with the real API (Mesh2DRectangular.overlay_grid, Mesh2DDelaunay, Mesh2DVoronoi; all
  vertex orders through seeded permutations, integer translations, dyadic and decimal ticks, ndarray / list input).
C->S: every table that comes back (neighbors, sizes, edge_pixel_list, voronoi_pixel_areas, areas_for_magnification,
  split_cross, interpolated_array_from, geometry) is abstracted onto the lattice / into fixed point by a rejecting alpha and
  judged by Trace_MeshGeom.tla with total, named verdicts; seeded random larger sets (up to 9 points on 7x7, jittered lattices
  up to 40 points, general position decided by exact integer predicates) extend the reach.
History: neighbors / edge_pixel_list / areas / split_cross are read in seeded orders, before and after
  interpolated_array_from, a second time, and on a mesh built from a copy of the same points: all reads must agree."""
import itertools
import math
from fractions import Fraction

import numpy as np

from harness import core

OFF = 99999999
NANV = 2000000000
LIM = 400000000
TAUS_TRI = [1.0, 0.5, 0.25, 0.125, 0.1, 0.05, 0.2]     # F / tau^2 is an integer for every power of ten F
TAUS_RECT = [1.0, 0.5, 2.0 ** -4, 4.0, 0.1, 0.05, 1.0 / 3.0, 0.7]
SPANS = [(-4, -1), (0, 0), (-1, 2), (2, 3), (3, 3)]
BUFFERS = [0, 1, 2]

INVARIANTS = ["RectNeighboursAre4Adjacency", "RectNeighboursSymmetric", "RectRowsAscendingNoRepeat", "CaseTableValidFrom2x2",
              "FewerThanFourIsFrame", "FrameCount", "OverlayFillsTheBox", "EdgeRelationSymmetric", "AdjacencySymmetric",
              "EdgesAreTriangleSides", "RidgeTableIsAdjacency", "EulerCount", "HullIsUnboundedCells", "HullEdgesAreDelaunay",
              "KitesTileTheTriangle", "BoundedCellsHavePositiveArea", "ExactAreaInBracket", "PermutationCovariant",
              "EveryVertexInATriangle"]

MC_CFG = """CONSTANTS
  RectShapes <- MCShapes
  Spans <- MCSpans
  Buffers <- MCBuffers
  LatticeN = %d
  MaxVertices = %d
SPECIFICATION Spec
""" + "".join(f"INVARIANT {n}\n" for n in INVARIANTS)

TRACE_CFG = """CONSTANTS
  RectShapes = {}
  Spans = {}
  Buffers = {}
  LatticeN = 1
  MaxVertices = 0
SPECIFICATION TraceSpec
POSTCONDITION TraceAccepted
"""


def _tla_tuples(ts):
    return "{" + ", ".join("<<" + ",".join(f"0-{-int(v)}" if v < 0 else str(int(v)) for v in t) + ">>" for t in ts) + "}"


# ================================================================================================================
# exact lattice geometry used by the GENERATORS only (domain membership, choice of the fixed-point scales);
# it never judges an output
# ================================================================================================================
def _orient_table(P):
    Y, X = P[:, 0], P[:, 1]
    dy = Y[None, :] - Y[:, None]
    dx = X[None, :] - X[:, None]
    return dy[:, :, None] * dx[:, None, :] - dx[:, :, None] * dy[:, None, :]     # O[i,j,m] = orient(i,j,m)


def _incircle_rows(P, tri):
    """InCircle(a,b,c,d) for every triple (rows of tri) against every vertex d: int64 array [len(tri), n]."""
    A, B, C = P[tri[:, 0]], P[tri[:, 1]], P[tri[:, 2]]
    ay = A[:, None, 0] - P[None, :, 0]
    ax = A[:, None, 1] - P[None, :, 1]
    by = B[:, None, 0] - P[None, :, 0]
    bx = B[:, None, 1] - P[None, :, 1]
    cy = C[:, None, 0] - P[None, :, 0]
    cx = C[:, None, 1] - P[None, :, 1]
    return ((ay * ay + ax * ax) * (by * cx - bx * cy) - (by * by + bx * bx) * (ay * cx - ax * cy)
            + (cy * cy + cx * cx) * (ay * bx - ax * by))


def exact_geometry(V):
    """None unless V is in general position (distinct, not all collinear, no vertex inside a hull side, no empty circle
    through four vertices); else dict(T = empty-circle triangles, hull = hull vertices, areas = exact cell areas / None)."""
    n = len(V)
    if n < 3 or len({tuple(p) for p in V}) < n:
        return None
    P = np.array(V, dtype=np.int64)
    O = _orient_table(P)
    if not np.any(O != 0):
        return None
    hull = set()
    for i in range(n):
        for j in range(i + 1, n):
            o = np.delete(O[i, j], [i, j])
            if np.all(o >= 0) or np.all(o <= 0):
                if np.any(o == 0):
                    return None
                hull.update((i, j))
    tri = np.array(list(itertools.combinations(range(n), 3)), dtype=np.int64)
    ot = O[tri[:, 0], tri[:, 1], tri[:, 2]]
    tri, ot = tri[ot != 0], ot[ot != 0]
    ic = _incircle_rows(P, tri) * np.sign(ot)[:, None]
    ic[np.arange(len(tri))[:, None], tri] = -1           # the triangle's own corners do not count
    empty = ~np.any(ic > 0, axis=1)
    if np.any(ic[empty] == 0):
        return None
    T = [tuple(int(x) for x in t) for t in tri[empty]]
    areas = [None] * n
    for k in range(n):
        if k in hull:
            continue
        tot = Fraction(0)
        for t in T:
            if k not in t:
                continue
            o = [m for m in t if m != k]
            b = (V[o[0]][0] - V[k][0], V[o[0]][1] - V[k][1])
            c = (V[o[1]][0] - V[k][0], V[o[1]][1] - V[k][1])
            tw = b[0] * c[1] - b[1] * c[0]
            if tw < 0:
                b, c, tw = c, b, -tw
            b2, c2 = b[0] ** 2 + b[1] ** 2, c[0] ** 2 + c[1] ** 2
            nn = (b2 * c[1] - c2 * b[1], c2 * b[0] - b2 * c[0])
            tot += Fraction((b[0] - c[0]) * nn[1] - (b[1] - c[1]) * nn[0], 8 * tw)
        areas[k] = tot
    return {"T": T, "hull": sorted(hull), "areas": areas}


def area_scale(V, geo, tau):
    """Largest power of ten F such that every product the trace spec forms with F stays far below 2^31."""
    s = max(max(p[0] for p in V) - min(p[0] for p in V), max(p[1] for p in V) - min(p[1] for p in V), 1)
    amax = max([float(a) for a in geo["areas"] if a is not None] + [1.0])
    bound = min(2 ** 25 / s ** 4, 2 ** 27 / (10.0 * amax), 2 ** 27 * tau * tau / 10.0, 1e5)
    F = 1
    while F * 10 <= bound:
        F *= 10
    return F


def value_scale(vmax, dmax):
    bound = min(2 ** 28 / (max(vmax, 1) * max(dmax, 1)), 1e4)
    G = 1
    while G * 10 <= bound:
        G *= 10
    return G


# ================================================================================================================
# alpha (rejecting)
# ================================================================================================================
def a_int(x, unit, tol=1e-6, lim=9e7, off=OFF):
    try:
        a = np.asarray(x, dtype=float) / unit
    except Exception:
        return off
    r = np.rint(a)
    ok = np.isfinite(a) & (np.abs(a - r) <= tol) & (np.abs(r) <= lim)
    out = np.where(ok, r, off).astype(np.int64)
    return out.tolist()


def a_fix(x, scale, nan=NANV):
    """round(x * scale); NaN / inf / out of range -> nan sentinel."""
    a = np.asarray(x, dtype=float) * scale
    ok = np.isfinite(a) & (np.abs(a) < LIM - 1)
    out = np.where(ok, np.rint(np.where(ok, a, 0.0)), nan).astype(np.int64)
    return out.tolist()


def a_frac(x, max_den=10000, tol=1e-9):
    """the fraction with denominator <= max_den that x is (residual <= tol, relative for |x| > 1); [OFF, 1] when there is none"""
    if not np.isfinite(x) or abs(x) > 1e5:
        return [OFF, 1]
    f = Fraction(float(x)).limit_denominator(max_den)
    if abs(float(f) - float(x)) > tol * max(1.0, abs(x)):
        return [OFF, 1]
    return [int(f.numerator), int(f.denominator)]


def _snap(v):
    if isinstance(v, tuple) and len(v) == 2 and v[0] == "EXC":
        return v
    if isinstance(v, (list, tuple)) and len(v) and isinstance(v[0], np.ndarray):
        return [np.array(x, copy=True) for x in v]
    if isinstance(v, np.ndarray):
        return np.array(v, copy=True)
    return list(v) if isinstance(v, (list, tuple)) else v


def _same(a, b):
    if isinstance(a, tuple) or isinstance(b, tuple):
        return isinstance(a, tuple) and isinstance(b, tuple) and a == b
    if isinstance(a, list) and len(a) and isinstance(a[0], np.ndarray):
        return len(a) == len(b) and all(_same(x, y) for x, y in zip(a, b))
    if isinstance(a, np.ndarray):
        b = np.asarray(b)
        return a.shape == b.shape and a.dtype == b.dtype and a.tobytes() == b.tobytes()
    return a == b


def _read(fn):
    try:
        return _snap(fn())
    except Exception as e:  # an exception inside the domain is a result to be judged, not a crash of the check
        tag = type(e).__name__
        if tag == "MeshException" and e.__cause__ is not None and "QH6214" in str(e.__cause__):
            tag = "MeshException:voronoi"    # qhull: a Voronoi diagram needs four points
        return ("EXC", tag)


def _is_exc(v):
    return isinstance(v, tuple) and len(v) == 2 and v[0] == "EXC"


# ================================================================================================================
# rectangular meshes
# ================================================================================================================
def rect_points(inst):
    """the grid the mesh is overlaid on: the corners of the box (so that the box is the given one) plus seeded interior points"""
    (y0, y1), (x0, x1) = inst["ys"], inst["xs"]
    rng = np.random.default_rng([inst["seed"], 91])
    pts = [(y0, x0), (y1, x1)]
    if rng.random() < 0.5:
        pts = [(y0, x1), (y1, x0)]
    for _ in range(int(rng.integers(0, 5))):
        pts.append((int(rng.integers(y0, y1 + 1)), int(rng.integers(x0, x1 + 1))))
    order = rng.permutation(len(pts))
    return [list(pts[int(k)]) for k in order]


def _rect_mesh(inst, pts):
    import autoarray as aa

    tau = inst["tau"]
    grid = np.array(pts, dtype=float) * tau
    if inst.get("gridform") == "irregular":
        grid = aa.Grid2DIrregular(values=grid)
    if inst.get("bdef"):
        return aa.Mesh2DRectangular.overlay_grid(shape_native=(inst["my"], inst["mx"]), grid=grid)
    return aa.Mesh2DRectangular.overlay_grid(shape_native=(inst["my"], inst["mx"]), grid=grid, buffer=inst["b"] * tau)


def _interp_args(it, tau):
    kw = {"shape_native": (it["H"], it["W"])}
    if not it["extdef"]:
        q = it["Q"]
        kw["extent"] = (q[0] * tau / 4.0, q[1] * tau / 4.0, q[2] * tau / 4.0, q[3] * tau / 4.0)
    return kw


def _interp_out(res, it, tau):
    """alpha of an interpolated Array2D: values * G rounded (NaN sentinel), shape, pixel scales * 4(H-1), 4(W-1) / tau"""
    if _is_exc(res):
        return {"out": [], "oshape": [0, 0], "ps": [OFF, OFF], "raised": res[1]}
    arr, ps = res
    a = np.asarray(arr, dtype=float)
    if a.ndim != 2:
        return {"out": [], "oshape": [int(x) for x in a.shape][:2] + [0] * (2 - min(a.ndim, 2)), "ps": [OFF, OFF], "raised": ""}
    return {"out": a_fix(a, it["G"]), "oshape": [int(a.shape[0]), int(a.shape[1])],
            "ps": [a_int(ps[0] * 4 * (it["H"] - 1), tau, tol=1e-5), a_int(ps[1] * 4 * (it["W"] - 1), tau, tol=1e-5)], "raised": ""}


def rect_records(inst):
    """inst: kind rect, my, mx, ys, xs, b, bdef, tau, seed, order (reads), interp (dict or None), util (bool)"""
    from autoarray.inversion.pixelization.mesh import mesh_util

    tau, my, mx = inst["tau"], inst["my"], inst["mx"]
    pts = inst.get("pts") or rect_points(inst)
    recs = []
    base = {"inst": inst, "my": my, "mx": mx}
    tol = 1e-5 if inst.get("bdef") else 1e-6
    ov = dict(base, api="overlay", pts=pts, b=inst["b"], bdef=bool(inst.get("bdef")), cen=[], ps=[OFF, OFF], org2=[OFF, OFF],
              shape=[0, 0], pixels=-1, ext=[OFF] * 4, raised="")
    try:
        mesh = _rect_mesh(inst, pts)
    except Exception as e:
        ov["raised"] = type(e).__name__
        return [ov]
    try:
        c = np.asarray(mesh, dtype=float)
        ov["cen"] = [[a_int(c[k, 0] * 2 * my, tau, tol), a_int(c[k, 1] * 2 * mx, tau, tol)] for k in range(c.shape[0])]
        ov["ps"] = [a_int(mesh.pixel_scales[0] * my, tau, tol), a_int(mesh.pixel_scales[1] * mx, tau, tol)]
        ov["org2"] = [a_int(mesh.origin[0] * 2, tau, tol), a_int(mesh.origin[1] * 2, tau, tol)]
        ov["shape"] = [int(mesh.shape_native[0]), int(mesh.shape_native[1])]
        ov["pixels"] = int(mesh.pixels)
        ov["ext"] = [a_int(v, tau, tol) for v in mesh.geometry.extent]
    except Exception as e:
        ov["raised"] = type(e).__name__
    recs.append(ov)

    # ---- neighbours / edge list with a history: seeded read order, interpolation in between, re-read, twin mesh ----
    it = inst.get("interp")
    vals = None
    if it is not None:
        c = np.asarray(mesh, dtype=float)
        vals = it["lin"][0] * c[:, 0] / tau + it["lin"][1] * c[:, 1] / tau + it["lin"][2]
    reads = {"neighbors": lambda o: [np.asarray(o.neighbors), np.asarray(o.neighbors.sizes)],
             "edge_pixel_list": lambda o: list(o.edge_pixel_list)}
    if it is not None:
        reads["interp"] = lambda o: (lambda a: [np.asarray(a.native), np.asarray(a.pixel_scales, dtype=float)])(
            o.interpolated_array_from(values=np.array(vals), **_interp_args(it, tau)))
    order = [q for q in inst["order"] if q in reads]
    if inst.get("decoy"):        # another mesh with the same number of cells but the transposed shape is inspected first
        decoy = _rect_mesh(dict(inst, my=mx, mx=my), pts)
        for q in ("neighbors", "edge_pixel_list"):
            _read(lambda q=q: reads[q](decoy))
    first = {q: _read(lambda q=q: reads[q](mesh)) for q in order}
    again = {q: _read(lambda q=q: reads[q](mesh)) for q in reversed(order)}
    twin_mesh = _rect_mesh(inst, [list(p) for p in pts])
    twin = {q: _read(lambda q=q: reads[q](twin_mesh)) for q in sorted(order)}
    hist = [f"reread:{q}" for q in order if not _same(first[q], again[q])] + [f"twin:{q}" for q in order if not _same(first[q], twin[q])]
    nb = again["neighbors"]
    rn = dict(base, api="rnbr", via="mesh", nbr=[], sizes=[], edge=[], hist=[h for h in hist if not h.endswith(":interp")], raised="")
    if _is_exc(nb) or _is_exc(again["edge_pixel_list"]):
        rn["raised"] = (nb if _is_exc(nb) else again["edge_pixel_list"])[1]
    else:
        rn["nbr"] = np.asarray(nb[0]).astype(np.int64).tolist()
        rn["sizes"] = np.asarray(nb[1]).astype(np.int64).tolist()
        rn["edge"] = [int(x) for x in again["edge_pixel_list"]]
    recs.append(rn)
    if inst.get("util"):
        ru = dict(base, api="rnbr", via="util", nbr=[], sizes=[], edge=[], hist=[], raised="")
        try:
            n_, s_ = mesh_util.rectangular_neighbors_from(shape_native=(my, mx))
            ru["nbr"] = np.asarray(n_).astype(np.int64).tolist()
            ru["sizes"] = np.asarray(s_).astype(np.int64).tolist()
            ru["edge"] = [int(x) for x in mesh_util.rectangular_edge_pixel_list_from(neighbors=n_)]
        except Exception as e:
            ru["raised"] = type(e).__name__
        recs.append(ru)
    if it is not None:
        ri = dict(base, api="rinterp", pts=pts, b=inst["b"], lin=it["lin"], Q=it["Q"], extdef=it["extdef"], H=it["H"], W=it["W"], G=it["G"])
        ri.update(_interp_out(again["interp"], it, tau))
        ri["hist"] = [h for h in hist if h.endswith(":interp")]
        if ri["hist"] and not ri["raised"]:
            ri["raised"] = "history:" + ",".join(ri["hist"])
        recs.append(ri)
    return recs


def make_rect_inst(rng, my, mx, ys, xs, b, idx, full=False):
    inst = {"kind": "rect", "my": int(my), "mx": int(mx), "ys": [int(ys[0]), int(ys[1])], "xs": [int(xs[0]), int(xs[1])], "b": int(b),
            "bdef": False, "tau": float(TAUS_RECT[int(rng.integers(0, len(TAUS_RECT)))]), "seed": int(rng.integers(0, 2 ** 31)),
            "order": [["neighbors", "edge_pixel_list", "interp"][int(k)] for k in rng.permutation(3)],
            "util": bool(idx % 4 == 0), "gridform": "irregular" if idx % 5 == 0 else "ndarray", "interp": None,
            "decoy": bool(idx % 3 == 1)}
    if b == 0 and idx % 3 == 0:
        inst["bdef"] = True          # the default buffer of 1e-8: judged as zero (tolerance 1e-5 ticks, ticks >= 0.05)
        inst["tau"] = float([1.0, 0.5, 0.1, 4.0][int(rng.integers(0, 4))])
    if my >= 2 and mx >= 2 and (full or idx % 2 == 0):
        H, W = int(rng.integers(2, 5)), int(rng.integers(2, 5))
        hh, ww = ys[1] - ys[0] + 2 * b, xs[1] - xs[0] + 2 * b
        extdef = bool(rng.random() < 0.3)
        y0 = ys[0] - b + int(rng.integers(-1, max(hh // 2, 1) + 1))
        x0 = xs[0] - b + int(rng.integers(-1, max(ww // 2, 1) + 1))
        Q = [4 * x0, 4 * (x0 + int(rng.integers(1, ww + 2))), 4 * y0, 4 * (y0 + int(rng.integers(1, hh + 2)))]
        if rng.random() < 0.4:       # extents on the quarter-tick lattice
            Q = [Q[0] + int(rng.integers(0, 4)), Q[1] + int(rng.integers(0, 4)), Q[2] + int(rng.integers(0, 4)), Q[3] + int(rng.integers(0, 4))]
        lin = [int(rng.integers(-3, 4)), int(rng.integers(-3, 4)), int(rng.integers(-5, 6))]
        if rng.random() < 0.25:
            lin = [0, 0, int(rng.integers(-5, 6))]       # a constant
        vmax = 3 * (abs(ys[0]) + abs(ys[1]) + abs(xs[0]) + abs(xs[1]) + 4 * b + 8) + 5
        inst["interp"] = {"H": H, "W": W, "extdef": extdef, "Q": [int(q) for q in Q], "lin": lin,
                          "G": value_scale(vmax, 16 * (H - 1) * (W - 1))}
    return inst


# ================================================================================================================
# triangulation meshes
# ================================================================================================================
def make_tri_inst(rng, V0, cls, idx, full=False, keep_order=False):
    """V0: lattice points (general position).  Chooses translation, vertex order, tick, input form, read orders, interpolation."""
    n = len(V0)
    oy, ox = (0, 0) if rng.random() < 0.4 else (int(rng.integers(-7, 8)), int(rng.integers(-7, 8)))
    perm = list(range(n)) if keep_order else [int(k) for k in rng.permutation(n)]
    V = [[int(V0[k][0] + oy), int(V0[k][1] + ox)] for k in perm]
    geo = exact_geometry(V)
    if geo is None:
        raise core.MachineryError(f"generator produced a vertex set outside general position: {V}")
    tau = float(TAUS_TRI[int(rng.integers(0, len(TAUS_TRI)))])
    F = area_scale(V, geo, tau)
    reads = ["neighbors", "edge_pixel_list", "areas", "areas_for_split", "split_cross", "mag", "interp"]
    ys, xs = [p[0] for p in V], [p[1] for p in V]
    H, W = int(rng.integers(2, 5)), int(rng.integers(2, 5))
    style = int(rng.integers(0, 4))
    if style == 0:     # symmetric in y and x (the case in which the griddata-based Voronoi variant can be judged)
        lo = min(min(ys), min(xs)) + int(rng.integers(-1, 2))
        hi = max(max(ys), max(xs)) + int(rng.integers(-1, 2))
        hi = max(hi, lo + 1)
        Q, W = [4 * lo, 4 * hi, 4 * lo, 4 * hi], H
    else:
        x0 = min(xs) + int(rng.integers(-1, 2))
        y0 = min(ys) + int(rng.integers(-1, 2))
        Q = [4 * x0, 4 * (x0 + int(rng.integers(1, max(xs) - min(xs) + 3))), 4 * y0, 4 * (y0 + int(rng.integers(1, max(ys) - min(ys) + 3)))]
        if style == 3:
            Q = [q + int(rng.integers(0, 4)) for q in Q]
            Q[1], Q[3] = max(Q[1], Q[0] + 1), max(Q[3], Q[2] + 1)
    extdef = bool(style == 2 and rng.random() < 0.5)
    if rng.random() < 0.5:
        a, b, c = int(rng.integers(-3, 4)), int(rng.integers(-3, 4)), int(rng.integers(-5, 6))
        vals = [a * p[0] + b * p[1] + c for p in V]
    else:
        vals = [int(v) for v in rng.integers(-9, 10, size=n)]
    sy, sx = 4 * (H - 1), 4 * (W - 1)
    dmax = (max(ys) - min(ys) + 1) * sy * (max(xs) - min(xs) + 1) * sx
    return {"kind": "tri", "cls": cls, "V": V, "tau": tau, "F": int(F), "form": "list" if idx % 4 == 1 else "ndarray",
            "order": [reads[int(k)] for k in rng.permutation(len(reads))],
            "order2": [reads[int(k)] for k in rng.permutation(len(reads))],
            "interp": {"H": H, "W": W, "extdef": extdef, "Q": [int(q) for q in Q], "vals": vals,
                       "G": value_scale(max(abs(v) for v in vals), dmax)},
            "decoy": bool(idx % 3 == 1),
            # (quick tier) the split cross of a mesh without any bounded cell is not judged: emitted for a share only
            "emit": ["tri", "split", "tinterp"] if (full or idx % 3 == 0) else
                    (["tri", "split"] if (len(geo["hull"]) < n or idx % 8 == 1) else ["tri"])}


def _tri_mesh(inst, arr):
    import autoarray as aa

    cls = getattr(aa, inst["cls"])
    return cls(values=arr.tolist() if inst["form"] == "list" else np.array(arr, copy=True))


def tri_records(inst):
    tau, V, F, it = inst["tau"], inst["V"], inst["F"], inst["interp"]
    n = len(V)
    arr = np.array(V, dtype=float) * tau
    base = {"inst": inst, "cls": inst["cls"], "V": V}
    vor = inst["cls"] == "Mesh2DVoronoi"
    vals = np.array(it["vals"], dtype=float)
    reads = {
        "neighbors": lambda o: [np.asarray(o.neighbors), np.asarray(o.neighbors.sizes)],
        "edge_pixel_list": lambda o: list(o.edge_pixel_list),
        "areas": lambda o: np.asarray(o.voronoi_pixel_areas, dtype=float),
        "areas_for_split": lambda o: np.asarray(o.voronoi_pixel_areas_for_split, dtype=float),
        "split_cross": lambda o: np.asarray(o.split_cross, dtype=float),
        "interp": lambda o: (lambda a: [np.asarray(a.native), np.asarray(a.pixel_scales, dtype=float)])(
            o.interpolated_array_from(values=np.array(vals), **_interp_args(it, tau))),
    }
    if vor:
        reads["mag"] = lambda o: np.asarray(o.areas_for_magnification, dtype=float)
    try:
        mesh = _tri_mesh(inst, arr)
    except Exception as e:
        return [dict(base, api="tri", parts=[], nbr=[], sizes=[], edge=[], F=F, areas=[], aq=[], unb=[], mag=[], pixels=-1, org2=[OFF, OFF],
                     ext=[OFF] * 4, hist=[], raised=type(e).__name__)]
    order = [q for q in inst["order"] if q in reads]
    if inst.get("decoy"):        # a mesh with the same number of vertices at other positions (mirrored, other order) is inspected first
        decoy = _tri_mesh(inst, np.ascontiguousarray((arr * np.array([1.0, -1.0]))[::-1]))
        for q in ("neighbors", "edge_pixel_list", "areas", "split_cross"):
            _read(lambda q=q: reads[q](decoy))
    first = {q: _read(lambda q=q: reads[q](mesh)) for q in order}
    again = {q: _read(lambda q=q: reads[q](mesh)) for q in reversed(order)}
    twin_mesh = _tri_mesh(inst, np.array(arr, copy=True))
    twin = {q: _read(lambda q=q: reads[q](twin_mesh)) for q in inst["order2"] if q in reads}
    hist = [f"reread:{q}" for q in order if not _same(first[q], again[q])] + [f"twin:{q}" for q in order if not _same(first[q], twin[q])]
    if not np.array_equal(np.asarray(mesh, dtype=float), arr):
        hist.append("vertices-changed")
    split_q = ("areas_for_split", "split_cross")
    recs = []

    # ---- tables --------------------------------------------------------------------------------------------
    tr = dict(base, api="tri", parts=[], nbr=[], sizes=[], edge=[], F=F, areas=[], aq=[], unb=[], mag=[0] * n, pixels=-1, org2=[OFF, OFF],
              ext=[OFF] * 4, hist=[h for h in hist if h.split(":")[-1] not in split_q + ("interp",)], raised="")
    nb, ed, ar = again["neighbors"], again["edge_pixel_list"], again["areas"]
    for v in (nb, ed, ar, again.get("mag", 0)):
        if _is_exc(v) and not tr["raised"]:
            tr["raised"] = v[1]
    if tr["raised"] == "MeshException:voronoi" and any(_is_exc(v) and v[1] != "MeshException:voronoi" for v in (nb, ed, ar)):
        tr["raised"] = "mixed"
    if not _is_exc(nb):
        tr["parts"].append("nbr")
        tr["nbr"] = np.asarray(nb[0]).astype(np.int64).tolist()
        tr["sizes"] = np.asarray(nb[1]).astype(np.int64).tolist()
    if not _is_exc(ed):
        tr["parts"].append("edge")
        tr["edge"] = [int(x) for x in ed]
    if not _is_exc(ar) and not _is_exc(again.get("mag", 0)):
        tr["parts"].append("areas")
        a = np.asarray(ar, dtype=float)
        tr["unb"] = [int(k) for k in np.nonzero(a == -1.0)[0]]
        tr["areas"] = a_fix(np.where(a == -1.0, 0.0, a) / (tau * tau), F)
        tr["aq"] = [a_frac(x / (tau * tau)) if x != -1.0 else [0, 1] for x in a]
        if vor:
            tr["mag"] = a_fix(np.asarray(again["mag"], dtype=float) / (tau * tau), F)
    try:
        tr["pixels"] = int(mesh.pixels)
        tr["org2"] = [a_int(mesh.origin[0] * 2, tau), a_int(mesh.origin[1] * 2, tau)]
        tr["ext"] = [a_int(v, tau) for v in mesh.geometry.extent]
    except Exception as e:
        tr["raised"] = tr["raised"] or type(e).__name__
    if "tri" in inst["emit"]:
        recs.append(tr)

    # ---- split cross ------------------------------------------------------------------------------------------
    if "split" in inst["emit"] and n >= 4:
        sp = dict(base, api="split", F=F, sent=int(round(F / (tau * tau))), s4=[], sdir=[],
                  hist=[h for h in hist if h.split(":")[-1] in split_q], raised="")
        sc = again["split_cross"]
        if _is_exc(sc):
            sp["raised"] = sc[1]
        else:
            sc = np.asarray(sc, dtype=float)
            if sc.shape != (4 * n, 2):
                sp["raised"] = f"shape{sc.shape}"
            else:
                off = (sc.reshape(n, 4, 2) - arr[:, None, :]) / tau          # offsets in ticks
                h = np.max(np.abs(off), axis=(1, 2))
                okh = np.isfinite(h) & (h > 0)
                hs = np.where(okh, h, 1.0)
                d = off / hs[:, None, None]
                dr = np.rint(d)
                okd = np.all(np.isfinite(d) & (np.abs(d - dr) <= 1e-6), axis=(1, 2)) & okh
                sp["sdir"] = [[int(x) for x in dr[k].reshape(8)] if okd[k] else [9] * 8 for k in range(n)]
                s4 = np.where(okh, 4.0 * hs * hs * F, -2.0)
                sp["s4"] = [(max(int(x), 1) if okh[k] else -2) if abs(x) < LIM - 1 else -2 for k, x in enumerate(np.rint(s4))]
        recs.append(sp)

    # ---- interpolation ----------------------------------------------------------------------------------------
    if "tinterp" in inst["emit"]:
        ti = dict(base, api="tinterp", vals=it["vals"], Q=it["Q"], extdef=it["extdef"], H=it["H"], W=it["W"], G=it["G"])
        ti.update(_interp_out(again["interp"], it, tau))
        ih = [h for h in hist if h.endswith(":interp")]
        if ih and not ti["raised"]:
            ti["raised"] = "history:" + ",".join(ih)
        recs.append(ti)
    return recs


def triarea_records(rng, count):
    from autoarray.inversion.pixelization.mesh import mesh_util

    out = []
    for k in range(count):
        tau = float([1.0, 0.5, 0.25, 2.0, 4.0][int(rng.integers(0, 5))])
        pts = [[int(rng.integers(-9, 10)), int(rng.integers(-9, 10))] for _ in range(3)]
        if k % 5 == 0:
            pts[2] = [pts[0][0] + 2 * (pts[1][0] - pts[0][0]), pts[0][1] + 2 * (pts[1][1] - pts[0][1])]    # degenerate: area 0
        try:
            a = mesh_util.delaunay_triangle_area_from(*(tuple(np.array(p, dtype=float) * tau) for p in pts))
            out2 = a_int(2.0 * a, tau * tau)
        except Exception:
            out2 = OFF
        out.append({"api": "triarea", "inst": {"kind": "triarea", "pts": pts, "tau": tau}, "pts": pts, "out2": out2})
    return out


# ================================================================================================================
# instance families
# ================================================================================================================
def enumerate_machine(ctx, shapes, lattice_n, max_vertices, timeout=3000):
    defs = "\n".join([f"MCShapes == {_tla_tuples(shapes)}", f"MCSpans == {_tla_tuples(SPANS)}", f"MCBuffers == {{{', '.join(map(str, BUFFERS))}}}"])
    res = ctx.tlc("MeshGeom", MC_CFG % (lattice_n, max_vertices), defs=defs, tag="MC_MeshGeom", timeout=timeout, coverage=True,
                  env={"_JAVA_OPTIONS": "-Xmx6g"})
    rect = sorted((r["my"], r["mx"], tuple(r["ys"]), tuple(r["xs"]), r["b"]) for r in res.by_kind("inst") if r["kind"] == "rect")
    tri = sorted(tuple(r["cells"]) for r in res.by_kind("inst") if r["kind"] == "tri")      # TLC's workers print in no fixed order
    deg = sum(1 for s in SPANS if s[0] == s[1])
    expect_rect = len(shapes) * (len(SPANS) ** 2 * len(BUFFERS) - (2 * deg * len(SPANS) - deg * deg) * sum(1 for b in BUFFERS if b == 0))
    if len(rect) != expect_rect or len(set(tri)) != len(tri):
        raise core.MachineryError(f"MeshGeom.tla enumerated {len(rect)} rectangular meshes (expected {expect_rect}) / {len(tri)} vertex sets")
    subsets = sum(math.comb(lattice_n ** 2, k) for k in range(0, max_vertices + 1))
    if res.distinct != subsets + len(tri) + 2 * len(rect):
        raise core.MachineryError(f"MeshGeom.tla: {res.distinct} states, expected {subsets} vertex sets + {len(tri)} tabulated + 2 x {len(rect)}")
    return rect, tri, res


def random_gp_set(rng, n, L, tries=400):
    for _ in range(tries):
        cells = rng.choice(L * L, size=n, replace=False)
        V = [(int(c // L), int(c % L)) for c in cells]
        if exact_geometry(V) is not None:
            return V
    return None


def jittered_lattice_set(rng, n):
    """n points of a jittered integer lattice (spacing 4..6, jitter +-1..2), general position by exact integer predicates"""
    for _ in range(200):
        g = int(rng.integers(4, 7))
        side = int(math.ceil(math.sqrt(n))) + 1
        cells = rng.choice(side * side, size=n, replace=False)
        j = 1 if g == 4 else 2
        V = [(int(c // side) * g + int(rng.integers(-j, j + 1)), int(c % side) * g + int(rng.integers(-j, j + 1))) for c in cells]
        if exact_geometry(V) is not None:
            return V
    return None


def _tri_many(args):
    items, seed, full = args
    out = []
    for idx, V0, cls, keep in items:
        rng = np.random.default_rng([seed, 9, idx])
        out.extend(tri_records(make_tri_inst(rng, V0, cls, idx, full=full, keep_order=keep)))
    return out


def _rect_many(args):
    items, seed, full = args
    out = []
    for idx, (my, mx, ys, xs, b) in items:
        rng = np.random.default_rng([seed, 19, idx])
        out.extend(rect_records(make_rect_inst(rng, my, mx, ys, xs, b, idx, full=full)))
    return out


def _random_sets(args):
    seed, kind, idx = args
    rng = np.random.default_rng([seed, 29, idx])
    if kind == "5x5":
        return random_gp_set(rng, int(rng.integers(5, 8)), 5)
    if kind == "5x5+":
        return random_gp_set(rng, int(rng.integers(6, 8)), 5)
    if kind == "7x7":
        return random_gp_set(rng, int(rng.integers(5, 10)), 7)
    return jittered_lattice_set(rng, int(rng.integers(10, 41)))


# ================================================================================================================
KEEP = ("api", "id", "cls", "my", "mx", "pts", "b", "bdef", "cen", "ps", "org2", "shape", "pixels", "ext", "raised", "nbr", "sizes", "edge",
        "hist", "lin", "Q", "extdef", "H", "W", "G", "out", "oshape", "V", "parts", "F", "areas", "aq", "unb", "mag", "sent", "s4", "sdir", "vals",
        "out2", "via")


def _slim(r):
    return {k: r[k] for k in KEEP if k in r}


def _cost(r):
    n = len(r.get("V", ())) or 3
    return n ** 3 if r["api"] in ("tri", "split", "tinterp") else 30


def validate(ctx, records, tag, chunk=2500):
    import concurrent.futures as cf

    for n, r in enumerate(records):
        r["id"] = n
    nchunks = max(1, min(14, (len(records) + chunk - 1) // chunk)) if len(records) <= 14 * chunk else (len(records) + chunk - 1) // chunk
    # spread the expensive records (large vertex sets) evenly
    order = sorted(range(len(records)), key=lambda k: -_cost(records[k]))
    chunks = [[records[k] for k in order[c::nchunks]] for c in range(nchunks)]
    rejects = []

    def one(a):
        k, ch = a
        if not ch:
            return []
        res, rej = ctx.validate_trace("Trace_MeshGeom", TRACE_CFG, [_slim(r) for r in ch], tag=f"{tag}-{k}", timeout=3000,
                                      env={"JAVA_TOOL_OPTIONS": "-XX:ParallelGCThreads=2 -XX:CICompilerCount=2"})
        return rej

    with cf.ThreadPoolExecutor(max_workers=min(12, len(chunks) or 1)) as ex:
        for rej in ex.map(one, list(enumerate(chunks))):
            rejects.extend(rej)
    for rj in rejects:
        rec = records[rj["id"]]
        inst = rec.get("inst", {})
        desc = {k: rec[k] for k in ("api", "cls", "via", "my", "mx", "b", "bdef", "H", "W", "Q", "extdef", "raised", "hist") if k in rec and rec[k] not in ("", [])}
        desc["tick"] = inst.get("tau")
        where = rec.get("V") or rec.get("pts")
        what = f"{desc} on {str(where)[:200]}: failed {rj['clauses']}; want={str(rj.get('want'))[:300]}"
        ctx.violation(rj["sig"], what, {"inst": inst, "api": rec["api"], "record": {k: v for k, v in rec.items() if k != "inst"},
                                        "failed_clauses": rj["clauses"], "spec_wanted": rj.get("want")}, cls=",".join(rj["clauses"]))
    return rejects


def bounds_for(quick):
    if quick:
        return {"rect_shapes_up_to": [4, 5], "lattice": 5, "exhaustive_vertices_up_to": 4, "classes_per_enumerated_set": 1,
                "random_5x5_sets_5_to_7": 400, "random_7x7_sets_5_to_9": 120, "random_jittered_sets_10_to_40": 8,
                "random_rect_meshes": 150, "triangle_area_calls": 60}
    # thorough: the 5x5 sets of 5 vertices are exhaustive, so the random 5x5 sets have 6..7 vertices
    return {"rect_shapes_up_to": [6, 7], "lattice": 5, "exhaustive_vertices_up_to": 5, "classes_per_enumerated_set": 2,
            "random_5x5_sets_5_to_7": 8000, "random_7x7_sets_5_to_9": 4000, "random_jittered_sets_10_to_40": 150,
            "random_rect_meshes": 2000, "triangle_area_calls": 600}


def run(ctx):
    import time

    t0 = time.time()
    b = bounds_for(ctx.quick)
    ctx.bounds = dict(b, spans=SPANS, buffers=BUFFERS, ticks_triangulation=TAUS_TRI, ticks_rectangular=TAUS_RECT)
    rng = np.random.default_rng([ctx.seed, 9])
    shapes = [(a, c) for a in range(1, b["rect_shapes_up_to"][0] + 1) for c in range(1, b["rect_shapes_up_to"][1] + 1)]
    L = b["lattice"]
    rect, tri, res = enumerate_machine(ctx, shapes, L, b["exhaustive_vertices_up_to"])
    ctx.exhaustive = True
    t1 = time.time()
    full = not ctx.quick
    classes = ["Mesh2DDelaunay", "Mesh2DVoronoi"]

    # ---- enumerated instances -> real API ------------------------------------------------------------------------------
    titems = []
    for k, cells in enumerate(tri):
        V0 = [(c // L, c % L) for c in cells]
        if b["classes_per_enumerated_set"] == 2:
            titems.append((2 * k, V0, classes[0], k % 4 == 0))
            titems.append((2 * k + 1, V0, classes[1], False))
        else:
            titems.append((k, V0, classes[(k + ctx.seed) % 2], k % 4 == 0))
    recs = []
    for part in core.pmap(_tri_many, [(titems[k: k + 60], ctx.seed, full) for k in range(0, len(titems), 60)]):
        recs.extend(part)
    ritems = list(enumerate(rect))
    for part in core.pmap(_rect_many, [(ritems[k: k + 40], ctx.seed, full) for k in range(0, len(ritems), 40)]):
        recs.extend(part)
    n_enum = len(recs)
    ctx.replayed = len(titems) + len(ritems)

    # ---- seeded random larger instances ----------------------------------------------------------------------------------
    kinds = ["5x5" if ctx.quick else "5x5+"] * b["random_5x5_sets_5_to_7"] + ["7x7"] * b["random_7x7_sets_5_to_9"] + ["jit"] * b["random_jittered_sets_10_to_40"]
    sets = core.pmap(_random_sets, [(ctx.seed, kd, k) for k, kd in enumerate(kinds)])
    sets = [s for s in sets if s is not None]
    ritems2 = [(10 ** 6 + k, s, classes[k % 2], False) for k, s in enumerate(sets)]
    for part in core.pmap(_tri_many, [(ritems2[k: k + 8], ctx.seed + 1, True) for k in range(0, len(ritems2), 8)]):
        recs.extend(part)
    big = []
    for k in range(b["random_rect_meshes"]):
        my, mx = (int(rng.integers(1, 13)), int(rng.integers(1, 16))) if k % 4 else (int(rng.choice([1, 2, 3])), int(rng.integers(1, 16)))
        y0, x0 = int(rng.integers(-30, 25)), int(rng.integers(-30, 25))
        ys = (y0, y0 + int(rng.integers(0, 9)))
        xs = (x0, x0 + int(rng.integers(0, 9)))
        bb = int(rng.integers(0, 4))
        if (ys[0] == ys[1] or xs[0] == xs[1]) and bb == 0:
            bb = 1
        big.append((10 ** 6 + k, (my, mx, ys, xs, bb)))
    for part in core.pmap(_rect_many, [(big[k: k + 20], ctx.seed + 1, True) for k in range(0, len(big), 20)]):
        recs.extend(part)
    recs.extend(triarea_records(rng, b["triangle_area_calls"]))

    smp = [r for r in recs if r["api"] == "tri" and len(r["V"]) == 5 and r["parts"] == ["nbr", "edge", "areas"] and len(r["unb"]) < 5]
    if smp:
        ctx.sample({"triangulation_record": {k: v for k, v in smp[len(smp) // 2].items() if k not in ("inst", "id")}})
    smp = [r for r in recs if r["api"] == "rnbr" and (r["my"], r["mx"]) == (2, 3)]
    if smp:
        ctx.sample({"rectangular_neighbour_record": {k: v for k, v in smp[0].items() if k not in ("inst", "id")}})
    smp = [r for r in recs if r["api"] == "split" and len(r["V"]) == 6]
    if smp:
        ctx.sample({"split_cross_record": {k: v for k, v in smp[len(smp) // 2].items() if k not in ("inst", "id")}})
    t2 = time.time()
    validate(ctx, recs, "X09")
    ctx.note(f"phases: bounded machine {t1 - t0:.1f}s, real API + abstraction {t2 - t1:.1f}s, trace validation {time.time() - t2:.1f}s")
    by = {}
    for r in recs:
        by[r["api"]] = by.get(r["api"], 0) + 1
    ctx.note(f"machine: {len(rect)} rectangular meshes (shapes 1..{b['rect_shapes_up_to'][0]} x 1..{b['rect_shapes_up_to'][1]}, {len(SPANS)}^2 boxes incl. "
             f"one-sided and single-row/column grids, buffers {BUFFERS}) and every set of <= {b['exhaustive_vertices_up_to']} points of the "
             f"{L}x{L} lattice ({len(tri)} in general position, tabulated); {res.distinct} states; {n_enum} records from the enumerated meshes + "
             f"{len(recs) - n_enum} from {len(sets)} random larger vertex sets, {len(big)} random rectangular meshes and direct utility calls; by api: {by}")
    ctx.note("queries covered: Mesh2DRectangular.overlay_grid / pixels / shape_native / pixel_scales / origin / geometry.extent / neighbors / "
             "edge_pixel_list / interpolated_array_from; mesh_util.rectangular_neighbors_from / rectangular_edge_pixel_list_from / "
             "delaunay_triangle_area_from; Mesh2DDelaunay and Mesh2DVoronoi: neighbors (vertex_neighbor_vertices and ridge_points paths) / "
             "edge_pixel_list / voronoi_pixel_areas / voronoi_pixel_areas_for_split + split_cross / areas_for_magnification (Voronoi) / "
             "interpolated_array_from (Delaunay: barycentric + nearest vertex; Voronoi: the griddata variant, the natural-neighbour C "
             "extension is not installed) / pixels / origin / geometry.extent.  voronoi_revised_from (a plotting helper that closes "
             "unbounded regions at an arbitrary radius) is not judged.")
    ctx.note("observation (not judged, nothing documented): the Array2D returned by interpolated_array_from is centred on (0,0) whatever the "
             "extent, so its own geometry does not locate the interpolation points unless the extent is centred on the origin")
    ctx.assumptions = [
        "vertex sets are in general position: distinct, not all collinear, no vertex inside a side of the hull, no empty circle through "
        "four vertices (decided by the specification in integers; the generators use the same exact predicates only to draw inputs)",
        "coordinates are integer lattice points times a tick (dyadic and decimal); alpha divides by the tick, demands a residual below "
        "1e-6 lattice units and rejects anything else; areas / interpolated values are judged in fixed point with the derived bounds of "
        "Trace_MeshGeom.tla (scales F, G are powers of ten chosen so that every product stays below 2^31)",
        "three vertices: qhull cannot build a Voronoi diagram (MeshException, as documented for ill-posed inputs); only the Delaunay "
        "neighbour table and interpolation are judged there",
        "split cross: the cap is the 90th percentile (numpy's rule) of the area vector in which unbounded cells stand as -1, which is what "
        "the code computes and what the repository's own test pins; where this cap is not positive the documented square root does not "
        "exist and the record is rejected (known finding)",
        "outside the convex hull only the Delaunay class is judged (value of a nearest vertex, the rule the library documents for points "
        "in no triangle); on the hull boundary either rule is accepted; griddata-based variants are judged strictly inside the hull",
        "the default buffer 1e-8 of overlay_grid is judged as zero with a tolerance of 1e-5 ticks (ticks >= 0.1)",
        "interpolation shapes are at least 2x2 (Grid2D.from_extent needs two points per axis)",
    ]


def replay(ctx, rp):
    inst = rp["inst"]
    if inst["kind"] == "tri":
        recs = [r for r in tri_records(dict(inst, emit=["tri", "split", "tinterp"])) if r["api"] == rp.get("api", r["api"])]
    elif inst["kind"] == "rect":
        recs = [r for r in rect_records(inst) if r["api"] == rp.get("api", r["api"])]
    elif inst["kind"] == "triarea":
        from autoarray.inversion.pixelization.mesh import mesh_util

        a = mesh_util.delaunay_triangle_area_from(*(tuple(np.array(p, dtype=float) * inst["tau"]) for p in inst["pts"]))
        recs = [{"api": "triarea", "inst": inst, "pts": inst["pts"], "out2": a_int(2.0 * a, inst["tau"] ** 2)}]
    else:
        raise core.MachineryError(f"unknown instance kind in replay file: {inst.get('kind')}")
    rej = validate(ctx, recs, "X09-replay")
    print("replayed", len(recs), "record(s); rejected:", [(r["sig"], r["clauses"]) for r in rej])
    return ctx.finish()
