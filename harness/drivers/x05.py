"""X05 -- adaptive sub-size schemes assign each pixel the documented sub size, and everything derived from a per-pixel
sub-size array is consistent with it.

Extends the finished over-sampling check (C09: partition / binning / decorator / iterative scheme) by what C09 takes as
given: where the per-pixel sub sizes come from and the quantities / index maps derived from them.

SubSizes.tla has four bounded machines:
  R  from_radial_bins / from_adaptive_scheme: every mask of small frames x geometries x centre lists x bins; one action per
     centre folded into the running per-pixel maximum (the way the implementation is built), theorems relating it to the
     statement's "bin of the distance to the nearest centre" and to half-open rings;
  A  from_adapt: data x noise x cut x (lower, upper); the cut, then the threshold;
  P  quantities derived from a per-pixel sub-size array and the helper index maps (refined mask, numbering);
  H  histories of queries on samplers made from ONE OverSamplingUniform (second mask through over_sampler_from).
S->C: every enumerated instance is replayed through the real API (P instances as query histories in the orders that the
      H machine's simulated behaviours prescribe); C->S: every result is abstracted onto the lattice by a rejecting alpha
      and judged by TLC against Trace_SubSizes.tla, also for seeded random larger instances (masks up to 12x12)."""
import glob
import json
import math
import os
import threading

import numpy as np

from harness import core

# concrete tick lengths (gamma): the first four are powers of two (every float operation on the lattice is exact)
TAUS = [2.0**-6, 2.0**-3, 1.0, 2.0**4, 0.05, 0.1, 1.0 / 3.0, 0.7]
N_DYADIC = 4
QUERIES = ("total", "length", "frac", "areas", "sfs", "grid", "nsm")
CACHED = ("sfs", "grid", "nsm")  # cached properties of OverSamplerUniform
LATTICE_FREE = ("total", "length", "frac", "sfs", "nsm")  # need no sub-pixel lattice
SCHEMES = ("XBinsDecreasing", "XBinsOne", "XBinsNotMonotone", "XBinsFlat")  # harness/conf_x05/grids.yaml
JVM = {"JDK_JAVA_OPTIONS": "-Xmx3g"}
JVM_TRACE = {"JDK_JAVA_OPTIONS": "-Xmx2g -XX:ParallelGCThreads=2 -XX:CICompilerCount=2"}

IDLE = {"RFams": "= {}", "AFams": "= {}", "PFams": "= {}", "HQueries": "= {}", "HCached": "= {}", "HMaxLog": "= 0"}


def _cfg(over, spec, invs=(), post=None):
    c = dict(IDLE)
    c.update(over)
    out = "CONSTANTS\n" + "".join(f"  {k} {v}\n" for k, v in c.items()) + f"SPECIFICATION {spec}\n"
    out += "".join(f"INVARIANT {i}\n" for i in invs)
    if post:
        out += f"POSTCONDITION {post}\n"
    return out


R_INVS = ("RInputsOk", "RFoldIsRunningMax", "RNearestIsMaxWhenNonIncreasing", "RNearestIsMaxForOneCentre",
          "RFirstEdgeIsHalfOpenRing", "RSubSizesComeFromTheList", "RPixelAtACentre", "RCodeSnapAgreesBelowRightOfTopLeft",
          "RSnapIsInOwnPixel")
A_INVS = ("AInputsOk", "ACodeCutIsDocumentedCut", "AResultIsDocumented", "ABrightestGetsUpper", "AUpperSetIsUpClosed",
          "AOnlyTheTwoValues")
P_INVS = ("PInstOnLattice", "PCountIsSumOfSquares", "PLengthTimesAreaIsPixelArea", "PNativeSubInParent", "PIndexMapsConsistent")
H_INVS = ("HAnswersFromOwnMaskAndSubSizes", "HKeptAnswersAreOwn", "HSecondOnlyAfterFirst")
TRACE_CFG = _cfg({}, "TraceSpec", post="TraceAccepted")
H_DEFS = ("MCQ == {" + ", ".join(f'"{q}"' for q in QUERIES) + "}\nMCC == {" + ", ".join(f'"{q}"' for q in CACHED) + "}\n")


# ---------------------------------------------------------------------------------------------
# TLA+ literals
# ---------------------------------------------------------------------------------------------
def _t(x):
    """Python value -> TLA+ literal: tuple = sequence, frozenset/set = set, str, bool, int."""
    if isinstance(x, bool):
        return "TRUE" if x else "FALSE"
    if isinstance(x, (int, np.integer)):
        return str(int(x))
    if isinstance(x, str):
        return json.dumps(x)
    if isinstance(x, (tuple, list)):
        return "<<" + ", ".join(_t(v) for v in x) + ">>"
    if isinstance(x, (set, frozenset)):
        return "{" + ", ".join(sorted(_t(v) for v in x)) + "}"
    raise TypeError(type(x))


# ---------------------------------------------------------------------------------------------
# configuration of the adaptive scheme (own config directory pushed on top of harness/conf)
# ---------------------------------------------------------------------------------------------
_CONF = []


def _conf():
    if not _CONF:
        from autoconf import conf

        conf.instance.push(new_path=os.path.join(os.path.dirname(os.path.dirname(os.path.abspath(__file__))), "conf_x05"))
        _CONF.append(True)


def scheme_bins(name):
    """(sub sizes, squared radial factors as [num, den]) of a configured scheme, read back from the configuration."""
    from autoconf import conf

    _conf()
    subs = [int(s) for s in conf.instance["grids"]["over_sampling"]["sub_size_list"][name]]
    facs = [float(f) for f in conf.instance["grids"]["over_sampling"]["radial_factor_list"][name]]
    f2 = []
    for f in facs:
        c = round(f * 10)
        if abs(f * 10 - c) > 1e-9 or c % 2 == 0 or c % 5 == 0:
            raise core.MachineryError(f"radial factor {f} of scheme {name} is not an odd number of tenths prime to 5")
        f2.append([c * c, 100])
    return subs, f2


# ---------------------------------------------------------------------------------------------
# alpha: floats -> lattice integers, counting (never hiding) what is off the lattice
# ---------------------------------------------------------------------------------------------
def _alpha(x, scale=1.0, tol=1e-6):
    a = np.asarray(x, dtype=float).ravel() / scale
    r = np.rint(a)
    with np.errstate(invalid="ignore"):
        bad = ~np.isfinite(a) | (np.abs(a - r) > tol + 1e-12 * np.abs(r)) | (np.abs(r) >= 2**30)
    r = np.where(bad, -2.0, r)
    return [int(v) for v in r], int(np.count_nonzero(bad))


def _lcm(xs):
    out = 1
    for x in xs:
        out = out * int(x) // math.gcd(out, int(x))
    return out


def _exc(e):
    return f"{type(e).__name__}: {str(e)[:120]}"


# ---------------------------------------------------------------------------------------------
# gamma: abstract instance -> concrete objects
# ---------------------------------------------------------------------------------------------
def _mask(rec, tau=None):
    import autoarray as aa

    tau = TAUS[rec["ti"]] if tau is None else tau
    h, w = rec["h"], rec["w"]
    m = np.ones(h * w, dtype=bool)
    m[rec["u"]] = False
    return aa.Mask2D(mask=m.reshape(h, w), pixel_scales=(rec["sy"] * tau, rec["sx"] * tau), origin=(rec["oy"] * tau, rec["ox"] * tau))


def _lattice_centres(rec):
    """Pixel centres of the unmasked pixels in ticks (integers), slim order."""
    u = np.array(rec["u"], dtype=np.int64)
    i, j = u // rec["w"], u % rec["w"]
    if rec["sy"] % 2 or rec["sx"] % 2:
        raise core.MachineryError(f"driver produced odd pixel scales: {rec}")
    y = rec["oy"] + (rec["h"] - 1 - 2 * i) * (rec["sy"] // 2)
    x = rec["ox"] + (2 * j - (rec["w"] - 1)) * (rec["sx"] // 2)
    return np.stack([y, x], axis=1)


def _same_mask(a, b):
    try:
        return int(a is b or (np.array_equal(np.array(a), np.array(b)) and tuple(a.pixel_scales) == tuple(b.pixel_scales)
                               and tuple(a.origin) == tuple(b.origin)))
    except Exception:
        return 0


def _result_fields(ss, mask):
    """alpha of a returned per-pixel sub-size array."""
    import autoarray as aa

    out = {"isarr": int(isinstance(ss, aa.Array2D))}
    out["onmask"] = _same_mask(getattr(ss, "mask", None), mask) if out["isarr"] else 0
    out["sub"], off1 = _alpha(np.array(ss.slim), 1.0, tol=0.0)
    out["nat"], off2 = _alpha(np.array(ss.native), 1.0, tol=0.0)
    out["off"] = off1 + off2
    out["dt"] = "float" if np.asarray(ss).dtype.kind == "f" else "int"
    return out


# ---------------------------------------------------------------------------------------------
# queries of a sampler
# ---------------------------------------------------------------------------------------------
def _ask(os_, q, tau):
    if q == "total":
        v = os_.sub_total
        return ([int(v)], 0) if float(v) == int(v) else ([-2], 1)
    if q == "length":
        return _alpha(np.array(os_.sub_length), 1.0, tol=0.0)
    if q == "frac":
        f = np.array(os_.sub_fraction, dtype=float).ravel()
        with np.errstate(all="ignore"):
            den = np.rint(1.0 / f)
            bad = ~np.isfinite(den) | (np.abs(f * den - 1.0) > 1e-12) | (np.abs(den) >= 2**30)
        den = np.where(bad, -2.0, den)
        return [int(v) for v in den], int(np.count_nonzero(bad))
    if q == "areas":
        return _alpha(np.array(os_.sub_pixel_areas), tau * tau)
    if q == "sfs":
        return _alpha(np.array(os_.slim_for_sub_slim), 1.0, tol=0.0)
    if q == "grid":
        return _alpha(np.array(os_.over_sampled_grid).reshape(-1, 2), tau)
    if q == "nsm":
        return _alpha(np.array(os_.sub_mask_native_for_sub_mask_slim).reshape(-1, 2), 1.0, tol=0.0)
    raise ValueError(q)


def _query_record(base, os_, q, tau, o, nq, again):
    out = dict(base, api="query", q=q, val=[], off=0, exc="", o=o, nq=nq, again=int(again))
    try:
        out["val"], out["off"] = _ask(os_, q, tau)
    except core.MachineryError:
        raise
    except Exception as e:  # an exception of the code under test on a valid input is a verdict, not a machinery failure
        out["exc"] = _exc(e)
    return out


def _geo(rec):
    return {k: rec[k] for k in ("h", "w", "u", "sy", "sx", "oy", "ox")}


def _lattice_ok(rec, sub):
    L = _lcm(sub)
    return rec["sy"] % (2 * L) == 0 and rec["sx"] % (2 * L) == 0


# ---------------------------------------------------------------------------------------------
# radial bins / adaptive scheme
# ---------------------------------------------------------------------------------------------
def _radial_tie_possible(rec):
    return rec["via"] == "bins" and any(t[0] % t[1] == 0 for t in rec["tt"])


def gen_radial(arg):
    """arg: h,w,u,sy,sx,oy,ox, via, s, tt, name, cl (absolute ticks), ti, chain (queries asked of the sampler made from the
    returned object), explicit (build the grid from explicit values).  Returns the radial record followed by the query
    records of the chain."""
    import autoarray as aa

    rec = dict(arg)
    tau = TAUS[rec["ti"]]
    dyadic = rec["ti"] < N_DYADIC
    if _radial_tie_possible(rec) and not dyadic:
        raise core.MachineryError(f"driver paired bin edges that admit ties with a non-dyadic tick: {rec}")
    if rec["via"] == "scheme" and min(rec["sy"], rec["sx"]) % 10 == 0:
        raise core.MachineryError(f"scheme instance admits ties: {rec}")
    chain = rec.pop("chain", [])
    out = dict(rec, api="radial", exact=int(dyadic), sub=[], off=0, nat=[], onmask=0, isarr=0, exc="", dt="", refused=0)
    recs = [out]
    try:
        mask = _mask(rec)
        pts = _lattice_centres(rec).astype(float) * tau
        grid = aa.Grid2D.from_mask(mask=mask)
        if rec.get("explicit") or (dyadic and not np.array_equal(np.array(grid), pts)):
            grid = aa.Grid2D(values=pts, mask=mask)  # exactly the lattice points
        if dyadic and not np.array_equal(np.array(grid), pts):
            raise core.MachineryError("grid is not exactly on the dyadic lattice")
        centres = [(c[0] * tau, c[1] * tau) for c in rec["cl"]]
        if rec["via"] == "bins":
            rl = [float(np.sqrt(np.float64(a) / b * tau * tau)) for a, b in rec["tt"]]
            kw = dict(grid=grid, sub_size_list=[int(s) for s in rec["s"]], radial_list=rl)
            if centres:
                kw["centre_list"] = centres
            ov = aa.OverSamplingUniform.from_radial_bins(**kw)
        else:
            _conf()
            ov = aa.OverSamplingUniform.from_adaptive_scheme(grid=grid, name=rec["name"], centre=centres[0])
        out.update(_result_fields(ov.sub_size, mask))
    except core.MachineryError:
        raise
    except Exception as e:
        out["exc"] = _exc(e)
        out["refused"] = int(type(e).__name__ == "GridException")  # the documented refusal of from_adaptive_scheme
        return recs
    if chain and out["off"] == 0 and len(out["sub"]) == len(rec["u"]) and min(out["sub"]) >= 1:
        base = dict(_geo(rec), ti=rec["ti"], sub=out["sub"], dt=out["dt"],
                    rep="from_radial_bins" if rec["via"] == "bins" else "from_adaptive_scheme")
        os_ = ov.over_sampler_from(mask=mask)
        seen = set()
        for n, q in enumerate(chain):
            if q in ("grid", "areas") and not _lattice_ok(rec, out["sub"]):
                continue
            recs.append(_query_record(base, os_, q, tau, 0, n, q in seen))
            seen.add(q)
    return recs


# ---------------------------------------------------------------------------------------------
# signal-to-noise rule
# ---------------------------------------------------------------------------------------------
def gen_adapt(arg):
    """arg: h,w,u (mask holding the pixels), d, nz, cut [num,den], lo, up, store, kd, kn (powers of two scaling data and
    noise), chain."""
    import autoarray as aa

    rec = dict(arg)
    chain = rec.pop("chain", [])
    out = dict(rec, api="adapt", sub=[], off=0, nat=[], onmask=0, isarr=0, exc="", dt="")
    recs = [out]
    geo = dict(h=rec["h"], w=rec["w"], u=rec["u"], sy=2 * _lcm([rec["lo"], rec["up"]]), sx=4 * _lcm([rec["lo"], rec["up"]]), oy=6, ox=-4, ti=1)
    try:
        mask = _mask(geo)
        td, tn = 2.0 ** rec["kd"], 2.0 ** rec["kn"]
        data = aa.Array2D(values=np.array(rec["d"], dtype=float) * td, mask=mask)
        noise = aa.Array2D(values=np.array(rec["nz"], dtype=float) * tn, mask=mask)
        if rec["store"] == "native":
            data, noise = data.native, noise.native
        cut = rec["cut"][0] / rec["cut"][1] * (td / tn)
        ov = aa.OverSamplingUniform.from_adapt(data=data, noise_map=noise, signal_to_noise_cut=cut,
                                               sub_size_lower=int(rec["lo"]), sub_size_upper=int(rec["up"]))
        out.update(_result_fields(ov.sub_size, mask))
    except core.MachineryError:
        raise
    except Exception as e:
        out["exc"] = _exc(e)
        return recs
    if chain and out["off"] == 0 and len(out["sub"]) == len(rec["u"]) and min(out["sub"]) >= 1:
        base = dict(_geo(geo), ti=geo["ti"], sub=out["sub"], dt=out["dt"], rep="from_adapt")
        os_ = ov.over_sampler_from(mask=mask)
        seen = set()
        for n, q in enumerate(chain):
            recs.append(_query_record(base, os_, q, TAUS[geo["ti"]], 0, n, q in seen))
            seen.add(q)
    return recs


def _place(rng, n, max_side=3):
    """gamma for n abstract pixels: a mask with exactly n unmasked cells."""
    while True:
        h, w = int(rng.integers(1, max_side + 1)), int(rng.integers(1, max_side + 1))
        if h * w >= n:
            break
    return h, w, sorted(int(x) for x in rng.choice(h * w, size=n, replace=False))


# ---------------------------------------------------------------------------------------------
# query histories on samplers of ONE over-sampling object
# ---------------------------------------------------------------------------------------------
def _second_mask(m1, rep, sub):
    """The second mask a shared object is reused on: same number of unmasked pixels for a per-pixel array (mirrored
    layout), any layout for an int; other scales and origin, still on the lattice."""
    h, w = m1["h"], m1["w"]
    L = _lcm(sub)
    if rep == "int":
        h2, w2 = w + 1, h
        u2 = [k for k in range(h2 * w2) if (k * 7 + len(m1["u"])) % 3 != 0] or [0]
    else:
        h2, w2 = h, w
        u2 = sorted((c // w) * w + (w - 1 - c % w) for c in m1["u"])
    return dict(h=h2, w=w2, u=u2, sy=m1["sy"] + 2 * L, sx=m1["sx"] * 3, oy=m1["oy"] + 6, ox=m1["ox"] - 10)


def gen_hist(arg):
    """arg: m (first mask: h,w,u,sy,sx,oy,ox), sub, rep ("int" | "array"), how ("shared" | "direct"), ti,
    steps: list of ["make", o] / ["q", o, q] (o = 1, 2).  One record per query."""
    import autoarray as aa

    m1, sub, rep, tau = arg["m"], arg["sub"], arg["rep"], TAUS[arg["ti"]]
    if rep == "int" and len(set(sub)) != 1:
        raise core.MachineryError(f"int representation of a non-constant sub-size map: {arg}")
    masks = {1: m1, 2: _second_mask(m1, rep, sub)}
    for m in masks.values():
        if not _lattice_ok(m, sub):
            raise core.MachineryError(f"driver produced an off-lattice geometry: {m} for sub sizes {sub}")
    cm = {o: _mask(m, tau) for o, m in masks.items()}

    def sub_size():
        if rep == "int":
            return int(sub[0])
        return aa.Array2D(values=np.array(sub, dtype=int), mask=cm[1])

    ov = aa.OverSamplingUniform(sub_size=sub_size())
    samplers, asked, recs = {}, {1: [], 2: []}, []
    for st in arg["steps"]:
        if st[0] == "make":
            o = st[1]
            if arg["how"] == "direct" and o == 1:
                samplers[o] = aa.OverSamplerUniform(mask=cm[o], sub_size=sub_size())
            else:
                samplers[o] = ov.over_sampler_from(mask=cm[o])
            continue
        _, o, q = st
        sub_o = [int(sub[0])] * len(masks[o]["u"]) if rep == "int" else list(sub)
        base = dict(_geo(masks[o]), ti=arg["ti"], sub=sub_o, dt="int", rep=rep + "/" + arg["how"])
        recs.append(_query_record(base, samplers[o], q, tau, o - 1, len(asked[o]), q in asked[o]))
        asked[o].append(q)
    return recs


def behaviour_steps(states):
    """One simulated behaviour of HSpec -> steps."""
    steps = []
    made, nlog = set(), 0
    for _, st in states:
        m = st["made"]
        m = set(m["__set__"] if isinstance(m, dict) else m)
        for o in sorted(m - made):
            steps.append(["make", int(o)])
        made = m
        log = st["log"]
        for e in log[nlog:]:
            steps.append(["q", int(e[0]), str(e[1])])
            if int(e[2]) != int(e[0]):
                raise core.MachineryError(f"the H machine answered from another sampler: {log}")
        nlog = len(log)
    return steps


DEFAULT_STEPS = [["make", 1]] + [["q", 1, q] for q in QUERIES]


# ---------------------------------------------------------------------------------------------
# helper index maps
# ---------------------------------------------------------------------------------------------
def gen_maps(arg):
    """arg: h, w, u, n."""
    from autoarray.operators.over_sampling import over_sample_util as osu

    out = dict(arg, api="maps", total=-1, nsi=[], sfs=[], om=[], num=[], off=0, exc="")
    try:
        m = np.ones(arg["h"] * arg["w"], dtype=bool)
        m[arg["u"]] = False
        m = m.reshape(arg["h"], arg["w"])
        sub = np.full(len(arg["u"]), int(arg["n"]), dtype=int)
        tot = osu.total_sub_pixels_2d_from(sub_size=sub)
        nsi, o1 = _alpha(osu.native_sub_index_for_slim_sub_index_2d_from(mask_2d=m, sub_size=sub), 1.0, tol=0.0)
        sfs, o2 = _alpha(osu.slim_index_for_sub_slim_index_via_mask_2d_from(mask_2d=m, sub_size=sub), 1.0, tol=0.0)
        om = osu.oversample_mask_2d_from(mask=m, sub_size=int(arg["n"]))
        num = osu.sub_slim_index_for_sub_native_index_from(sub_mask_2d=om)
        ok_shape = tuple(np.shape(om)) == (arg["h"] * arg["n"], arg["w"] * arg["n"]) and np.shape(num) == np.shape(om)
        numl, o3 = _alpha(num, 1.0, tol=0.0)
        out.update(total=int(tot) if float(tot) == int(tot) else -2, nsi=nsi, sfs=sfs,
                   om=[int(bool(v)) for v in np.asarray(om).ravel()] if ok_shape else [], num=numl if ok_shape else [], off=o1 + o2 + o3)
    except core.MachineryError:
        raise
    except Exception as e:
        out["exc"] = _exc(e)
    return [out]


GEN = {"radial": gen_radial, "adapt": gen_adapt, "hist": gen_hist, "maps": gen_maps}


def _gen_many(jobs):
    out = []
    for kind, arg in jobs:
        recs = GEN[kind](arg)
        for k, r in enumerate(recs):
            r["gen"] = {"kind": kind, "arg": arg, "k": k}
        out.extend(recs)
    return out


# ---------------------------------------------------------------------------------------------
# jobs from enumerated instances
# ---------------------------------------------------------------------------------------------
def _pick_tau(rng, need_dyadic):
    return int(rng.integers(0, N_DYADIC)) if need_dyadic else int(rng.integers(0, len(TAUS)))


def radial_job(inst, seed, n):
    rng = np.random.default_rng([seed, n, 5])
    via = "scheme" if inst["name"] else "bins"
    arg = dict(h=inst["h"], w=inst["w"], u=list(inst["u"]), sy=inst["sy"], sx=inst["sx"], oy=inst["oy"], ox=inst["ox"], via=via,
               s=list(inst["s"]), tt=[list(t) for t in inst["tt"]], name=inst["name"], cl=[list(c) for c in inst["cl"]])
    arg["ti"] = _pick_tau(rng, _radial_tie_possible(arg))
    arg["explicit"] = int(rng.integers(0, 4) == 0)
    if n % 5 == 0:
        arg["chain"] = [QUERIES[int(k)] for k in rng.permutation(len(QUERIES))[:4]]
    return ("radial", arg)


def adapt_job(inst, seed, n):
    rng = np.random.default_rng([seed, n, 6])
    h, w, u = _place(rng, len(inst["d"]))
    arg = dict(h=h, w=w, u=u, d=list(inst["d"]), nz=list(inst["nz"]), cut=list(inst["cut"]), lo=inst["lo"], up=inst["up"],
               store=("slim", "native")[n % 2], kd=int(rng.integers(-3, 4)), kn=int(rng.integers(-3, 4)))
    if n % 7 == 0:
        arg["chain"] = [QUERIES[int(k)] for k in rng.permutation(len(QUERIES))[:3]]
    return ("adapt", arg)


def hist_job(inst, seed, n, pool):
    rng = np.random.default_rng([seed, n, 7])
    sub = list(inst["sub"])
    uniform = len(set(sub)) == 1
    rep = "int" if uniform and n % 2 == 0 else "array"
    steps = pool[n % len(pool)] if pool else DEFAULT_STEPS
    m = dict(h=inst["h"], w=inst["w"], u=list(inst["u"]), sy=inst["sy"], sx=inst["sx"], oy=inst["oy"], ox=inst["ox"])
    return ("hist", dict(m=m, sub=sub, rep=rep, how=("shared", "direct")[int(rng.integers(0, 3) == 0)], ti=int(rng.integers(0, len(TAUS))), steps=steps))


# ---------------------------------------------------------------------------------------------
# seeded random larger instances
# ---------------------------------------------------------------------------------------------
def _random_mask(rng, k, max_side, min_side=2):
    h = int(rng.integers(min_side, max_side + 1))
    w = int(rng.integers(min_side, max_side + 1))
    m = rng.random((h, w)) < rng.choice([0.25, 0.6, 0.9])
    if k % 5 == 1:
        m[:, ::2] = True
    if k % 5 == 2:
        m[int(rng.integers(0, h)), :] = False
    if not m.any():
        m[int(rng.integers(0, h)), int(rng.integers(0, w))] = True
    return h, w, [int(x) for x in np.flatnonzero(m.ravel())]


def random_radial_jobs(rng, n, max_side):
    jobs = []
    for k in range(n):
        h, w, u = _random_mask(rng, k, max_side)
        sy, sx = 2 * int(rng.integers(1, 5)), 2 * int(rng.integers(1, 5))
        if k % 3 == 0:
            sx = sy
        oy, ox = int(rng.integers(-30, 31)), int(rng.integers(-30, 31))
        ry, rx = h * sy // 2 + 2 * sy, w * sx // 2 + 2 * sx  # centres: inside, on pixel centres, outside the frame
        if k % 4 == 3:  # the configured scheme
            name = SCHEMES[int(rng.integers(0, len(SCHEMES)))]
            if min(sy, sx) % 10 == 0:
                sy, sx = sy + 2, sx + 2
            s, f2 = scheme_bins(name)
            while True:
                c = [oy + int(rng.integers(-ry, ry + 1)), ox + int(rng.integers(-rx, rx + 1))]
                if (oy + h * sy // 2 - c[0]) % sy and (c[1] - (ox - w * sx // 2)) % sx:
                    break
            arg = dict(h=h, w=w, u=u, sy=sy, sx=sx, oy=oy, ox=ox, via="scheme", s=s, tt=f2, name=name, cl=[c])
        else:
            nb = int(rng.integers(0, 5))
            ties = k % 4 == 1
            rmax = (max(ry, rx) * 3) // 2
            r2 = sorted({int(v) for v in rng.integers(1, rmax * rmax + 1, size=nb)})
            tt = [[2 * v, 2] if ties else [2 * v + 1, 2] for v in r2]
            ns = len(tt) + int(rng.integers(0, 2)) if tt else 1
            s = [int(v) for v in rng.integers(1, 5, size=ns)]
            if k % 2 == 0:
                s = sorted(s, reverse=True)
            nc = int(rng.integers(0, 4))
            cl = []
            for _ in range(nc):
                if rng.integers(0, 3) == 0 and u:  # on a pixel centre
                    c = int(rng.choice(u))
                    cl.append([oy + (h - 1 - 2 * (c // w)) * (sy // 2), ox + (2 * (c % w) - (w - 1)) * (sx // 2)])
                else:
                    cl.append([oy + int(rng.integers(-ry, ry + 1)), ox + int(rng.integers(-rx, rx + 1))])
            if ties and tt and cl:  # put one bin edge exactly through a pixel centre
                cells = np.array(u)
                p = int(rng.integers(0, len(cells)))
                py = oy + (h - 1 - 2 * (int(cells[p]) // w)) * (sy // 2)
                px = ox + (2 * (int(cells[p]) % w) - (w - 1)) * (sx // 2)
                d2 = (py - cl[0][0]) ** 2 + (px - cl[0][1]) ** 2
                if d2 > 0:
                    tt = sorted({(2 * d2, 2)} | {tuple(t) for t in tt})
                    tt = [list(t) for t in tt]
                    ns = len(tt) + int(rng.integers(0, 2))
                    s = [int(v) for v in rng.integers(1, 5, size=ns)]
            arg = dict(h=h, w=w, u=u, sy=sy, sx=sx, oy=oy, ox=ox, via="bins", s=s, tt=tt, name="", cl=cl)
        arg["ti"] = _pick_tau(rng, _radial_tie_possible(arg))
        arg["explicit"] = int(rng.integers(0, 4) == 0)
        if k % 4 == 0:
            arg["chain"] = [q for q in LATTICE_FREE if rng.integers(0, 2)]
        jobs.append(("radial", arg))
    return jobs


def random_adapt_jobs(rng, n, max_side):
    jobs = []
    for k in range(n):
        h, w, u = _random_mask(rng, k, max_side, 1)
        lo, hi = ((-5, 20), (0, 6), (1, 40), (-9, -1))[k % 4]
        d = [int(v) for v in rng.integers(lo, hi + 1, size=len(u))]
        nz = [int(v) for v in rng.integers(1, 5, size=len(u))]
        cut = [(5, 1), (3, 2), (1, 1), (10, 1), (7, 4), (0, 1), (-1, 1)][int(rng.integers(0, 7))]
        if k % 3 == 0:  # a cut that some pixel meets exactly
            p = int(rng.integers(0, len(u)))
            if d[p] != 0:
                cut = (d[p], nz[p])
        pair = [(2, 4), (1, 3), (4, 2), (2, 2), (1, 8)][int(rng.integers(0, 5))]
        jobs.append(("adapt", dict(h=h, w=w, u=u, d=d, nz=nz, cut=list(cut), lo=pair[0], up=pair[1], store=("slim", "native")[k % 2],
                                   kd=int(rng.integers(-4, 5)), kn=int(rng.integers(-4, 5)),
                                   chain=[q for q in LATTICE_FREE if rng.integers(0, 3) == 0] if len(u) <= 40 else [])))
    return jobs


def random_hist_jobs(rng, n, max_side, pool):
    jobs = []
    for k in range(n):
        h, w, u = _random_mask(rng, k, max_side)
        big = len(u) > 40
        subs = (1, 2, 3, 4) if not big else (1, 2, 3)
        style = k % 3
        if style == 0:
            sub = [int(rng.choice(subs + (8,) if len(u) <= 16 else subs))] * len(u)
        elif style == 1:
            sub = [int(x) for x in rng.choice(subs, size=len(u))]
        else:  # adaptive-like: large in the middle, one at the rim
            sub = [int(subs[-1]) if (abs(c // w - (h - 1) / 2) <= 1 and abs(c % w - (w - 1) / 2) <= 1) else 1 for c in u]
        L = _lcm(sub)
        my, mx = (int(rng.integers(1, 3)), int(rng.integers(1, 3))) if L <= 12 else (1, 1)
        inst = dict(h=h, w=w, u=u, sub=sub, sy=2 * L * my, sx=2 * L * mx, oy=int(rng.integers(-20, 21)), ox=int(rng.integers(-20, 21)))
        jobs.append(hist_job(inst, int(rng.integers(0, 2**31)), k, pool))
    return jobs


def random_maps_jobs(rng, n, max_side):
    jobs = []
    for k in range(n):
        h, w, u = _random_mask(rng, k, max_side, 1)
        nmax = 4 if h * w > 36 else 8
        jobs.append(("maps", dict(h=h, w=w, u=u, n=int(rng.integers(1, nmax + 1)))))
    return jobs


# ---------------------------------------------------------------------------------------------
# validation through the trace specification
# ---------------------------------------------------------------------------------------------
def _describe(rec):
    api = rec["api"]
    s = f"{api}"
    if api == "radial":
        s += f" via {'from_radial_bins' if rec['via'] == 'bins' else 'from_adaptive_scheme(' + rec['name'] + ')'}"
    if api == "query":
        s += f" {rec['q']} of a sampler ({rec['rep']}, {rec['dt']} sub sizes, sampler #{rec['o'] + 1}, {rec['nq']} earlier queries)"
    s += f" on {rec['h']}x{rec['w']} mask u={rec['u']}"
    if "sy" in rec:
        s += f" scales=({rec['sy']},{rec['sx']}) origin=({rec['oy']},{rec['ox']}) ticks"
    if "ti" in rec:
        s += f" tau={TAUS[rec['ti']]:.6g}"
    if api == "radial":
        s += f" sub_size_list={rec['s']} squared {'factors' if rec['via'] == 'scheme' else 'radii'}={rec['tt']} centres={rec['cl'] or 'omitted'} got={rec['sub']}"
    if api == "adapt":
        s += f" data={rec['d']} noise={rec['nz']} cut={rec['cut']} lower={rec['lo']} upper={rec['up']} {rec['store']}-stored got={rec['sub']}"
    if api == "query":
        s += f" sub={rec['sub']}"
    if api == "maps":
        s += f" sub size {rec['n']}"
    if rec.get("exc"):
        s += f" raised {rec['exc']}"
    return s[:600]


def validate(ctx, records, tag, chunk=3500):
    import concurrent.futures as cf

    for n, r in enumerate(records):
        r["id"] = n
    slim = [{k: v for k, v in r.items() if k not in ("gen", "chain", "explicit")} for r in records]
    n = max(1, min(12, len(slim) // 200 or 1), -(-len(slim) // chunk))
    chunks = [slim[k::n] for k in range(n)]  # interleaved: costly records spread evenly
    rejects = []

    def one(args):
        k, ch = args
        _, rej = ctx.validate_trace("Trace_SubSizes", TRACE_CFG, ch, tag=f"{tag}-{k}", timeout=1800, env=JVM_TRACE)
        return rej

    with cf.ThreadPoolExecutor(max_workers=min(12, len(chunks))) as ex:
        for rej in ex.map(one, list(enumerate(chunks))):
            rejects.extend(rej)
    for rj in rejects:
        rec = records[rj["id"]]
        rp = {"record": {k: v for k, v in rec.items() if k != "gen"}, "gen": rec.get("gen"), "failed_clauses": rj["clauses"],
              "spec_wanted": rj.get("want")}
        ctx.violation(rj["sig"], f"{_describe(rec)}: failed {rj['clauses']}", rp, cls=",".join(rj["clauses"]))
    return rejects


# ---------------------------------------------------------------------------------------------
# bounded families
# ---------------------------------------------------------------------------------------------
GA, GB, GC = (4, 2, 0, 0), (2, 6, 3, -5), (6, 6, -7, 11)  # (sy, sx, oy, ox): anisotropic, anisotropic shifted, square shifted
GD, GE = (4, 6, 0, 0), (6, 4, 5, -3)  # the scheme's geometries
# single centres of the scheme (instances whose centre falls on a pixel edge are skipped by the machine): pixel centres of the
# even / odd frames, off-centre points, points outside the frame on every side
SCHEME_CENTRES = [((0, 0),), ((2, 3),), ((2, 0),), ((0, 3),), ((1, -1),), ((9, -8),), ((-9, 8),), ((-11, 14),), ((3, 2),), ((7, 1),), ((-1, -13),)]
CL_NONE, CL_ORIGIN, CL_OFF, CL_OUT = (), ((0, 0),), ((1, -1),), ((9, -8),)
CL_TWO, CL_THREE, CL_DUP, CL_OUT2 = ((2, 1), (-2, -1)), ((0, 0), (7, 7), (-3, 2)), ((2, -1), (2, -1)), ((-9, 8), (1, 0))
B_DEC = ((4, 2, 1), ((9, 2), (41, 2)), "")  # odd numerators: no pixel can sit on a bin edge
B_TIE = ((2, 3), ((8, 2), (32, 2)), "")  # r^2 = 4, 16: pixels exactly on the edges; as many sub sizes as edges
B_UNORD = ((1, 4, 2, 3), ((5, 2), (21, 2), (51, 2)), "")  # sub sizes in any order
B_NONE = ((3,), (), "")  # no edge at all
B_FLAT = ((2, 2, 1), ((3, 2), (13, 2)), "")
B_TIE3 = ((3, 1, 2), ((2, 2), (10, 2), (40, 2)), "")
B_WIDE = ((1, 2), ((201, 2),), "")
B_BIG = ((8, 1, 4, 2), ((9, 2), (41, 2), (101, 2)), "")  # thorough: sub sizes up to 8


def _scheme_bs(names):
    out = []
    for n in names:
        s, f2 = scheme_bins(n)
        out.append((tuple(s), tuple(tuple(t) for t in f2), n))
    return out


def r_families(quick):
    small = [(1, 1), (1, 2), (2, 1), (1, 3), (3, 1), (2, 2), (2, 3), (3, 2)]
    fams = []
    if quick:
        cls = (CL_NONE, CL_OFF, CL_OUT, CL_TWO, CL_THREE)
        bs = (B_DEC, B_TIE, B_UNORD, B_NONE)
        for h, w in small:
            fams.append((h, w, {GA, GB}, set(cls), set(bs)))
        fams.append((3, 3, {GA}, {CL_ORIGIN, CL_TWO}, {B_TIE3, B_UNORD}))
        sch = _scheme_bs(SCHEMES[:3])
        for h, w, g in ((2, 2, GE), (2, 3, GD), (3, 2, GE)):
            fams.append((h, w, {g}, set(SCHEME_CENTRES[:8]), set(sch)))
    else:
        cls = (CL_NONE, CL_ORIGIN, CL_OFF, CL_OUT, CL_TWO, CL_THREE, CL_DUP, CL_OUT2)
        bs = (B_DEC, B_TIE, B_UNORD, B_NONE, B_FLAT, B_TIE3, B_WIDE, B_BIG)
        for h, w in small + [(1, 4), (4, 1)]:
            fams.append((h, w, {GA, GB, GC}, set(cls), set(bs)))
        fams.append((3, 3, {GA, GC}, set(cls), set(bs)))
        sch = _scheme_bs(SCHEMES)
        for h, w in ((1, 1), (1, 3), (2, 2), (2, 3), (3, 2), (3, 3)):
            fams.append((h, w, {GD, GE}, set(SCHEME_CENTRES), set(sch)))
    return fams


def a_families(quick):
    cuts = {(5, 1), (3, 2), (1, 1), (0, 1)}
    pairs = {(2, 4), (3, 1)}
    if quick:
        return [(1, {-2, 0, 1, 3, 6}, {1, 2}, cuts, pairs), (2, {-2, 0, 1, 2, 3, 6}, {1, 2}, cuts, pairs),
                (3, {-2, 0, 1, 6}, {1, 2}, cuts, pairs)]
    cuts = cuts | {(-1, 1), (7, 4)}
    return [(1, {-2, 0, 1, 2, 3, 6}, {1, 2, 3}, cuts, pairs), (2, {-2, 0, 1, 2, 3, 6}, {1, 2, 3}, cuts, pairs),
            (3, {-2, 0, 1, 2, 3, 6}, {1, 2}, cuts, pairs), (4, {-2, 0, 1, 6}, {1, 2}, cuts, pairs)]


P0, P1, P2 = (1, 1, 0, 0), (1, 2, 2, -6), (3, 1, -10, 4)  # (my, mx, oy, ox)


def p_families(quick):
    F = (1, 2, 3, 4)
    if quick:
        fams = [(1, 1, F + (8,), False, {P0, P1}), (1, 2, F, False, {P1}), (2, 1, F, False, {P2}), (1, 3, F, False, {P1}),
                (3, 1, (1, 2, 4), False, {P2}), (2, 2, (1, 2, 3), False, {P1}), (2, 3, (2, 8), True, {P2}), (3, 2, (3, 4), True, {P1}),
                (3, 3, (1, 4), True, {P2})]
        return [(h, w, set(s), uni, gs) for h, w, s, uni, gs in fams]
    F8 = F + (8,)
    fams = [(1, 1, F8, False, {P0, P1, P2}), (1, 2, F8, False, {P0, P1, P2}), (2, 1, F8, False, {P0, P1, P2}), (1, 3, F8, False, {P1, P2}),
            (3, 1, F8, False, {P1, P2}), (2, 2, F, False, {P1, P2}), (2, 3, (1, 2, 3), False, {P1}), (3, 2, (1, 2, 4), False, {P2}),
            (2, 3, F8 + (5, 6, 7), True, {P0, P1, P2}), (3, 2, F8 + (5, 6, 7), True, {P0, P1, P2}), (3, 3, F8, True, {P1, P2}),
            (3, 3, (1, 2), False, {P1})]
    return [(h, w, set(s), uni, gs) for h, w, s, uni, gs in fams]


def _count(fams, per_mask):
    tot = 0
    for f in fams:
        h, w = f[0], f[1]
        for ncell in range(1, h * w + 1):
            tot += math.comb(h * w, ncell) * per_mask(f, ncell)
    return tot


def _enumerate(ctx, machine, spec, invs, const, fams, expect, states_per_inst, workers):
    res = ctx.tlc("SubSizes", _cfg({const: "<- MCF"}, spec, invs), defs="MCF == {" + ", ".join(_t(tuple(f)) for f in fams) + "}\n",
                  tag=f"MC_SubSizes{machine}", timeout=3000, workers=workers, env=JVM, coverage=True)
    insts = [r for r in res.by_kind("inst") if r.get("m") == machine]
    uniq = {json.dumps(r, sort_keys=True) for r in insts}
    if not insts or len(uniq) != len(insts) or len(insts) > expect or (states_per_inst and res.distinct < states_per_inst * len(insts)):
        raise core.MachineryError(f"SubSizes.tla ({machine}) enumerated {len(insts)} instances ({len(uniq)} distinct) / "
                                  f"{res.distinct} states; at most {expect} instances expected")
    # TLC's workers print in nondeterministic order: sort, so that index-based choices are reproducible
    return sorted(insts, key=lambda r: json.dumps(r, sort_keys=True))


# ---------------------------------------------------------------------------------------------
# the check
# ---------------------------------------------------------------------------------------------
def run(ctx):
    quick = ctx.quick
    _conf()
    rf, af, pf = r_families(quick), a_families(quick), p_families(quick)
    nsim = 150 if quick else 1200
    ctx.bounds = {
        "R_families(H,W,geometries(sy,sx,oy,ox),centre lists (offsets from the origin; () = omitted),bins(sub sizes, squared radii or squared "
        "factors [num,den], scheme name))": [[f[0], f[1], sorted(f[2]), sorted(f[3]), sorted(f[4], key=str)] for f in rf],
        "A_families(pixels,data values,noise values,cuts,(lower,upper))": [[f[0], sorted(f[1]), sorted(f[2]), sorted(f[3]), sorted(f[4])] for f in af],
        "P_families(H,W,sub sizes,one-for-all,geometries(my,mx,oy,ox))": [[f[0], f[1], sorted(f[2]), f[3], sorted(f[4])] for f in pf],
        "H_exhaustive_queries": 4 if quick else 5, "H_simulated_behaviours": nsim, "H_simulated_queries": 8,
        "random_radial": 240 if quick else 2400, "random_adapt": 160 if quick else 1600, "random_histories": 100 if quick else 1000,
        "random_maps": 80 if quick else 800, "random_max_side": 12,
    }
    bg_err, got = [], {}

    def bg(name, fn):
        def wrapped():
            try:
                got[name] = fn()
            except BaseException as e:  # noqa
                bg_err.append(e)

        th = threading.Thread(target=wrapped)
        th.start()
        return th

    prefix = ctx.work / "simH"
    hcfg = {"HQueries": "<- MCQ", "HCached": "<- MCC"}
    th_sim = bg("sim", lambda: ctx.tlc("SubSizes", _cfg(dict(hcfg, HMaxLog="= 8"), "HSpec", H_INVS), defs=H_DEFS, tag="SIM_SubSizesH",
                                       timeout=3000, workers=1, env=JVM, simulate=f"file={prefix},num={nsim}", depth=11, seed=ctx.seed))
    th_h = bg("H", lambda: ctx.tlc("SubSizes", _cfg(dict(hcfg, HMaxLog=f"= {ctx.bounds['H_exhaustive_queries']}"), "HSpec", H_INVS),
                                   defs=H_DEFS, tag="MC_SubSizesH", timeout=3000, workers=2, env=JVM, coverage=True))
    th_a = bg("A", lambda: _enumerate(ctx, "A", "ASpec", A_INVS, "AFams", af,
                                      sum(len(f[1]) ** f[0] * len(f[2]) ** f[0] * len(f[3]) * len(f[4]) for f in af), 3, 4))
    th_p = bg("P", lambda: _enumerate(ctx, "P", "PSpec", P_INVS, "PFams", pf,
                                      _count(pf, lambda f, n: (len(f[2]) if f[3] else len(f[2]) ** n) * len(f[4])), 2, 4))
    r_insts = _enumerate(ctx, "R", "RSpec", R_INVS, "RFams", rf, _count(rf, lambda f, n: len(f[2]) * len(f[3]) * len(f[4])), 3, 6)
    for th in (th_a, th_p, th_sim):
        th.join()
    if bg_err:
        raise bg_err[0]
    a_insts, p_insts = got["A"], got["P"]
    ctx.exhaustive = True

    files = sorted(glob.glob(str(prefix) + "_*"))
    if len(files) < nsim // 2:
        raise core.MachineryError(f"TLC simulation wrote {len(files)} behaviours, expected about {nsim}")
    pool = []
    for f in files:
        st = behaviour_steps(core.parse_sim_file(f))
        if any(s[0] == "q" for s in st):
            pool.append(st)
    pool.sort(key=json.dumps)
    if not pool:
        raise core.MachineryError("no simulated behaviour of the H machine holds a query")

    jobs = [radial_job(inst, ctx.seed, n) for n, inst in enumerate(r_insts)]
    jobs += [adapt_job(inst, ctx.seed, n) for n, inst in enumerate(a_insts)]
    jobs += [hist_job(inst, ctx.seed, n, pool) for n, inst in enumerate(p_insts)]
    jobs += [("maps", dict(h=i["h"], w=i["w"], u=list(i["u"]), n=i["sub"][0])) for i in p_insts if len(set(i["sub"])) == 1]
    n_enum = len(jobs)
    rng = np.random.default_rng([ctx.seed, 50])
    jobs += random_radial_jobs(rng, ctx.bounds["random_radial"], 12)
    jobs += random_adapt_jobs(rng, ctx.bounds["random_adapt"], 12)
    jobs += random_hist_jobs(rng, ctx.bounds["random_histories"], 12 if not quick else 9, pool)
    jobs += random_maps_jobs(rng, ctx.bounds["random_maps"], 12)
    groups = [jobs[k : k + 25] for k in range(0, len(jobs), 25)]
    recs = []
    for part in core.pmap(_gen_many, groups):
        recs.extend(part)
    ctx.replayed = len(r_insts) + len(a_insts) + len(p_insts) + len(pool)

    for api in ("radial", "adapt", "query", "maps"):
        s = next((r for r in recs if r["api"] == api and len(r["u"]) > 1 and not r.get("exc")), None)
        if s is not None:
            ctx.sample({k: (v if not isinstance(v, list) or len(v) <= 24 else v[:24] + ["..."]) for k, v in s.items() if k != "gen"})
    rej = validate(ctx, recs, "X05")
    th_h.join()
    if bg_err:
        raise bg_err[0]
    kinds = {}
    for r in recs:
        kinds[r["api"]] = kinds.get(r["api"], 0) + 1
    ctx.note(f"enumerated: {len(r_insts)} radial/scheme instances, {len(a_insts)} signal-to-noise instances, {len(p_insts)} sub-size maps "
             f"(as query histories in {len(pool)} simulated orders); {len(jobs) - n_enum} random jobs; records by kind {kinds}; {len(rej)} rejected")
    ctx.note("documentation drift (not a code defect, not judged): the docstring examples of native_sub_index_for_slim_sub_index_2d_from / "
             "OverSamplerUniform.sub_mask_native_for_sub_mask_slim list the native sub indexes row-major over the whole refined frame "
             "([2,2],[2,3],[2,4],[2,5],...), whereas the code, the repository's tests and the order of over_sampled_grid / slim_for_sub_slim "
             "are pixel after pixel, row-major inside the pixel's block; the specification follows the latter")
    ctx.assumptions = [
        "coordinates, scales and origins on the tick lattice (even scales; multiples of 2*lcm(sub sizes) ticks where sub-pixel centres "
        "are read); tick length from powers of two and arbitrary reals; alpha rejects anything further than 1e-6 from the lattice, and "
        "anything that is not exactly an integer for sub sizes and indexes",
        "bin edges are given by squared radii a/2 ticks^2: a odd excludes ties by construction; a even admits pixels exactly on an edge, "
        "which the documented strict 'less than' sends to the outer bin -- those instances use a power-of-two tick and a grid exactly "
        "on the lattice, so that the float comparison is the integer comparison",
        "several centres: the statement's 'bin of the distance to the nearest centre' and the docstring's 'each centre can only "
        "increase the sub size' (per-pixel maximum over the centres) coincide for sub-size lists that do not grow outwards (checked "
        "by TLC as a theorem) and for one centre; for unordered lists with several centres either reading is accepted, one per call",
        "centre_list omitted: 'the centre of the mask' is accepted as the bounding-box centre of the unmasked pixels (mask.mask_centre) "
        "or the centre of the frame",
        "from_adaptive_scheme: the circles may be drawn around the given centre (docstring) or around the centre of the pixel the "
        "given centre is located in (what the implementation documents for the geometry helper it calls); centres on pixel edges "
        "are not generated; radial factors are odd tenths, the smallest scale is never a multiple of 10 ticks (no ties)",
        "from_adapt: integer data, positive integer noise, rational cut; data and noise scaled by independent powers of two",
        "the native sub index of a per-pixel (non-constant) sub-size map is only required to lie in the parent pixel's own refined "
        "frame (it is documented for one sub size); for one sub size it is pinned exactly",
        "pixel geometry (centres from shape, scales, origin) is the one of C02; the partition itself (tiling, binning) is C09's",
    ]


def replay(ctx, rp):
    """Re-runs the generator of the rejected record (for a query: the whole history it belongs to) through the real code
    and validates the same record again."""
    _conf()
    g = rp["gen"]
    recs = GEN[g["kind"]](g["arg"])
    new = recs[g["k"]]
    new["gen"] = g
    rej = validate(ctx, [new], "X05-replay")
    print("replayed 1 record:", _describe(new))
    print("rejected:", [(r["clauses"], r["sig"]) for r in rej])
    return ctx.finish()
