"""X08 (extra) -- arithmetic on data structures is element-wise on the stored entries, keeps the container and never
touches its operands; copies are independent; views report the object's own current entries.

S->C: Algebra.tla explores (i) every mask of every small frame x storage form x value patterns x every single action of
      the full alphabet and (ii) every action sequence up to a bounded length over a compact alphabet, checking the design
      theorems (slim/native commute with arithmetic whatever sits in masked cells, operands unchanged, copies independent,
      reads report own content); TLC dumps the behaviours, `-simulate` adds seeded deeper ones. Each behaviour is
      instantiated for EVERY class (Array2D, Array1D, Grid2D, VectorYX2D, Kernel2D, Grid2DIrregular, ArrayIrregular,
      VectorYX2DIrregular, Visibilities, VisibilitiesNoiseMap, Mask2D) and performed on real objects.
C->S: after every step the stored array of every live object is abstracted EXACTLY (every double is a dyadic rational
      n * 2^-e), byte-level fingerprints decide 'unchanged', a cold twin (fresh object with a copy of the current entries,
      read once) decides 'reports own content'; every record is judged by TLC against Trace_Algebra.tla.  Seeded random
      larger frames / longer histories extend the reach."""
import copy
import hashlib
import math
import operator
import pickle

import numpy as np

from harness import core

MODULE = "Algebra"
TRACE = "Trace_Algebra"

CLASSES = ["Array2D", "Array1D", "Grid2D", "VectorYX2D", "Kernel2D", "Grid2DIrregular", "ArrayIrregular",
           "VectorYX2DIrregular", "Visibilities", "VisibilitiesNoiseMap", "Mask2D"]
META = {  # comp, cplx, has_mask, native_ok
    "Array2D": (1, False, True, True),
    "Array1D": (1, False, True, True),
    "Grid2D": (2, False, True, True),
    "VectorYX2D": (2, False, True, True),
    "Kernel2D": (1, False, True, True),
    "Grid2DIrregular": (2, False, False, False),
    "ArrayIrregular": (1, False, False, False),
    "VectorYX2DIrregular": (2, False, False, False),
    "Visibilities": (1, True, False, False),
    "VisibilitiesNoiseMap": (1, True, False, False),
    "Mask2D": (1, False, False, False),
}
PYTH = [(3, 4), (-4, 3), (5, 12), (0, 1), (8, -6), (1, 0), (-12, -5), (6, 8)]

ANYV = [1, 99]  # non-finite
OFFV = [2, 99]  # finite but off the small lattice


# ---------------------------------------------------------------------------------------------------------------
# alpha: exact abstraction of doubles
# ---------------------------------------------------------------------------------------------------------------
def dy(x):
    x = float(x)
    if x != x or x in (math.inf, -math.inf):
        return ANYV
    if x == 0.0:
        return [0, 0]
    p, q = x.as_integer_ratio()
    e = q.bit_length() - 1
    if e == 0:
        tz = (p & -p).bit_length() - 1
        p >>= tz
        e = -tz
    if abs(p) >= 2 ** 31 or abs(e) >= 90:
        return OFFV
    return [int(p), int(e)]


def val(v):
    """gamma: [n, e] -> float"""
    return float(v[0]) * 2.0 ** (-v[1])


def alpha(arr):
    """flattened exact abstraction of an array-like / scalar (complex -> re, im interleaved; bool -> 0/1)"""
    a = np.asarray(arr)
    if a.dtype == object:
        return [OFFV]
    if np.iscomplexobj(a):
        f = a.astype(complex).ravel()
        out = []
        for z in f.tolist():
            out.append(dy(z.real))
            out.append(dy(z.imag))
        return out
    return [dy(x) for x in a.astype(float).ravel().tolist()]


def alpha_hypot(arr):
    """abs() of a complex array goes through the C library's hypot, which is accurate to an ulp but not exact even on Pythagorean
    entries: the result is taken on the 2^-20 lattice when it lies within 1e-9 (relative) of it, and rejected as it is otherwise"""
    out = []
    for x in np.asarray(arr, dtype=float).ravel().tolist():
        if math.isfinite(x):
            r = round(x * 1048576.0) / 1048576.0
            if abs(x - r) <= 1e-9 * max(1.0, abs(x)):
                x = r
        out.append(dy(x))
    return out


def fp_bytes(*parts):
    h = hashlib.blake2b(digest_size=12)
    for p in parts:
        if isinstance(p, np.ndarray):
            a = np.ascontiguousarray(p)
            h.update(str(a.dtype).encode() + repr(a.shape).encode() + a.tobytes())
        else:
            h.update(repr(p).encode())
    return h.hexdigest()


def obj_fp(o):
    """bytes of the entries, the mask and the geometry of a structure"""
    parts = [type(o).__name__, np.asarray(o.array)]
    m = o.__dict__.get("mask", None)
    if m is not None:
        parts += [np.asarray(getattr(m, "array", m)), tuple(getattr(m, "pixel_scales", ())), tuple(getattr(m, "origin", ()))]
    if type(o).__name__ == "Mask2D":
        parts += [tuple(o.pixel_scales), tuple(o.origin)]
    g = o.__dict__.get("grid", None)
    if g is not None:
        parts.append(np.asarray(g.array))
    return fp_bytes(*parts)


def value_fp(v):
    if isinstance(v, (tuple, list)):
        return "T" + "|".join(value_fp(x) for x in v)
    a = getattr(v, "array", v)
    a = np.asarray(a)
    if a.dtype == object:
        return "O" + repr(a.tolist())
    return fp_bytes(a)


# ---------------------------------------------------------------------------------------------------------------
# gamma: building real objects of every class
# ---------------------------------------------------------------------------------------------------------------
def _mask2d(h, w, u):
    import autoarray as aa

    m = np.ones(h * w, dtype=bool)
    m[list(u)] = False
    return aa.Mask2D(mask=m.reshape(h, w), pixel_scales=(1.0, 2.0), origin=(0.5, -1.0))


def _mask1d(n, u):
    import autoarray as aa

    m = np.ones(n, dtype=bool)
    m[list(u)] = False
    return aa.Mask1D(mask=m, pixel_scales=(0.5,), origin=(1.0,))


def build(cls, epi, given, which):
    """given: flattened floats over the unmasked cells (x comp); returns a real object of class cls"""
    import autoarray as aa

    h, w, u, nat = epi["h"], epi["w"], epi["u"], epi["nat"]
    comp, cplx, has_mask, _ = META[cls]
    n = len(u)
    g = np.array(given, dtype=float)
    if cls in ("Array2D", "Kernel2D"):
        mask = _mask2d(h, w, u)
        k = aa.Array2D if cls == "Array2D" else aa.Kernel2D
        return k(values=g.copy(), mask=mask, store_native=nat)
    if cls == "Array1D":
        return aa.Array1D(values=g.copy(), mask=_mask1d(h * w, u), store_native=nat)
    if cls == "Grid2D":
        from autoarray.operators.over_sampling.uniform import OverSamplingUniform

        mask = _mask2d(h, w, u)
        if "os" not in epi["_cache"]:
            epi["_cache"]["os"] = OverSamplingUniform(sub_size=2)
        return aa.Grid2D(values=g.reshape(n, 2).copy(), mask=mask, store_native=nat, over_sampling=epi["_cache"]["os"])
    if cls == "VectorYX2D":
        mask = _mask2d(h, w, u)
        return aa.VectorYX2D(values=g.reshape(n, 2).copy(), grid=aa.Grid2D.from_mask(mask), mask=mask, store_native=nat)
    if cls == "Grid2DIrregular":
        return aa.Grid2DIrregular(values=g.reshape(n, 2).copy())
    if cls == "ArrayIrregular":
        return aa.ArrayIrregular(values=g.copy())
    if cls == "VectorYX2DIrregular":
        return aa.VectorYX2DIrregular(values=g.reshape(n, 2).copy(), grid=[tuple(float(c) for c in p) for p in epi["gpos"]])
    if cls in ("Visibilities", "VisibilitiesNoiseMap"):
        z = g.reshape(n, 2)
        k = aa.Visibilities if cls == "Visibilities" else aa.VisibilitiesNoiseMap
        return k(visibilities=(z[:, 0] + 1j * z[:, 1]).astype(complex))
    if cls == "Mask2D":
        return aa.Mask2D(mask=(g.reshape(h, w) != 0), pixel_scales=(1.0, 2.0), origin=(0.5, -1.0))
    raise ValueError(cls)


def cold_twin(cls, o):
    """a fresh object, built by the public constructor from a COPY of the current entries of o (fresh mask object too)"""
    import autoarray as aa

    arr = np.array(o.array)
    if cls in ("Array2D", "Kernel2D", "Grid2D", "VectorYX2D"):
        m = o.mask
        mask = aa.Mask2D(mask=np.array(m.array), pixel_scales=m.pixel_scales, origin=m.origin)
        if cls == "Array2D":
            t = aa.Array2D(values=arr.copy(), mask=mask, store_native=arr.ndim == 2)
        elif cls == "Kernel2D":
            t = aa.Kernel2D(values=arr.copy(), mask=mask, store_native=arr.ndim == 2)
        elif cls == "Grid2D":
            t = aa.Grid2D(values=arr.copy(), mask=mask, store_native=arr.ndim == 3, over_sampling=o.over_sampling)
        else:
            t = aa.VectorYX2D(values=arr.copy(), grid=aa.Grid2D.from_mask(mask), mask=mask, store_native=arr.ndim == 3)
    elif cls == "Array1D":
        m = o.mask
        mask = aa.Mask1D(mask=np.array(m.array), pixel_scales=m.pixel_scales, origin=m.origin)
        t = aa.Array1D(values=arr.copy(), mask=mask, store_native=True) if len(arr) == len(m) and m.array.any() else \
            aa.Array1D(values=arr.copy(), mask=mask)
    elif cls == "Grid2DIrregular":
        t = aa.Grid2DIrregular(values=arr.copy())
    elif cls == "ArrayIrregular":
        t = aa.ArrayIrregular(values=arr.copy())
    elif cls == "VectorYX2DIrregular":
        t = aa.VectorYX2DIrregular(values=arr.copy(), grid=np.array(o.grid.array))
    elif cls == "Visibilities":
        t = aa.Visibilities(visibilities=arr.copy())
    elif cls == "VisibilitiesNoiseMap":
        t = aa.VisibilitiesNoiseMap(visibilities=arr.copy())
    elif cls == "Mask2D":
        t = aa.Mask2D(mask=arr.copy(), pixel_scales=o.pixel_scales, origin=o.origin)
    else:
        raise ValueError(cls)
    if t.array.shape == arr.shape and not np.array_equal(np.asarray(t.array), arr, equal_nan=True):
        t[...] = arr  # masked cells of a native-stored array hold what the history left there
    return t


# ---------------------------------------------------------------------------------------------------------------
# views
# ---------------------------------------------------------------------------------------------------------------
def do_view(cls, o, view, arg, epi):
    """-> (value for alpha or None, extra dict)"""
    import autoarray as aa

    if view == "slim":
        return o.slim.array, {}
    if view == "native":
        return o.native.array, {}
    if view == "sum":
        return o.sum(), {}
    if view == "npsum":
        return np.sum(o), {}
    if view == "max":
        return o.max(), {}
    if view == "npmax":
        return np.max(o), {}
    if view == "min":
        return o.min(), {}
    if view == "index":
        r = o[int(arg[0])]
        return getattr(r, "array", r), {}
    if view == "tail":
        r = o[int(arg[0]):]
        return getattr(r, "array", r), {}
    if view == "apply_mask":
        m0 = o.mask
        if cls == "Array1D":
            mask2 = _mask1d(len(m0), arg)
        else:
            mm = np.ones(m0.shape[0] * m0.shape[1], dtype=bool)
            mm[list(arg)] = False
            mask2 = aa.Mask2D(mask=mm.reshape(m0.shape), pixel_scales=m0.pixel_scales, origin=m0.origin)
        r = o.apply_mask(mask=mask2)
        return r.array, {}
    if view == "vy":
        return o.y.array, {}
    if view == "vx":
        return o.x.array, {}
    if view == "magnitudes":
        return o.magnitudes.array, {}
    if view == "amplitudes":
        return o.amplitudes, {}
    if view == "phases":
        return o.phases, {"skip_res": True}
    if view == "is_uniform":
        return np.array([1.0 if o.is_uniform else 0.0]), {"skip_res": True}
    if view == "avgmag":
        v = float(o.average_magnitude)
        return np.array([v]), {"fx": int(round(v * 8)) if math.isfinite(v) and abs(v) < 1e6 else 99999, "skip_res": True}
    if view == "avgphi":
        v = float(o.average_phi)
        return np.array([v]), {"fx": int(round(v * 2)) if math.isfinite(v) else 99999, "skip_res": True}
    if view in ("within_radius", "within_annulus"):
        if view == "within_radius":
            hi, cy, cx = arg
            r = o.vectors_within_radius(radius=math.sqrt(hi / 2.0), centre=(float(cy), float(cx)))
        else:
            lo, hi, cy, cx = arg
            r = o.vectors_within_annulus(inner_radius=math.sqrt(lo / 2.0) if lo >= 0 else -1.0, outer_radius=math.sqrt(hi / 2.0),
                                         centre=(float(cy), float(cx)))
        gp = np.asarray(r.grid.array, dtype=float).ravel()
        ok = bool(np.all(gp == np.rint(gp)))
        return r.array, {"res2": [int(x) for x in gp] if ok else [-99999]}
    raise ValueError(view)


# ---------------------------------------------------------------------------------------------------------------
# performing one concrete episode on real objects
# ---------------------------------------------------------------------------------------------------------------
OPS = {"add": operator.add, "sub": operator.sub, "mul": operator.mul, "div": operator.truediv, "fdiv": operator.floordiv,
       "pow": operator.pow, "mod": operator.mod, "lt": operator.lt, "le": operator.le, "gt": operator.gt, "ge": operator.ge,
       "eq": operator.eq, "ne": operator.ne}
IOPS = {"add": operator.iadd, "sub": operator.isub, "mul": operator.imul, "div": operator.itruediv,
        "fdiv": operator.ifloordiv, "pow": operator.ipow}
UFS = {"add": np.add, "sub": np.subtract, "mul": np.multiply, "div": np.divide, "fdiv": np.floor_divide, "pow": np.power,
       "lt": np.less, "le": np.less_equal, "gt": np.greater, "ge": np.greater_equal, "eq": np.equal, "ne": np.not_equal}
UNOPS = {"neg": operator.neg, "abs": abs, "invert": operator.invert}
UNUFS = {"neg": np.negative, "abs": np.abs, "sqrt": np.sqrt, "square": np.square}

DEFAULTS = {"x": "a", "op": "", "kind": "", "route": "operator", "bv": [], "keep": False, "retain": False, "same_id": False, "how": "",
            "keykind": "", "gran": "row", "sel": [], "vv": [], "view": "", "arg": [], "raised": "", "res": [], "res2": [],
            "res_cls": True, "res_mask": True, "res_geom": True, "res_os": True, "res_shape": True, "own": True, "fx": 0,
            "nd_ok": True, "owner": ""}


def _scalar(bv, cplx):
    if cplx:
        re, im = val(bv[0]), (val(bv[1]) if len(bv) > 1 else 0.0)
        return re if im == 0.0 and len(bv) == 1 else complex(re, im)
    return val(bv[0])


def _container_facts(cls, res, src):
    f = {}
    f["res_cls"] = type(res) is type(src)
    try:
        f["res_shape"] = tuple(np.shape(res.array)) == tuple(np.shape(src.array))
    except Exception:
        f["res_shape"] = False
    ms, mr = src.__dict__.get("mask", None), getattr(res, "__dict__", {}).get("mask", None)
    if cls == "Mask2D":
        ms, mr = src, res
    if ms is None:
        f["res_mask"] = mr is None
        f["res_geom"] = True
    else:
        try:
            f["res_mask"] = cls == "Mask2D" or (mr is not None and np.array_equal(np.asarray(mr.array), np.asarray(ms.array)))
            f["res_geom"] = tuple(mr.pixel_scales) == tuple(ms.pixel_scales) and tuple(mr.origin) == tuple(ms.origin)
        except Exception:
            f["res_mask"] = f["res_geom"] = False
    os_ok = True
    try:
        if cls == "Grid2D":
            os_ok = res.over_sampling is src.over_sampling and res.over_sampling_non_uniform is src.over_sampling_non_uniform
        if cls in ("VectorYX2D", "VectorYX2DIrregular"):
            os_ok = np.array_equal(np.asarray(res.grid.array), np.asarray(src.grid.array))
    except Exception:
        os_ok = False
    f["res_os"] = bool(os_ok)
    return f


DUNDER = {"add": "__add__", "sub": "__sub__", "mul": "__mul__", "div": "__truediv__", "fdiv": "__floordiv__", "pow": "__pow__",
          "mod": "__mod__", "lt": "__lt__", "le": "__le__", "gt": "__gt__", "ge": "__ge__", "eq": "__eq__", "ne": "__ne__",
          "neg": "__neg__", "abs": "__abs__", "invert": "__invert__"}
VIEW_ATTR = {"slim": "slim", "native": "native", "sum": "sum", "max": "max", "min": "min", "index": "__getitem__",
             "tail": "__getitem__", "apply_mask": "apply_mask", "vy": "y", "vx": "x", "magnitudes": "magnitudes",
             "amplitudes": "amplitudes", "phases": "phases", "is_uniform": "is_uniform", "avgmag": "average_magnitude",
             "avgphi": "average_phi", "within_radius": "vectors_within_radius", "within_annulus": "vectors_within_annulus",
             "npsum": "__array__", "npmax": "__array__"}


def owner_of(obj, act):
    """the class that defines the method an action calls (the call site named by a signature)"""
    t = act["a"]
    if t in ("Binary", "InPlace", "Unary"):
        name = DUNDER.get(act.get("op"), "__array__")
        if act.get("kind") in ("rscalar", "rrow") and name.startswith("__") and t == "Binary":
            name = "__r" + name[2:]
        if act.get("route") == "ufunc" or act.get("kind") == "rnd":
            name = "__array__"
        if act.get("route") == "with_new_array":
            name = "with_new_array"
    elif t == "Copy":
        name = {"copy": "__copy__", "deepcopy": "__deepcopy__", "pickle": "__reduce_ex__", "method": "copy"}[act["how"]]
    elif t == "Edit":
        name = "__setitem__"
    else:
        name = VIEW_ATTR.get(act.get("view"), "__array__")
    for k in type(obj).__mro__:
        if name in k.__dict__:
            return k.__name__ if k is not object else type(obj).__name__
    return type(obj).__name__


def _exc_name(e):
    return "TypeError" if isinstance(e, TypeError) else type(e).__name__


def run_episode(epi):
    """epi: concrete episode (class, frame, given contents, actions) -> list of records"""
    np.seterr(all="ignore")
    cls = epi["cls"]
    comp, cplx, has_mask, _ = META[cls]
    epi["_cache"] = {}
    h, w, u, nat = epi["h"], epi["w"], epi["u"], epi["nat"]
    ga = [val(v) for v in epi["given_a"]]
    gb = [val(v) for v in epi["given_b"]]
    slots = {"a": build(cls, epi, ga, "a"), "b": build(cls, epi, gb, "b")}
    base = {"ep": epi["ep"], "cls": cls}

    def observe():
        return {s: (alpha(slots[s].array) if s in slots else []) for s in ("a", "b", "r", "c", "o")}

    def fps():
        return {s: obj_fp(o) for s, o in slots.items()}

    a0 = slots["a"].array
    if cls == "Mask2D":
        env_h, env_w, env_u, shape0 = 0, 0, list(range(h * w)), h
    elif cls == "Array1D":
        env_h, env_w, env_u, shape0 = 1, h * w, list(u), int(a0.shape[0])
    elif has_mask:
        env_h, env_w, env_u, shape0 = h, w, list(u), int(a0.shape[0])
    else:
        env_h, env_w, env_u, shape0 = 0, 0, list(range(len(u))), int(a0.shape[0])
    recs = [dict(base, a="Start", comp=comp, cplx=cplx, nat=bool(nat and has_mask), h=env_h, w=env_w, u=env_u, shape0=shape0,
                 gpos=[list(p) for p in epi.get("gpos", [])] if cls == "VectorYX2DIrregular" else [],
                 given={"a": epi["given_a"], "b": epi["given_b"]}, obs=observe())]
    before = fps()
    for k, act in enumerate(epi["actions"]):
        if act.get("x", "a") not in slots:
            continue  # the object this action names was never made for this class (e.g. results that are not wrapped)
        r = dict(DEFAULTS)
        r.update(base)
        r.update({f: act[f] for f in act if f in DEFAULTS or f == "a"})
        r["step"] = k
        r["owner"] = owner_of(slots[act.get("x", "a")], act)
        kind = act.get("kind", "")
        nd = None
        nd_fp = None
        try:
            if act["a"] in ("Binary", "InPlace"):
                A = slots[act["x"]]
                if kind in ("scalar", "rscalar"):
                    b = _scalar(act["bv"], cplx)
                elif kind in ("row", "rrow"):
                    b = nd = np.array([val(v) for v in act["bv"]])
                elif kind in ("nd", "rnd"):
                    b = nd = np.array(slots["b"].array)
                elif kind == "obj":
                    b = slots["b"]
                elif kind == "self":
                    b = A
                else:
                    raise ValueError(kind)
                if nd is not None:
                    nd_fp = fp_bytes(nd)
                refl = kind in ("rscalar", "rnd", "rrow")
                if act["a"] == "Binary":
                    route = act.get("route", "operator")
                    if route == "operator":
                        res = OPS[act["op"]](b, A) if refl else OPS[act["op"]](A, b)
                    elif route == "ufunc":
                        res = UFS[act["op"]](b, A) if refl else UFS[act["op"]](A, b)
                    else:  # with_new_array: the caller computes the entries, the structure supplies the container
                        bb = getattr(b, "array", b)
                        res = A.with_new_array(UFS[act["op"]](np.array(A.array), bb))
                    r["keep"] = type(res) is type(A)
                    r["res"] = alpha(getattr(res, "array", res))
                    if r["keep"] or isinstance(res, type(A)):
                        r.update(_container_facts(cls, res, A))
                    if r["keep"] and len(r["res"]) == len(alpha(A.array)):
                        r["retain"] = True
                        slots["r"] = res
                else:
                    new = IOPS[act["op"]](A, b)
                    r["same_id"] = new is A
                    r["res"] = alpha(getattr(new, "array", new))
                    r.update(_container_facts(cls, new, A) if hasattr(new, "array") else {"res_cls": False})
                    if new is not A:
                        slots["o"] = A
                        before["o"] = before[act["x"]]  # the object the name was bound to before
                        before.pop("a", None)
                    slots["a"] = new
            elif act["a"] == "Unary":
                A = slots[act["x"]]
                route = act.get("route", "operator")
                res = UNOPS[act["op"]](A) if route == "operator" else UNUFS[act["op"]](A)
                r["keep"] = type(res) is type(A)
                r["res"] = alpha_hypot(getattr(res, "array", res)) if (cplx and act["op"] == "abs") else alpha(getattr(res, "array", res))
                if r["keep"]:
                    r.update(_container_facts(cls, res, A))
                    if len(r["res"]) == len(alpha(A.array)):
                        r["retain"] = True
                        slots["r"] = res
            elif act["a"] == "Copy":
                A = slots[act["x"]]
                how = act["how"]
                if how == "copy":
                    res = copy.copy(A)
                elif how == "deepcopy":
                    res = copy.deepcopy(A)
                elif how == "pickle":
                    res = pickle.loads(pickle.dumps(A))
                else:
                    res = A.copy()
                r["same_id"] = res is A
                r["res"] = alpha(res.array)
                r.update(_container_facts(cls, res, A))
                if cls == "Grid2D" and how == "pickle":  # a pickle round trip cannot keep the identity of the over-sampling object
                    r["res_os"] = type(res.over_sampling) is type(A.over_sampling) and \
                        res.over_sampling.__dict__.keys() == A.over_sampling.__dict__.keys()
                slots["c"] = res
            elif act["a"] == "Edit":
                A = slots[act["x"]]
                sel = [int(s) for s in act["sel"]]
                kk = act["keykind"]
                arr_shape = np.shape(A.array)
                if kk == "int":
                    key = sel[0]
                elif kk == "slice":
                    key = slice(sel[0], sel[-1] + 1)
                elif kk == "boolfull":
                    key = np.zeros(int(np.prod(arr_shape)), dtype=bool)
                    key[sel] = True
                    key = key.reshape(arr_shape)
                elif kk == "boolrow":
                    key = np.zeros(arr_shape[0], dtype=bool)
                    key[sel] = True
                elif kk == "intarr":
                    key = np.array(sel, dtype=int)
                else:
                    raise ValueError(kk)
                if isinstance(key, np.ndarray):
                    nd = key
                    nd_fp = fp_bytes(nd)
                vv = act["vv"]
                if cls == "Mask2D":
                    value = bool(val(vv[0]) != 0)
                elif cplx:
                    value = complex(val(vv[0]), val(vv[1]) if len(vv) > 1 else 0.0)
                elif len(vv) > 1:
                    value = np.array([val(v) for v in vv])
                else:
                    value = val(vv[0])
                A[key] = value
                if np.shape(A.array) != arr_shape:
                    r["_stop"] = True  # the object no longer has the shape of its mask: nothing further can be judged on it
            elif act["a"] == "Read":
                A = slots[act["x"]]
                try:
                    v, extra = do_view(cls, A, act["view"], act.get("arg", []), epi)
                    got = ("ok", value_fp(v))
                except Exception as e:  # noqa
                    v, extra, got = None, {}, ("exc", _exc_name(e))
                    r["raised"] = _exc_name(e)
                try:
                    tv, _ = do_view(cls, cold_twin(cls, A), act["view"], act.get("arg", []), epi)
                    want = ("ok", value_fp(tv))
                except Exception as e:  # noqa
                    want = ("exc", _exc_name(e))
                r["own"] = got == want
                if v is not None:
                    r["res"] = [] if extra.get("skip_res") else alpha(v)
                    r["fx"] = extra.get("fx", 0)
                    r["res2"] = extra.get("res2", [])
            else:
                raise ValueError(act["a"])
        except Exception as e:  # an exception of the code under test is an observation, judged by the specification
            r["raised"] = _exc_name(e)
            r["exc_text"] = str(e)[:160]
        if nd is not None:
            r["nd_ok"] = fp_bytes(nd) == nd_fp
        after = fps()
        r["live"] = sorted(slots)
        r["obs"] = observe()
        r["unchanged"] = sorted(s for s in slots if s in before and before[s] == after[s])
        before = after
        stop = r.pop("_stop", False)
        recs.append(r)
        if stop:
            break
    epi.pop("_cache", None)
    return recs


# ---------------------------------------------------------------------------------------------------------------
# instantiating an abstract behaviour (from TLC) for one class
# ---------------------------------------------------------------------------------------------------------------
def cells_of(h, w, u):
    return [(k // w, k % w) for k in u]


def given_for(cls, slim_vals, role, h, w, u, pa=""):
    """flattened [n, e] content over the unmasked cells for class cls, derived from the single-component abstract content"""
    comp, cplx, has_mask, _ = META[cls]
    fl = [val(v) for v in slim_vals]
    out = []
    if cls == "Mask2D":
        us = set(u)
        if role == "a":
            return [dy(0.0 if k in us else 1.0) for k in range(h * w)]
        return [dy(1.0 if (k in us) == (k % 2 == 0) else 0.0) for k in range(h * w)]
    if cls == "Grid2D" and role == "a" and pa == "ramp":
        # the coordinates of a uniform grid (distinct per cell), so that is_uniform has something to say
        for k in u:
            out += [dy(float(-(k // w))), dy(2.0 * (k % w))]
        return out
    for k, v in enumerate(fl):
        if comp == 1 and not cplx:
            out.append(dy(v))
        elif role == "a":
            p, q = PYTH[k % len(PYTH)]
            out += [dy(p * v), dy(q * v)]
        else:
            pow2 = v != 0 and abs(v) == 2.0 ** round(math.log2(abs(v)))
            if cplx:
                out += [dy(v), dy(0.0 if pow2 else float((int(abs(v)) + 1) % 4))]
            else:
                out += [dy(v), dy(2 * v if pow2 else float((int(abs(v)) + 1) % 4))]
    return out


def key_sel(keykind, shape, n_elems):
    n0 = shape[0]
    if keykind == "int":
        return [n0 - 1], "row"
    if keykind == "slice":
        return list(range(2 if n0 > 1 else 1)), "row"
    if keykind == "boolfull":
        return [k for k in range(n_elems) if k % 2 == 0], "elem"
    if keykind == "boolrow":
        return [k for k in range(n0) if k % 2 == 0], "row"
    if keykind == "intarr":
        return [n0 - 1, 0], "row"
    raise ValueError(keykind)


SPECIAL = {
    "VectorYX2D": ["magnitudes", "vy", "vx", "avgmag", "avgphi"],
    "VectorYX2DIrregular": ["magnitudes", "avgmag", "avgphi", "within_radius", "within_annulus"],
    "Visibilities": ["amplitudes", "phases"],
    "VisibilitiesNoiseMap": ["amplitudes", "phases"],
    "Grid2D": ["is_uniform", "npsum", "npmax"],
}
ARITH = {"add", "sub", "mul", "div", "fdiv", "pow"}


def stored_shape(cls, h, w, u, nat):
    comp, cplx, has_mask, native_ok = META[cls]
    n = len(u)
    if cls == "Mask2D":
        return (h, w)
    if cls == "Array1D":
        return (h * w,) if nat else (n,)
    if has_mask and nat:
        return (h, w) if comp == 1 else (h, w, 2)
    return (n,) if comp == 1 else (n, 2)


def instantiate(beh, cls, ep, salt=0):
    """abstract behaviour {h,w,u,nat,sa,sb,acts} -> concrete episode for class cls (None if not applicable)"""
    comp, cplx, has_mask, native_ok = META[cls]
    h, w, u, nat = beh["h"], beh["w"], list(beh["u"]), bool(beh["nat"])
    if nat and not native_ok:
        return None
    if cls == "Mask2D" and nat:
        return None
    shape = stored_shape(cls, h, w, u, nat)
    n_elems = int(np.prod(shape))
    epi = {"ep": ep, "cls": cls, "h": h, "w": w, "u": u, "nat": nat,
           "given_a": given_for(cls, beh["sa"], "a", h, w, u, beh.get("pa", "")), "given_b": given_for(cls, beh["sb"], "b", h, w, u),
           "gpos": [list(c) for c in cells_of(h, w, u)], "actions": []}
    for k, a in enumerate(beh["acts"]):
        act = {f: a[f] for f in ("a", "x", "op", "kind", "route", "how", "keykind", "view") if f in a}
        act["bv"] = [list(v) for v in a.get("bv", [])]
        rot = ep + k + salt
        if act["a"] in ("Binary", "InPlace", "Unary") and cls == "Mask2D":
            # arithmetic on boolean masks is not judged; masks get the comparison / inversion in its place
            if act["a"] == "InPlace":
                continue
            if act["a"] == "Unary":
                act.update(op="invert", route="operator")
            else:
                if act.get("kind") in ("scalar", "rscalar", "row", "rrow"):
                    continue
                act["op"] = "eq" if act["op"] in ("add", "mul", "lt", "le", "eq", "pow") else "ne"
                act["route"] = "operator"
        if act["a"] in ("Binary", "InPlace"):
            kd = act["kind"]
            if kd in ("scalar", "rscalar"):
                if cplx:
                    act["bv"] = act["bv"] + ([[0, 0]] if rot % 3 else [[1, 0]])
            elif kd in ("row", "rrow"):
                if comp != 2:
                    act["kind"] = "scalar" if kd == "row" else "rscalar"
                    act["bv"] = act["bv"][:1] + ([[0, 0]] if cplx else [])
        if act["a"] == "Edit":
            sel, gran = key_sel(act["keykind"], shape, n_elems if not cplx else shape[0])
            act["sel"], act["gran"] = sel, gran
            sc = [list(v) for v in a.get("vv", [[1, 0]])][:1]
            if cls == "Mask2D":
                sc = [[1, 0]] if val(sc[0]) != 0 else [[0, 0]]
            elif cplx:
                sc = sc + [[1, 0]]
            elif comp == 2 and gran == "row" and rot % 2 == 0 and not (nat and has_mask):
                sc = sc + [[3, 0]]
            act["vv"] = sc
        if act["a"] == "Read":
            v = act["view"]
            if v == "cview":
                vs = {"Visibilities": ["amplitudes", "phases"], "VisibilitiesNoiseMap": ["phases", "amplitudes"],
                      "Grid2D": ["is_uniform"]}.get(cls, ["slim"])
            elif v == "special":
                vs = SPECIAL.get(cls, ["npsum", "npmax", "min"])
            else:
                vs = [v]
            for j, v in enumerate(vs):
                if v == "apply_mask" and (cls not in ("Array2D", "VectorYX2D") or len(u) < 2):
                    v = "native"
                if cplx and v in ("max", "npmax", "min"):
                    v = "sum"
                if cls == "Mask2D" and v in ("slim", "native", "max", "npmax", "min", "sum", "npsum"):
                    v = "index"
                if cls == "Grid2D" and v == "is_uniform" and nat:
                    v = "slim"  # is_uniform indexes the stored array as [N,2]
                a2 = dict(act, view=v)
                if v in ("index", "tail"):
                    a2["arg"] = [1 if shape[0] > 1 else 0]
                elif v == "apply_mask":
                    a2["arg"] = u[1:]
                elif v == "within_radius":
                    a2["arg"] = [[1, 3, 5, 9, 19][(rot + j) % 5], rot % 2, (rot // 2) % 2]
                elif v == "within_annulus":
                    a2["arg"] = [[-1, 1, 3][(rot + j) % 3], [3, 5, 9, 19][rot % 4], rot % 2, (rot // 2) % 2]
                else:
                    a2["arg"] = []
                epi["actions"].append(a2)
            continue
        epi["actions"].append(act)
    return epi


# ---------------------------------------------------------------------------------------------------------------
# TLC: the bounded machine
# ---------------------------------------------------------------------------------------------------------------
def tla_str_set(xs):
    return "{" + ", ".join(f'"{x}"' for x in xs) + "}"


def tla_pairs(ps):
    return "{" + ", ".join(f"<<{a},{b}>>" for a, b in ps) + "}"


ALL_BIN = ["add", "sub", "mul", "div", "fdiv", "pow", "lt", "le", "gt", "ge", "eq", "ne"]
ALL_KINDS = ["scalar", "nd", "obj", "self", "rscalar", "rnd"]
ALL_UN = ["neg", "abs", "sqrt", "square"]
ALL_IN = ["add", "sub", "mul", "div", "pow"]
ALL_HOWS = ["copy", "deepcopy", "pickle", "method"]
ALL_KEYS = ["int", "slice", "boolfull", "boolrow", "intarr"]
ALL_VIEWS = ["slim", "native", "sum", "max", "index", "tail", "cview", "apply_mask", "special"]
SCALARS = [(1, -1), (-1, 1), (0, 0)]  # 2, -1/2, 0 (3 and others come with the random histories)

INVARIANTS = ["SlimNativeCommute", "NativeViewZeroOutsideMask", "ResultIsElementwise", "OperandsUnchanged",
              "CopyIndependent", "ReadsReportOwnContent", "SlimOfNative"]


def machine_cfg(inv=True, only=None):
    names = ["Shapes", "DumpShapes", "Stores", "Pats", "OpsBin", "Kinds", "Scalars", "Routes", "OpsUn", "OpsIn", "KindsIn", "Hows",
             "Keys", "EditSlots", "Views", "ReadSlots", "MaxLen", "SetItemDropsCaches", "CopySharesArray"]
    s = "CONSTANTS\n" + "".join(f"  {n} <- MC{n}\n" for n in names) + "SPECIFICATION Spec\n"
    if inv:
        s += "".join(f"INVARIANT {i}\n" for i in (only or INVARIANTS))
    return s


def machine_defs(shapes, dump_shapes=None, stores=(False, True), pats=(("ramp", "pow2s"), ("signed0", "small0")), ops=ALL_BIN,
                 kinds=ALL_KINDS, scalars=SCALARS, routes=("operator", "ufunc"), un=ALL_UN, opin=ALL_IN,
                 kindin=("scalar", "nd", "obj", "self"), hows=ALL_HOWS, keys=ALL_KEYS, edit_slots=("a", "c", "r"), views=ALL_VIEWS,
                 read_slots=("a", "c", "r"), maxlen=1, drops=True, shares=False):
    b = lambda x: "TRUE" if x else "FALSE"  # noqa
    return "\n".join([
        f"MCShapes == {tla_pairs(shapes)}",
        f"MCDumpShapes == {tla_pairs(dump_shapes if dump_shapes is not None else shapes)}",
        "MCStores == {" + ", ".join(b(x) for x in stores) + "}",
        "MCPats == {" + ", ".join(f'<<"{a}", "{b}">>' for a, b in pats) + "}",
        f"MCOpsBin == {tla_str_set(ops)}", f"MCKinds == {tla_str_set(kinds)}", f"MCScalars == {tla_pairs(scalars)}",
        f"MCRoutes == {tla_str_set(routes)}", f"MCOpsUn == {tla_str_set(un)}", f"MCOpsIn == {tla_str_set(opin)}",
        f"MCKindsIn == {tla_str_set(kindin)}", f"MCHows == {tla_str_set(hows)}", f"MCKeys == {tla_str_set(keys)}",
        f"MCEditSlots == {tla_str_set(edit_slots)}", f"MCViews == {tla_str_set(views)}",
        f"MCReadSlots == {tla_str_set(read_slots)}", f"MCMaxLen == {maxlen}",
        f"MCSetItemDropsCaches == {b(drops)}", f"MCCopySharesArray == {b(shares)}"])


TRACE_CFG = """CONSTANTS
  Shapes = {}
  DumpShapes = {}
  Stores = {}
  Pats = {}
  OpsBin = {}
  Kinds = {}
  Scalars = {}
  Routes = {}
  OpsUn = {}
  OpsIn = {}
  KindsIn = {}
  Hows = {}
  Keys = {}
  EditSlots = {}
  Views = {}
  ReadSlots = {}
  MaxLen = 0
  SetItemDropsCaches = TRUE
  CopySharesArray = FALSE
SPECIFICATION TraceSpec
POSTCONDITION TraceAccepted
"""

JVM = {"JAVA_TOOL_OPTIONS": "-XX:ParallelGCThreads=2 -XX:CICompilerCount=2"}


def shapes_upto(max_cells):
    return [(h, w) for h in range(1, max_cells + 1) for w in range(1, max_cells + 1) if h * w <= max_cells]


def beh_of_inst(r):
    hist = r["hist"]
    return {"h": r["h"], "w": r["w"], "u": r["u"], "nat": r["nat"], "sa": hist[0]["sa"], "sb": hist[0]["sb"],
            "pa": hist[0]["pa"], "acts": hist[1:]}


def enumerate_machine(ctx, tag, timeout=1500, **kw):
    res = ctx.tlc(MODULE, machine_cfg(), defs=machine_defs(**kw), tag=tag, timeout=timeout, coverage=False,
                  env={"_JAVA_OPTIONS": "-Xss32m"})
    behs = [beh_of_inst(r) for r in res.by_kind("inst")]
    res.records = []
    if not behs:
        raise core.MachineryError(f"Algebra.tla ({tag}) dumped no behaviour")
    # TLC workers print in nondeterministic order: sort for reproducibility
    behs.sort(key=lambda b: repr((b["h"], b["w"], b["u"], b["nat"], b["sa"], b["sb"], b["acts"])))
    return res, behs


def simulate_machine(ctx, tag, num, depth, **kw):
    prefix = ctx.work / f"sim_{tag}"
    ctx.tlc(MODULE, machine_cfg(inv=True), defs=machine_defs(maxlen=depth, **kw), tag=tag, timeout=600,
            simulate=f"file={prefix},num={num}", depth=depth + 1, seed=ctx.seed, workers=4)
    behs = []
    for f in sorted(ctx.work.glob(f"sim_{tag}_*")):
        try:
            states = core.parse_sim_file(f)
        except Exception:
            continue
        if not states:
            continue
        last = states[-1][1]
        hist, env = last.get("hist"), last.get("env")
        if not hist or len(hist) < 2:
            continue
        behs.append({"h": env["h"], "w": env["w"], "u": env["u"], "nat": env["nat"], "sa": hist[0]["sa"], "sb": hist[0]["sb"],
                     "pa": hist[0]["pa"], "acts": hist[1:]})
    behs.sort(key=lambda b: repr((b["h"], b["w"], b["u"], b["nat"], b["sa"], b["sb"], b["acts"])))
    return behs


# ---------------------------------------------------------------------------------------------------------------
# seeded random larger frames / longer histories (generated per class, beyond the machine's alphabet)
# ---------------------------------------------------------------------------------------------------------------
def random_behaviour(rng, max_side, length):
    h = int(rng.integers(1, max_side + 1))
    w = int(rng.integers(1, max_side + 1))
    dens = rng.choice([0.3, 0.6, 0.9])
    m = rng.random(h * w) < dens
    if not m.any():
        m[int(rng.integers(0, h * w))] = True
    u = [int(k) for k in np.flatnonzero(m)]
    nat = bool(rng.integers(0, 2))

    def content(role):
        out = []
        for _ in u:
            if role == "a":
                out.append(dy(float(rng.integers(-6, 7)) * 2.0 ** int(rng.integers(-2, 3))))
            else:
                t = rng.integers(0, 3)
                if t == 0:
                    out.append(dy(float(rng.choice([-1, 1])) * 2.0 ** int(rng.integers(-2, 3))))
                elif t == 1:
                    out.append(dy(float(rng.integers(0, 4))))
                else:
                    out.append(dy(float(rng.integers(-3, 4))))
        return out

    acts = []
    live = {"a", "b"}
    for _ in range(length):
        t = rng.choice(["Binary", "Binary", "Binary", "Unary", "InPlace", "Copy", "Edit", "Edit", "Read", "Read"])
        sc = [dy(float(rng.choice([2.0, -0.5, 0.0, 3.0, 4.0, -1.0, 0.25, 1.0])))]
        if t == "Binary":
            x = str(rng.choice(sorted(live & {"a", "r", "c"})))
            op = str(rng.choice(ALL_BIN))
            kind = str(rng.choice(ALL_KINDS + ["row", "rrow"]))
            route = str(rng.choice(["operator", "operator", "operator", "ufunc", "with_new_array"]))
            if route != "operator" and (kind in ("rscalar", "rnd", "rrow", "self") or op in ("fdiv",)):
                route = "operator"
            if route == "with_new_array" and op not in ("add", "sub", "mul", "div"):
                route = "operator"
            bv = sc if kind in ("scalar", "rscalar") else ([sc[0], dy(float(rng.integers(-2, 3)))] if kind in ("row", "rrow") else [])
            acts.append({"a": "Binary", "x": x, "op": op, "kind": kind, "route": route, "bv": bv})
            if op in ("add", "sub", "mul", "div", "pow") and route != "ufunc" and kind != "rnd":
                live.add("r")
        elif t == "Unary":
            x = str(rng.choice(sorted(live & {"a", "r", "c"})))
            op = str(rng.choice(ALL_UN))
            acts.append({"a": "Unary", "x": x, "op": op, "kind": "", "route": "operator" if op in ("neg", "abs") else "ufunc"})
            if op in ("neg", "abs"):
                live.add("r")
        elif t == "InPlace":
            kind = str(rng.choice(["scalar", "nd", "obj", "self", "row"]))
            bv = sc if kind == "scalar" else ([sc[0], dy(float(rng.integers(-2, 3)))] if kind == "row" else [])
            acts.append({"a": "InPlace", "x": "a", "op": str(rng.choice(ALL_IN)), "kind": kind, "bv": bv})
            live.add("o")
        elif t == "Copy":
            acts.append({"a": "Copy", "x": "a", "how": str(rng.choice(ALL_HOWS))})
            live.add("c")
        elif t == "Edit":
            x = str(rng.choice(sorted(live & {"a", "c", "r", "o"})))
            acts.append({"a": "Edit", "x": x, "keykind": str(rng.choice(ALL_KEYS)), "vv": sc})
        else:
            x = str(rng.choice(sorted(live & {"a", "c", "r", "o", "b"})))
            acts.append({"a": "Read", "x": x, "view": str(rng.choice(ALL_VIEWS + ["special", "cview", "npsum", "min"]))})
    return {"h": h, "w": w, "u": u, "nat": nat, "sa": content("a"), "sb": content("b"), "acts": acts}


# ---------------------------------------------------------------------------------------------------------------
# running and validating
# ---------------------------------------------------------------------------------------------------------------
def _run_many(epis):
    out = []
    for e in epis:
        try:
            out.append((e, run_episode(e)))
        except Exception as ex:  # builder error: machinery, not a verdict
            out.append((e, ex))
    return out


def perform(episodes):
    groups = [episodes[k::64] for k in range(64)]
    groups = [g for g in groups if g]
    done = []
    for part in core.pmap(_run_many, groups, chunksize=1):
        done.extend(part)
    done.sort(key=lambda t: t[0]["ep"])
    for e, rs in done:
        if isinstance(rs, Exception):
            raise core.MachineryError(f"episode builder failed for {e['cls']} ep={e['ep']}: {rs!r}")
    return done


def validate(ctx, done, tag, nchunks=16):
    import concurrent.futures as cf

    chunks = [[] for _ in range(nchunks)]
    index = {}
    for n, (e, rs) in enumerate(done):
        for r in rs:
            r.pop("exc_text", None)
            r["id"] = len(index)
            index[r["id"]] = (e, r)
            chunks[n % nchunks].append(r)
    chunks = [c for c in chunks if c]
    rejects = []

    def one(args):
        k, ch = args
        _, rej = ctx.validate_trace(TRACE, TRACE_CFG, ch, tag=f"{tag}-{k}", timeout=1500, env=JVM)
        return rej

    with cf.ThreadPoolExecutor(max_workers=min(16, len(chunks) or 1)) as ex:
        for rej in ex.map(one, list(enumerate(chunks))):
            rejects.extend(rej)
    for rj in rejects:
        e, rec = index[rj["id"]]
        what = (f"{rec['cls']} {rec['a']} step={rec.get('step')} op={rec.get('op')}/{rec.get('kind')}/{rec.get('view')}"
                f"/{rec.get('keykind')}/{rec.get('how')} x={rec.get('x')} raised={rec.get('raised')!r} on {e['h']}x{e['w']} "
                f"u={e['u']} nat={e['nat']}: failed {rj['clauses']}")
        ctx.violation(rj["sig"], what, {"episode": {k: v for k, v in e.items() if not k.startswith("_")},
                                        "record": rec, "failed_clauses": rj["clauses"], "spec_wanted": rj.get("want")},
                      cls=",".join(rj["clauses"]))
    return rejects, len(index)


def observed_not_judged(ctx):
    """behaviours no docstring pins: recorded in the evidence, never judged"""
    import autoarray as aa

    np.seterr(all="ignore")
    m1 = aa.Mask2D(mask=np.array([[True, False, False], [False, True, False]]), pixel_scales=1.0)
    m2 = aa.Mask2D(mask=np.array([[False, False, True], [False, True, False]]), pixel_scales=1.0)
    m3 = aa.Mask2D(mask=np.array([[False, False, False], [False, True, False]]), pixel_scales=1.0)
    a1 = aa.Array2D(values=np.arange(1.0, 7.0).reshape(2, 3), mask=m1)
    a2 = aa.Array2D(values=np.arange(1.0, 7.0).reshape(2, 3), mask=m2)
    a3 = aa.Array2D(values=np.arange(1.0, 7.0).reshape(2, 3), mask=m3)
    an = aa.Array2D(values=np.arange(1.0, 7.0).reshape(2, 3), mask=m1, store_native=True)
    obs = {}

    def tr(name, f):
        try:
            v = f()
            obs[name] = f"{type(v).__name__} {np.asarray(getattr(v, 'array', v)).tolist()}"
        except Exception as e:  # noqa
            obs[name] = f"raises {type(e).__name__}"

    tr("different masks, same pixel count: a1 + a2", lambda: a1 + a2)
    tr("different masks, different pixel count: a1 + a3", lambda: a1 + a3)
    tr("slim-stored + native-stored on the same mask", lambda: a1 + an)
    tr("class of a comparison result: a1 < 3", lambda: a1 < 3.0)
    tr("class of np.sqrt(a1)", lambda: np.sqrt(a1))
    tr("a1 // 2.0", lambda: a1 // 2.0)
    tr("2.0 ** a1", lambda: 2.0 ** a1)
    tr("deepcopy shares the mask object", lambda: np.array([copy.deepcopy(a1).mask is a1.mask]))
    b = a1
    b += 1.0
    obs["a += 1 keeps identity"] = str(b is a1)
    ctx.note("observed, not judged: " + "; ".join(f"{k} -> {v}" for k, v in obs.items()))


def beh_signature(b):
    """the abstract shape of a behaviour: which kind of action touches which object, in order"""
    out = []
    for a in b["acts"]:
        t = a["a"]
        if t == "Binary":
            out.append((t, a["x"], "cmp" if a["op"] in ("lt", "le", "gt", "ge", "eq", "ne") else a["op"], a["kind"], a.get("route"),
                        repr(a.get("bv"))))
        elif t == "Unary":
            out.append((t, a["x"], a["op"]))
        elif t == "InPlace":
            out.append((t, a["op"], a["kind"], repr(a.get("bv"))))
        elif t == "Copy":
            out.append((t, a["how"]))
        elif t == "Edit":
            out.append((t, a["x"], a["keykind"]))
        else:
            out.append((t, a["x"], a["view"]))
    return (b["nat"], tuple(out))


def cover(behs, rng, n, per=1):
    """one (seeded) representative of every behaviour signature first, then a seeded sample of the rest, up to n"""
    if len(behs) <= n:
        return list(behs)
    groups = {}
    for k, b in enumerate(behs):
        groups.setdefault(beh_signature(b), []).append(k)
    chosen = []
    for sig in sorted(groups, key=repr):
        g = groups[sig]
        for j in rng.choice(len(g), size=min(per, len(g)), replace=False).tolist():
            chosen.append(g[j])
    if len(chosen) > n:
        chosen = [chosen[j] for j in sorted(rng.choice(len(chosen), size=n, replace=False).tolist())]
    else:
        rest = sorted(set(range(len(behs))) - set(chosen))
        extra = rng.choice(len(rest), size=min(n - len(chosen), len(rest)), replace=False).tolist()
        chosen += [rest[j] for j in extra]
    return [behs[k] for k in sorted(set(chosen))]


TWINS = {"Kernel2D": 0, "Array2D": 1, "VisibilitiesNoiseMap": 0, "Visibilities": 1}  # classes that share every code path here


def make_episodes(behs, start_ep, classes=CLASSES, alternate=False):
    epis = []
    ep = start_ep
    for n, b in enumerate(behs):
        for cls in classes:
            if alternate and cls in TWINS and n % 2 != TWINS[cls]:
                continue  # quick tier: twin classes take turns on the deep family (each still sees every other family in full)
            e = instantiate(b, cls, ep)
            if e is not None and e["actions"]:
                epis.append(e)
                ep += 1
    return epis, ep


COMPACT = dict(ops=["add", "div", "lt"], kinds=["scalar", "obj"], scalars=[(1, -1), (0, 0)], routes=["operator"], un=["neg"],
               opin=["add", "div"], kindin=["scalar", "obj"], hows=["copy", "pickle"], keys=["int", "boolfull"],
               edit_slots=["a", "c"], views=["native", "cview", "sum"], read_slots=["a", "c", "r"], pats=[("ramp", "small0")])
# the alphabet on which cached views, copies and edits interact (histories decide, values do not)
CACHE = dict(ops=["add"], kinds=["obj"], scalars=[(1, -1)], routes=["operator"], un=[], opin=["mul"], kindin=["scalar"],
             hows=["copy", "pickle"], keys=["int"], edit_slots=["a", "c"], views=["cview", "special"], read_slots=["a", "c", "r"],
             pats=[("ramp", "pow2s")], stores=[False])
CACHED_CLASSES = ["Visibilities", "VisibilitiesNoiseMap", "Grid2D", "VectorYX2D", "VectorYX2DIrregular"]


def run(ctx):
    quick = ctx.quick
    rng = np.random.default_rng(ctx.seed)
    wide_cells = 4 if quick else 6
    deep_len = 2 if quick else 3
    cache_len = 3 if quick else 4
    import concurrent.futures as cf

    # (A) every mask of every small frame x both storage forms x value patterns x every single action of the full alphabet
    # (B) every action sequence up to deep_len over a compact alphabet on masks with masked and unmasked cells
    # (B') every action sequence up to cache_len over the cached-view / copy / edit alphabet
    sim_depth = 4
    with cf.ThreadPoolExecutor(max_workers=4) as ex:
        # (C) seeded simulation of the full alphabet, deeper (thorough tier: TLC computes every successor at every step)
        fc = None if quick else ex.submit(simulate_machine, ctx, "MC_sim", 120, sim_depth, shapes=shapes_upto(4))
        fa = ex.submit(enumerate_machine, ctx, "MC_wide", shapes=shapes_upto(wide_cells), maxlen=1)
        # (thorough: every sequence on every mask of 1x2 and 2x2 is explored and checked; those of 1x2 are dumped for replay)
        fb = ex.submit(enumerate_machine, ctx, "MC_deep", shapes=[(1, 2), (2, 2)], maxlen=deep_len,
                       dump_shapes=None if quick else [(1, 2)], **COMPACT)
        fk = ex.submit(enumerate_machine, ctx, "MC_cache", shapes=[(1, 3)], maxlen=cache_len, **CACHE)
        (resA, behA), (resB, behB), (resK, behK) = fa.result(), fb.result(), fk.result()
        behC = [] if fc is None else fc.result()
    ctx.exhaustive = True
    # (D) seeded random larger frames and longer histories (kinds and values beyond the machine's alphabet)
    nD = 40 if quick else 1000
    behD = [random_behaviour(rng, 5 if quick else 8, int(rng.integers(4, 9 if quick else 13))) for _ in range(nD)]

    selA = cover(behA, rng, 300 if quick else 10000)
    selB = cover(behB, rng, 1350 if quick else 7000)
    selK = cover(behK, rng, 600 if quick else 4000)
    ctx.bounds = {"wide": {"frames_up_to_cells": wide_cells, "max_len": 1, "behaviours_enumerated": len(behA), "replayed": len(selA)},
                  "deep": {"max_len": deep_len, "behaviours_enumerated": len(behB), "replayed": len(selB), "alphabet": COMPACT},
                  "cache": {"max_len": cache_len, "behaviours_enumerated": len(behK), "replayed": len(selK), "alphabet": CACHE,
                            "classes": CACHED_CLASSES},
                  "simulated": {"depth": sim_depth, "behaviours": len(behC)},
                  "random": {"behaviours": len(behD), "max_side": 5 if quick else 8},
                  "selection": "one behaviour of every signature (which action kind touches which object, in order), then a seeded sample",
                  "classes": CLASSES}
    epis, ep = make_episodes(selA + behC + behD, 0)
    epis1, ep = make_episodes(selB, ep, alternate=quick)
    epis += epis1
    epis2, ep = make_episodes(selK, ep, classes=CACHED_CLASSES)
    epis += epis2
    ctx.replayed = len(selA) + len(selB) + len(selK) + len(behC)
    # performed and judged in batches (memory): episodes are interleaved so that every batch mixes all families
    nb = 1 if quick else 6
    rejects, nrec = [], 0
    for j in range(nb):
        done = perform(epis[j::nb])
        rj, n = validate(ctx, done, f"X08b{j}", nchunks=16)
        rejects += rj
        nrec += n
        if j == 0:
            mid = done[len(done) // 3]
            ctx.sample({"episode": {k: v for k, v in mid[0].items() if k in ("cls", "h", "w", "u", "nat", "actions")},
                        "last_record": {k: v for k, v in mid[1][-1].items()
                                        if k in ("a", "op", "kind", "view", "res", "obs", "unchanged", "raised")}})
        del done
    ctx.sample({"machine_behaviour": behB[len(behB) // 2]})
    ctx.note(f"TLC enumerated {len(behA)} wide + {len(behB)} deep + {len(behK)} cache behaviours "
             f"({resA.distinct}+{resB.distinct}+{resK.distinct} states, all design invariants hold); {len(selA)}+{len(selB)}+{len(selK)} of them, "
             f"{len(behC)} simulated and {len(behD)} random ones were performed on real objects of every class -> {len(epis)} episodes, "
             f"{nrec} records judged by Trace_Algebra, {len(rejects)} rejected")
    if not quick:
        design_counterexamples(ctx)
    observed_not_judged(ctx)
    ctx.assumptions = [
        "every IEEE double is abstracted exactly as n*2^-e; entries with |n| >= 2^14 or |e| >= 8 and results of x/0 or of an "
        "inexact operation (divisor not +-2^k, exponent outside 0..3, root of a non-square) are not judged",
        "abs() of a complex array (C library hypot, accurate to an ulp but not exact) is abstracted onto the 2^-20 lattice with a "
        "1e-9 relative residual check; every other value is abstracted without any rounding",
        "'unchanged' is decided on bytes (entries, mask, pixel scales, origin); 'reports own content' by a cold twin built from "
        "a copy of the current entries with the public constructor",
        "TLC 1.8 / SANY / CommunityModules",
    ]


def design_counterexamples(ctx):
    """the two design switches: TLC must find the counterexample when a switch is set the wrong way"""
    for name, kw, inv in (("SetItemDropsCaches=FALSE", dict(drops=False), "ReadsReportOwnContent"),
                          ("CopySharesArray=TRUE", dict(shares=True), "CopyIndependent")):
        kk = dict(CACHE)
        kk.update(kw)
        res = ctx.tlc(MODULE, machine_cfg(only=[inv]), defs=machine_defs(shapes=[(1, 2)], maxlen=3, **kk), tag="MC_cex_" + name[:4],
                      timeout=600, allow_errors=True, env={"_JAVA_OPTIONS": "-Xss32m"})
        hit = any(inv in e for e in res.errors)
        if not hit:
            raise core.MachineryError(f"Algebra.tla with {name} did not violate {inv}: {res.errors[:2]}")
        ctx.note(f"design switch {name}: TLC reports invariant {inv} violated (the counterexample history), as it must")


def replay(ctx, rp):
    e = dict(rp["episode"])
    e["ep"] = 0
    done = perform([e])
    rejects, n = validate(ctx, done, "X08-replay", nchunks=1)
    print("replayed", n, "records; rejected:", [(r["id"], r["clauses"], r["sig"]) for r in rejects])
    return ctx.finish()
