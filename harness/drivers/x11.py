"""X11 -- the bookkeeping of an inversion over a list of linear objects is a consistent partition of the parameter vector.

InvBook.tla defines, for an ordered list of linear objects (mappers, linear function lists, each with or without a
regularization, equal objects allowed), what every quantity AbstractInversion publishes about "which parameter belongs to which
object" must be: ranges, class selections, the unregularised index list, the column blocks of the (operated) mapping matrix, the
diagonal blocks of the regularization matrix, the reduced forms, the per-object dictionaries and the sums over objects; and, as a
second formulation, the way the code builds them (running pixel count, block_diag, hstack, np.delete, dictionaries keyed by the
objects, cached properties).  TLC checks on every list up to a length over a small alphabet and every read order that the two
agree (RangesPartition, ClassSelectionsAreSublists, ReducedDeletesExactlyUnregularised, DictSlicesConcatenateToReconstruction,
MappedDataIsSumOfParts, ReadsAreOrderIndependent, CacheHoldsMeaning) and exhibits the counterexamples of the design switches.
Every enumerated list, seeded random longer lists and a family of tiny systems are realised as REAL imaging inversions through the
aa.Inversion factory (mapping and w-tilde classes) on inv_common lattice datasets; every published quantity is read in seeded
orders (a permutation on one inversion object, its reverse on a second one, reads interleaved, some repeated), abstracted by a
rejecting alpha and judged by TLC against Trace_InvBook.tla, one verdict per read."""
import json
import math

import numpy as np

from harness import core
from harness.drivers import inv_common as ic

JENV = {"JAVA_TOOL_OPTIONS": "-XX:ParallelGCThreads=2 -XX:CICompilerCount=2"}

INVARIANTS = ["RangesPartition", "ClassSelectionsAreSublists", "ReducedDeletesExactlyUnregularised",
              "DictSlicesConcatenateToReconstruction", "MappedDataIsSumOfParts", "ReadsAreOrderIndependent", "CacheHoldsMeaning", "TypeOK"]

# the small alphabet of the bounded machine: (class, regularization class, parameters, content code)
ALPHABET = [("MapperRectangular", "VReg", 3, 1), ("MapperRectangular", "none", 3, 2), ("VFuncList", "VRegSub", 1, 3), ("VFuncList", "none", 1, 4),
            ("VFuncList", "VReg", 2, 5), ("VFuncList", "none", 2, 6), ("VFuncListOverride", "none", 1, 7)]
MC_READS = [("total_params", ""), ("param_range_list_from", "LinearObj"), ("param_range_list_from", "AbstractMapper"),
            ("param_range_list_from", "VFuncList"), ("no_regularization_index_list", ""), ("mapper_edge_pixel_list", ""),
            ("mapping_matrix", ""), ("operated_mapping_matrix", ""), ("regularization_matrix", ""), ("regularization_matrix_reduced", ""),
            ("curvature_reg_matrix", ""), ("curvature_reg_matrix_reduced", ""), ("reconstruction_reduced", ""), ("reconstruction_dict", ""),
            ("mapped_reconstructed_data_dict", ""), ("mapped_reconstructed_data", ""), ("data_subtracted_dict", ""),
            ("regularization_term", ""), ("regularization_weights_mapper_dict", "")]
MC_READS_QUICK = [r for r in MC_READS if r not in (("param_range_list_from", "VFuncList"), ("mapper_edge_pixel_list", ""), ("mapping_matrix", ""))]


def _defs(reads):
    return ("Sym(cls, reg, p, c) == [cls |-> cls, reg |-> reg, p |-> p, c |-> c]\n"
            "MCAlphabet == {" + ", ".join(f'Sym("{a}", "{b}", {p}, {c})' for a, b, p, c in ALPHABET) + "}\n"
            "RQ(q, arg) == [q |-> q, arg |-> arg]\n"
            "MCReadSet == {" + ", ".join(f'RQ("{q}", "{a}")' for q, a in reads) + "}\n")


DEFS = _defs(MC_READS)
DEFS_TRACE = "MCAlphabet == {}\nMCReadSet == {}\n"


def _cfg(max_len, max_reads, key_mode="identity", cache_per_object=True, rebuilds=False, dump=False, invs=INVARIANTS, trace=False):
    t = ("CONSTANTS\n  Alphabet <- MCAlphabet\n  ReadSet <- MCReadSet\n"
         f"  MaxLen = {max_len}\n  MaxReads = {max_reads}\n  NRows = 2\n  KeyMode = \"{key_mode}\"\n"
         f"  CachePerObject = {'TRUE' if cache_per_object else 'FALSE'}\n  Rebuilds = {'TRUE' if rebuilds else 'FALSE'}\n"
         f"  DumpInstances = {'TRUE' if dump else 'FALSE'}\n")
    if trace:
        return t + "SPECIFICATION TraceSpec\nPOSTCONDITION TraceAccepted\n"
    return t + "SPECIFICATION Spec\n" + "".join(f"INVARIANT {x}\n" for x in invs)


# ------------------------------------------------------------------------------------------------------------
# requests
# ------------------------------------------------------------------------------------------------------------
OBJ_CLASSES = ["LinearObj", "AbstractMapper", "MapperRectangular", "MapperDelaunay", "AbstractLinearObjFuncList", "VFuncList", "VFuncListOverride"]
REG_CLASSES = ["AbstractRegularization", "VReg", "VRegSub", "Constant"]
PLAIN_READS = ["total_params", "mask", "regularization_list", "total_regularizations", "all_linear_obj_have_regularization",
               "no_regularization_index_list", "mapper_edge_pixel_list", "mapper_zero_pixel_list", "mapping_matrix", "operated_mapping_matrix",
               "operated_mapping_matrix_list", "linear_func_operated_mapping_matrix_dict", "mapper_operated_mapping_matrix_dict",
               "data_linear_func_matrix_dict", "regularization_matrix", "regularization_matrix_reduced", "curvature_matrix",
               "curvature_reg_matrix", "curvature_reg_matrix_reduced", "reconstruction", "reconstruction_reduced", "reconstruction_dict",
               "mapped_reconstructed_data_dict", "mapped_reconstructed_image_dict", "mapped_reconstructed_data", "mapped_reconstructed_image",
               "data_subtracted_dict", "regularization_term", "reconstruction_noise_map", "reconstruction_noise_map_with_covariance",
               "reconstruction_noise_map_dict", "regularization_weights_mapper_dict", "regularization_weights_from"]
TINY_READS = ["log_det_regularization_matrix_term", "log_det_curvature_reg_matrix_term"]


def requests(tiny):
    out = [(q, "", "") for q in PLAIN_READS]
    if tiny:
        out += [(q, "", "") for q in TINY_READS]
    out += [("param_range_list_from", c, "") for c in OBJ_CLASSES + ["AbstractRegularization"]]
    for c in OBJ_CLASSES + REG_CLASSES:
        out += [("cls_list_from", c, ""), ("total", c, ""), ("has", c, "")]
    out += [("cls_list_from", "LinearObj", "AbstractMapper"), ("cls_list_from", "AbstractRegularization", "VRegSub"),
            ("cls_list_from", "AbstractLinearObjFuncList", "VFuncListOverride"), ("cls_list_from", "LinearObj", "VFuncList")]
    return out


# ------------------------------------------------------------------------------------------------------------
# gamma: abstract list -> lattice instance -> real objects
# ------------------------------------------------------------------------------------------------------------
MESHES = {3: [(1, 3), (3, 1)], 4: [(2, 2), (1, 4), (4, 1)], 5: [(1, 5), (5, 1)], 6: [(2, 3), (3, 2)], 9: [(3, 3)], 12: [(3, 4), (4, 3)]}
_CLS = {}


def _classes():
    """regularization schemes with exact integer matrices (an own subclass, as the library's MockRegularization is) and a subclass"""
    if _CLS:
        return _CLS
    import autoarray as aa
    from autoarray.inversion.regularization.abstract import AbstractRegularization
    from autoarray.inversion.linear_obj.linear_obj import LinearObj
    from autoarray.inversion.linear_obj.func_list import AbstractLinearObjFuncList
    from autoarray.inversion.pixelization.mappers.abstract import AbstractMapper

    class VReg(AbstractRegularization):
        def __init__(self, matrix, weights):
            super().__init__()
            self._matrix = np.array(matrix, dtype=float)
            self._weights = np.array(weights, dtype=float)

        def regularization_weights_from(self, linear_obj):
            return self._weights.copy()

        def regularization_matrix_from(self, linear_obj):
            return self._matrix.copy()

    class VRegSub(VReg):
        pass

    class NoSuchFuncList(AbstractLinearObjFuncList):  # stands for a function-list class none of whose instances is in the list
        pass

    _CLS.update({"VReg": VReg, "VRegSub": VRegSub, "AbstractRegularization": AbstractRegularization, "Constant": aa.reg.Constant,
                 "LinearObj": LinearObj, "AbstractMapper": AbstractMapper, "MapperRectangular": aa.MapperRectangular,
                 "MapperDelaunay": aa.MapperDelaunay, "AbstractLinearObjFuncList": AbstractLinearObjFuncList, "_none": NoSuchFuncList})
    return _CLS


def content(rng, item, n, small=False):
    """the contents of one object: mesh and cell of every pixel / integer columns; regularization matrix (L L' + I) and weights"""
    cls, reg, p = item["cls"], item["reg"], item["p"]
    c = {"cls": cls, "reg": reg, "p": p}
    if cls == "MapperRectangular":
        sh = MESHES[p][int(rng.integers(0, len(MESHES[p])))]
        cells = rng.integers(0, p, size=n)
        c.update({"mesh": [int(sh[0]), int(sh[1])], "cells": [int(x) for x in cells]})
    else:
        M = rng.integers(-1 if small else -2, 3 if small else 4, size=(n, p))
        for j in range(p):
            if not M[:, j].any():
                M[int(rng.integers(0, n)), j] = 1
        c["M"] = M.astype(int).tolist()
    if reg in ("VReg", "VRegSub"):
        L = np.tril(rng.integers(-1, 2, size=(p, p)), -1) + np.diag(rng.integers(1, 2 if small else 3, size=p))
        c["H"] = (L @ L.T + np.eye(p, dtype=int)).astype(int).tolist()
        c["wts"] = [int(x) for x in rng.integers(1, 6, size=p)]
    elif reg == "Constant":
        c["coeff"] = int(rng.integers(1, 3))
    return c


def dataset_part(rng, n=None, small=False, unit_kernel=False):
    cand = [6, 7, 8, 11, 12, 13, 16, 17, 18]                       # the 3x3 interior of a 5x5 frame
    n = n or int(rng.integers(4, 8))
    u = sorted(int(x) for x in rng.choice(cand, size=n, replace=False))
    if small:
        K = [[1]]
    elif unit_kernel:
        K = [[[1]], [[0, -1, 0], [1, 1, 1], [0, -1, 0]], [[2, -1, 0]], [[-1], [3], [-1]]][int(rng.integers(0, 4))]
    else:
        kh, kw = [(1, 1), (1, 3), (3, 1), (3, 3)][int(rng.integers(0, 4))]
        K = ic.random_kernel(rng, kh, kw, bool(rng.integers(0, 2))).tolist()
    return {"H": 5, "W": 5, "u": u, "K": K, "sig_e": [1] * n if small else [int(x) for x in rng.integers(-1, 2, size=n)],
            "d": [int(x) for x in rng.integers(-3, 6, size=n)], "E": 1 if small else int(rng.integers(1, 4))}


def make_job(rng, items, family, use_w, mode, small=False, codes=None):
    """items: [{cls, reg, p}], codes: content code per item (equal codes = equal objects)"""
    unit = any(it["reg"] == "Constant" for it in items)
    part = dataset_part(rng, small=small, unit_kernel=unit)
    n = len(part["u"])
    codes = codes or list(range(len(items)))
    by_code, contents = {}, []
    for it, c in zip(items, codes):
        if c not in by_code:
            by_code[c] = content(rng, it, n, small=small)
        contents.append(by_code[c])
    total = sum(it["p"] for it in items)
    while True:
        s = [int(x) for x in rng.integers(-9, 10, size=total)]
        if total == 1 or len(set(s)) > 1:
            break
    zp = sorted(int(x) for x in rng.choice(n, size=int(rng.integers(1, 3)), replace=False))
    return {"family": family, "part": part, "contents": contents, "use_w": bool(use_w), "mode": mode, "s": s, "zpix": zp,
            "order_seed": int(rng.integers(0, 2 ** 31 - 1)), "tiny": bool(small)}


def realise(job):
    """-> (dataset, linear objects, settings keywords, instance for inv_common)"""
    import autoarray as aa

    C = _classes()
    inst = dict(job["part"])
    inst["objs"] = []
    for c in job["contents"]:
        if c["cls"] == "MapperRectangular":
            inst["objs"].append({"type": "mapper", "mesh": c["mesh"], "sub": 1, "cells": c["cells"], "reg": False})
        else:
            inst["objs"].append({"type": "func", "M": c["M"], "me": 0, "reg": False, "override": c["cls"] == "VFuncListOverride"})
    ds, objs, skw = ic.build(inst)
    for c, lo in zip(job["contents"], objs):
        if c["reg"] in ("VReg", "VRegSub"):
            lo.regularization = C[c["reg"]](c["H"], c["wts"])
        elif c["reg"] == "Constant":
            lo.regularization = aa.reg.Constant(coefficient=float(c["coeff"]))
        else:
            lo.regularization = None
    return ds, objs, skw, inst


# ------------------------------------------------------------------------------------------------------------
# alpha
# ------------------------------------------------------------------------------------------------------------
def ints(x, scale=1.0, exact=True, slack=0.0):
    """x * scale as integers; None when off the lattice (exact) / not finite / too large for TLC"""
    try:
        a = np.asarray(x, dtype=float) * scale
    except Exception:
        return None
    if not np.all(np.isfinite(a)):
        return None
    r = np.rint(a)
    if exact and a.size and np.max(np.abs(a - r)) > 1e-6 * max(1.0, float(np.max(np.abs(a)))) + slack:
        return None
    if a.size and np.max(np.abs(r)) >= 2 ** 30:
        return None
    return r.astype(np.int64).tolist()


class Bad(Exception):
    pass


def need(v):
    if v is None:
        raise Bad()
    return v


def payload(job, ds, objs):
    """the instance in the units of InvBook.tla; every block is taken from the linear object ITSELF, never from an inversion"""
    ke = ic.kernel_ke(job["part"]["K"])
    sb = 2.0 ** (-ke)
    out = []
    from autoarray.inversion.pixelization.mappers.abstract import AbstractMapper

    for c, lo in zip(job["contents"], objs):
        M = np.asarray(lo.mapping_matrix, dtype=float)
        op = lo.operated_mapping_matrix_override
        B = np.asarray(op, dtype=float) if op is not None else ds.convolver.convolve_mapping_matrix(mapping_matrix=M)
        H = np.asarray(lo.regularization_matrix, dtype=float)
        w = lo.regularization.regularization_weights_from(linear_obj=lo) if lo.regularization is not None else np.zeros(int(lo.params))
        o = {"cls": c["cls"], "reg": c["reg"], "p": int(lo.params), "M": ints(M), "B": ints(B, sb), "H": ints(H), "wts": ints(w),
             "edge": [int(x) for x in lo.edge_pixel_list] if isinstance(lo, AbstractMapper) else []}
        n = len(job["part"]["u"])
        if (any(o[k] is None for k in ("M", "B", "H", "wts")) or o["p"] != c["p"] or np.shape(o["M"]) != (n, o["p"]) or np.shape(o["B"]) != (n, o["p"])
                or np.shape(o["H"]) != (o["p"], o["p"]) or np.shape(o["wts"]) != (o["p"],)):
            raise Bad(f"a linear object reports quantities off the lattice or of the wrong shape: {c['cls']} {c['reg']} {c['p']}")
        out.append(o)
    part = job["part"]
    return {"n": len(part["u"]), "objs": out, "w": [int(round(4 * 4.0 ** (-e))) for e in part["sig_e"]],
            "d": need(ints(np.array(part["d"], dtype=float), sb)), "g": int(round(4 * 4.0 ** (-ke))), "eps": int(part["E"]),
            "zpix": list(job["zpix"])}, sb


_INJ = {}


def inject(inv, s):
    """the reconstruction is given the way the library's own MockInversion gives it: a subclass whose `reconstruction` returns it"""
    base = type(inv)
    if base not in _INJ:
        _INJ[base] = type("Injected" + base.__name__, (base,), {"reconstruction": property(lambda self: self._x11_reconstruction)})
    inv.__class__ = _INJ[base]
    inv._x11_reconstruction = np.array(s, dtype=float)


def new_inversion(job, ds, objs, skw, injected=True):
    import autoarray as aa

    st = aa.SettingsInversion(use_w_tilde=job["use_w"], use_positive_only_solver=False, image_pixels_source_zero=list(job["zpix"]), **skw)
    inv = aa.Inversion(dataset=ds, linear_obj_list=objs, settings=st)
    name = type(inv).__name__
    if injected and job["mode"] == "injected":
        inject(inv, job["s"])
    return inv, name


ES = 2.0 ** 10       # fixed-point scale of noise maps
SS = 2.0 ** 8        # fixed-point scale of solved reconstructions


def resolve(name, objs):
    C = _classes()
    if name in C:
        return C[name]
    for lo in objs:
        for k in type(lo).__mro__:
            if k.__name__ == name:
                return k
    return C["_none"]


def key_of(x, objs):
    for k, lo in enumerate(objs):
        if x is lo:
            return k
    return -2


def token(x, objs):
    if x is None:
        return -1
    k = key_of(x, objs)
    if k >= 0:
        return k
    for k, lo in enumerate(objs):
        if lo.regularization is not None and x is lo.regularization:
            return 100 + k
    return -2


def observe(inv, ds, objs, I, sb, job, rq, S2):
    """one read of the real inversion and its abstraction -> read record"""
    q, arg, filt = rq
    rd = {"q": q, "arg": arg, "filt": filt, "raised": False, "bad": False, "v": 0, "aux": []}
    exact = job["mode"] == "injected"
    S = 1.0 if exact else SS
    g = float(I["g"])
    try:
        if q in ("param_range_list_from", "cls_list_from", "total", "has"):
            cls = resolve(arg, objs)
            if q == "param_range_list_from":
                rd["v"] = [[int(a), int(b)] for a, b in inv.param_range_list_from(cls=cls)]
            elif q == "cls_list_from":
                got = inv.cls_list_from(cls=cls, cls_filtered=resolve(filt, objs)) if filt else inv.cls_list_from(cls=cls)
                rd["v"] = [token(x, objs) for x in got]
            elif q == "total":
                rd["v"] = int(inv.total(cls=cls))
            else:
                rd["v"] = bool(inv.has(cls=cls))
        elif q == "total_params":
            rd["v"] = int(inv.total_params)
        elif q == "mask":
            rd["v"] = bool(np.array_equal(np.asarray(inv.mask), np.asarray(ds.data.mask)))
        elif q == "regularization_list":
            rd["v"] = [token(x, objs) for x in inv.regularization_list]
        elif q == "total_regularizations":
            rd["v"] = int(inv.total_regularizations)
        elif q == "all_linear_obj_have_regularization":
            rd["v"] = bool(inv.all_linear_obj_have_regularization)
        elif q in ("no_regularization_index_list", "mapper_edge_pixel_list"):
            rd["v"] = need(ints(list(getattr(inv, q))))
        elif q == "mapper_zero_pixel_list":
            # one flat array over all mappers (since /repo 4a54374; before it was a list with one array per mapper)
            rd["v"] = need(ints(np.concatenate([np.atleast_1d(np.asarray(x)) for x in inv.mapper_zero_pixel_list]) if len(inv.mapper_zero_pixel_list) else []))
        elif q == "mapping_matrix":
            rd["v"] = need(ints(inv.mapping_matrix))
        elif q == "operated_mapping_matrix":
            rd["v"] = need(ints(inv.operated_mapping_matrix, sb))
        elif q == "operated_mapping_matrix_list":
            rd["v"] = [need(ints(m, sb)) for m in inv.operated_mapping_matrix_list]
        elif q in ("linear_func_operated_mapping_matrix_dict", "mapper_operated_mapping_matrix_dict"):
            rd["v"] = [{"key": key_of(k, objs), "v": need(ints(v, sb))} for k, v in getattr(inv, q).items()]
        elif q == "data_linear_func_matrix_dict":
            rd["v"] = [{"key": key_of(k, objs), "rows": int(np.shape(v)[0]), "cols": int(np.shape(v)[1])} for k, v in inv.data_linear_func_matrix_dict.items()]
        elif q in ("regularization_matrix", "regularization_matrix_reduced"):
            m = np.asarray(getattr(inv, q), dtype=float)
            rd["v"] = need(ints(m)) if m.size else []
        elif q in ("curvature_matrix", "curvature_reg_matrix", "curvature_reg_matrix_reduced"):
            m = np.array(getattr(inv, q), dtype=float)            # a copy, taken at once (the single-regularization path sums in place)
            rd["v"] = need(ints(m, g)) if m.size else []
        elif q in ("reconstruction", "reconstruction_reduced"):
            rd["v"] = need(ints(getattr(inv, q), S, exact))
        elif q == "reconstruction_dict":
            rd["v"] = [{"key": key_of(k, objs), "v": need(ints(v, S, exact))} for k, v in inv.reconstruction_dict.items()]
        elif q in ("mapped_reconstructed_data_dict", "mapped_reconstructed_image_dict", "data_subtracted_dict"):
            rd["v"] = [{"key": key_of(k, objs), "v": need(ints(np.array(v.slim if hasattr(v, "slim") else v), sb * S, exact))} for k, v in getattr(inv, q).items()]
        elif q in ("mapped_reconstructed_data", "mapped_reconstructed_image"):
            v = getattr(inv, q)
            rd["v"] = need(ints(np.array(v.slim if hasattr(v, "slim") else v), sb * S, exact))
        elif q == "regularization_term":
            x = float(inv.regularization_term)
            # the library's own schemes add a ridge of 1e-8 to the diagonal: s'Hs is then an integer + 1e-8 |s|^2
            ridge = 1e-8 * sum(c["coeff"] for c in job["contents"] if c["reg"] == "Constant") * float(np.sum(np.square(job["s"]))) * 2
            rd["v"] = need(ints(x, slack=ridge)) if exact else 0
        elif q in ("reconstruction_noise_map", "reconstruction_noise_map_with_covariance"):
            e = np.asarray(inv.reconstruction_noise_map if q == "reconstruction_noise_map" else np.diagonal(inv.reconstruction_noise_map_with_covariance), dtype=float)
            rd["v"] = need(ints(e, ES, False))
            if S2:
                rd["aux"] = need(ints(e * e, S2, False))
        elif q == "reconstruction_noise_map_dict":
            rd["v"] = [{"key": key_of(k, objs), "v": need(ints(v, ES, False))} for k, v in inv.reconstruction_noise_map_dict.items()]
        elif q == "regularization_weights_mapper_dict":
            rd["v"] = [{"key": key_of(k, objs), "v": need(ints(v))} for k, v in inv.regularization_weights_mapper_dict.items()]
        elif q == "regularization_weights_from":
            rd["v"] = [need(ints(inv.regularization_weights_from(index=k))) for k in range(len(objs))]
        elif q in TINY_READS:
            x = float(np.real(getattr(inv, q)))
            m = sum(o["p"] for o in I["objs"] if o["reg"] != "none")
            y = math.exp(x) * (g ** m if q == "log_det_curvature_reg_matrix_term" else 1.0)
            if not (math.isfinite(y) and abs(y - round(y)) <= 1e-6 * max(1.0, abs(y)) and abs(y) < 2 ** 30):
                raise Bad()
            rd["v"] = int(round(y))
        else:
            raise core.MachineryError(f"X11: unknown request {q}")
    except core.MachineryError:
        raise
    except Bad:
        rd["bad"], rd["v"] = True, 0
    except Exception as e:  # an exception of the code under test is a verdict, not a machinery failure
        rd["raised"], rd["v"], rd["err"] = True, 0, f"{type(e).__name__}: {str(e)[:100]}"
    return rd


def tiny_scale(I):
    """fixed-point scale S2 of squared noise-map entries of a tiny system such that every product of the determinant law stays below 2^30"""
    tot = sum(o["p"] for o in I["objs"])
    if tot > 4:
        return 0
    # Hadamard bounds from the instance (B, w, eps, g, H): an upper bound of every entry of C is enough
    n = I["n"]
    B = np.hstack([np.array(o["B"], dtype=float).reshape(n, o["p"]) for o in I["objs"]])
    C = np.abs(B.T) @ (np.abs(B) * np.array(I["w"], dtype=float)[:, None]) + I["eps"] * np.eye(tot)
    k = 0
    for o in I["objs"]:
        C[k : k + o["p"], k : k + o["p"]] += I["g"] * np.abs(np.array(o["H"], dtype=float).reshape(o["p"], o["p"]))
        k += o["p"]
    norms = sorted(np.sqrt((C * C).sum(axis=1)), reverse=True)
    had_minor = float(np.prod(norms[: tot - 1])) if tot > 1 else 1.0
    had = float(np.prod(norms))
    if had >= 2 ** 29:
        return 0
    s2 = 2 ** 30 / (I["g"] * had_minor * 2.0)
    if s2 < 16:
        return 0
    return int(2 ** min(16, math.floor(math.log2(s2))))


def well_posed(I):
    """decided from the instance alone: the solved system is well conditioned and no mapper's part of the solution is (nearly)
    constant -- the library refuses such solutions with its documented InversionException (general.inversion.check_reconstruction)"""
    n = I["n"]
    tot = sum(o["p"] for o in I["objs"])
    B = np.hstack([np.array(o["B"], dtype=float).reshape(n, o["p"]) for o in I["objs"]])
    w = np.array(I["w"], dtype=float)
    C = B.T @ (B * w[:, None])
    k = 0
    for o in I["objs"]:
        if o["reg"] == "none":
            C[k : k + o["p"], k : k + o["p"]] += I["eps"] * np.eye(o["p"])
        else:
            C[k : k + o["p"], k : k + o["p"]] += I["g"] * np.array(o["H"], dtype=float).reshape(o["p"], o["p"])
        k += o["p"]
    if np.linalg.cond(C) > 1e6:
        return False
    s = np.linalg.solve(C, B.T @ (w * np.array(I["d"], dtype=float)))
    if np.max(np.abs(s)) * SS * max(1.0, float(np.max(np.abs(B)))) * tot >= 2 ** 29:
        return False
    k = 0
    for o in I["objs"]:
        sl = s[k : k + o["p"]]
        if "Mapper" in o["cls"] and np.allclose(sl, sl[0], rtol=1e-2, atol=1e-4):
            return False
        k += o["p"]
    return True


def run_job(job):
    """two inversion objects over the same linear objects: a seeded permutation of every request on the first, the reverse order
    on the second, the reads of the two interleaved; a third (cold) inversion gives the solved reconstruction and the noise map"""
    try:
        ds, objs, skw, inst = realise(job)
        I, sb = payload(job, ds, objs)
    except core.MachineryError:
        raise
    except Exception as e:   # the linear objects themselves fail (their own quantities are other checks' subject): a verdict all the same
        o = {"cls": "VFuncList", "reg": "none", "p": 1, "M": [[0]], "B": [[0]], "H": [[0]], "wts": [0], "edge": []}
        return [{"family": job["family"], "mode": job["mode"], "exact": True, "S": 1, "S2": 0, "e": [0], "s": [0], "n": 1, "objs": [o], "w": [1], "d": [0],
                 "g": 1, "eps": 1, "zpix": [0], "cls": "?", "order": "none",
                 "reads": [{"q": "linear_objects", "arg": "", "filt": "", "raised": not isinstance(e, Bad), "bad": isinstance(e, Bad), "v": 0, "aux": [],
                            "err": f"{type(e).__name__}: {str(e)[:120]}"}], "_job": job}]
    if job["mode"] == "solved" and not well_posed(I):
        job = dict(job, mode="injected")
    exact = job["mode"] == "injected"
    base = {"family": job["family"], "mode": job["mode"], "exact": exact, "S": 1 if exact else int(SS), "S2": 0, "e": [], "s": []}
    base.update(I)
    S2 = tiny_scale(I) if job["tiny"] else 0
    base["S2"] = S2
    recs = []
    twin_err, twin_q = None, "reconstruction"
    try:
        twin, name = new_inversion(job, ds, objs, skw, injected=False)
        if exact:
            base["s"] = list(job["s"])
        else:
            base["s"] = need(ints(twin.reconstruction, SS, False))
        twin_q = "reconstruction_noise_map"
        base["e"] = need(ints(twin.reconstruction_noise_map, ES, False))
    except Exception as e:
        twin_err = f"{type(e).__name__}: {str(e)[:100]}"
    rng = np.random.default_rng(job["order_seed"])
    rqs = requests(job["tiny"] and S2 > 0)
    perm = [rqs[k] for k in rng.permutation(len(rqs))]
    rep = [perm[k] for k in rng.integers(0, len(perm), size=6)]
    orders = [perm + rep, perm[::-1] + rep[::-1]]
    if twin_err is not None:
        r = dict(base)
        r.update({"cls": "?", "order": "cold", "s": [0] * sum(o["p"] for o in I["objs"]), "e": [],
                  "reads": [{"q": twin_q, "arg": "", "filt": "", "raised": True, "bad": False, "v": 0, "aux": [], "err": twin_err}]})
        r["_job"] = job
        return [r]
    invs = [new_inversion(job, ds, objs, skw) for _ in orders]
    reads = [[] for _ in orders]
    for step in range(len(orders[0])):
        for h, (inv, _) in enumerate(invs):
            reads[h].append(observe(inv, ds, objs, I, sb, job, orders[h][step], S2))
    for h, (inv, name) in enumerate(invs):
        r = dict(base)
        r.update({"cls": name, "order": "forward" if h == 0 else "reverse", "reads": reads[h]})
        r["_job"] = job
        recs.append(r)
    return recs


def _run_many(jobs):
    out = []
    for j in jobs:
        out.extend(run_job(j))
    return out


# ------------------------------------------------------------------------------------------------------------
# validation
# ------------------------------------------------------------------------------------------------------------
def validate(ctx, recs, tag, chunk=260):
    import concurrent.futures as cf

    jobs = {}
    for k, r in enumerate(recs):
        r["id"] = k
        jobs[k] = r.pop("_job", None)
    nch = max(1, math.ceil(len(recs) / chunk))
    nch = nch if nch > 8 else max(1, min(8, math.ceil(len(recs) / 25)))        # at most `chunk` records per JVM, 8 JVMs for small runs
    chunks = [recs[k::nch] for k in range(nch)]
    rejects = []

    def one(kc):
        k, ch = kc
        return ctx.validate_trace("Trace_InvBook", _cfg(0, 0, trace=True), ch, tag=f"{tag}_{k}", defs=DEFS_TRACE, env=JENV, timeout=2400)[1]

    with cf.ThreadPoolExecutor(max_workers=min(8, len(chunks))) as ex:
        for rej in ex.map(one, list(enumerate(chunks))):
            rejects.extend(rej)
    for rj in rejects:
        rec = recs[rj["id"]]
        rd = rec["reads"][rj["read"] - 1]
        lay = [(o["cls"], o["reg"], o["p"]) for o in rec["objs"]]
        what = (f"{rec['cls']} ({rec['mode']} reconstruction, {rec['order']} order, read {rj['read']}) over {lay}: {rd['q']}"
                f"{'(' + rd['arg'] + ')' if rd['arg'] else ''} failed {rj['clauses']}{' ' + rd.get('err', '') if rd.get('raised') else ''}")
        ctx.violation(rj["sig"], what, {"job": jobs.get(rj["id"]), "inversion_class": rec["cls"], "order": rec["order"], "read_index": rj["read"],
                                        "read": rd, "failed_clauses": rj["clauses"], "spec_wanted": rj.get("want")}, cls=",".join(rj["clauses"]))
    return rejects


# ------------------------------------------------------------------------------------------------------------
# instance families
# ------------------------------------------------------------------------------------------------------------
def has_mapper(items):
    return any(it["cls"] == "MapperRectangular" for it in items)


def jobs_of_list(rng, items, family, codes=None, small=False, k=0):
    """the inversion classes the factory can return for this list; two thirds of the histories with an injected reconstruction"""
    out = []
    for use_w in ([False, True] if has_mapper(items) else [False]):
        mode = "solved" if (k + int(use_w)) % 3 == 2 else "injected"
        if any(it["reg"] == "Constant" for it in items):
            mode = "injected"          # the 1e-8 ridge of the library's schemes makes solved systems ill-conditioned: not this extra's subject
        out.append(make_job(rng, items, family, use_w, mode, small=small, codes=codes))
    return out


def random_list(rng, max_len, max_total=30):
    while True:
        items, codes = _random_list(rng, max_len)
        if sum(it["p"] for it in items) <= max_total:
            return items, codes


def _random_list(rng, max_len):
    n = int(rng.integers(1, max_len + 1))
    items, codes = [], []
    for k in range(n):
        if items and rng.random() < 0.25:                                 # an object EQUAL to an earlier one (another instance)
            j = int(rng.integers(0, len(items)))
            items.append(dict(items[j]))
            codes.append(codes[j])
            continue
        if rng.random() < 0.5:
            it = {"cls": "MapperRectangular", "p": int(rng.choice([3, 4, 5, 6, 6, 9, 12])), "reg": str(rng.choice(["none", "VReg", "VRegSub", "Constant"]))}
        else:
            it = {"cls": str(rng.choice(["VFuncList", "VFuncListOverride"])), "p": int(rng.integers(1, 4)), "reg": str(rng.choice(["none", "none", "VReg", "VRegSub"]))}
        items.append(it)
        codes.append(k)
    return items, codes


def tiny_lists():
    """every list over {function list 1..3 columns, mapper with 3 pixels} x {regularised, not} with at most 4 parameters"""
    kinds = [("VFuncList", 1), ("VFuncList", 2), ("VFuncList", 3), ("MapperRectangular", 3)]
    out = []

    def rec(prefix, total):
        if prefix:
            out.append(list(prefix))
        for cls, p in kinds:
            if total + p <= 4:
                for reg in ("none", "VReg"):
                    rec(prefix + [{"cls": cls, "p": p, "reg": reg}], total + p)

    rec([], 0)
    return out


def run(ctx):
    import concurrent.futures as cf

    quick = ctx.quick
    rng = np.random.default_rng(ctx.seed)
    max_len = 3 if quick else 4
    # 1. TLC: the lists (Init states of the machine, dumped), the design theorems per list
    res = ctx.tlc("InvBook", _cfg(max_len, 0, dump=True), defs=DEFS, tag="MC_lists", workers=1, timeout=1200, env={"_JAVA_OPTIONS": "-Xmx2g"})
    lists = [r["objs"] for r in res.by_kind("inst")]
    if len(lists) != sum(len(ALPHABET) ** k for k in range(1, max_len + 1)):
        raise core.MachineryError(f"X11: TLC dumped {len(lists)} lists")
    lists.sort(key=lambda l: json.dumps(l, sort_keys=True))

    # 2. in the background: every list x every read order of length 2 (cache discipline), rebuilds, and the design switches
    def mc(kind):
        if kind == "orders":
            return kind, ctx.tlc("InvBook", _cfg(max_len, 2), defs=_defs(MC_READS_QUICK) if quick else DEFS, tag="MC_orders", workers=8 if quick else 16, timeout=3000,
                                 env={"_JAVA_OPTIONS": "-Xmx3g" if quick else "-Xmx6g"})
        if kind == "rebuilds":
            return kind, ctx.tlc("InvBook", _cfg(2, 2, rebuilds=True), defs=DEFS, tag="MC_rebuilds", workers=2, timeout=1200, coverage=True,
                                 env={"_JAVA_OPTIONS": "-Xmx2g"})
        key, cpo = kind
        return kind, core.run_tlc("InvBook", _cfg(2, 1, key_mode=key, cache_per_object=cpo, rebuilds=not cpo), ctx.work, defs=DEFS,
                                  tag=f"MC_switch_{key}_{cpo}", timeout=600, allow_errors=True, workers=1)

    pool = cf.ThreadPoolExecutor(max_workers=5)
    futs = [pool.submit(mc, k) for k in ("orders", "rebuilds", ("content", True), ("class", True), ("identity", False))]

    # 3. S->C: every enumerated list as real inversions (both classes), seeded payloads and read orders
    jobs = []
    for k, l in enumerate(lists):
        items = [{"cls": x["cls"], "reg": x["reg"], "p": int(x["p"])} for x in l]
        jobs += jobs_of_list(rng, items, "tlc-list", codes=[int(x["c"]) for x in l], k=k)
    n_tlc = len(jobs)
    # 4. C->S: seeded random longer lists (sizes 3..12 / 1..3, Constant schemes, equal objects) and the tiny systems
    n_rand = 160 if quick else 2000
    for k in range(n_rand):
        items, codes = random_list(rng, 5 if quick else 6, 30 if quick else 40)
        jobs += jobs_of_list(rng, items, "random-list", codes=codes, k=k)
    tl = tiny_lists()
    if quick:
        tl = [tl[k] for k in rng.permutation(len(tl))[:70]]
    for k, items in enumerate(tl):
        jobs += jobs_of_list(rng, items, "tiny-system", small=True, k=k)
    ctx.bounds = {"alphabet": [list(a) for a in ALPHABET], "tlc_lists": len(lists), "max_list_length_tlc": max_len, "read_orders_tlc": "all of length 2 over "
                  f"{len(MC_READS_QUICK) if quick else len(MC_READS)} requests (rebuild machine: {len(MC_READS)})", "real_inversions_of_tlc_lists": n_tlc, "random_lists": n_rand, "random_list_length": "1..5 (at most 30 parameters)" if quick else "1..6 (at most 40 parameters)",
                  "random_sizes": "mappers 3,4,5,6,9,12 pixels; function lists 1..3 columns; schemes none/VReg/VRegSub/Constant; equal objects with p=0.25",
                  "tiny_systems": len(tl), "requests_per_history": len(requests(False)) + 6, "histories_per_inversion": "permutation + reverse, interleaved"}
    groups = [jobs[k::64] for k in range(64)]
    recs = []
    for part in core.pmap(_run_many, [g for g in groups if g]):
        recs.extend(part)
    ctx.replayed = len(jobs)
    ex = next((r for r in recs if r["family"] == "random-list" and len(r["objs"]) >= 3), recs[0])
    ctx.sample({"family": ex["family"], "class": ex["cls"], "objects": [(o["cls"], o["reg"], o["p"]) for o in ex["objs"]], "s": ex["s"],
                "reads": [{k: v for k, v in rd.items() if k in ("q", "arg", "v")} for rd in ex["reads"]
                          if rd["q"] in ("param_range_list_from", "no_regularization_index_list", "reconstruction_dict")][:4]})
    rejects = validate(ctx, recs, "X11")
    nreads = sum(len(r["reads"]) for r in recs)
    for f in futs:
        kind, r = f.result()
        if kind in ("orders", "rebuilds"):
            continue
        ctx.note(f"design switch KeyMode={kind[0]} CachePerObject={kind[1]}: TLC reports "
                 f"{[e for e in r.errors if 'is violated' in e][:1] or 'no invariant violated'}")
    pool.shutdown()
    ctx.exhaustive = True
    nt = sum(1 for r in recs if r["S2"] > 0)
    ctx.note(f"{len(jobs)} real inversions x 2 interleaved histories = {len(recs)} records, {nreads} reads judged by Trace_InvBook "
             f"({sum(1 for r in recs if r['cls'] == 'InversionImagingWTilde')} histories on InversionImagingWTilde, "
             f"{sum(1 for r in recs if not r['exact'])} with a solved reconstruction, {nt} tiny systems with the determinant laws); "
             f"{len(rejects)} reads rejected")
    ctx.assumptions = [
        "the linear objects of one list are distinct instances (two EQUAL objects are two instances with the same contents)",
        "every block in a record (mapping matrix, operated mapping matrix, regularization matrix, weights, edge pixels) is read from the linear object itself or computed from it and the dataset's convolver, never from the inversion under test",
        "injected reconstructions follow the library's MockInversion idiom (a subclass whose `reconstruction` returns the vector); solved ones are compared in fixed point (2^-8) with the derived rounding bounds and the regularization term is then not judged",
        "for the imaging classes mapped_reconstructed_image(_dict) is, as AbstractInversion defines it, mapped_reconstructed_data(_dict)",
        "noise-map and log-determinant values are judged numerically only on systems with at most 4 parameters (exact determinants in 32-bit integers); on larger systems only their order-independence and the dictionary slices are judged",
    ]


def replay(ctx, rp):
    recs = run_job(rp["job"])
    rej = validate(ctx, recs, "replay")
    print("replayed", len(recs), "histories; rejected:", sorted({(r["sig"], tuple(r["clauses"])) for r in rej}))
    return ctx.finish()
