"""C07 -- regularization matrices are symmetric PSD with the stated quadratic form; block placement.

Regularization.tla defines, from a neighbour table, the quadratic forms of the statement, the documented matrices and (as a
second formulation) the accumulation loops of the code, the split-cross sum of squares and block-diagonal placement; TLC checks
on every mesh / scheme / coefficient of the bounded family that the formulations agree, that the matrix is THE matrix of the
stated form (polarisation), symmetry, x'Hx >= 0 on {-1,0,1}^n (n <= 6), strict positive definiteness by exact minors (n <= 4),
the ridge-by-homogeneity identity and the block theorems, and enumerates the instances.

S->C: every enumerated instance is replayed through the real API (aa.reg.* .regularization_matrix_from /
      regularization_weights_from on real MapperRectangular / MapperDelaunay objects, the regularization_util assembly
      functions for integer weights on Delaunay graphs and synthetic split-cross rows, aa.Inversion.regularization_matrix /
      regularization_matrix_reduced for every object list of length 1..3).
C->S: all records, plus seeded random larger meshes, adaptive / brightness / split-cross / kernel schemes on real adapt data in
      fixed point with derived rounding bounds, are validated by Trace_Regularization.tla.
"""
import math

import numpy as np

from harness import core

RHO = 1e-8
QUARTER = 0.25

STAGES = ("fresh", "after-solve", "preloaded", "preloaded-after-solve", "second-inversion", "preload-source")
INVARIANTS = ["HistoryIndependent", "TablesWellFormed", "AssemblyIsDocumentedMatrix", "SizeIsParamCount", "Symmetric", "FormDeterminesMatrix",
              "FormOnTernaryVectors", "SylvesterSmall", "RidgeByHomogeneity", "SplitAssemblyIsSumOfSquares",
              "SplitFormOnTernaryVectors", "BlocksInObjectOrder", "OffBlocksAreZero", "UnregularisedBlockIsZero",
              "ReducedIsRegularisedBlocks"]

CFG_MC = """CONSTANTS
  RectShapes <- MCRectShapes
  Graphs <- MCGraphs
  C2Q <- MCC2Q
  ZerothSet <- MCZerothSet
  WeightSet <- MCWeightSet
  Patterns <- MCPatterns
  Splits <- MCSplits
  ObjKinds <- MCObjKinds
  MaxObjs <- MCMaxObjs
  Stages <- MCStages
  StageMaxObjs <- MCStageMaxObjs
  StageKinds <- MCStageKinds
  MaxTernary = 6
SPECIFICATION Spec
""" + "".join(f"INVARIANT {x}\n" for x in INVARIANTS)

CFG_TRACE = """CONSTANTS
  RectShapes = {}
  Graphs = {}
  C2Q = {}
  ZerothSet = {}
  WeightSet = {}
  Patterns = {}
  Splits = {}
  ObjKinds = {}
  MaxObjs = 0
  Stages = {}
  StageMaxObjs = 0
  StageKinds = {}
  MaxTernary = 6
SPECIFICATION TraceSpec
POSTCONDITION TraceAccepted
"""

# object kinds of the block machine: (parameter count, regularised) -> how the replayer realises them
KIND_OF_P = {9: ("mapper", (3, 3)), 12: ("mapper", (3, 4)), 1: ("func", 1), 2: ("func", 2)}
BLOCK_COEFF = (0.5, 1.0, 2.0)  # coefficient of the regulariser of the object at position 0, 1, 2 (distinct: order is visible)


# ------------------------------------------------------------------------------------------------------------
# TLA+ value formatting
# ------------------------------------------------------------------------------------------------------------
def tla(v):
    if isinstance(v, bool):
        return "TRUE" if v else "FALSE"
    if isinstance(v, (int, np.integer)):
        return str(int(v))
    if isinstance(v, str):
        return '"' + v + '"'
    if isinstance(v, dict):
        return "[" + ", ".join(f"{k} |-> {tla(x)}" for k, x in v.items()) + "]"
    if isinstance(v, (list, tuple)):
        return "<<" + ", ".join(tla(x) for x in v) + ">>"
    if isinstance(v, (set, frozenset)):
        return "{" + ", ".join(tla(x) for x in sorted(v)) + "}"
    raise TypeError(type(v))


# ------------------------------------------------------------------------------------------------------------
# the Delaunay family (vertex sets in generic position, (y, x) coordinates) and its neighbour graphs
# ------------------------------------------------------------------------------------------------------------
def vertex_sets(seed, quick):
    rng = np.random.default_rng(4242 + seed)
    out = [
        ("tri3", [[0.0, 0.0], [4.0, 0.5], [1.0, 3.5]]),
        ("quad4", [[0.0, 0.0], [4.0, 0.3], [4.4, 3.9], [-0.2, 4.1]]),
        ("tri4c", [[0.0, 0.0], [6.0, 0.2], [2.8, 5.5], [3.0, 1.9]]),
    ]

    def rnd(n, box):
        while True:
            p = rng.uniform(0, box, size=(n, 2))
            d = np.sqrt(((p[:, None, :] - p[None, :, :]) ** 2).sum(-1)) + np.eye(n) * 1e9
            if d.min() > 0.25 * box / math.sqrt(n):
                return np.round(p, 3).tolist()

    out.append(("rnd5", rnd(5, 6.0)))
    out.append(("rnd6", rnd(6, 6.0)))
    hexa = [[3.0, 3.1]] + [[3.0 + 2.6 * math.sin(a) + 0.1 * k, 3.0 + 2.6 * math.cos(a) - 0.07 * k] for k, a in enumerate(np.arange(6) * math.pi / 3 + 0.2)]
    out.append(("hex7", np.round(hexa, 3).tolist()))

    def lattice(my, mx, sp, jit):
        g = np.array([[sp * a, sp * b] for a in range(my) for b in range(mx)], dtype=float)
        return np.round(g + rng.uniform(-jit, jit, size=g.shape), 3).tolist()

    def fan(ring, k):
        """a hub: centre ringed by `ring` points (jittered radius) plus an outer ring -> the centre has `ring` Delaunay neighbours"""
        pts = [[0.03 * k, -0.02 * k]]
        for t in range(ring):
            a = 2 * math.pi * t / ring + 0.1
            r = 2.5 * (1.0 + 0.03 * math.sin(7.0 * t + k))
            pts.append([r * math.sin(a), r * math.cos(a)])
        for t in range(8):
            a = 2 * math.pi * t / 8 + 0.3
            pts.append([5.2 * math.sin(a) + 0.05 * t, 5.2 * math.cos(a) - 0.04 * t])
        return np.round(pts, 3).tolist()

    out.append(("lat9", lattice(3, 3, 2.0, 0.35)))
    out.append(("rnd12", rnd(12, 8.0)))
    out.append(("lat16", lattice(4, 4, 2.0, 0.35)))
    out.append(("fan16", fan(16, 1)))
    if not quick:
        out.append(("fan13", fan(13, 2)))
        out.append(("fan20", fan(20, 3)))
        for k in range(6):
            n = int(rng.integers(5, 15))
            out.append((f"rnd{n}_{k}", rnd(n, 8.0)))
        out.append(("lat20", lattice(4, 5, 2.0, 0.4)))
    for name, v in out:
        if name.startswith("fan") and max(len(x) for x in graph_of(v)) < 13:
            raise core.MachineryError(f"vertex set {name} has no hub of degree >= 13")
    return out


def graph_of(verts):
    """neighbour table (1-based, ascending) of the Delaunay triangulation of the vertex set -- computed with scipy directly"""
    import scipy.spatial

    d = scipy.spatial.Delaunay(np.asarray(verts, dtype=float))
    indptr, indices = d.vertex_neighbor_vertices
    return [sorted(int(x) + 1 for x in indices[indptr[k]: indptr[k + 1]]) for k in range(len(verts))]


def synthetic_splits(seed, quick):
    """split-cross instances with integer interpolation weights (unit 1/T, T a power of two) for the machine"""
    rng = np.random.default_rng(977 + seed)
    out = []
    for k in range(6 if quick else 20):
        n = int(rng.integers(2, 6))
        T = int(rng.choice([4, 8]))
        w = [int(x) for x in rng.integers(1, 3, size=n)]
        rows = []
        for pix in range(1, n + 1):
            for c in range(4):
                sz = int(rng.integers(1, min(3, n) + 1))
                mp = [int(x) + 1 for x in rng.choice(n, size=sz, replace=False)]
                if rng.random() < 0.5 and pix not in mp:
                    mp[0] = pix
                cuts = sorted(int(x) for x in rng.choice(np.arange(1, T), size=sz - 1, replace=False)) if sz > 1 else []
                wt = [b - a for a, b in zip([0] + cuts, cuts + [T])]
                rows.append({"pix": pix, "map": mp, "wt": wt})
        out.append({"n": n, "T": T, "w": w, "om": [x * x for x in w], "rows": rows})
    return out


# ------------------------------------------------------------------------------------------------------------
# gamma: real objects
# ------------------------------------------------------------------------------------------------------------
def _mask(n_data):
    import autoarray as aa

    h = max(d for d in range(1, int(math.isqrt(n_data)) + 1) if n_data % d == 0)
    return aa.Mask2D(mask=np.zeros((h, n_data // h), dtype=bool), pixel_scales=1.0)


def rect_mapper(my, mx, pts, adapt=None):
    import autoarray as aa

    mask = _mask(len(pts))
    grid = aa.Grid2D.uniform(shape_native=(my, mx), pixel_scales=1.0)
    mesh = aa.Mesh2DRectangular(values=np.array(grid), shape_native=(my, mx), pixel_scales=(1.0, 1.0))
    ad = None if adapt is None else aa.Array2D(values=np.asarray(adapt, dtype=float), mask=mask)
    mg = aa.MapperGrids(mask=mask, source_plane_data_grid=aa.Grid2DIrregular(np.asarray(pts, dtype=float)),
                        source_plane_mesh_grid=mesh, image_plane_mesh_grid=None, adapt_data=ad)
    return aa.MapperRectangular(mapper_grids=mg, over_sampler=aa.OverSamplerUniform(mask=mask, sub_size=1),
                                border_relocator=None, regularization=None)


def rect_centres(my, mx):
    return np.array([[(my - 1) / 2.0 - c // mx, c % mx - (mx - 1) / 2.0] for c in range(my * mx)], dtype=float)


def delaunay_mapper(verts, pts, adapt=None):
    import autoarray as aa

    mask = _mask(len(pts))
    mesh = aa.Mesh2DDelaunay(values=np.asarray(verts, dtype=float))
    ad = None if adapt is None else aa.Array2D(values=np.asarray(adapt, dtype=float), mask=mask)
    mg = aa.MapperGrids(mask=mask, source_plane_data_grid=aa.Grid2DIrregular(np.asarray(pts, dtype=float)),
                        source_plane_mesh_grid=mesh, image_plane_mesh_grid=None, adapt_data=ad)
    return aa.MapperDelaunay(mapper_grids=mg, over_sampler=aa.OverSamplerUniform(mask=mask, sub_size=1),
                             border_relocator=None, regularization=None)


def points_in_hull(rng, verts, n):
    """data points inside the convex hull of the vertex set (convex combinations of the vertices of random triangles)"""
    import scipy.spatial

    v = np.asarray(verts, dtype=float)
    d = scipy.spatial.Delaunay(v)
    out = []
    for _ in range(n):
        s = d.simplices[int(rng.integers(0, len(d.simplices)))]
        w = rng.dirichlet([1.0, 1.0, 1.0]) * 0.96 + 0.04 / 3
        out.append(w @ v[s])
    return np.array(out)


def table_of(mapper):
    """the neighbour table the linear object reports, 1-based (alpha; C06 decides whether it is the right table)"""
    nb = mapper.neighbors
    arr = np.asarray(nb)
    sizes = np.asarray(nb.sizes)
    return [[int(arr[k, j]) + 1 for j in range(int(sizes[k]))] for k in range(arr.shape[0])]


# ------------------------------------------------------------------------------------------------------------
# alpha
# ------------------------------------------------------------------------------------------------------------
def alpha_exact(H, unit, tol=1e-12):
    """H = unit*Q + rho*R with integer matrices; (Q, R, on_lattice)"""
    H = np.asarray(H, dtype=float)
    if H.ndim != 2 or not np.all(np.isfinite(H)):
        return [], [], False
    q = np.rint(H / unit)
    resid = H - q * unit
    r = np.rint(resid / RHO)
    ok = H.size == 0 or (np.max(np.abs(resid - r * RHO)) <= tol and np.max(np.abs(q)) < 2 ** 30 and np.max(np.abs(r)) < 1000)
    return q.astype(np.int64).tolist(), r.astype(np.int64).tolist(), bool(ok)


def ints_exact(w, scale=1.0):
    a = np.asarray(w, dtype=float) * scale
    r = np.rint(a)
    ok = a.size == 0 or (np.all(np.isfinite(a)) and np.max(np.abs(a - r)) <= 1e-9 and np.max(np.abs(r)) < 2 ** 15)
    return r.astype(np.int64).tolist() if np.all(np.isfinite(a)) else [], bool(ok)


def fixed(x, scale):
    return np.rint(np.asarray(x, dtype=float) * scale).astype(np.int64).tolist()


def pow2_floor(x):
    return 2.0 ** math.floor(math.log2(x))


def shape2(H):
    H = np.asarray(H)
    return (int(H.shape[0]), int(H.shape[1])) if H.ndim == 2 else (-1, -1)


def sym_raw(H):
    H = np.asarray(H)
    return bool(H.ndim == 2 and H.shape[0] == H.shape[1] and np.array_equal(H, H.T))


def cholesky_exists(H):
    """the observation the statement names: the Cholesky factorization of the returned matrix exists (as numpy computes it for the
    evidence: lower triangle) with finite positive pivots"""
    try:
        L = np.linalg.cholesky(np.asarray(H, dtype=float))
        d = np.diag(L)
        return bool(np.all(np.isfinite(L)) and (d.size == 0 or np.min(d) > 0.0))
    except Exception:
        return False


def min_spacing(v):
    v = np.asarray(v, dtype=float)
    return float(np.min(np.sqrt(((v[:, None, :] - v[None, :, :]) ** 2).sum(-1)) + np.eye(len(v)) * 1e9))


def perm_abs(A):
    """permanent of |A| (n <= 4): bounds every partial sum of the Laplace expansion TLC evaluates"""
    import itertools

    A = np.abs(np.asarray(A, dtype=np.int64))
    n = A.shape[0]
    return sum(int(np.prod([A[i, p[i]] for i in range(n)])) for p in itertools.permutations(range(n))) if n else 1


def base_record(api, scheme, mesh, n):
    return {"p": "C07", "api": api, "scheme": scheme, "mesh": mesh, "n": int(n), "raised": False, "history": "fresh",
            "ctype": "float", "attrs_ok": True}


HISTORIES = ("fresh", "copy", "reassign")


def observe_block(lin, reg, history, prior_none=False):
    """-> (matrix, the linear object it was read from).
    fresh:    regularization.regularization_matrix_from(linear_obj)
    copy:     the object first carries a DIFFERENT scheme (or none) and its block is evaluated once; then the idiom of the library's
              own tests, `lin = copy.copy(lin); lin.regularization = reg`, and the block is read from linear_obj.regularization_matrix
    reassign: the same, re-assigning on the same object without copying"""
    import copy

    import autoarray as aa

    if history == "fresh":
        return reg.regularization_matrix_from(linear_obj=lin), lin
    if prior_none:
        prior = None
    elif isinstance(reg, aa.reg.Constant) and type(reg) is aa.reg.Constant and reg.coefficient == 1.0:
        prior = aa.reg.Constant(coefficient=2.0)
    else:
        prior = aa.reg.Constant(coefficient=1.0)
    lin.regularization = prior
    lin.regularization_matrix  # evaluated once with the other scheme
    if history == "copy":
        lin = copy.copy(lin)
    lin.regularization = reg
    return lin.regularization_matrix, lin


def failed(api, scheme, mesh, n, e, history="fresh"):
    r = base_record(api, scheme, mesh, n)
    r["history"] = history
    r.update({"raised": True, "err": f"{type(e).__name__}: {str(e)[:120]}"})
    return r


def ridge_by_homogeneity(H, H2, f, m):
    """D = (H2 - f*H)/rho as integers; ok iff on the lattice (residual <= 0.01 ridge units).
    Every entry is a floating-point sum of at most m same-signed terms, each a product of <= 3 roundings, so its error is
    <= (m + 3) u |entry| (u = 2^-53); the terms of the second run are exactly f times those of the first (f a power of two), so
    |float(H2 - f H) - (1 - f) rho I| <= 2 f (m + 3) u max|H|.  The drivers only generate instances where that is < 0.005 units."""
    H = np.asarray(H, dtype=float)
    H2 = np.asarray(H2, dtype=float)
    if H.shape != H2.shape or not np.all(np.isfinite(H2)) or not np.all(np.isfinite(H)):
        return [], False
    err = 2 * f * (m + 3) * 1.2e-16 * float(np.max(np.abs(H))) / RHO
    if err > 0.005:
        raise core.MachineryError(f"instance too large for the ridge-by-homogeneity observation (float error bound {err:.3g} ridge units)")
    D = (H2 - f * H) / RHO
    Dr = np.rint(D)
    ok = bool(np.max(np.abs(D - Dr)) <= 0.01 and np.max(np.abs(Dr)) < 10 ** 6)
    return Dr.astype(np.int64).tolist(), ok


# ------------------------------------------------------------------------------------------------------------
# records: exact domain on real mappers
# ------------------------------------------------------------------------------------------------------------
def exact_record(scheme, mesh, lin, reg, c2q=0, czq=0, unit=QUARTER, need_w=False, desc=None, history="fresh", prior_none=False,
                 observed=None, tol=1e-12):
    n = int(lin.params)
    try:
        if observed is not None:
            H, w = observed
        else:
            H, lin = observe_block(lin, reg, history, prior_none)
            w = np.asarray(reg.regularization_weights_from(linear_obj=lin), dtype=float)
        N = table_of(lin)
    except Exception as e:  # an exception is an observation (the schemes must return a matrix)
        return failed("exact", scheme, mesh, n, e, history)
    Hq, Hr, ok = alpha_exact(H, unit, tol)
    W, okw = ints_exact(w) if need_w else ([], True)
    r = base_record("exact", scheme, mesh, n)
    r.update({"N": N, "c2q": int(c2q), "czq": int(czq), "W": W, "wlen": int(w.shape[0]) if w.ndim == 1 else -1,
              "rows": shape2(H)[0], "cols": shape2(H)[1], "Hq": Hq, "Hr": Hr, "sym": sym_raw(H),
              "chol": cholesky_exists(H), "offlattice": not (ok and okw), "desc": desc or {}, "history": history})
    _guard_minors(r)
    return r


def util_record(scheme, mesh, N0, w_int, desc=None):
    """integer weights through the assembly functions of regularization_util (table N0 0-based as the mesh reports it)"""
    from autoarray.inversion.regularization import regularization_util as ru

    n = len(w_int)
    try:
        if scheme == "adaptive":
            H = ru.weighted_regularization_matrix_from(regularization_weights=np.asarray(w_int, dtype=float), neighbors=np.asarray(N0),
                                                       neighbors_sizes=np.asarray(N0.sizes))
        else:
            H = ru.brightness_zeroth_regularization_matrix_from(regularization_weights=np.asarray(w_int, dtype=float))
    except Exception as e:
        return failed("exact", scheme, mesh, n, e)
    arr, sizes = np.asarray(N0), np.asarray(N0.sizes)
    N = [[int(arr[k, j]) + 1 for j in range(int(sizes[k]))] for k in range(arr.shape[0])]
    Hq, Hr, ok = alpha_exact(H, 1.0)
    r = base_record("exact", scheme, mesh, n)
    r.update({"N": N, "c2q": 0, "czq": 0, "W": [int(x) for x in w_int], "wlen": n, "rows": shape2(H)[0], "cols": shape2(H)[1],
              "Hq": Hq, "Hr": Hr, "sym": sym_raw(H), "chol": cholesky_exists(H), "offlattice": not ok, "desc": desc or {}})
    _guard_minors(r)
    return r


def _guard_minors(r):
    if not r["raised"] and not r["offlattice"] and r["n"] <= 4 and r["rows"] == r["n"] == r["cols"] and perm_abs(r["Hq"]) >= 2 ** 31:
        raise core.MachineryError("exact instance too large for 32-bit minors")


def scheme_object(scheme, c2q, czq):
    import autoarray as aa

    c = math.sqrt(c2q / 4.0)
    if scheme == "constant":
        return aa.reg.Constant(coefficient=c)
    if scheme == "constant_zeroth":
        return aa.reg.ConstantZeroth(coefficient_neighbor=c, coefficient_zeroth=math.sqrt(czq / 4.0))
    if scheme == "zeroth":
        return aa.reg.Zeroth(coefficient=c)
    raise ValueError(scheme)


def records_for_inst(inst, verts, seed):
    """replay of one instance the machine enumerated"""
    import autoarray as aa

    rng = np.random.default_rng(seed + 31 * inst["c2q"] + 7 * inst["czq"] + inst["pat"])
    kind, scheme = inst["kind"], inst["scheme"]
    if kind == "blocks":
        kinds = [(int(o[0]), bool(o[1])) for o in inst["objs"]]
        stage = inst.get("stage", "fresh")
        history = HISTORIES[(sum(p + 5 * int(g) for p, g in kinds) + len(kinds)) % 3] if stage == "fresh" else "fresh"
        return [blocks_record(kinds, seed, history=history, stage=stage)]
    if kind == "split":
        return [synthetic_split_record(inst["_split"])]
    m = inst["mesh"]
    hsel = int(inst["c2q"]) + 3 * int(inst["czq"]) + int(inst["pat"]) + int(inst["wa"]) + int(m[1]) + 2 * int(m[2]) + len(scheme)
    history, prior_none = HISTORIES[hsel % 3], (hsel // 3) % 2 == 1
    desc = {"from": "machine", "mesh": m, "c2q": inst["c2q"], "czq": inst["czq"], "wa": inst["wa"], "wb": inst["wb"], "bright": inst["bright"]}
    if m[0] == "rect":
        my, mx = int(m[1]), int(m[2])
        n = my * mx
        pts = rect_centres(my, mx) + rng.uniform(-0.4, 0.4, size=(n, 2))  # data pixel k lies in mesh pixel k
        bright = set(int(b) for b in inst["bright"])
        adapt = [1.0 if (k + 1) in bright else 0.0 for k in range(n)]
        lin = rect_mapper(my, mx, pts, adapt)
        mesh = "rect"
    else:
        lin = delaunay_mapper(verts, points_in_hull(rng, verts, max(6, len(verts))), None)
        n = len(verts)
        mesh = "delaunay"
    if scheme in ("constant", "constant_zeroth", "zeroth"):
        return [exact_record(scheme, mesh, lin, scheme_object(scheme, inst["c2q"], inst["czq"]), inst["c2q"], inst["czq"], desc=desc,
                             history=history, prior_none=prior_none)]
    bright = set(int(b) for b in inst["bright"])
    wa, wb = int(inst["wa"]), int(inst["wb"])
    if mesh == "rect":
        ss = float(rng.choice([0.0, 0.5, 1.0, 2.0, 3.0]))
        reg = (aa.reg.AdaptiveBrightness(inner_coefficient=float(wa), outer_coefficient=float(wb), signal_scale=ss) if scheme == "adaptive"
               else aa.reg.BrightnessZeroth(coefficient=float(wa), signal_scale=ss))
        return [exact_record(scheme, mesh, lin, reg, unit=1.0, need_w=True, desc=desc, history=history, prior_none=prior_none)]
    # Delaunay graphs: the adapt signals of a barycentric mapper are not on a lattice; integer weights go through the assembly functions
    if scheme == "adaptive":
        w = [wa * wa if (k + 1) in bright else wb * wb for k in range(n)]
    else:
        w = [0 if (k + 1) in bright else wa for k in range(n)]
    return [util_record(scheme, mesh, lin.source_plane_mesh_grid.neighbors, w, desc=desc)]


# ------------------------------------------------------------------------------------------------------------
# records: split cross
# ------------------------------------------------------------------------------------------------------------
def synthetic_split_record(sp):
    """integer-weight rows through reg_split_from / pixel_splitted_regularization_matrix_from (exact: weights are k/T, T = 2^e)"""
    from autoarray.inversion.regularization import regularization_util as ru

    n, T = sp["n"], sp["T"]
    rows = sp["rows"]
    width = max(len(r["map"]) for r in rows) + 1

    def arrays():
        mp = -np.ones((4 * n, width), dtype=int)
        wt = np.zeros((4 * n, width), dtype=float)
        sz = np.zeros(4 * n, dtype=int)
        for k, r in enumerate(rows):
            sz[k] = len(r["map"])
            mp[k, : sz[k]] = np.array(r["map"]) - 1
            wt[k, : sz[k]] = np.array(r["wt"], dtype=float) / T
        return mp, sz, wt

    def run(w):
        mp, sz, wt = arrays()
        mp, sz, wt = ru.reg_split_from(splitted_mappings=mp, splitted_sizes=sz, splitted_weights=wt)
        return ru.pixel_splitted_regularization_matrix_from(regularization_weights=np.asarray(w, dtype=float), splitted_mappings=mp,
                                                            splitted_sizes=sz, splitted_weights=wt)

    rec = base_record("split", "split_util", "synthetic", n)
    try:
        H = run(sp["w"])
        H2 = run([2 * x for x in sp["w"]])
    except Exception as e:
        return failed("split", "split_util", "synthetic", n, e)
    Hs = np.rint(np.asarray(H) * T * T)
    on = bool(np.all(np.isfinite(H)) and np.max(np.abs(np.asarray(H) * T * T - Hs)) <= 1e-5)
    D, ok = ridge_by_homogeneity(H, H2, 4.0, 8 * n)
    rec.update({"T": T, "rows": rows, "S": 1, "W": [int(x) for x in sp["w"]], "wexact": True, "exact": True, "ST2": T * T,
                "Hs": Hs.astype(np.int64).tolist() if on else [], "rows_n": shape2(H)[0], "cols_n": shape2(H)[1], "offlattice": not on,
                "wlen": n, "sym": sym_raw(H), "chol": cholesky_exists(H), "D": D, "ridge_ok": ok, "k": 3, "desc": {"from": "machine"}})
    return rec


def cross_rows_raw(lin):
    """the interpolation rows of the cross points as the mapper reports them (fresh call: reg_split_from edits its input in place)"""
    sc = lin.pix_sub_weights_split_cross
    mp, sz, wt = np.asarray(sc.mappings), np.asarray(sc.sizes), np.asarray(sc.weights, dtype=float)
    return [(k // 4 + 1, [int(x) + 1 for x in mp[k, : int(sz[k])]], wt[k, : int(sz[k])].copy()) for k in range(mp.shape[0])]


def cross_rows(raw, T):
    return [{"pix": pix, "map": mp, "wt": fixed(wt, T)} for pix, mp, wt in raw]


def split_magnitude(rows, W, wexact, n, T):
    """largest |value| (sum of absolute terms plus tolerance) the trace specification forms for this record: used ONLY to choose
    the fixed-point scales so that TLC's 32-bit integers cannot overflow (an overflow is a TLC error, never a verdict)"""
    A = np.zeros((n, n))
    for row in rows:
        w = abs(W[row["pix"] - 1])
        dom = 0 if wexact else w + 1
        R, E = {}, {}
        R[row["pix"]] = T
        for a, x in zip(row["map"], row["wt"]):
            R[a] = R.get(a, 0) - x
            E[a] = E.get(a, 0) + 1
        for a in R:
            for b in R:
                ra, rb, ea, eb = abs(R[a]), abs(R[b]), E.get(a, 0), E.get(b, 0)
                A[a - 1, b - 1] += w * w * ra * rb + dom * (ra + ea) * (rb + eb) + w * w * (ra * eb + rb * ea + ea * eb)
    return float(A.max()) if A.size else 0.0


def split_record(name, verts, seed, adaptive):
    import autoarray as aa

    rng = np.random.default_rng(seed)
    n = len(verts)
    pts = np.vstack([points_in_hull(rng, verts, 2 * n), np.asarray(verts, dtype=float)])
    adapt = rng.uniform(0.2, 3.0, size=len(pts))
    lin = delaunay_mapper(verts, pts, adapt)
    scheme = "adaptive_split" if adaptive else "constant_split"
    try:
        if adaptive:
            a, b, ss = float(rng.uniform(0.2, 1.0)), float(rng.uniform(0.2, 1.0)), float(rng.choice([0.0, 0.5, 1.0, 2.0]))
            coincide = float(rng.random())
            if coincide < 0.3:
                b = a
            elif coincide < 0.4:
                a = b = 1.0
            reg, reg2, f, k = aa.reg.AdaptiveBrightnessSplit(a, b, ss), aa.reg.AdaptiveBrightnessSplit(2 * a, 2 * b, ss), 16.0, 15
            desc = {"inner": a, "outer": b, "signal_scale": ss}
        else:
            c = float(rng.choice([0.5, 1.0, 2.0, 3.0]))
            reg, reg2, f, k = aa.reg.ConstantSplit(c), aa.reg.ConstantSplit(2 * c), 4.0, 3
            desc = {"coefficient": c}
        H = np.asarray(reg.regularization_matrix_from(linear_obj=lin), dtype=float)
        H2 = reg2.regularization_matrix_from(linear_obj=lin)
        w = np.asarray(reg.regularization_weights_from(linear_obj=lin), dtype=float)
    except Exception as e:
        return failed("split", scheme, "delaunay", n, e)
    rec = base_record("split", scheme, "delaunay", n)
    raw = cross_rows_raw(lin)
    well = all(all(1 <= a <= n for a in mp) for _, mp, _ in raw) and all(np.all(np.isfinite(wt)) for _, _, wt in raw) and np.all(np.isfinite(w)) and w.shape == (n,)
    if not adaptive:
        c = desc["coefficient"]
        Wn, okw = ints_exact(w / c)  # reported weights are c * ones: normalised exactly (c is dyadic)
        if not okw:
            rec["raised"], rec["err"] = True, "reported weights of ConstantSplit are not coefficient * ones"
            return rec
    # the largest scales (steps of sqrt 2) for which nothing the trace specification computes can leave 32 bits
    for T in (4096, 2896, 2048, 1448, 1024, 724, 512, 362, 256, 181, 128, 90, 64, 45, 32, 22, 16, 11, 8):
        if adaptive:
            S, wexact = min(T, 181), False
            W = fixed(w, S) if np.all(np.isfinite(w)) else []
            scale, ST2 = float(S * S) * T * T, S * S * T * T
        else:
            S, wexact, W = 1, True, Wn
            scale, ST2 = T * T / (c * c), int(math.ceil(T * T / (c * c)))
        rows = cross_rows(raw, T) if well else []
        if ST2 < 2 ** 30 and (not well or split_magnitude(rows, W, wexact, n, T) + ST2 * RHO + 4 < 2 ** 30):
            break
    Hs = np.rint(H * scale)
    finite = bool(well and np.all(np.isfinite(H)) and H.ndim == 2 and np.max(np.abs(Hs)) < 2 ** 30)
    D, ok = ridge_by_homogeneity(H, H2, f, 8 * n) if finite else ([], False)
    rec.update({"T": T, "rows": rows, "S": S, "W": W, "wexact": wexact, "exact": False, "ST2": int(ST2),
                "Hs": Hs.astype(np.int64).tolist() if finite else [], "rows_n": shape2(H)[0], "cols_n": shape2(H)[1], "offlattice": not finite,
                "wlen": int(w.shape[0]) if w.ndim == 1 else -1, "sym": sym_raw(H), "chol": cholesky_exists(H), "D": D, "ridge_ok": ok, "k": k,
                "desc": dict(desc, verts=name)})
    return rec


# ------------------------------------------------------------------------------------------------------------
# records: fixed point adaptive / brightness zeroth, kernels
# ------------------------------------------------------------------------------------------------------------
def random_mapper(rng, verts_family):
    """a real mapper with random data positions and positive adapt data: (mesh class, mapper, description)"""
    if rng.random() < 0.5:
        my, mx = int(rng.integers(3, 7)), int(rng.integers(3, 7))
        n_data = int(rng.integers(my * mx, 2 * my * mx + 1))
        pts = np.column_stack([rng.uniform(-my / 2 + 0.01, my / 2 - 0.01, n_data), rng.uniform(-mx / 2 + 0.01, mx / 2 - 0.01, n_data)])
        adapt = rng.uniform(0.1, 3.0, size=n_data)
        return "rect", rect_mapper(my, mx, pts, adapt), {"mesh": [my, mx], "n_data": n_data}
    name, verts = verts_family[int(rng.integers(0, len(verts_family)))]
    pts = np.vstack([points_in_hull(rng, verts, 2 * len(verts)), np.asarray(verts, dtype=float)])
    adapt = rng.uniform(0.1, 3.0, size=len(pts))
    return "delaunay", delaunay_mapper(verts, pts, adapt), {"verts": name}


def fixed_record(seed, verts_family):
    import autoarray as aa

    rng = np.random.default_rng(seed)
    mesh, lin, desc = random_mapper(rng, verts_family)
    n = int(lin.params)
    ss = float(rng.choice([0.0, 0.5, 1.0, 1.5, 2.0]))
    adaptive = rng.random() < 0.7
    coincide = float(rng.random())  # coefficient coincidences: inner == outer, coefficient exactly 1
    scheme = "adaptive" if adaptive else "brightness_zeroth"
    try:
        if adaptive:
            a, b = float(rng.uniform(0.1, 1.0)), float(rng.uniform(0.1, 1.0))
            if coincide < 0.3:
                b = a
            elif coincide < 0.4:
                a = b = 1.0
            elif coincide < 0.5:
                a = 1.0
            reg, reg2 = aa.reg.AdaptiveBrightness(a, b, ss), aa.reg.AdaptiveBrightness(2 * a, 2 * b, ss)
            desc.update({"inner": a, "outer": b, "signal_scale": ss})
        else:
            c = 1.0 if coincide < 0.25 else float(rng.uniform(0.2, 2.0))
            reg, reg2 = aa.reg.BrightnessZeroth(c, ss), None
            desc.update({"coefficient": c, "signal_scale": ss})
        history = HISTORIES[int(rng.integers(0, 3))]
        H, lin = observe_block(lin, reg, history, bool(rng.integers(0, 2)))
        H = np.asarray(H, dtype=float)
        w = np.asarray(reg.regularization_weights_from(linear_obj=lin), dtype=float)
        H2 = reg2.regularization_matrix_from(linear_obj=lin) if reg2 is not None else None
        N = table_of(lin)
    except Exception as e:
        return failed("fixed", scheme, mesh, n, e)
    rec = base_record("fixed", scheme, mesh, n)
    rec["history"] = history
    maxdeg = max([len(x) for x in N] + [1])
    wmax = max(1e-3, float(np.max(np.abs(w)))) if w.size and np.all(np.isfinite(w)) else 1.0
    S = int(min(2 ** 15, pow2_floor(math.sqrt(2.0 ** 29 / (2 * maxdeg * wmax * wmax + 1)))))
    finite = bool(H.ndim == 2 and np.all(np.isfinite(H)) and np.all(np.isfinite(w)) and np.max(np.abs(H)) * S * S < 2 ** 31)
    rec.update({"N": N, "S": S, "W": fixed(w, S) if finite else [], "wlen": int(w.shape[0]) if w.ndim == 1 else -1,
                "Hs": fixed(H, S * S) if finite else [], "rows": shape2(H)[0], "cols": shape2(H)[1], "offlattice": not finite, "sym": sym_raw(H), "chol": cholesky_exists(H), "desc": desc})
    if adaptive:
        D, ok = ridge_by_homogeneity(H, H2, 16.0, 4 * maxdeg + 1) if finite else ([], False)
        rec.update({"D": D, "ridge_ok": ok, "k": 15})
    return rec


GAUSS_MAX_RATIO = 1.55  # Gaussian kernel: scale <= 1.55 x minimum vertex spacing (see run(): assumptions)
EXP_MAX_RATIO = 3.0


def kernel_record(seed, verts_family, small, wide=None):
    """wide = [my, mx, scale/spacing ratio, gaussian?]: a large elongated rectangular mesh with unit pixels"""
    import autoarray as aa

    rng = np.random.default_rng(seed)
    gauss = rng.random() < 0.5
    if wide is not None:
        my, mx, ratio, gauss = int(wide[0]), int(wide[1]), float(wide[2]), bool(wide[3])
        n_data = my * mx
        lin = rect_mapper(my, mx, rect_centres(my, mx) + rng.uniform(-0.4, 0.4, size=(n_data, 2)), None)
        mesh, desc, dmin, scale = "rect", {"mesh": [my, mx], "wide": True}, 1.0, ratio
    elif small:
        name, verts = verts_family[int(rng.integers(0, 3))]  # tri3, quad4, tri4c: n <= 4
        lin = delaunay_mapper(verts, points_in_hull(rng, verts, 8), None)
        mesh, desc = "delaunay", {"verts": name}
        dmin = min_spacing(verts)
        scale = float(rng.uniform(0.2, 0.5)) * dmin  # Sylvester certificate with 32-bit minors: scale <= half the vertex spacing
    else:
        mesh, lin, desc = random_mapper(rng, verts_family)
        dmin = 1.0 if mesh == "rect" else min_spacing(dict((a, b) for a, b in verts_family)[desc["verts"]])
        scale = float(rng.uniform(0.2, 1.5)) * dmin
    # the regime in which the floating-point inverse of the covariance is meaningful (conditioning is outside this technique)
    scale = min(scale, (GAUSS_MAX_RATIO if gauss else EXP_MAX_RATIO) * dmin)
    n = int(lin.params)
    if n <= 4:
        scale = min(scale, 0.5 * dmin)  # the Sylvester certificate on 32-bit minors (entries <= 64) needs scale <= half the vertex spacing
    scheme = "gaussian_kernel" if gauss else "exponential_kernel"
    c = float(rng.uniform(0.3, 3.0))
    desc.update({"coefficient": c, "scale": scale, "scale_over_min_spacing": scale / dmin})
    try:
        reg = aa.reg.GaussianKernel(coefficient=c, scale=scale) if gauss else aa.reg.ExponentialKernel(coefficient=c, scale=scale)
        H = np.asarray(reg.regularization_matrix_from(linear_obj=lin), dtype=float)
        w = np.asarray(reg.regularization_weights_from(linear_obj=lin), dtype=float)
    except Exception as e:
        return failed("kernel", scheme, mesh, n, e)
    rec = base_record("kernel", scheme, mesh, n)
    finite = bool(H.ndim == 2 and H.size and np.all(np.isfinite(H)))
    hmax = float(np.max(np.abs(H))) if finite else 1.0
    S = pow2_floor(2.0 ** 24 / hmax)
    Sp = 64.0 / hmax
    rec.update({"S": int(S) if S >= 1 else 0, "Hs": fixed(H, S) if finite else [], "rows": shape2(H)[0], "cols": shape2(H)[1], "offlattice": not finite,
                "wlen": int(w.shape[0]) if w.ndim == 1 else -1, "symraw": sym_raw(H), "chol": cholesky_exists(H) if finite else False,
                "Hp": fixed(H, Sp) if finite and n <= 4 else [], "desc": desc})
    return rec


# ------------------------------------------------------------------------------------------------------------
# records: blocks (inversion level)
# ------------------------------------------------------------------------------------------------------------
def _solve(inv):
    """what a fit does with an inversion before its evidence is read: F + H, the reconstruction, the log-determinants.
    Failures of the solver itself are not C07's business (C05): only curvature_reg_matrix must be evaluated"""
    inv.curvature_reg_matrix
    for name in ("reconstruction", "log_det_curvature_reg_matrix_term", "regularization_term"):
        try:
            getattr(inv, name)
        except Exception:
            pass


def blocks_record(kinds, seed, scheme_mix=False, history="fresh", stage="fresh"):
    """kinds: [(p, reg)] with p in KIND_OF_P -> a real aa.Inversion over those linear objects, in that order.
    stage: the inversion-level history before the judged read (Regularization!HistRead)"""
    import autoarray as aa
    from harness.drivers import inv_common as ic

    rng = np.random.default_rng(seed + sum((k + 1) * (p * 2 + int(g)) for k, (p, g) in enumerate(kinds)))
    nd = 9
    objs = []
    for p, g in kinds:
        t, a = KIND_OF_P[p]
        if t == "mapper":
            objs.append({"type": "mapper", "mesh": [a[0], a[1]], "sub": 1, "cells": [int(x) for x in rng.integers(0, a[0] * a[1], size=nd)], "reg": bool(g)})
        else:
            objs.append({"type": "func", "M": rng.integers(-2, 4, size=(nd, a)).astype(int).tolist(), "me": 0, "reg": bool(g)})
    inst = {"H": 5, "W": 5, "u": [6, 7, 8, 11, 12, 13, 16, 17, 18], "K": [[1]], "sig_e": [0] * nd, "d": [1] * nd, "E": 1, "objs": objs}
    mesh = "".join("m" if KIND_OF_P[p][0] == "mapper" else "f" for p, _ in kinds)
    scheme = "".join("R" if g else "-" for _, g in kinds)
    rec = base_record("blocks", scheme, mesh, sum(p for p, _ in kinds))
    rec["desc"] = {"kinds": [[int(p), bool(g)] for p, g in kinds]}
    rec["stage"] = stage
    try:
        ds, lobjs, skw = ic.build(inst)
        rec["history"] = history
        if history != "fresh":
            # the objects first carry OTHER schemes (a regulariser where the final object has none, none or another coefficient
            # where it has one) and their blocks are evaluated once through an inversion
            import copy

            for k, ((p, g), lo) in enumerate(zip(kinds, lobjs)):
                lo.regularization = aa.reg.Constant(coefficient=1.0) if not g else (None if k % 2 == 0 else aa.reg.Constant(coefficient=3.0))
            aa.Inversion(dataset=ds, linear_obj_list=lobjs, settings=aa.SettingsInversion(**skw)).regularization_matrix
            if history == "copy":
                lobjs = [copy.copy(lo) for lo in lobjs]
        for k, ((p, g), lo) in enumerate(zip(kinds, lobjs)):
            if g:
                c = BLOCK_COEFF[k % 3]
                lo.regularization = (aa.reg.ConstantZeroth(coefficient_neighbor=c, coefficient_zeroth=BLOCK_COEFF[(k + 1) % 3])
                                     if scheme_mix and k % 2 else aa.reg.Constant(coefficient=c))
            else:
                lo.regularization = None

        def new_inversion(preloads=None):
            kw = {} if preloads is None else {"preloads": preloads}
            return aa.Inversion(dataset=ds, linear_obj_list=lobjs, settings=aa.SettingsInversion(**skw), **kw)

        # ---- the inversion-level history, then the judged inversion `inv`
        if stage in ("fresh", "after-solve"):
            inv = new_inversion()
            if stage == "after-solve":
                _solve(inv)
        else:
            source = new_inversion()
            preloads = aa.Preloads(regularization_matrix=source.regularization_matrix,
                                   log_det_regularization_matrix_term=source.log_det_regularization_matrix_term)
            first = new_inversion(preloads)
            if stage == "preloaded":
                inv = first
            else:
                _solve(first)
                inv = {"preloaded-after-solve": first, "preload-source": source}.get(stage) or new_inversion(preloads)
        full = inv.regularization_matrix
        red = inv.regularization_matrix_reduced
        owns = [lo.regularization_matrix for lo in lobjs]
        params = [int(lo.params) for lo in lobjs]
        anyreg = any(g for _, g in kinds)
        # what the evidence needs: the Cholesky factorization of the reduced matrix and the log-determinant term exist
        rec["chol"] = cholesky_exists(red) if anyreg else True
        rec["ld"], rec["ld_ref"] = 0, 0
        try:
            ld = inv.log_det_regularization_matrix_term
            rec["logdet_ok"] = bool(np.isfinite(float(np.real(ld))) and abs(float(np.imag(ld))) == 0.0)
            if rec["logdet_ok"] and rec["chol"] and abs(float(np.real(ld))) < 1e6:
                rec["ld"] = int(np.rint(1000.0 * float(np.real(ld))))
                rec["ld_ref"] = int(np.rint(1000.0 * 2.0 * float(np.sum(np.log(np.diag(np.linalg.cholesky(red))))))) if anyreg else 0
        except Exception as e:
            rec["logdet_ok"] = False
            rec["logdet_err"] = f"{type(e).__name__}: {str(e)[:80]}"
    except Exception as e:
        rec.update({"raised": True, "err": f"{type(e).__name__}: {str(e)[:120]}"})
        return rec
    Fq, Fr, ok1 = alpha_exact(full, QUARTER)
    Rq, Rr, ok2 = alpha_exact(np.asarray(red, dtype=float).reshape(np.asarray(red).shape if np.asarray(red).ndim == 2 else (0, 0)), QUARTER)
    ol, ok3 = [], True
    for (p, g), own, pp in zip(kinds, owns, params):
        q, r, ok = alpha_exact(own, QUARTER)
        ok3 = ok3 and ok
        ol.append({"p": pp, "reg": bool(g), "Hq": q, "Hr": r})
    rec.update({"objs": ol, "Fq": Fq, "Fr": Fr, "Rq": Rq, "Rr": Rr, "offlattice": not (ok1 and ok2 and ok3)})
    return rec


# coefficient TYPES: (name, constructor of the coefficient object, value, schemes).  The value is integer-valued and chosen so that its
# square overflows the narrow integer types; the expected matrix is value^2 times the integer form (unit = value^2, coefficient^2 = 1 unit).
# With 50000 the 1e-8 ridge is below the floating-point resolution of the entries, so only Zeroth (no ridge) is used there; with 200 the
# Constant scheme would be numerically singular for the same reason and is left out.
ALL3 = ("constant", "constant_zeroth", "zeroth")


def coefficient_types():
    return [
        ("int", lambda v: int(v), 3, ALL3), ("float", lambda v: float(v), 3, ALL3), ("np.float64", lambda v: np.float64(v), 3, ALL3),
        ("np.float32", lambda v: np.float32(v), 3, ALL3), ("np.int64", lambda v: np.int64(v), 3, ALL3), ("np.int64", lambda v: np.int64(v), 50000, ("zeroth",)),
        ("np.int32", lambda v: np.int32(v), 3, ALL3), ("np.int32", lambda v: np.int32(v), 50000, ("zeroth",)),
        ("np.int16", lambda v: np.int16(v), 200, ("constant_zeroth", "zeroth")), ("np.int16", lambda v: np.int16(v), 3, ALL3),
        ("np.uint8", lambda v: np.uint8(v), 20, ALL3),
        ("array0d", lambda v: np.array(float(v)), 3, ALL3), ("array0d-shared", lambda v: np.array(float(v)), 3, ("constant_zeroth",)),
    ]


def _snapshot(reg):
    out = {}
    for k, v in sorted(vars(reg).items()):
        out[k] = (type(v).__name__, str(getattr(v, "dtype", "")), repr(np.asarray(v).tolist()))
    return out


def ctype_records(seed, verts_family):
    """every scheme object is asked for its matrix TWICE (and its weights in between); both reads are judged, and the scheme's
    coefficient attributes must be unchanged by the calls"""
    import autoarray as aa

    rng = np.random.default_rng(seed)
    fam = dict((a, b) for a, b in verts_family)
    meshes = [("rect", rect_mapper(3, 3, rect_centres(3, 3) + rng.uniform(-0.4, 0.4, size=(9, 2)), None))]
    for name in ("rnd5", "hex7"):
        if name in fam:
            meshes.append(("delaunay", delaunay_mapper(fam[name], points_in_hull(rng, fam[name], 10), None)))
    out = []
    for tname, make, value, schemes in coefficient_types():
        for scheme in schemes:
            for mesh, lin in meshes:
                n = int(lin.params)
                desc = {"coefficient": value, "coefficient_type": tname}
                try:
                    c = make(value)
                    cz = c if tname == "array0d-shared" else make(value)
                    reg = (aa.reg.Constant(coefficient=c) if scheme == "constant" else aa.reg.Zeroth(coefficient=c) if scheme == "zeroth"
                           else aa.reg.ConstantZeroth(coefficient_neighbor=c, coefficient_zeroth=cz))
                    before = _snapshot(reg)
                    H1 = reg.regularization_matrix_from(linear_obj=lin)
                    w = np.asarray(reg.regularization_weights_from(linear_obj=lin), dtype=float)
                    H2 = reg.regularization_matrix_from(linear_obj=lin)
                    attrs_ok = _snapshot(reg) == before
                except Exception as e:
                    r = failed("exact", scheme, mesh, n, e)
                    r["ctype"], r["desc"] = tname, desc
                    out.append(r)
                    continue
                unit = float(value) ** 2
                for k, H in enumerate((H1, H2)):
                    hmax = float(np.max(np.abs(H))) if np.all(np.isfinite(H)) and np.size(H) else 0.0
                    r = exact_record(scheme, mesh, lin, reg, 1, 1 if scheme == "constant_zeroth" else 0, unit=unit, desc=dict(desc, read=k + 1),
                                     observed=(H, w), tol=max(1e-12, min(1e-9, 8 * 2.3e-16 * hmax)))
                    r["ctype"], r["attrs_ok"] = tname, bool(attrs_ok)
                    out.append(r)
    return out


def chain_records(seed):
    """function-list objects report a chain neighbour graph: constant schemes on 1..4 parameters (all small enough for exact minors)"""
    from harness.drivers import inv_common as ic

    rng = np.random.default_rng(seed)
    nd = 9
    objs = [{"type": "func", "M": rng.integers(-2, 4, size=(nd, p)).astype(int).tolist(), "me": 0, "reg": True} for p in (1, 2, 3, 4)]
    inst = {"H": 5, "W": 5, "u": [6, 7, 8, 11, 12, 13, 16, 17, 18], "K": [[1]], "sig_e": [0] * nd, "d": [1] * nd, "E": 1, "objs": objs}
    ds, lobjs, skw = ic.build(inst)
    out = []
    for lo in lobjs:
        for scheme in ("constant", "constant_zeroth", "zeroth"):
            c2q, czq = int(rng.choice([1, 4, 16, 36])), int(rng.choice([1, 4, 16, 36]))
            out.append(exact_record(scheme, "chain", lo, scheme_object(scheme, c2q, czq), c2q, czq if scheme == "constant_zeroth" else 0,
                                    desc={"params": int(lo.params)}, history=HISTORIES[int(rng.integers(0, 3))], prior_none=bool(rng.integers(0, 2))))
    return out


def exact_random_record(seed, verts_family):
    """constant family with dyadic coefficients on random larger meshes (beyond the exhaustive bound)"""
    rng = np.random.default_rng(seed)
    mesh, lin, desc = random_mapper(rng, verts_family)
    scheme = ("constant", "constant_zeroth", "zeroth")[int(rng.integers(0, 3))]
    c2q, czq = int(rng.choice([1, 4, 9, 16, 36])), int(rng.choice([1, 4, 9, 36]))
    if scheme != "constant_zeroth":
        czq = 0
    return exact_record(scheme, mesh, lin, scheme_object(scheme, c2q, czq if czq else 4), c2q, czq, desc=desc,
                        history=HISTORIES[int(rng.integers(0, 3))], prior_none=bool(rng.integers(0, 2)))


# ------------------------------------------------------------------------------------------------------------
# jobs (JSON-able descriptions from which records are regenerated: what a replay file holds)
# ------------------------------------------------------------------------------------------------------------
def records_for_job(job):
    j = job["j"]
    fam = job.get("family") or []
    if j == "inst":
        recs = records_for_inst(job["inst"], job.get("verts"), job["seed"])
    elif j == "chain":
        recs = chain_records(job["seed"])
    elif j == "ctype":
        recs = ctype_records(job["seed"], fam)
    elif j == "exact_rand":
        recs = [exact_random_record(job["seed"], fam)]
    elif j == "fixed":
        recs = [fixed_record(job["seed"], fam)]
    elif j == "split":
        recs = [split_record(job["name"], job["verts"], job["seed"], job["adaptive"])]
    elif j == "kernel":
        recs = [kernel_record(job["seed"], fam, job["small"], job.get("wide"))]
    elif j == "blocks":
        stage = STAGES[(job["seed"] // 3) % len(STAGES)]
        recs = [blocks_record([tuple(k) for k in job["kinds"]], job["seed"], scheme_mix=True,
                              history=HISTORIES[job["seed"] % 3] if stage == "fresh" else "fresh", stage=stage)]
    else:
        raise core.MachineryError(f"unknown job {j}")
    for r in recs:
        r["_job"] = job
    return recs


def _many(jobs):
    out = []
    for job in jobs:
        out.extend(records_for_job(job))
    return out


def validate(ctx, recs, tag, chunk=300):
    import concurrent.futures as cf

    jobs = {}
    for k, r in enumerate(recs):
        r["id"] = k
        jobs[k] = r.pop("_job", None)
    chunks = [recs[k: k + chunk] for k in range(0, len(recs), chunk)]
    rejects = []

    def one(kc):
        k, ch = kc
        return ctx.validate_trace("Trace_Regularization", CFG_TRACE, ch, tag=f"{tag}_{k}", timeout=1500)[1]

    with cf.ThreadPoolExecutor(max_workers=min(8, len(chunks) or 1)) as ex:
        for rej in ex.map(one, list(enumerate(chunks))):
            rejects.extend(rej)
    for rj in rejects:
        rec = recs[rj["id"]]
        job = jobs.get(rj["id"])
        slim = {k: v for k, v in rec.items() if k not in ("Fq", "Fr", "Rq", "Rr") or rec["n"] <= 12}
        ctx.violation(rj["sig"], f"{rec['api']} {rec['scheme']} on {rec['mesh']} mesh, {rec['n']} parameters"
                                 f"{' raised ' + rec.get('err', '') if rec.get('raised') else ''} {rec.get('desc', '')}: failed {rj['clauses']}",
                      {"job": job, "record": slim, "failed_clauses": rj["clauses"], "spec_wanted": rj.get("want")}, cls=",".join(rj["clauses"]))
    return rejects


# ------------------------------------------------------------------------------------------------------------
def run(ctx):
    quick = ctx.quick
    seed = ctx.seed
    family = vertex_sets(seed, quick)
    graphs = [graph_of(v) for _, v in family]
    splits = synthetic_splits(seed, quick)
    side = (3, 4, 5) if quick else (3, 4, 5, 6)
    shapes = [(h, w) for h in side for w in side]
    c2q = [1, 4, 16, 36] if quick else [1, 4, 9, 16, 36]
    zset = [1, 4, 36] if quick else c2q   # constant-zeroth: every pair of these (c, cz in {1/2, 1, 3}), equal values included
    wset = [1, 2]                         # exact adaptive: every (inner, outer) pair, equal values included
    stage_max_objs = 2 if quick else 3
    stage_kinds = [(9, True), (1, True), (1, False), (2, True)] if quick else [(p, g) for p in sorted(KIND_OF_P) for g in (False, True)]
    patterns = [1, 3, 4] if quick else [1, 2, 3, 4]
    kinds = [(p, g) for p in sorted(KIND_OF_P) for g in (False, True)]
    max_objs = 3 if quick else 4
    defs = "\n".join([
        "MCRectShapes == {" + ", ".join(f"<<{h},{w}>>" for h, w in shapes) + "}",
        "MCGraphs == " + tla(graphs),
        "MCC2Q == " + tla(set(c2q)),
        "MCZerothSet == " + tla(set(zset)),
        "MCWeightSet == " + tla(set(wset)),
        "MCStages == " + tla(set(STAGES)),
        f"MCStageMaxObjs == {stage_max_objs}",
        "MCStageKinds == {" + ", ".join(f"<<{p},{tla(g)}>>" for p, g in stage_kinds) + "}",
        "MCPatterns == " + tla(set(patterns)),
        "MCSplits == " + tla([{k: v for k, v in s.items() if k != "w"} for s in splits]),
        "MCObjKinds == {" + ", ".join(f"<<{p},{tla(g)}>>" for p, g in kinds) + "}",
        f"MCMaxObjs == {max_objs}",
    ])
    res = ctx.tlc("Regularization", CFG_MC, defs=defs, tag="MC_Regularization", timeout=1700)
    insts = res.by_kind("inst")
    n_mesh = len(shapes) + len(graphs)
    expect = (n_mesh * (len(c2q) + len(zset) ** 2 + len(c2q) + (len(wset) ** 2 + len(wset)) * len(patterns)) + len(splits)
              + sum(len(kinds) ** k for k in range(1, max_objs + 1)) + (len(STAGES) - 1) * sum(len(stage_kinds) ** k for k in range(1, stage_max_objs + 1)))
    if len(insts) != expect or res.distinct != 2 * expect:
        raise core.MachineryError(f"Regularization.tla enumerated {len(insts)} instances / {res.distinct} states, expected {expect}")
    ctx.exhaustive = True
    ctx.bounds = {"rectangular_meshes": f"{side[0]}..{side[-1]} x {side[0]}..{side[-1]} (all {len(shapes)})", "delaunay_vertex_sets": {n: len(v) for n, v in family},
                  "coefficients_4c2": c2q, "constant_zeroth_4c2_4cz2": f"every pair of {zset}", "adaptive_exact": f"every (inner, outer) pair of {wset} x {len(patterns)} bright-pixel patterns, signal_scale in {{0, 1/2, 1, 2, 3}}",
                  "inversion_histories": f"{list(STAGES)} for every object list of length 1..{stage_max_objs} over the kinds {stage_kinds}; random lists (length 1..4) take a random one",
                  "synthetic_split_instances": len(splits), "object_lists": f"all lists of length 1..{max_objs} over {len(kinds)} kinds (mapper 3x3, mapper 3x4, 1- and 2-function lists; with / without regularization)",
                  "coefficient_types": sorted(set(t[0] for t in coefficient_types())), "ternary_vectors_up_to_n": 6, "exact_minors_up_to_n": 4,
                  "wide_kernel_meshes_rows_cols_ratio_gaussian": "filled below"}
    # ---- S->C jobs
    jobs = []
    for it in insts:
        job = {"j": "inst", "inst": it, "seed": seed}
        if it["kind"] == "nbr" and it["mesh"][0] == "graph":
            job["verts"] = family[int(it["mesh"][1]) - 1][1]
        if it["kind"] == "split":
            it["_split"] = splits[int(it["split"]) - 1]
        jobs.append(job)
    n_replay = len(jobs)
    # ---- C->S jobs beyond the bound
    rng = np.random.default_rng(seed)
    nr = (lambda q, t: q if quick else t)
    jobs.append({"j": "chain", "seed": seed})
    jobs.append({"j": "ctype", "seed": seed, "family": family})
    for _ in range(nr(100, 2000)):
        jobs.append({"j": "exact_rand", "seed": int(rng.integers(1, 2 ** 31)), "family": family})
    for _ in range(nr(200, 4000)):
        jobs.append({"j": "fixed", "seed": int(rng.integers(1, 2 ** 31)), "family": family})
    split_sets = [(n, v) for n, v in family if len(v) >= 4]  # the Voronoi diagram behind the cross points needs >= 4 vertices (qhull); fewer raise the documented MeshException
    for rep in range(nr(3, 30)):
        for name, verts in split_sets:
            for adaptive in (False, True):
                jobs.append({"j": "split", "name": name, "verts": verts, "seed": int(rng.integers(1, 2 ** 31)), "adaptive": adaptive})
    for k in range(nr(100, 2000)):
        jobs.append({"j": "kernel", "seed": int(rng.integers(1, 2 ** 31)), "family": family, "small": k % 2 == 0})
    # large, elongated rectangular meshes (unit pixels): [rows, columns, scale / spacing, Gaussian?]; extents up to 13 scale lengths
    wide = [[8, 20, 1.54, True], [7, 20, 1.5, True], [8, 16, 1.55, True], [8, 20, 1.4, True], [8, 20, 0.7, True], [5, 18, 1.0, True], [8, 20, 2.5, False]]
    if not quick:
        for _ in range(40):
            g = bool(rng.random() < 0.7)
            wide.append([int(rng.integers(3, 9)), int(rng.integers(8, 21)), float(rng.uniform(0.4, GAUSS_MAX_RATIO if g else EXP_MAX_RATIO)), g])
    ctx.bounds["wide_kernel_meshes_rows_cols_ratio_gaussian"] = wide[:8] + ([f"... {len(wide) - 8} more, rows 3..8, columns 8..20"] if len(wide) > 8 else [])
    for wd in wide:
        jobs.append({"j": "kernel", "seed": int(rng.integers(1, 2 ** 31)), "family": family, "small": False, "wide": wd})
    for _ in range(nr(60, 1500)):
        ln = int(rng.integers(1, 5))
        jobs.append({"j": "blocks", "seed": int(rng.integers(1, 2 ** 31)),
                     "kinds": [[int(sorted(KIND_OF_P)[int(rng.integers(0, 4))]), bool(rng.integers(0, 2))] for _ in range(ln)]})
    heavy = [j for j in jobs if j.get("wide")]
    light = [j for j in jobs if not j.get("wide")]
    groups = [[j] for j in heavy] + [light[k: k + 12] for k in range(0, len(light), 12)]
    recs = []
    for part in core.pmap(_many, groups):
        recs.extend(part)
    ctx.replayed = n_replay
    by = {}
    for r in recs:
        by[r["api"]] = by.get(r["api"], 0) + 1
    small = next((r for r in recs if r["api"] == "exact" and r["mesh"] == "delaunay" and r["n"] <= 4 and r["scheme"] == "constant"), None)
    if small:
        ctx.sample({"record": {k: v for k, v in small.items() if k not in ("_job",)}})
    fx = next((r for r in recs if r["api"] == "fixed" and r["scheme"] == "adaptive" and r["n"] <= 9 and not r["raised"]), None)
    if fx:
        ctx.sample({"fixed_point_record": {k: fx[k] for k in ("scheme", "mesh", "n", "N", "S", "W", "Hs", "D", "desc")}})
    ctx.sample({"machine_instance": insts[len(insts) // 3]})
    drift = 0
    for r in recs:
        if r["api"] == "exact" and r["mesh"] == "rect" and not r["raised"] and r.get("desc", {}).get("from") == "machine":
            m = r["desc"]["mesh"]
            if [sorted(x) for x in r["N"]] != _rect4(int(m[1]), int(m[2])):
                drift += 1
    if drift:
        ctx.note(f"model drift: {drift} rectangular mappers report a neighbour table that is not the 4-connectivity of Regularization.tla (C06 decides)")
    validate(ctx, recs, "C07")
    ctx.note(f"{n_replay} machine instances replayed + {len(jobs) - n_replay} seeded jobs -> {len(recs)} records validated by Trace_Regularization: {by}")
    ctx.note("strict positive definiteness is decided by exact minors / the Sylvester certificate only for n <= 4 (32-bit integers in TLC); for larger n "
             "it rests on entry-wise equality with the documented sum-of-squares-plus-ridge matrix (exact schemes), on the identity within the derived "
             "rounding bound plus the exactly observed ridge (adaptive, split), and is not decided for kernel schemes (DESIGN.md section 5)")
    ctx.assumptions = [
        "the neighbour table in every record is the one the linear object reports (C06 decides whether it is the right table)",
        "kernel schemes invert a matrix in floating point: their symmetry is decided at the fixed-point resolution of the record (2^-24 of the largest entry), not bit-for-bit",
        f"kernel instances are restricted to the regime where the covariance is well conditioned on the unchanged tree: Gaussian scale <= {GAUSS_MAX_RATIO} x minimum "
        f"vertex spacing, exponential scale <= {EXP_MAX_RATIO} x, at most 160 pixels (beyond it, e.g. Gaussian scale 3 pixels on an 8x20 mesh, the covariance is "
        "saturated by its 1e-8 ridge, cond ~1e10, and the floating-point inverse is no longer numerically positive definite even on the unchanged tree: "
        "conditioning is outside this technique, DESIGN.md section 5)",
        "cholesky-factorization-exists / log-determinant-term-exists are recorded observations (np.linalg.cholesky on the returned matrix, "
        "inversion.log_det_regularization_matrix_term), validated like `raised`, not recomputed by TLC",
        "ridge of fixed-point schemes observed through H(2*coefficients) - f*H(coefficients) = -(f-1)*1e-8*I, float error of both runs bounded below 0.005 ridge units",
        "alpha splits H = u*Q + 1e-8*R with residual <= 1e-12 and rejects anything else (offlattice clause)",
        "coefficient types: the same integer-valued coefficient as int, float, np.float64/32, np.int64/32/16, np.uint8 and a 0-d array (3; 20 for uint8, 200 for int16, "
        "50000 for int32/int64 with Zeroth only, where the 1e-8 ridge is below the float resolution of the entries); unit = coefficient^2, ridge residual tolerance "
        "8 ulp of the largest entry (< 0.1 ridge units); each scheme object is read twice with its weights in between",
        "inversion-level histories: the solve step evaluates curvature_reg_matrix, then reconstruction / log_det_curvature_reg_matrix_term / regularization_term "
        "with solver failures ignored (C05 decides the solver); the log-determinant term is compared with 2*sum(log(diag(cholesky(reduced matrix as read)))) "
        "in fixed point 1e-3 with tolerance 1e-2 (both are floating-point observations; the comparison is TLC's)",
    ]


def _rect4(h, w):
    out = []
    for p in range(h * w):
        a, b = divmod(p, w)
        out.append(sorted(x * w + y + 1 for x, y in ((a - 1, b), (a, b - 1), (a, b + 1), (a + 1, b)) if 0 <= x < h and 0 <= y < w))
    return out


def replay(ctx, rp):
    recs = records_for_job(rp["job"])
    want = rp.get("record", {})
    recs = [r for r in recs if r["api"] == want.get("api", r["api"]) and r["scheme"] == want.get("scheme", r["scheme"]) and r["n"] == want.get("n", r["n"])] or recs
    rej = validate(ctx, recs, "replay")
    print("replayed", len(recs), "records; rejected:", [(r["sig"], r["clauses"]) for r in rej])
    return ctx.finish()
