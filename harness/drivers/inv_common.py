"""Lattice instances of imaging inversions and their realisation with real PyAutoArray objects.

An instance (plain dict, JSON-able) describes a dataset and an ordered list of linear objects in exact units:
  H, W            frame;  u: linear indices of the unmasked pixels (kernel footprint of every one inside the frame)
  K               kh x kw integer kernel whose entries sum to a positive power of two (normalisation is then exact):
                  real kernel = K * 2^ke with ke = -log2(sum K)
  sig_e           per unmasked pixel e in {-1,0,1}: noise sigma = 2^e   (w = 4/sigma^2 in {16,4,1})
  d               integer data per unmasked pixel
  E               small integer: diagonal term eps = E * 4^ke / 4 on unregularised parameters
  objs            [{"type":"mapper","mesh":[my,mx],"sub":s,"cells":[cell of every sub-pixel, sub-slim order],"reg":bool}
                   | {"type":"func","M":[[int]*p]*n,"me":exponent,"reg":bool}]
Shared by C04, C05 (inversion level), C15."""
import numpy as np


def kernel_ke(K):
    s = int(np.sum(K))
    assert s > 0 and (s & (s - 1)) == 0, "kernel entries must sum to a positive power of two"
    return -int(np.log2(s))


def sub_list(o, n):
    """per-pixel sub sizes of a mapper object (`sub` is one int for all pixels or a list with one entry per unmasked pixel)"""
    return [int(x) for x in o["sub"]] if isinstance(o["sub"], (list, tuple)) else [int(o["sub"])] * n


def obj_scale(o):
    if o["type"] != "mapper":
        return 2 ** (-o["me"])
    if isinstance(o["sub"], (list, tuple)):
        return int(np.lcm.reduce([int(x) ** 2 for x in o["sub"]]))
    return o["sub"] ** 2


def cells_of(inst):
    return [[int(k) // inst["W"], int(k) % inst["W"]] for k in inst["u"]]


def eps_real(inst):
    return inst["E"] * 4.0 ** kernel_ke(inst["K"]) / 4.0


def mapper_counts(o, n):
    """integer mapping matrix (counts of sub-pixels per mesh cell) implied by the instance (the spec-side meaning)"""
    my, mx = o["mesh"]
    subs = sub_list(o, n)
    scale = obj_scale(o)
    M = np.zeros((n, my * mx), dtype=int)
    q = 0
    for k, sk in enumerate(subs):
        for _ in range(sk * sk):
            M[k, o["cells"][q]] += scale // (sk * sk)
            q += 1
    return M


def build(inst, with_reg_coefficient=1.0):
    """-> (dataset, linear_obj_list, settings kwargs) with real objects"""
    import autoarray as aa
    from autoarray.inversion.linear_obj.func_list import AbstractLinearObjFuncList

    class VFuncList(AbstractLinearObjFuncList):
        def __init__(self, grid, mapping_matrix, regularization=None):
            super().__init__(grid=grid, regularization=regularization)
            self._mm = np.asarray(mapping_matrix, dtype=float)

        @property
        def params(self):
            return self._mm.shape[1]

        @property
        def mapping_matrix(self):
            return self._mm

    class VFuncListOverride(VFuncList):
        """a function list that supplies its own operated (PSF-blurred) mapping matrix, as objects that convolve themselves do"""

        def __init__(self, grid, mapping_matrix, operated, regularization=None):
            super().__init__(grid=grid, mapping_matrix=mapping_matrix, regularization=regularization)
            self._op = np.asarray(operated, dtype=float)

        @property
        def operated_mapping_matrix_override(self):
            return self._op

    H, W = inst["H"], inst["W"]
    m = np.ones(H * W, dtype=bool)
    m[inst["u"]] = False
    m = m.reshape(H, W)
    mask = aa.Mask2D(mask=m, pixel_scales=1.0)
    n = len(inst["u"])
    rng = np.random.default_rng(1234 + n)
    data_full = rng.integers(-50, 50, size=H * W).astype(float)  # junk outside the mask
    data_full[inst["u"]] = np.array(inst["d"], dtype=float)
    # optional exact change of noise units: every sigma times 2^noise_shift (weights, D and F scale by 4^-noise_shift)
    nshift = int(inst.get("noise_shift", 0))
    noise_full = np.full(H * W, 3.0 * 2.0 ** nshift)
    noise_full[inst["u"]] = 2.0 ** (np.array(inst["sig_e"], dtype=float) + nshift)
    K = np.array(inst["K"], dtype=float)
    ds = aa.Imaging(
        data=aa.Array2D.no_mask(values=data_full.reshape(H, W), pixel_scales=1.0),
        noise_map=aa.Array2D.no_mask(values=noise_full.reshape(H, W), pixel_scales=1.0),
        psf=aa.Kernel2D.no_mask(values=K, pixel_scales=1.0, normalize=False),
    ).apply_mask(mask)
    objs = []
    for o in inst["objs"]:
        reg = aa.reg.Constant(coefficient=with_reg_coefficient) if o["reg"] else None
        if o["type"] == "mapper":
            my, mx = o["mesh"]
            mesh_grid = aa.Grid2D.uniform(shape_native=(my, mx), pixel_scales=1.0)
            mesh = aa.Mesh2DRectangular(values=np.array(mesh_grid), shape_native=(my, mx), pixel_scales=(1.0, 1.0))
            jit = np.random.default_rng(len(o["cells"])).uniform(-0.4, 0.4, size=(len(o["cells"]), 2))
            pos = np.array([[(my - 1) / 2.0 - c // mx, c % mx - (mx - 1) / 2.0] for c in o["cells"]], dtype=float) + jit
            mg = aa.MapperGrids(mask=mask, source_plane_data_grid=aa.Grid2DIrregular(pos), source_plane_mesh_grid=mesh,
                                image_plane_mesh_grid=None, adapt_data=None)
            objs.append(aa.MapperRectangular(mapper_grids=mg, over_sampler=aa.OverSamplerUniform(mask=mask, sub_size=(aa.Array2D(values=np.array([int(x) for x in o["sub"]]), mask=mask) if isinstance(o["sub"], (list, tuple)) else o["sub"])),
                                             border_relocator=None, regularization=reg))
        else:
            Mr = np.array(o["M"], dtype=float) * 2.0 ** o["me"]
            if o.get("override"):
                objs.append(VFuncListOverride(grid=aa.Grid2D.from_mask(mask), mapping_matrix=Mr,
                                              operated=ds.convolver.convolve_mapping_matrix(mapping_matrix=Mr), regularization=reg))
            else:
                objs.append(VFuncList(grid=aa.Grid2D.from_mask(mask), mapping_matrix=Mr, regularization=reg))
    return ds, objs, {"no_regularization_add_to_curvature_diag_value": eps_real(inst) * 4.0 ** (-nshift)}


def tla_instance(inst, M_list):
    """the instance in the integer units of NormalEq.tla; M_list = integer mapping matrix per object"""
    n = len(inst["u"])
    K = np.array(inst["K"], dtype=int)
    return {
        "n": n, "kh": int(K.shape[0]), "kw": int(K.shape[1]), "K": K.tolist(), "cells": cells_of(inst),
        "w": [int(round(4 * 4.0 ** (-e))) for e in inst["sig_e"]], "d": [int(x) for x in inst["d"]],
        "objs": [{"p": int(np.array(M).shape[1]), "M": np.array(M, dtype=int).tolist(), "reg": bool(o["reg"]),
                  "mapper": o["type"] == "mapper", "eps4": int(inst["E"] * obj_scale(o) ** 2)}
                 for o, M in zip(inst["objs"], M_list)],
    }


def col_scales(inst):
    out = []
    for o in inst["objs"]:
        p = o["mesh"][0] * o["mesh"][1] if o["type"] == "mapper" else len(o["M"][0])
        out += [obj_scale(o)] * p
    return np.array(out, dtype=float)


# ---- instance generation --------------------------------------------------------------------------------------
def random_kernel(rng, kh, kw, signed):
    lo = -3 if signed else 0
    for _ in range(200):
        K = rng.integers(lo, 6, size=(kh, kw))
        tgt = [t for t in (1, 2, 4, 8, 16, 32, 64) if t >= 1]
        s = int(K.sum()) - int(K[kh // 2, kw // 2])
        # choose the centre so that the total is a power of two and the centre stays in a small range
        for t in tgt:
            c = t - s
            if (lo <= c <= 9) and (c != 0 or kh * kw > 1):
                K[kh // 2, kw // 2] = c
                if signed and not (K < 0).any() and kh * kw > 1:
                    break
                # make entries distinct-ish/asymmetric is left to randomness
                return K.astype(int)
    K = np.zeros((kh, kw), dtype=int)
    K[kh // 2, kw // 2] = 1
    return K


def random_instance(rng, H=7, W=7, interior=3, kshapes=((1, 1), (1, 3), (3, 1), (3, 3), (3, 5), (5, 3)), layouts=("m", "mm", "mf", "fm", "fmf", "f"),
                    max_sub=2, signed_kernel=None, signed_matrix=True):
    kh, kw = kshapes[int(rng.integers(0, len(kshapes)))]
    signed = bool(rng.integers(0, 2)) if signed_kernel is None else signed_kernel
    K = random_kernel(rng, kh, kw, signed)
    # unmasked pixels inside the region whose footprint stays in the frame
    i0, i1 = kh // 2, H - 1 - kh // 2
    j0, j1 = kw // 2, W - 1 - kw // 2
    ci, cj = (i0 + i1) // 2, (j0 + j1) // 2
    r = interior // 2
    cand = [(i, j) for i in range(max(i0, ci - r), min(i1, ci + r) + 1) for j in range(max(j0, cj - r), min(j1, cj + r + (interior % 2 == 0)) + 1)]
    sel = [c for c in cand if rng.random() < 0.7]
    if not sel:
        sel = [cand[int(rng.integers(0, len(cand)))]]
    u = sorted(i * W + j for i, j in sel)
    n = len(u)
    layout = layouts[int(rng.integers(0, len(layouts)))]
    objs = []
    for ch in layout:
        if ch == "m":
            my, mx = [(3, 3), (3, 4), (4, 3)][int(rng.integers(0, 3))]
            sub = int(rng.integers(1, max_sub + 1))
            if max_sub >= 2 and n >= 2 and rng.random() < 0.3:
                # a per-pixel sub-size map over {1, 2} holding both values (running sub-pixel offsets differ from k * s^2)
                sub = [int(x) for x in rng.integers(1, 3, size=n)]
                sub[int(rng.integers(0, n))] = 2
                j = int(rng.integers(0, n))
                sub[j if sub.count(2) > 1 or sub[j] == 1 else (j + 1) % n] = 1
            ncell = sum(x * x for x in sub) if isinstance(sub, list) else n * sub * sub
            objs.append({"type": "mapper", "mesh": [my, mx], "sub": sub, "cells": [int(x) for x in rng.integers(0, my * mx, size=ncell)],
                         "reg": bool(rng.random() < 0.8)})
        else:
            p = int(rng.integers(1, 3))
            lo = -2 if signed_matrix else 0
            M = rng.integers(lo, 4, size=(n, p))
            objs.append({"type": "func", "M": M.astype(int).tolist(), "me": int(rng.choice([0, -1, -12])), "reg": bool(rng.random() < 0.3)})
    return {"H": H, "W": W, "u": [int(x) for x in u], "K": K.tolist(), "sig_e": [int(x) for x in rng.integers(-1, 2, size=n)],
            "d": [int(x) for x in rng.integers(-3, 6, size=n)], "E": int(rng.integers(1, 4)), "objs": objs}
