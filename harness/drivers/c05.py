"""C05 -- the reconstruction is the true (non-negative) least-squares optimum.

Nnls.tla holds the exact (rational) KKT certificate and the active-set solver of autoarray/util/fnnls.py as a state machine.
TLC explores the machine exhaustively on families of small integer SPD systems (cold and warm start, every tie-break) and
dumps the exact optimum of each; every instance is run through the real solver entry points (S->C) and every result -- also of
seeded random larger integer SPD systems up to n = 12 (C->S) -- is validated by Trace_Nnls.tla: KKT in fixed point with a
rigorous rounding bound, equality with TLC's exact optimum where available."""
import itertools
import json
from fractions import Fraction

import numpy as np

from harness import core

CFG_MC = """CONSTANTS
  RepairedWarmStart = {rep}
  MaxSteps = {maxsteps}
SPECIFICATION Spec
INVARIANT InstancesAreSPD
INVARIANT Feasible
INVARIANT PassiveOptimalPositive
INVARIANT DoneImpliesKKT
INVARIANT NeverDiverges
INVARIANT Terminates
INVARIANT DumpDone
PROPERTY ObjectiveNonIncreasing
"""
CFG_TRACE = """CONSTANTS
  RepairedWarmStart = TRUE
  MaxSteps = 0
SPECIFICATION TraceSpec
POSTCONDITION TraceAccepted
"""


def tla_seq(x):
    if isinstance(x, (list, tuple)):
        return "<<" + ", ".join(tla_seq(v) for v in x) + ">>"
    return str(int(x))


def insts_file(ctx, insts, name):
    f = ctx.work / name
    f.write_text(json.dumps(insts))
    return {"INST_FILE": str(f)}


def gen_small_instances(rng, n2_b_range, n3, n4):
    insts = []
    for a, c, dd in itertools.product(range(1, 5), range(-3, 4), range(1, 5)):
        if a * dd - c * c <= 0:
            continue
        for b0, b1 in itertools.product(n2_b_range, repeat=2):
            insts.append({"A": [[a, c], [c, dd]], "b": [b0, b1]})
    seen = set()

    def rand_spd(n, target, lo, hi, blo, bhi):
        cnt = 0
        while cnt < target:
            L = rng.integers(lo, hi + 1, size=(n, n))
            A = L @ L.T
            if round(np.linalg.det(A)) < 1 or np.abs(A).max() > 14:
                continue
            b = rng.integers(blo, bhi + 1, size=n)
            key = (A.tobytes(), b.tobytes())
            if key in seen:
                continue
            seen.add(key)
            insts.append({"A": A.tolist(), "b": b.tolist()})
            cnt += 1

    rand_spd(3, n3, -2, 2, -3, 3)
    rand_spd(4, n4, -1, 2, -2, 2)
    for i in gen_collinear_instances(rng, n3 // 2, 3, 4):
        if max(abs(x) for row in i["A"] for x in row) <= 20:
            insts.append(i)
    for i in gen_twin_instances(rng, n3 // 2, 4):
        if max(abs(x) for row in i["A"] for x in row) <= 40:
            insts.append(i)
    return insts


# ---- running the real code -------------------------------------------------------------------------------------
def _variants():
    from autoarray.util.fnnls import fnnls_cholesky
    from autoarray.inversion.inversion import inversion_util
    from autoarray.inversion.inversion.settings import SettingsInversion

    def cold(A, b):
        return fnnls_cholesky(A.copy(), b.copy())

    def warm(A, b):
        return fnnls_cholesky(A.copy(), b.copy(), P_initial=np.linalg.solve(A, b) > 0)

    def rpo(flag):
        def f(A, b):
            st = SettingsInversion(use_positive_only_solver=True, positive_only_uses_p_initial=flag)
            return inversion_util.reconstruction_positive_only_from(data_vector=b.copy(), curvature_reg_matrix=A.copy(), settings=st)
        return f

    def rpo_default(A, b):
        # settings left to the production configuration (warm start on by default)
        return inversion_util.reconstruction_positive_only_from(data_vector=b.copy(), curvature_reg_matrix=A.copy(),
                                                                settings=SettingsInversion(use_positive_only_solver=True))

    def solve(A, b):
        return inversion_util.reconstruction_positive_negative_from(data_vector=b.copy(), curvature_reg_matrix=A.copy(),
                                                                    mapper_param_range_list=[])

    # the same whole-number systems handed over as integer arrays (int64 matrix and right-hand side, int32 right-hand side):
    # "arbitrary SPD matrices and right-hand sides" does not fix the dtype, and every entry of the family is integral
    def as_int(fn, dt):
        def f(A, b):
            return fn(np.rint(A).astype(np.int64), np.rint(b).astype(dt))
        return f

    ints = [("nnls", "fnnls-cold-int64", as_int(cold, np.int64)), ("nnls", "fnnls-warm-int64", as_int(warm, np.int64)),
            ("nnls", "fnnls-cold-int32-rhs", as_int(cold, np.int32)), ("nnls", "positive-only-config-default-int64", as_int(rpo_default, np.int64))]
    return ints + [("nnls", "fnnls-cold", cold), ("nnls", "fnnls-warm", warm), ("nnls", "positive-only-cold", rpo(False)),
            ("nnls", "positive-only-warm", rpo(True)), ("nnls", "positive-only-config-default", rpo_default),
            ("solve", "unconstrained", solve)]


def _gamma_for(A, s_bound, bmax):
    n = len(A)
    amax = max(1, int(np.abs(A).max()))
    g = 10 ** 6
    while g > 10 and (amax * s_bound * g * n >= 2 ** 30 or bmax * g >= 2 ** 30):
        g //= 10
    return g


def records_for(inst, opt=None):
    """inst: {"A": int matrix, "b": int vector}; opt: exact optimum as list of (num, den) or None."""
    A = np.array(inst["A"], dtype=float)
    b = np.array(inst["b"], dtype=float)
    n = len(b)
    unc = np.linalg.solve(A, b)
    sb = max(1.0, float(np.abs(unc).max()) * 2, 4 * float(np.abs(b).max()))
    recs = []
    for api, variant, fn in _variants():
        r = {"p": "C05", "api": api, "variant": variant, "n": n, "a": np.array(inst["A"], dtype=int).tolist(),
             "beta": [int(x) for x in inst["b"]], "exact": True, "spd": True, "raised": False,
             "unc_has_nonpositive": bool((unc <= 1e-12).any()), "exact_zero": [True] * n}
        try:
            s = np.asarray(fn(A, b), dtype=float)
            if s.shape != (n,) or not np.all(np.isfinite(s)):
                raise ValueError("non-finite or mis-shaped solution")
            smax = max(sb, float(np.abs(s).max()) * 1.01 + 1)
            g = _gamma_for(A, int(np.ceil(smax)), int(np.abs(b).max()) + 1)
            r["gamma"] = g
            r["sigma"] = [int(x) for x in np.rint(s * g)]
            if opt is not None and api == "nnls":
                r["opt"] = [int(round(Fraction(nn, dd) * g)) for nn, dd in opt]
        except Exception as e:  # the error path is an outcome
            r["raised"] = True
            r["err"] = type(e).__name__
            r["gamma"] = 1
            r["sigma"] = [0] * n
        recs.append(r)
    return recs


def _many(args):
    out = []
    for inst, opt in args:
        out.extend(records_for(inst, opt))
    return out


def gen_collinear_instances(rng, count, nlo=3, nhi=8):
    """nearly collinear designs M = 1 + noise: entering variables drive several passive ones negative at once
    (multi-index line-search steps) and optima with exactly zero multipliers occur (degenerate KKT points)."""
    out = []
    while len(out) < count:
        n = int(rng.integers(nlo, nhi + 1))
        m = n + int(rng.integers(0, 3))
        M = 1 + rng.integers(-1, 2, size=(m, n))
        A = M.T @ M + int(rng.integers(0, 2)) * np.eye(n, dtype=int)
        if abs(np.linalg.det(A)) < 0.5 or np.linalg.cond(A) > 1e6:
            continue
        y = rng.integers(-4, 5, size=m) if len(out) % 2 else rng.integers(0, 7, size=m)
        out.append({"A": A.astype(int).tolist(), "b": (M.T @ y).astype(int).tolist()})
    return out


def gen_twin_instances(rng, count, nmax=6):
    """systems invariant under swapping groups of parameters (equal diagonal, equal couplings, equal right-hand side): the
    twins enter and leave the passive set together, so several indices hit zero in the SAME line-search step (exact ties)"""
    out = []
    tries = 0
    while len(out) < count and tries < count * 200:
        tries += 1
        g = int(rng.integers(2, 4))            # twin group size
        r = int(rng.integers(1, max(2, nmax - g)))  # other parameters
        n = g + r
        B = rng.integers(-2, 4, size=(r, r))
        A = np.zeros((n, n), dtype=int)
        A[:r, :r] = B @ B.T + int(rng.integers(1, 4)) * np.eye(r, dtype=int)
        c = rng.integers(-4, 5, size=r)        # coupling of every twin to the others
        dg, od = int(rng.integers(4, 40)), int(rng.integers(-3, 4))
        for a in range(g):
            A[r + a, :r] = c
            A[:r, r + a] = c
            for b_ in range(g):
                A[r + a, r + b_] = dg if a == b_ else od
        if np.linalg.eigvalsh(A.astype(float)).min() < 0.2:
            continue
        b = np.concatenate([rng.integers(-6, 9, size=r), np.full(g, int(rng.integers(-4, 9)))])
        perm = rng.permutation(n)
        A, b = A[np.ix_(perm, perm)], b[perm]
        out.append({"A": A.astype(int).tolist(), "b": b.astype(int).tolist()})
    return out


def gen_large_instances(rng, count, nmax=12):
    """integer SPD systems  A = M'M + ridge,  b = M'y  with y positive / zero-mean / negative (noise dominated)"""
    out = gen_collinear_instances(rng, count) + gen_twin_instances(rng, count)
    for k in range(count):
        n = int(rng.integers(3, nmax + 1))
        m = n + int(rng.integers(0, 6))
        M = rng.integers(-2, 4, size=(m, n))
        if k % 4 == 0:
            M = np.abs(M)  # mapping-matrix like: non-negative, overlapping columns -> strongly correlated parameters
        ridge = int(rng.integers(1, 3))
        A = M.T @ M + ridge * np.eye(n, dtype=int)
        kind = k % 3
        if kind == 0:
            y = rng.integers(0, 6, size=m)
        elif kind == 1:
            y = rng.integers(-3, 4, size=m)
        else:
            y = rng.integers(-5, 1, size=m)
        b = M.T @ y
        out.append({"A": A.astype(int).tolist(), "b": b.astype(int).tolist()})
    return out


# ---- inversion level: settings matrix, forced zeros, per-object model data ---------------------------------------
def _pow2_scale(maxabs, target):
    if maxabs <= 0:
        return 1.0
    return 2.0 ** np.floor(np.log2(target / maxabs))


def _system_record(A, b, s, api, variant, zeros=None, spd=True):
    """generic real-valued system -> fixed point (inexact: a, beta and sigma are all rounded)"""
    n = len(b)
    alpha = _pow2_scale(float(np.abs(A).max()), 2.0 ** 14)
    gamma = _pow2_scale(max(float(np.abs(s).max()), 1e-30), 2.0 ** 12) if np.abs(s).max() > 0 else 2.0 ** 12
    # keep beta*gamma below 2^30
    while np.abs(b).max() * alpha * gamma >= 2.0 ** 30:
        gamma /= 2.0
    if gamma < 1.0:
        alpha *= gamma
        gamma = 1.0
    unc = np.linalg.solve(A, b)
    r = {"p": "C05", "api": api, "variant": variant, "n": n, "a": np.rint(A * alpha).astype(np.int64).tolist(),
         "beta": np.rint(b * alpha).astype(np.int64).tolist(), "gamma": int(gamma), "sigma": np.rint(s * gamma).astype(np.int64).tolist(),
         "exact": False, "spd": bool(spd), "raised": False, "unc_has_nonpositive": bool((unc <= 1e-12 * max(1.0, np.abs(unc).max())).any()),
         "exact_zero": [bool(x == 0.0) for x in s]}
    if zeros is not None:
        r["zeros"] = [int(z) + 1 for z in zeros]
    return r


def inversion_records(inst, dmode):
    import autoarray as aa
    from autoarray import exc
    from harness.drivers import inv_common as ic

    inst = json.loads(json.dumps(inst))
    n = len(inst["u"])
    rng = np.random.default_rng(n * 7 + dmode)
    if dmode == 0:
        inst["d"] = [int(x) for x in rng.integers(1, 9, size=n)]
    elif dmode == 1:
        inst["d"] = [int(x) for x in rng.integers(-4, 5, size=n)]
    else:
        inst["d"] = [int(x) for x in rng.integers(-8, 0, size=n)]
    recs = []
    ds, objs, skw = ic.build(inst)
    # the documented meaning of the forced-zero set: boundary cells of every rectangular mesh, in parameter order
    # ... and, with force_edge_image_pixels_to_zeros, additionally every mesh cell of a MAPPER that receives a sub-pixel of one of
    # the image pixels listed in image_pixels_source_zero (parameters of other linear objects are never forced)
    zimg = sorted(set(int(x) for x in rng.choice(n, size=max(1, n // 3), replace=False)))
    off, edge, imgz = 0, [], []
    for o in inst["objs"]:
        if o["type"] == "mapper":
            my, mx = o["mesh"]
            edge += [off + a * mx + c for a in range(my) for c in range(mx) if a in (0, my - 1) or c in (0, mx - 1)]
            q = 0
            for k_, sk in enumerate(ic.sub_list(o, n)):
                if k_ in zimg:
                    imgz += [off + int(c) for c in o["cells"][q : q + sk * sk]]
                q += sk * sk
            off += my * mx
        else:
            off += len(o["M"][0])
    forced_of = {True: edge, "image": sorted(set(edge) | set(imgz))}
    # (a forced set that covers every parameter leaves an empty reduced system, which the library refuses to solve: outside
    #  the family - the image-pixel mode is then skipped for this instance)
    image_mode_ok = len(forced_of["image"]) < off
    for pos in (True, False):
        for warm in ((True, False, None) if pos else (None,)):
            for force in ((True, "image", False) if pos else (False,)):
                if force == "image" and not image_mode_ok:
                    continue
                for use_w in (False, True):
                    variant = f"inversion:pos={pos}:warm={warm}:force_edge={force}:w_tilde={use_w}"
                    st = aa.SettingsInversion(use_w_tilde=use_w, use_positive_only_solver=pos, positive_only_uses_p_initial=warm,
                                              force_edge_pixels_to_zeros=bool(force), force_edge_image_pixels_to_zeros=(force == "image"),
                                              image_pixels_source_zero=(list(zimg) if force == "image" else None), **skw)
                    edge = forced_of.get(force, [])
                    try:
                        _, objs2, _ = ic.build(inst)
                        inv = aa.Inversion(dataset=ds, linear_obj_list=objs2, settings=st)
                        A = np.array(inv.curvature_reg_matrix, dtype=float).copy()
                        b = np.array(inv.data_vector, dtype=float).copy()
                    except Exception as e:
                        raise core.MachineryError(f"could not build inversion: {e!r}")
                    try:
                        s = np.array(inv.reconstruction, dtype=float)
                    except exc.InversionException as e:
                        if pos:
                            r = _system_record(A, b, np.zeros(len(b)), "forced" if force else "nnls", variant, edge if force else None)
                            r["raised"] = True
                            r["err"] = "InversionException"
                            recs.append(r)
                        continue  # the unconstrained solver may raise (degenerate-solution check)
                    recs.append(_system_record(A, b, s, ("forced" if force else "nnls") if pos else "solve", variant, edge if (pos and force) else None))
                    # per-object model data
                    try:
                        md = inv.mapped_reconstructed_data_dict
                        total = np.array(inv.mapped_reconstructed_data, dtype=float)
                        oml = inv.operated_mapping_matrix_list
                        rd = inv.reconstruction_dict
                        Bs = [np.array(x, dtype=float) for x in oml]
                        aB = _pow2_scale(max(float(np.abs(B_).max()) for B_ in Bs), 2.0 ** 12)
                        g = _pow2_scale(max(float(np.abs(s).max()), 1e-30), 2.0 ** 12)
                        ob = []
                        for lo, B_ in zip(objs2, Bs):
                            ob.append({"bm": np.rint(B_ * aB).astype(np.int64).tolist(), "sigma": np.rint(np.array(rd[lo], dtype=float) * g).astype(np.int64).tolist(),
                                       "m": np.rint(np.array(md[lo], dtype=float) * aB * g).astype(np.int64).tolist()})
                        recs.append({"p": "C05", "api": "mapped", "variant": variant, "raised": False, "objs": ob, "unc_has_nonpositive": False,
                                     "total": np.rint(total * aB * g).astype(np.int64).tolist()})
                    except exc.InversionException:
                        pass
                    except Exception as e:  # an exception on a well-posed inversion is an outcome to be judged, not a crash
                        recs.append({"p": "C05", "api": "mapped", "variant": variant, "raised": True, "spd": True, "err": f"{type(e).__name__}: {str(e)[:80]}",
                                     "objs": [], "total": [], "unc_has_nonpositive": False})
    return recs


def smooth_inversion_records(seed):
    """A strongly correlated system beyond the lattice family: a fine rectangular pixelization of zero-mean noise under a broad
    Gaussian PSF (many zeros in the optimum, long active-set histories with exchange steps). Judged by the KKT clauses in fixed point."""
    import autoarray as aa
    from autoarray import exc

    rng = np.random.default_rng(seed)
    side = int(rng.choice([11, 13]))
    mesh = int(rng.choice([6, 7, 8]))
    sig = float(rng.choice([1.0, 1.5, 2.0]))
    coeff = float(rng.choice([1e-3, 1e-2]))
    mask = aa.Mask2D.circular(shape_native=(side, side), pixel_scales=1.0, radius=side / 2.0 - 1.0)
    data = aa.Array2D.no_mask(values=rng.normal(0.0, 1.0, size=(side, side)) + float(rng.choice([-0.25, 0.0, 0.25])), pixel_scales=1.0)
    noise = aa.Array2D.no_mask(values=np.full((side, side), 1.0), pixel_scales=1.0)
    yy, xx = np.mgrid[-3:4, -3:4]
    k = np.exp(-0.5 * (yy ** 2 + xx ** 2) / sig ** 2)
    ds = aa.Imaging(data=data, noise_map=noise, psf=aa.Kernel2D.no_mask(values=k / k.sum(), pixel_scales=1.0),
                    over_sampling=aa.OverSamplingDataset(uniform=aa.OverSamplingUniform(sub_size=1), pixelization=aa.OverSamplingUniform(sub_size=1))).apply_mask(mask=mask)
    recs = []
    for warm in (True, False):
        osr = aa.OverSamplerUniform(mask=mask, sub_size=1)
        grid = osr.over_sampled_grid
        mg = aa.MapperGrids(mask=mask, source_plane_data_grid=grid, source_plane_mesh_grid=aa.Mesh2DRectangular.overlay_grid(grid=grid, shape_native=(mesh, mesh)))
        mapper = aa.MapperRectangular(mapper_grids=mg, over_sampler=osr, border_relocator=None, regularization=aa.reg.Constant(coefficient=coeff))
        variant = f"smooth-inversion:mesh={mesh}:sigma={sig}:warm={warm}"
        inv = aa.Inversion(dataset=ds, linear_obj_list=[mapper], settings=aa.SettingsInversion(use_w_tilde=False, use_positive_only_solver=True,
                                                                                              positive_only_uses_p_initial=warm, force_edge_pixels_to_zeros=False))
        A = np.array(inv.curvature_reg_matrix, dtype=float).copy()
        b = np.array(inv.data_vector, dtype=float).copy()
        try:
            sol = np.array(inv.reconstruction, dtype=float)
            r = _system_record(A, b, sol, "nnls", variant)
        except exc.InversionException:
            r = _system_record(A, b, np.zeros(len(b)), "nnls", variant)
            r["raised"], r["err"] = True, "InversionException"
        r["_smooth_seed"] = int(seed)
        recs.append(r)
    return recs


def _smooth_many(seeds):
    out = []
    for sd in seeds:
        out.extend(smooth_inversion_records(sd))
    return out


def _inv_many(args):
    out = []
    for inst, dmode in args:
        rr = inversion_records(inst, dmode)
        for r in rr:
            r["_inv"] = {"instance": inst, "dmode": dmode}
        out.extend(rr)
    return out


def validate(ctx, recs, tag, chunk=1500):
    import concurrent.futures as cf

    invctx = {}
    for k, r in enumerate(recs):
        r["id"] = k
        invctx[k] = r.pop("_inv", None)
    chunks = [recs[k : k + chunk] for k in range(0, len(recs), chunk)]
    rejects = []
    env = insts_file(ctx, [{"A": [[1]], "b": [1]}], "dummy_insts.json")

    def one(kc):
        k, ch = kc
        return ctx.validate_trace("Trace_Nnls", CFG_TRACE, ch, tag=f"{tag}_{k}", env=env)[1]

    with cf.ThreadPoolExecutor(max_workers=min(16, len(chunks) or 1)) as ex:
        for rej in ex.map(one, list(enumerate(chunks))):
            rejects.extend(rej)
    for rj in rejects:
        rec = recs[rj["id"]]
        ctx.violation(rj["sig"], f"{rec['api']}/{rec['variant']} on A={rec.get('a')} b={rec.get('beta')}: result*{rec.get('gamma')}={rec.get('sigma')}"
                      f"{' raised ' + rec.get('err', '') if rec['raised'] else ''} failed {rj['clauses']}",
                      {"record": rec, "inversion": invctx.get(rj["id"]), "failed_clauses": rj["clauses"], "spec_wanted": rj.get("want")},
                      cls=",".join(rj["clauses"]))
    return rejects


POOL_SEED = 20261003  # the TLC-explored family is a fixed pool (its exact rational arithmetic is known to stay within TLC's
# 32-bit integers); VERIF_SEED selects the sub-family explored in the quick tier and drives all random larger systems


def run(ctx):
    quick = ctx.quick
    rng = np.random.default_rng(ctx.seed)
    pool = gen_small_instances(np.random.default_rng(POOL_SEED), range(-3, 4), 2500, 400)
    if quick:
        pick = np.sort(rng.choice(len(pool), size=min(len(pool), 2200), replace=False))
        small = [pool[k] for k in pick]
    else:
        small = pool
    ctx.bounds = {"small_integer_instances": len(small), "n_small": "2 (all SPD with entries -3..4), 3 and 4 (seeded L*L')",
                  "random_larger_instances": 600 if quick else 40000, "n_large_max": 12}
    res = ctx.tlc("Nnls", CFG_MC.format(rep="TRUE", maxsteps=40), env=insts_file(ctx, small, "insts.json"), tag="MC_Nnls", timeout=1700)
    ctx.exhaustive = True
    opt = {}
    for r in res.by_kind("inst"):
        key = r["id"]
        val = [tuple(x) for x in r["d"]]
        if key in opt and opt[key] != val:
            raise core.MachineryError(f"Nnls.tla: two terminal states of instance {key} disagree (optimum not unique?)")
        opt[key] = val
    if len(opt) != len(small):
        raise core.MachineryError(f"Nnls.tla reached 'done' for {len(opt)} of {len(small)} instances")
    if not quick:
        # non-vacuity / design-level diagnosis: the warm start as found on the pinned tree violates the invariants
        bug = ctx.tlc("Nnls", CFG_MC.format(rep="FALSE", maxsteps=40).replace("INVARIANT DumpDone\n", ""), env=insts_file(ctx, small[:600], "insts_asfound.json"),
                      tag="MC_Nnls_asfound", timeout=600, allow_errors=True)
        ctx.note(f"as-found warm start (RepairedWarmStart=FALSE): TLC reports {bug.errors[:1]}")
    pairs = [(small[k - 1], opt[k]) for k in sorted(opt)]
    groups = [pairs[k : k + 40] for k in range(0, len(pairs), 40)]
    recs = []
    for part in core.pmap(_many, groups):
        recs.extend(part)
    ctx.replayed = len(pairs)
    large = gen_large_instances(rng, ctx.bounds["random_larger_instances"] // 2)
    groups = [[(x, None) for x in large[k : k + 20]] for k in range(0, len(large), 20)]
    for part in core.pmap(_many, groups):
        recs.extend(part)
    # inversion level (real aa.Inversion objects on lattice datasets): settings matrix, forced zeros, per-object model data
    from harness.drivers import inv_common as ic
    n_inv = 24 if quick else 600
    invs = []
    while len(invs) < n_inv:
        i = ic.random_instance(rng, H=7, W=7, interior=3, layouts=("m", "mf", "fm", "mm", "fmf"), kshapes=((1, 1), (3, 3), (1, 3), (3, 1)),
                               signed_kernel=False)
        for o in i["objs"]:
            if o["type"] == "mapper":
                o["reg"] = True
            else:
                o["me"] = 0
        if len(i["u"]) >= 5:
            invs.append((i, len(invs) % 3))
    ctx.bounds["inversion_level_instances"] = n_inv
    for part in core.pmap(_inv_many, [invs[k : k + 2] for k in range(0, len(invs), 2)]):
        recs.extend(part)
    n_smooth = 160 if quick else 3000
    ctx.bounds["smooth_inversion_instances"] = n_smooth
    sseeds = [int(x) for x in rng.integers(0, 2 ** 31 - 1, size=n_smooth)]
    for part in core.pmap(_smooth_many, [sseeds[k : k + 5] for k in range(0, n_smooth, 5)]):
        recs.extend(part)
    ctx.sample({"instance": small[len(small) // 2], "exact_optimum": opt[len(small) // 2 + 1]})
    ctx.sample({k: v for k, v in recs[-2].items()})
    validate(ctx, recs, "C05")
    ctx.note(f"{len(small)} small instances x (cold, warm, ties) explored by TLC; {len(recs)} solver results validated by Trace_Nnls")
    ctx.assumptions = ["float solver error is allowed a relative slack of 1e-8 ('to numerical precision'); rounding of the fixed-point "
                       "abstraction is bounded rigorously in Trace_Nnls.tla", "instances are integer SPD systems (exact in IEEE arithmetic)"]


def replay(ctx, rp):
    rec = rp["record"]
    if "_smooth_seed" in rec:
        recs = [r for r in smooth_inversion_records(rec["_smooth_seed"]) if r["variant"] == rec["variant"]]
    elif rp.get("inversion"):
        recs = [r for r in _inv_many([(rp["inversion"]["instance"], rp["inversion"]["dmode"])]) if r["variant"] == rec["variant"] and r["api"] == rec["api"]]
    else:
        recs = [r for r in records_for({"A": rec["a"], "b": rec["beta"]}) if r["variant"] == rec["variant"]]
    rej = validate(ctx, recs, "replay")
    print("replayed", len(recs), "records; rejected:", [r["clauses"] for r in rej])
    return ctx.finish()
