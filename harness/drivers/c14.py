"""C14 -- resize, pad and trim keep data centred and attached to its coordinates.

S->C: Resize.tla enumerates every (input shape, target shape), every (shape, odd kernel), and every mask of every small
      frame with kernels (automatic padding) and buffers (zoom); TLC checks the design theorems on each (centred offsets =
      balanced margins, loop formulation = window formulation, pad-then-trim and grow-then-shrink identities, coordinate
      attachment under preserved parity, triple preservation of the automatic padding, zoom window validity) and dumps the
      instances, which are replayed through the real Array2D / Mask2D / Imaging API with tagged contents on a tick
      lattice of coordinates.
C->S: what comes back is abstracted (source cell of every output cell, unmasked set, coordinates in ticks) and judged by
      Trace_Resize.tla -- also for seeded random larger instances beyond the exhaustive bound."""
import numpy as np

from harness import core, exact

OFFC = 999999  # sentinel for an off-lattice coordinate (valid ticks are tiny)

MC_CFG = """CONSTANTS
  InShapes <- MCIn
  OutShapes <- MCOut
  KernelShapes <- MCKernels
  MaskShapes <- MCMaskShapes
  MaskKernels <- MCMaskKernels
  Buffers <- MCBuffers
  HalfScales <- MCHalfScales
  Origins <- MCOrigins
SPECIFICATION Spec
INVARIANT OffsetsAreTheBalancedOnes
INVARIANT CodeFormulationAgrees
INVARIANT ResizeIsInjectiveAndMonotone
INVARIANT CropKeepsAWindowEmbeddingKeepsAll
INVARIANT CoordinateAttachment
INVARIANT ParityChangeShiftsByHalfPixel
INVARIANT GrowThenShrinkLosesNothing
INVARIANT PadIsCentredEmbedding
INVARIANT PadThenTrimIsIdentity
INVARIANT TrimIsCentredCrop
INVARIANT PadKeepsCoordinates
INVARIANT TrimmedArrayFrom
INVARIANT AutoPaddingPreservesTriples
INVARIANT AutoPaddingMakesBlurringFit
INVARIANT ZoomWindowContainsEveryUnmaskedPixelWithItsValue
"""

# the history machine (ZoomHistory.tla EXTENDS Resize: the constants of the single-call machine are left empty)
HIST_CFG = """CONSTANTS
  InShapes = {}
  OutShapes = {}
  KernelShapes = {}
  MaskShapes = {}
  MaskKernels = {}
  Buffers = {}
  HalfScales = {}
  Origins = {}
  HistFrames <- MCHistFrames
  HistBuffers <- MCHistBuffers
  HistReads <- MCHistReads
SPECIFICATION HSpec
INVARIANT HistoryMaskIsTheFoldOfItsEdits
INVARIANT HistoryCacheIsCoherent
INVARIANT EveryZoomOfAHistoryShowsTheCurrentMask
INVARIANT HistoryMaskNeverEmpty
"""

TRACE_CFG = """CONSTANTS
  InShapes = {}
  OutShapes = {}
  KernelShapes = {}
  MaskShapes = {}
  MaskKernels = {}
  Buffers = {}
  HalfScales = {}
  Origins = {}
  HistFrames = {}
  HistBuffers = {}
  HistReads = FALSE
  MHistFrames = {}
SPECIFICATION TraceSpec
POSTCONDITION TraceAccepted
"""

# the masking-history machine (MaskHistory.tla; the other machines' constants are left empty)
MHIST_CFG = """CONSTANTS
  InShapes = {}
  OutShapes = {}
  KernelShapes = {}
  MaskShapes = {}
  MaskKernels = {}
  Buffers = {}
  HalfScales <- MCHalfScales
  Origins <- MCOrigins
  HistFrames = {}
  HistBuffers = {}
  HistReads = FALSE
  MHistFrames <- MCMHistFrames
SPECIFICATION MSpec
INVARIANT BaseIsAlwaysTheOriginal
INVARIANT EveryMaskIsAppliedToTheOriginal
INVARIANT HistoryPreservesOriginalTriples
INVARIANT HistoryBlurringFits
"""

TICKS = [2.0 ** -6, 0.25, 1.0, 4.0, 0.05, 0.1, 1.0 / 3.0]
HALF_SCALES = [1, 2, 3]
ORIGINS = [-4, -2, 0, 2, 6]


def _pairs(ps):
    return "{" + ", ".join(f"<<{a},{b}>>" for a, b in ps) + "}"


def _ints(xs):
    return "{" + ", ".join(str(x) for x in xs) + "}"


# ------------------------------------------------------------------------------------------------------------
# gamma: abstract instance -> concrete objects
# ------------------------------------------------------------------------------------------------------------
def _geom(rng):
    """half pixel scales and origin in ticks, and the tick length; a third of the instances are the plain case."""
    style = int(rng.integers(0, 3))
    tau = float(TICKS[int(rng.integers(0, len(TICKS)))])
    if style == 0:
        hy = hx = int(rng.choice(HALF_SCALES))
        oy = ox = 0
    else:
        hy, hx = int(rng.choice(HALF_SCALES)), int(rng.choice(HALF_SCALES))
        oy, ox = int(rng.choice(ORIGINS)), int(rng.choice(ORIGINS))
        if style == 2 and oy == 0 and ox == 0:
            oy = 2
    return {"hy": hy, "hx": hx, "oy": oy, "ox": ox, "tau": tau}


def _ps(g):
    return (2 * g["hy"] * g["tau"], 2 * g["hx"] * g["tau"])


def _org(g):
    return (g["oy"] * g["tau"], g["ox"] * g["tau"])


def _mask(h, w, u, g):
    import autoarray as aa

    m = np.ones(h * w, dtype=bool)
    m[list(u)] = False
    return aa.Mask2D(mask=m.reshape(h, w), pixel_scales=_ps(g), origin=_org(g))


def _tags(h, w, base=1):
    return np.arange(base, base + h * w, dtype=float).reshape(h, w)


def _reals(rng, h, w, positive=False):
    a = rng.standard_normal((h, w)) * float(rng.choice([1e-300, 1.0, 1e300 / 8]))
    a[a == 0] = 1.0
    return np.abs(a) if positive else a


# ------------------------------------------------------------------------------------------------------------
# alpha: concrete results -> abstract records (rejecting)
# ------------------------------------------------------------------------------------------------------------
def _src(native, n_cells, base=1):
    return exact.tags_to_src(np.asarray(native, dtype=float), base=base, n_cells=n_cells)


def _um(mask):
    return [int(x) for x in np.flatnonzero(~np.asarray(mask, dtype=bool).ravel())]


def _ticks(coords, tau, ok):
    """coordinates (any shape (...,)) -> integer ticks; off-lattice -> OFFC and ok[0] = False."""
    a = np.asarray(coords, dtype=float).ravel() / tau
    r = np.rint(a)
    good = np.isfinite(a) & (np.abs(a - r) <= 1e-6) & (np.abs(r) < 100000)
    if not good.all():
        ok[0] = False
    return [int(v) if b else OFFC for v, b in zip(r, good)]


def _grid_yx(grid, tau, ok):
    g = np.asarray(grid, dtype=float).reshape(-1, 2)
    return _ticks(g[:, 0], tau, ok), _ticks(g[:, 1], tau, ok)


def _all_coords(mask, tau, ok):
    """pixel centres of the whole frame of a structure, as the real API reports them."""
    return _grid_yx(mask.derive_grid.all_false.native, tau, ok)


def _payload_ok(src, real_in_flat, got):
    s = np.asarray(src, dtype=int)
    got = np.asarray(got, dtype=float).ravel()
    if s.shape != got.shape:
        return False
    if (s < -1).any():
        return False
    want = np.where(s >= 0, real_in_flat[np.clip(s, 0, len(real_in_flat) - 1)], 0.0)
    return bool(np.array_equal(want, got))


# the TYPE of the entries of a target shape / kernel shape is a dimension of the instance realisation: the same shape is
# handed over as Python ints, a list, signed / unsigned numpy scalars or a numpy integer array, rotating over instances
SHAPE_TYPES = ["tuple_int", "list", "np_int64", "np_int32", "np_uint8", "np_uint16", "np_uint64", "np_int64_array",
               "np_uint16_array"]
_SHAPE_SALT = [0]


def _shape_type(h, w, a, b, salt):
    return SHAPE_TYPES[(7 * h + 13 * w + 3 * a + 5 * b + salt + _SHAPE_SALT[0]) % len(SHAPE_TYPES)]


def _shape_as(kind, a, b):
    if kind == "tuple_int":
        return (int(a), int(b))
    if kind == "list":
        return [int(a), int(b)]
    if kind.endswith("_array"):
        return np.array([a, b], dtype=getattr(np, kind[3:-6]))
    return tuple(getattr(np, kind[3:])(x) for x in (a, b))


def _base(api, h, w, u, g):
    return {"p": "C14", "api": api, "h": h, "w": w, "u": [int(x) for x in u],
            "hy": g["hy"], "hx": g["hx"], "oy": g["oy"], "ox": g["ox"], "tau": g["tau"]}


def _array_result(rec, res, n_in, tau, ok, real_res=None, real_in=None):
    """fill a record from a returned Array2D"""
    nat = np.asarray(res.native.array if hasattr(res.native, "array") else res.native, dtype=float)
    rec["oh"], rec["ow"] = int(nat.shape[0]), int(nat.shape[1])
    rec["src"] = _src(nat, n_in)
    rec["um"] = _um(res.mask)
    rec["gout_y"], rec["gout_x"] = _all_coords(res.mask, tau, ok)
    if real_res is not None:
        rnat = np.asarray(real_res.native.array if hasattr(real_res.native, "array") else real_res.native, dtype=float)
        rec["payload_ok"] = _payload_ok(rec["src"], real_in.ravel(), rnat)
    return rec


# ------------------------------------------------------------------------------------------------------------
# the calls
# ------------------------------------------------------------------------------------------------------------
def _rand_u(rng, h, w):
    n = h * w
    dens = float(rng.choice([0.3, 0.6, 0.9]))
    m = rng.random(n) < dens
    if not m.any():
        m[int(rng.integers(0, n))] = True
    return [int(x) for x in np.flatnonzero(m)]


def _guard(rec, ok, body):
    """run the API calls; an exception of the code under test becomes a rejected record (`raised`), not a driver crash"""
    try:
        body()
        rec["raised"] = False
    except core.MachineryError:
        raise
    except Exception as e:  # noqa: BLE001 -- the property promises a result for every input in its domain
        rec["raised"] = True
        rec["error"] = f"{type(e).__name__}: {e}"[:300]
    rec["lat_ok"] = ok[0]
    return rec


def rec_resize_array(h, w, u, h2, w2, mpad, g, rng):
    import autoarray as aa

    ok = [True]
    rec = _base("resize_array", h, w, u, g)
    st = _shape_type(h, w, h2, w2, 1 + mpad)
    rec.update({"h2": h2, "w2": w2, "mpad": mpad, "shape_type": st})

    def body():
        mask = _mask(h, w, u, g)
        real = _reals(rng, h, w)
        a = aa.Array2D(values=_tags(h, w), mask=mask)
        b = aa.Array2D(values=real, mask=mask)
        rec["gin_y"], rec["gin_x"] = _all_coords(a.mask, g["tau"], ok)
        _array_result(rec, a.resized_from(new_shape=_shape_as(st, h2, w2), mask_pad_value=mpad), h * w, g["tau"], ok,
                      b.resized_from(new_shape=_shape_as(st, h2, w2), mask_pad_value=mpad), real)

    return _guard(rec, ok, body)


def rec_resize_mask(h, w, u, h2, w2, pad, g):
    ok = [True]
    rec = _base("resize_mask", h, w, u, g)
    st = _shape_type(h, w, h2, w2, 3 + pad)
    rec.update({"h2": h2, "w2": w2, "pad": pad, "shape_type": st})

    def body():
        mask = _mask(h, w, u, g)
        res = mask.resized_from(new_shape=_shape_as(st, h2, w2), pad_value=pad)
        rec.update({"oh": int(res.shape[0]), "ow": int(res.shape[1]), "um": _um(res)})
        rec["gin_y"], rec["gin_x"] = _all_coords(mask, g["tau"], ok)
        rec["gout_y"], rec["gout_x"] = _all_coords(res, g["tau"], ok)

    return _guard(rec, ok, body)


def rec_grow_shrink(h, w, u, h2, w2, mpad, g, rng):
    import autoarray as aa

    ok = [True]
    rec = _base("grow_shrink", h, w, u, g)
    st = _shape_type(h, w, h2, w2, 5 + mpad)
    rec.update({"h2": h2, "w2": w2, "mpad": mpad, "shape_type": st})

    def body():
        mask = _mask(h, w, u, g)
        real = _reals(rng, h, w)
        a = aa.Array2D(values=_tags(h, w), mask=mask)
        b = aa.Array2D(values=real, mask=mask)
        rec["gin_y"], rec["gin_x"] = _all_coords(a.mask, g["tau"], ok)
        f = lambda x: x.resized_from(new_shape=_shape_as(st, h2, w2), mask_pad_value=mpad) \
            .resized_from(new_shape=_shape_as(st, h, w))
        _array_result(rec, f(a), h * w, g["tau"], ok, f(b), real)

    return _guard(rec, ok, body)


def rec_kernel(api, h, w, u, kh, kw, mpad, g, rng):
    """api in pad / trim / pad_trim"""
    import autoarray as aa

    ok = [True]
    rec = _base(api, h, w, u, g)
    st = _shape_type(h, w, kh, kw, {"pad": 0, "trim": 4, "pad_trim": 8}.get(api, 0) + mpad)
    rec.update({"kh": kh, "kw": kw, "mpad": mpad, "shape_type": st})

    def body():
        mask = _mask(h, w, u, g)
        real = _reals(rng, h, w)
        a = aa.Array2D(values=_tags(h, w), mask=mask)
        b = aa.Array2D(values=real, mask=mask)
        rec["gin_y"], rec["gin_x"] = _all_coords(a.mask, g["tau"], ok)
        if api == "pad":
            f = lambda x: x.padded_before_convolution_from(kernel_shape=_shape_as(st, kh, kw), mask_pad_value=mpad)
        elif api == "trim":
            f = lambda x: x.trimmed_after_convolution_from(kernel_shape=_shape_as(st, kh, kw))
        else:
            f = lambda x: x.padded_before_convolution_from(kernel_shape=_shape_as(st, kh, kw), mask_pad_value=mpad) \
                .trimmed_after_convolution_from(kernel_shape=_shape_as(st, kh, kw))
        _array_result(rec, f(a), h * w, g["tau"], ok, f(b), real)

    return _guard(rec, ok, body)


def rec_trimmed_array_from(hp, wp, h, w, u_mask, g, rng):
    """Mask2D(hp x wp).trimmed_array_from(padded_array, image_shape=(h, w)); the record's input frame is the padded one."""
    import autoarray as aa

    ok = [True]
    rec = _base("trimmed_array_from", hp, wp, list(range(hp * wp)), g)
    rec.update({"h2": h, "w2": w})

    def body():
        mask = _mask(hp, wp, u_mask, g)
        real = _reals(rng, hp, wp)
        pa = aa.Array2D.no_mask(values=_tags(hp, wp), pixel_scales=_ps(g), origin=_org(g))
        pb = aa.Array2D.no_mask(values=real, pixel_scales=_ps(g), origin=_org(g))
        rec["gin_y"], rec["gin_x"] = _all_coords(pa.mask, g["tau"], ok)
        _array_result(rec, mask.trimmed_array_from(padded_array=pa, image_shape=(h, w)), hp * wp, g["tau"], ok,
                      mask.trimmed_array_from(padded_array=pb, image_shape=(h, w)), real)

    return _guard(rec, ok, body)


def _imaging(h, w, mask_or_none, g, data, noise, kernel):
    import autoarray as aa

    if mask_or_none is None:
        d = aa.Array2D.no_mask(values=data, pixel_scales=_ps(g), origin=_org(g))
        n = aa.Array2D.no_mask(values=noise, pixel_scales=_ps(g), origin=_org(g))
    else:
        d = aa.Array2D(values=data, mask=mask_or_none)
        n = aa.Array2D(values=noise, mask=mask_or_none)
    psf = None
    if kernel is not None:
        psf = aa.Kernel2D.no_mask(values=np.ones(kernel), pixel_scales=_ps(g))
    return aa.Imaging(data=d, noise_map=n, psf=psf)


def rec_autopad(h, w, u, kh, kw, g, rng):
    ok = [True]
    n = h * w
    tau = g["tau"]
    rec = _base("autopad", h, w, u, g)
    rec.update({"kh": kh, "kw": kw})

    def body():
        mask = _mask(h, w, u, g)
        ds = _imaging(h, w, None, g, _tags(h, w), _tags(h, w, base=n + 1), (kh, kw))
        # the coordinates the pixels have in the dataset before the mask is applied
        gy, gx = _grid_yx(ds.grids.uniform.native, tau, ok)
        rec["pre_y"] = [gy[k] for k in u]
        rec["pre_x"] = [gx[k] for k in u]
        d2 = ds.apply_mask(mask=mask)
        nat = np.asarray(d2.data.native.array, dtype=float)
        rec["oh"], rec["ow"] = int(nat.shape[0]), int(nat.shape[1])
        rec["src_d"] = _src(nat, n)
        rec["src_n"] = _src(np.asarray(d2.noise_map.native.array, dtype=float), n, base=n + 1)
        rec["um"] = _um(d2.mask)
        rec["post_y"], rec["post_x"] = _grid_yx(d2.grids.uniform.array, tau, ok)
        rec["post_d"] = _src(np.asarray(d2.data.slim.array, dtype=float), n)
        rec["post_n"] = _src(np.asarray(d2.noise_map.slim.array, dtype=float), n, base=n + 1)
        rd, rn = _reals(rng, h, w), _reals(rng, h, w, positive=True)
        r2 = _imaging(h, w, None, g, rd, rn, (kh, kw)).apply_mask(mask=mask)
        rec["payload_ok"] = (_payload_ok(rec["src_d"], rd.ravel(), r2.data.native.array)
                             and _payload_ok(rec["src_n"], rn.ravel(), r2.noise_map.native.array)
                             and _payload_ok(rec["post_d"], rd.ravel(), r2.data.slim.array)
                             and _payload_ok(rec["post_n"], rn.ravel(), r2.noise_map.slim.array))

    return _guard(rec, ok, body)


def rec_dataset_trim(h, w, u, kh, kw, g, rng):
    """Imaging.trimmed_after_convolution_from on a fresh dataset (nothing cached; the cached path belongs to C11)."""
    ok = [True]
    n = h * w
    tau = g["tau"]
    rec = _base("dataset_trim", h, w, u, g)
    rec.update({"kh": kh, "kw": kw})

    def body():
        mask = _mask(h, w, u, g)
        rec["gin_y"], rec["gin_x"] = _all_coords(mask, tau, ok)
        t = _imaging(h, w, mask, g, _tags(h, w), _tags(h, w, base=n + 1), None) \
            .trimmed_after_convolution_from(kernel_shape=(kh, kw))
        nat = np.asarray(t.data.native.array, dtype=float)
        rec["oh"], rec["ow"] = int(nat.shape[0]), int(nat.shape[1])
        rec["src_d"] = _src(nat, n)
        rec["src_n"] = _src(np.asarray(t.noise_map.native.array, dtype=float), n, base=n + 1)
        rec["post_d"] = _src(np.asarray(t.data.slim.array, dtype=float), n)
        rec["post_y"], rec["post_x"] = _grid_yx(t.grids.uniform.array, tau, ok)
        rd, rn = _reals(rng, h, w), _reals(rng, h, w, positive=True)
        r = _imaging(h, w, mask, g, rd, rn, None).trimmed_after_convolution_from(kernel_shape=(kh, kw))
        rec["payload_ok"] = (_payload_ok(rec["src_d"], rd.ravel(), r.data.native.array)
                             and _payload_ok(rec["src_n"], rn.ravel(), r.noise_map.native.array))

    return _guard(rec, ok, body)


def rec_zoom(h, w, u, b, g, rng):
    import autoarray as aa

    ok = [True]
    rec = _base("zoom", h, w, u, g)
    rec.update({"b": b})

    def body():
        mask = _mask(h, w, u, g)
        real = _reals(rng, h, w)
        z = aa.Array2D(values=_tags(h, w), mask=mask).zoomed_around_mask(buffer=b)
        zr = aa.Array2D(values=real, mask=mask).zoomed_around_mask(buffer=b)
        nat = np.asarray(z.native.array, dtype=float)
        rec.update({"oh": int(nat.shape[0]), "ow": int(nat.shape[1]), "src": _src(nat, h * w)})
        rec["payload_ok"] = _payload_ok(rec["src"], real.ravel(), zr.native.array)

    return _guard(rec, ok, body)


def rec_zoom_history(h, w, u, steps, g, rng):
    """A history on ONE Mask2D object: zoom (through a new Array2D built on the object), edit in place
    (mask[y, x] = False / True), read (mask.zoom_shape_native), zoom again ...  Every zoom is recorded."""
    import autoarray as aa

    ok = [True]
    rec = _base("zoom_history", h, w, u, g)
    plan = [{"op": st["op"], "cell": int(st["cell"]), "val": int(st["val"]), "b": int(st["b"])} for st in steps]
    rec["steps"] = plan

    def body():
        mask = _mask(h, w, u, g)  # the one object of the history (tagged payload)
        mask_r = _mask(h, w, u, g)  # its twin with the same history, for the random-real payload
        tags, real = _tags(h, w), _reals(rng, h, w)
        done = []
        for st in plan:
            if st["op"] == "edit":
                y, x = divmod(st["cell"], w)
                mask[y, x] = bool(st["val"])
                mask_r[y, x] = bool(st["val"])
                done.append(dict(st))
            elif st["op"] == "read":
                _ = mask.zoom_shape_native
                _ = mask_r.zoom_shape_native
                done.append(dict(st))
            elif st["op"] == "zoom":
                z = aa.Array2D(values=tags, mask=mask).zoomed_around_mask(buffer=st["b"])
                zr = aa.Array2D(values=real, mask=mask_r).zoomed_around_mask(buffer=st["b"])
                nat = np.asarray(z.native.array, dtype=float)
                src = _src(nat, h * w)
                done.append({**st, "oh": int(nat.shape[0]), "ow": int(nat.shape[1]), "src": src,
                             "payload_ok": _payload_ok(src, real.ravel(), zr.native.array)})
            else:
                raise core.MachineryError(f"unknown history step {st}")
        rec["steps"] = done

    return _guard(rec, ok, body)


def rec_mask_history(h, w, kh, kw, masks, g, rng):
    """ds.apply_mask(a1).apply_mask(a2)... on ONE imaging dataset (PSF kh x kw); every mask is given on the original
    frame.  Every result is recorded: native data / noise sources, mask, and the slim (coordinate, data, noise) triples."""
    ok = [True]
    n = h * w
    tau = g["tau"]
    rec = _base("mask_history", h, w, list(range(n)), g)
    rec.update({"kh": kh, "kw": kw, "steps": [{"m": [int(x) for x in m], "raised": True, "payload_ok": True} for m in masks]})

    def observe(d2, st):
        nat = np.asarray(d2.data.native.array, dtype=float)
        st["oh"], st["ow"] = int(nat.shape[0]), int(nat.shape[1])
        st["src_d"] = _src(nat, n)
        st["src_n"] = _src(np.asarray(d2.noise_map.native.array, dtype=float), n, base=n + 1)
        st["um"] = _um(d2.mask)
        st["post_y"], st["post_x"] = _grid_yx(d2.grids.uniform.array, tau, ok)
        st["post_d"] = _src(np.asarray(d2.data.slim.array, dtype=float), n)
        st["post_n"] = _src(np.asarray(d2.noise_map.slim.array, dtype=float), n, base=n + 1)

    def body():
        ds = _imaging(h, w, None, g, _tags(h, w), _tags(h, w, base=n + 1), (kh, kw))
        rec["gin_y"], rec["gin_x"] = _grid_yx(ds.grids.uniform.native, tau, ok)
        rd, rn = _reals(rng, h, w), _reals(rng, h, w, positive=True)
        twin = _imaging(h, w, None, g, rd, rn, (kh, kw))  # the same history on random reals
        done = []
        cur, cur_r = ds, twin
        for m in masks:
            st = {"m": [int(x) for x in m], "raised": False, "payload_ok": True}
            try:
                cur = cur.apply_mask(mask=_mask(h, w, m, g))
                observe(cur, st)
                cur_r = cur_r.apply_mask(mask=_mask(h, w, m, g))
                st["payload_ok"] = (_payload_ok(st["src_d"], rd.ravel(), cur_r.data.native.array)
                                    and _payload_ok(st["src_n"], rn.ravel(), cur_r.noise_map.native.array)
                                    and _payload_ok(st["post_d"], rd.ravel(), cur_r.data.slim.array)
                                    and _payload_ok(st["post_n"], rn.ravel(), cur_r.noise_map.slim.array))
            except core.MachineryError:
                raise
            except Exception as e:  # noqa: BLE001 -- a mask on the original frame is applicable after any history
                st = {"m": [int(x) for x in m], "raised": True, "payload_ok": True,
                      "error": f"{type(e).__name__}: {e}"[:300]}
                done.append(st)
                break  # nothing to continue from
            done.append(st)
        rec["steps"] = done

    return _guard(rec, ok, body)


# ------------------------------------------------------------------------------------------------------------
# instance -> records
# ------------------------------------------------------------------------------------------------------------
def _rng_for(inst, seed):
    key = [seed, inst["h"], inst["w"], inst["h2"], inst["w2"], inst["kh"], inst["kw"], inst["b"], len(inst["u"]),
           sum(inst["u"]) % 9973, {"resize": 1, "kernel": 2, "autopad": 3, "zoom": 4, "history": 5, "mask_history": 6}[inst["kind"]],
           sum((k + 1) * (sum(m) + 31 * len(m)) for k, m in enumerate(inst.get("masks", []))) % 99991,
           sum((k + 1) * (st["cell"] + 7 * st["val"] + 13 * st["b"] + len(st["op"])) for k, st in enumerate(inst.get("steps", []))) % 99991]
    return np.random.default_rng(key)


def records_for(inst, seed=0, full_variants=True):
    """full_variants=False (quick tier): one seeded mask pad value per call instead of both."""
    rng = _rng_for(inst, seed)
    _SHAPE_SALT[0] = int(seed) % 997  # the rotation of shape-entry types shifts with the seed
    kind, h, w = inst["kind"], inst["h"], inst["w"]
    full = list(range(h * w))
    out = []
    if kind == "resize":
        h2, w2 = inst["h2"], inst["w2"]
        um = _rand_u(rng, h, w)
        out.append(rec_resize_array(h, w, full, h2, w2, int(rng.integers(0, 2)), _geom(rng), rng))
        pads = (0, 1) if full_variants else (int(rng.integers(0, 2)),)
        g = _geom(rng)
        for mp in pads:
            out.append(rec_resize_array(h, w, um, h2, w2, mp, g, rng))
        g = _geom(rng)
        for mp in ((0, 1) if full_variants else (1 - pads[0],)):
            out.append(rec_resize_mask(h, w, um, h2, w2, mp, g))
        if h2 >= h and w2 >= w:
            out.append(rec_grow_shrink(h, w, um, h2, w2, int(rng.integers(0, 2)), _geom(rng), rng))
    elif kind == "kernel":
        kh, kw = inst["kh"], inst["kw"]
        um = _rand_u(rng, h, w)
        out.append(rec_kernel("pad", h, w, full, kh, kw, int(rng.integers(0, 2)), _geom(rng), rng))
        g = _geom(rng)
        for mp in ((0, 1) if full_variants else (int(rng.integers(0, 2)),)):
            out.append(rec_kernel("pad", h, w, um, kh, kw, mp, g, rng))
        out.append(rec_kernel("pad_trim", h, w, um, kh, kw, int(rng.integers(0, 2)), _geom(rng), rng))
        hp, wp = h + kh - 1, w + kw - 1
        out.append(rec_trimmed_array_from(hp, wp, h, w, _rand_u(rng, hp, wp), _geom(rng), rng))
        if h - (kh - 1) >= 1 and w - (kw - 1) >= 1:
            out.append(rec_kernel("trim", h, w, um, kh, kw, 0, _geom(rng), rng))
            # a trimmed dataset needs at least one unmasked pixel left in the window for its noise-map check
            out.append(rec_dataset_trim(h, w, um, kh, kw, _geom(rng), rng))
    elif kind == "autopad":
        out.append(rec_autopad(h, w, inst["u"], inst["kh"], inst["kw"], _geom(rng), rng))
    elif kind == "zoom":
        out.append(rec_zoom(h, w, inst["u"], inst["b"], _geom(rng), rng))
    elif kind == "mask_history":
        out.append(rec_mask_history(h, w, inst["kh"], inst["kw"], inst["masks"], _geom(rng), rng))
    elif kind == "history":
        out.append(rec_zoom_history(h, w, inst["u"], inst["steps"], _geom(rng), rng))
    else:
        raise core.MachineryError(f"unknown instance kind {kind}")
    for r in out:
        r["inst"] = {k: inst[k] for k in ("kind", "h", "w", "u", "h2", "w2", "kh", "kw", "b", "steps", "masks") if k in inst}
        r["inst"].update({"seed": seed, "full_variants": bool(full_variants)})
    return out


def _many(args):
    insts, seed, full_variants = args
    out = []
    for inst in insts:
        out.extend(records_for(inst, seed, full_variants))
    return out


# ------------------------------------------------------------------------------------------------------------
# TLC side
# ------------------------------------------------------------------------------------------------------------
def _mask_shapes(max_cells, max_side):
    return [(h, w) for h in range(1, max_side + 1) for w in range(1, max_side + 1) if h * w <= max_cells]


def _triples(ts):
    return "{" + ", ".join(f"<<{a},{b},{c}>>" for a, b, c in ts) + "}"


def enumerate_instances(ctx, in_shapes, out_shapes, kernels, mask_shapes, mask_kernels, buffers, tag, timeout=2400):
    defs = "\n".join([
        f"MCIn == {_pairs(in_shapes)}", f"MCOut == {_pairs(out_shapes)}", f"MCKernels == {_pairs(kernels)}",
        f"MCMaskShapes == {_pairs(mask_shapes)}", f"MCMaskKernels == {_pairs(mask_kernels)}",
        f"MCBuffers == {_ints(buffers)}", f"MCHalfScales == {_ints(HALF_SCALES)}", "MCOrigins == {-2, 0, 4}"])
    res = ctx.tlc("Resize", MC_CFG, defs=defs, tag=tag, timeout=timeout)
    seen = set()
    insts = []
    for r in res.by_kind("inst"):
        key = (r["kind"], r["h"], r["w"], tuple(r["u"]), r["h2"], r["w2"], r["kh"], r["kw"], r["b"])
        if key in seen:
            continue
        seen.add(key)
        insts.append({"kind": r["kind"], "h": r["h"], "w": r["w"], "u": list(r["u"]), "h2": r["h2"], "w2": r["w2"],
                      "kh": r["kh"], "kw": r["kw"], "b": r["b"]})
    n_masks = sum(2 ** (h * w) - 1 for h, w in mask_shapes)
    expect = len(in_shapes) * len(out_shapes) + len(in_shapes) * len(kernels) + n_masks * (len(mask_kernels) + len(buffers))
    if len(insts) != expect or res.init_states != expect:
        raise core.MachineryError(f"Resize.tla enumerated {len(insts)} instances / {res.init_states} initial states, expected {expect}")
    return insts


def enumerate_histories(ctx, hist_frames, hist_buffers, hist_reads, tag, timeout=2400):
    """Exhaustive exploration of the history machine (ZoomHistory.tla): every mask of every frame, every history of the
    given number of steps on one mask object.  TLC checks the cache-coherence rule and the validity of every zoom; the
    complete histories (every shorter one is a prefix of one of them) are returned for replay."""
    defs = "\n".join([f"MCHistFrames == {_triples(hist_frames)}", f"MCHistBuffers == {_ints(hist_buffers)}",
                      f"MCHistReads == {'TRUE' if hist_reads else 'FALSE'}"])
    res = ctx.tlc("ZoomHistory", HIST_CFG, defs=defs, tag=tag, timeout=timeout)
    n_hist_masks = sum(2 ** (h * w) - 1 for h, w, _ in hist_frames)
    if res.init_states != n_hist_masks:
        raise core.MachineryError(f"ZoomHistory.tla: {res.init_states} initial states, expected {n_hist_masks} masks")
    hseen = set()
    hists = []
    for r in res.by_kind("hist"):
        steps = [{"op": st["op"], "cell": st["cell"], "val": st["val"], "b": st["b"]} for st in r["steps"]]
        key = (r["h"], r["w"], tuple(r["u"]), tuple((st["op"], st["cell"], st["val"], st["b"]) for st in steps))
        if key in hseen:
            continue
        hseen.add(key)
        hists.append({"kind": "history", "h": r["h"], "w": r["w"], "u": list(r["u"]), "h2": 1, "w2": 1, "kh": 1, "kw": 1,
                      "b": len(steps), "steps": steps})
    if (not hists or {(x["h"], x["w"]) for x in hists} != {(h, w) for h, w, _ in hist_frames}
            or any(x["steps"][-1]["op"] != "zoom" for x in hists)):
        raise core.MachineryError(f"ZoomHistory.tla dumped {len(hists)} histories, not covering the frames {hist_frames}")
    return hists


def enumerate_mask_histories(ctx, mhist_frames, tag, timeout=2400):
    """Exhaustive exploration of MaskHistory.tla: every history of `depth` non-empty masks on each small frame.  TLC checks
    that the base of every masking is the original dataset and that every result shows the original triples of its own
    mask; the complete histories are returned for replay on one real Imaging dataset."""
    defs = "\n".join(["MCMHistFrames == {" + ", ".join("<<" + ",".join(str(x) for x in f) + ">>" for f in mhist_frames) + "}",
                      "MCHalfScales == {1, 3}", "MCOrigins == {-2, 0, 4}"])
    res = ctx.tlc("MaskHistory", MHIST_CFG, defs=defs, tag=tag, timeout=timeout)
    if res.init_states != len(mhist_frames):
        raise core.MachineryError(f"MaskHistory.tla: {res.init_states} initial states, expected {len(mhist_frames)}")
    seen = set()
    out = []
    for r in res.by_kind("mhist"):
        key = (r["h"], r["w"], r["kh"], r["kw"], tuple(tuple(m) for m in r["masks"]))
        if key in seen:
            continue
        seen.add(key)
        out.append({"kind": "mask_history", "h": r["h"], "w": r["w"], "u": [], "h2": 1, "w2": 1, "kh": r["kh"], "kw": r["kw"],
                    "b": len(r["masks"]), "masks": [list(m) for m in r["masks"]]})
    expect = sum((2 ** (h * w) - 1) ** d for h, w, _, _, d in mhist_frames)
    if len(out) != expect:
        raise core.MachineryError(f"MaskHistory.tla dumped {len(out)} complete histories, expected {expect}")
    return out


def random_mask_histories(rng, n, max_side=9):
    """seeded masking histories beyond the exhaustive frames: 2..4 masks in a row on one dataset -- nested, overlapping,
    growing (the next mask unmasks what the previous one hid), equal, interior (no padding) and edge-touching (padding)."""
    out = []
    for _ in range(n):
        h, w = int(rng.integers(4, max_side + 1)), int(rng.integers(4, max_side + 1))
        kh, kw = int(rng.choice([1, 3, 5])), int(rng.choice([1, 3, 5]))

        def box(edge):
            if edge:
                y0, x0 = int(rng.integers(0, 2)) * (h - 2), int(rng.integers(0, w - 1))
            else:
                y0, x0 = int(rng.integers(kh // 2, max(kh // 2 + 1, h - kh // 2 - 1))), \
                         int(rng.integers(kw // 2, max(kw // 2 + 1, w - kw // 2 - 1)))
            m = np.zeros((h, w), dtype=bool)
            m[y0: y0 + int(rng.integers(1, 3)), x0: x0 + int(rng.integers(1, 3))] = True
            if not edge:  # keep the blurring region inside the frame
                m[: kh // 2, :] = False
                m[h - kh // 2:, :] = False
                m[:, : kw // 2] = False
                m[:, w - kw // 2:] = False
            if not m.any():
                m[h // 2, w // 2] = True
            return m

        masks = []
        prev = None
        for k in range(int(rng.integers(2, 5))):
            style = int(rng.integers(0, 6))
            if prev is None or style == 0:
                m = box(edge=rng.random() < 0.4)
            elif style == 1:  # grow: everything the previous mask showed, plus pixels it hid
                m = prev | box(edge=rng.random() < 0.4)
            elif style == 2:  # shrink inside the previous mask
                m = prev & (rng.random((h, w)) < 0.6)
                if not m.any():
                    m = prev.copy()
            elif style == 3:  # equal
                m = prev.copy()
            elif style == 4:  # dilate by one pixel (a sweep over mask sizes)
                m = prev.copy()
                m[1:, :] |= prev[:-1, :]
                m[:-1, :] |= prev[1:, :]
                m[:, 1:] |= prev[:, :-1]
                m[:, :-1] |= prev[:, 1:]
            else:  # overlapping box
                m = box(edge=rng.random() < 0.4)
                ys, xs = np.where(prev)
                m[ys[0], xs[0]] = True
            masks.append([int(x) for x in np.flatnonzero(m.ravel())])
            prev = m
        out.append({"kind": "mask_history", "h": h, "w": w, "u": [], "h2": 1, "w2": 1, "kh": kh, "kw": kw, "b": len(masks),
                    "masks": masks})
    return out


def random_instances(rng, n_resize, n_kernel, n_mask, max_in=12, max_out=15, max_mask_side=9):
    """seeded instances beyond the exhaustive bound"""
    out = []
    blank = {"h2": 1, "w2": 1, "kh": 1, "kw": 1, "b": 0, "u": []}
    for _ in range(n_resize):
        h, w = int(rng.integers(1, max_in + 1)), int(rng.integers(1, max_in + 1))
        out.append({**blank, "kind": "resize", "h": h, "w": w, "h2": int(rng.integers(1, max_out + 1)),
                    "w2": int(rng.integers(1, max_out + 1))})
    for _ in range(n_kernel):
        h, w = int(rng.integers(1, max_in + 1)), int(rng.integers(1, max_in + 1))
        out.append({**blank, "kind": "kernel", "h": h, "w": w, "kh": int(rng.choice([1, 3, 5, 7, 9, 11])),
                    "kw": int(rng.choice([1, 3, 5, 7, 9, 11]))})
    for k in range(n_mask):
        h, w = int(rng.integers(2, max_mask_side + 1)), int(rng.integers(2, max_mask_side + 1))
        style = k % 4
        m = rng.random((h, w)) < float(rng.choice([0.1, 0.4, 0.8]))
        if style == 1:  # a blob away from the frame
            m[:, :] = False
            m[h // 3: h // 3 + max(1, h // 3), w // 3: w // 3 + max(1, w // 3)] = True
        elif style == 2:  # touches the last row / column
            m[h - 1, int(rng.integers(0, w))] = True
            m[int(rng.integers(0, h)), w - 1] = True
        if not m.any():
            m[int(rng.integers(0, h)), int(rng.integers(0, w))] = True
        u = [int(x) for x in np.flatnonzero(m.ravel())]
        if k % 2 == 0:
            out.append({**blank, "kind": "autopad", "h": h, "w": w, "u": u, "kh": int(rng.choice([1, 3, 5, 7])),
                        "kw": int(rng.choice([1, 3, 5, 7]))})
        else:
            out.append({**blank, "kind": "zoom", "h": h, "w": w, "u": u, "b": int(rng.integers(0, 4))})
    return out


def random_histories(rng, n, max_h=12, max_w=15):
    """seeded histories on one mask object, larger than the exhaustive frames: a blob, edits that reach outside its
    bounding square (and inside it, and re-masking), reads, zooms with buffers 0..3; the last step is a zoom."""
    out = []
    for _ in range(n):
        h, w = int(rng.integers(3, max_h + 1)), int(rng.integers(3, max_w + 1))
        m = np.zeros((h, w), dtype=bool)  # True = unmasked here
        y0, x0 = int(rng.integers(0, h)), int(rng.integers(0, w))
        m[y0: y0 + int(rng.integers(1, 4)), x0: x0 + int(rng.integers(1, 4))] = True
        m &= rng.random((h, w)) < 0.85
        if not m.any():
            m[y0, x0] = True
        u = [int(x) for x in np.flatnonzero(m.ravel())]
        cur = m.copy()
        steps = []
        n_steps = int(rng.integers(3, 7))
        for k in range(n_steps):
            r = rng.random()
            if k == n_steps - 1 or r < 0.35:
                steps.append({"op": "zoom", "cell": 0, "val": 0, "b": int(rng.integers(0, 4))})
            elif r < 0.5:
                steps.append({"op": "read", "cell": 0, "val": 0, "b": 0})
            else:
                ys, xs = np.where(cur)
                outside = [(y, x) for y in range(h) for x in range(w)
                           if not (ys.min() <= y <= ys.max() and xs.min() <= x <= xs.max())]
                if outside and rng.random() < 0.6:
                    y, x = outside[int(rng.integers(0, len(outside)))]
                else:
                    y, x = int(rng.integers(0, h)), int(rng.integers(0, w))
                val = 1 if cur[y, x] else 0  # toggle
                if val == 1 and cur.sum() == 1:
                    continue  # the mask must stay non-empty
                cur[y, x] = (val == 0)
                steps.append({"op": "edit", "cell": y * w + x, "val": val, "b": 0})
        if steps[-1]["op"] != "zoom":
            steps.append({"op": "zoom", "cell": 0, "val": 0, "b": int(rng.integers(0, 4))})
        out.append({"kind": "history", "h": h, "w": w, "u": u, "h2": 1, "w2": 1, "kh": 1, "kw": 1, "b": len(steps),
                    "steps": steps})
    return out


def apalache_round_trips(ctx, timeout=600):
    """Unbounded-size proof of the two round-trip theorems per axis (spec/ResizeAxis.tla) with Apalache.
    A refuted theorem means the specification is inconsistent (machinery failure); an unavailable or timed-out
    Apalache is only noted -- TLC has checked the same theorems on every shape inside the bound."""
    import os
    import subprocess

    exe = "/opt/veriftools/apalache/bin/apalache-mc"
    if not os.path.exists(exe):
        ctx.note("apalache-mc not installed: unbounded round-trip theorems not discharged (bounded TLC result stands)")
        return
    out = ctx.work / "apalache"
    env = dict(os.environ)
    env.pop("JAVA_TOOL_OPTIONS", None)
    cmd = [exe, "check", "--length=0", "--init=Init", "--next=Next", "--inv=Inv", f"--out-dir={out}",
           f"--run-dir={out}/run", str(core.SPEC / "ResizeAxis.tla")]
    try:
        p = subprocess.run(cmd, capture_output=True, text=True, timeout=timeout, env=env, cwd=str(ctx.work))
    except subprocess.TimeoutExpired:
        ctx.note(f"apalache timed out after {timeout}s: unbounded round-trip theorems not discharged")
        return
    txt = p.stdout + p.stderr
    if "The outcome is: NoError" in txt and p.returncode == 0:
        ctx.note("Apalache: PadThenTrimIsIdentity, GrowThenShrinkUpper/Lower hold per axis for ALL lengths n>=1, m>=n, k>=0 "
                 "(ResizeAxis.tla, --length=0: invariants of the unconstrained initial states)")
        ctx.tlc_cmds.append("ResizeAxis[apalache]: outcome NoError (unbounded n, m, k, t)")
        return
    if "The outcome is: Error" in txt:
        raise core.MachineryError(f"Apalache refuted a round-trip theorem of ResizeAxis.tla: {txt[-1500:]}")
    ctx.note(f"apalache did not produce a verdict (rc={p.returncode}): {txt[-300:]!r}")


def validate(ctx, records, tag, chunk=1500):
    import concurrent.futures as cf

    for n, r in enumerate(records):
        r["id"] = n
    slim = [{k: v for k, v in r.items() if k not in ("inst", "tau", "error")} for r in records]
    nchunks = max(1, -(-len(slim) // chunk))
    size = max(1, -(-len(slim) // nchunks))  # balanced chunks: no tiny last JVM
    chunks = [slim[k: k + size] for k in range(0, len(slim), size)]
    rejects = []

    def one(args):
        k, ch = args
        _, rej = ctx.validate_trace("Trace_Resize", TRACE_CFG, ch, tag=f"{tag}-{k}", timeout=1800)
        return rej

    with cf.ThreadPoolExecutor(max_workers=min(16, len(chunks) or 1)) as ex:
        for rej in ex.map(one, list(enumerate(chunks))):
            rejects.extend(rej)
    for rj in rejects:
        rec = records[rj["id"]]
        extra = {k: rec[k] for k in ("h2", "w2", "kh", "kw", "b", "mpad", "pad", "shape_type") if k in rec}
        if rec["api"] == "mask_history":
            extra["masks"] = [st["m"] for st in rec["steps"]]
        if rec["api"] == "zoom_history":
            extra["steps"] = [(st["op"], st["cell"], st["val"]) if st["op"] == "edit" else
                              ((st["op"], st["b"]) if st["op"] == "zoom" else (st["op"],)) for st in rec["steps"]]
        ctx.violation(
            rj["sig"],
            f"{rec['api']} on {rec['h']}x{rec['w']} {extra} unmasked={rec['u'] if len(rec['u']) < rec['h'] * rec['w'] else 'all'} "
            f"scales(half-ticks)=({rec['hy']},{rec['hx']}) origin(ticks)=({rec['oy']},{rec['ox']}) tick={rec['tau']}: failed {rj['clauses']}",
            {"record": rec, "failed_clauses": rj["clauses"], "spec_wanted": rj.get("want")},
            cls=",".join(rj["clauses"]),
        )
    return rejects


def run(ctx):
    quick = ctx.quick
    in_shapes = [(h, w) for h in range(1, 7) for w in range(1, 7)]
    out_shapes = [(h, w) for h in range(1, 9) for w in range(1, 9)]
    kernels = [(a, b) for a in (1, 3, 5, 7) for b in (1, 3, 5, 7)]
    if quick:
        mask_shapes = _mask_shapes(8, 4)
        mask_kernels = [(3, 3), (1, 3), (5, 3)]
        n_rand = (250, 120, 300)
        hist_frames, hist_buffers, hist_reads, n_rand_hist = [(2, 2, 4), (2, 3, 3)], [0], False, 250
        mhist_frames, n_rand_mhist = [(1, 4, 1, 3, 2), (1, 3, 1, 3, 3), (2, 2, 3, 3, 2), (2, 2, 1, 1, 2)], 150
    else:
        mask_shapes = _mask_shapes(12, 6)
        mask_kernels = [(3, 3), (1, 3), (5, 3), (3, 5)]
        n_rand = (3000, 1500, 4000)
        hist_frames, hist_buffers, hist_reads, n_rand_hist = [(2, 2, 4), (2, 3, 3), (3, 2, 3), (1, 4, 3), (4, 1, 3)], [0, 1], True, 4000
        mhist_frames, n_rand_mhist = [(1, 4, 1, 3, 3), (4, 1, 3, 1, 3), (2, 3, 1, 3, 2), (3, 2, 3, 1, 2), (2, 3, 3, 3, 2),
                                      (2, 2, 3, 3, 3), (2, 2, 1, 1, 2)], 3000
    buffers = [0, 1, 2]
    ctx.bounds = {"resize_input_shapes": "1..6 x 1..6", "resize_target_shapes": "1..8 x 1..8 (every parity combination)",
                  "pad_trim_kernels": kernels, "mask_frames_all_nonempty_masks": mask_shapes,
                  "autopad_kernels": mask_kernels, "zoom_buffers": buffers,
                  "coordinate_theorems_over": {"half_scales": HALF_SCALES, "origins": [-2, 0, 4]},
                  "histories_on_one_mask_object(frame_h,frame_w,steps)": hist_frames,
                  "history_zoom_buffers": hist_buffers, "history_reads": hist_reads,
                  "masking_histories_on_one_dataset(frame_h,frame_w,psf_h,psf_w,masks_in_a_row; all non-empty masks)": mhist_frames,
                  "random_masking_histories": n_rand_mhist,
                  "random_masking_history_bounds": "frames 4..9 x 4..9, PSF {1,3,5}^2, 2..4 masks in a row",
                  "random_histories": n_rand_hist, "random_history_bounds": "frames <= 12x15, 2..7 steps, buffers 0..3",
                  "random_instances(resize,kernel,mask)": n_rand,
                  "random_bounds": "inputs <= 12x12, targets <= 15x15, kernels <= 11x11, masks <= 9x9, buffers <= 3",
                  "tick_lengths": TICKS, "shape_entry_types_rotated_over_instances": SHAPE_TYPES}
    import concurrent.futures as cf

    with cf.ThreadPoolExecutor(max_workers=3) as ex:  # the three bounded machines are explored side by side
        f1 = ex.submit(enumerate_instances, ctx, in_shapes, out_shapes, kernels, mask_shapes, mask_kernels, buffers, "MC_Resize")
        f2 = ex.submit(enumerate_histories, ctx, hist_frames, hist_buffers, hist_reads, "MC_ZoomHistory")
        f3 = ex.submit(enumerate_mask_histories, ctx, mhist_frames, "MC_MaskHistory")
        insts = f1.result() + f2.result() + f3.result()
    ctx.exhaustive = True
    rnd = random_instances(np.random.default_rng(ctx.seed), *n_rand)
    rnd += random_histories(np.random.default_rng([ctx.seed, 14]), n_rand_hist)
    rnd += random_mask_histories(np.random.default_rng([ctx.seed, 1410]), n_rand_mhist)
    allinst = insts + rnd
    groups = [(allinst[k: k + 40], ctx.seed, not quick) for k in range(0, len(allinst), 40)]
    recs = []
    for part in core.pmap(_many, groups):
        recs.extend(part)
    ctx.replayed = len(insts)
    pick = lambda api: next((r for r in recs if r["api"] == api and r["h"] * r["w"] <= 12), None)
    for api in ("resize_array", "autopad", "zoom", "zoom_history", "mask_history"):
        r = pick(api)
        if r:
            ctx.sample({k: v for k, v in r.items() if k != "inst"})
    rej = validate(ctx, recs, "C14")
    by_api = {}
    for r in recs:
        by_api[r["api"]] = by_api.get(r["api"], 0) + 1
    ctx.note(f"{len(insts)} exhaustive instances + {len(rnd)} random instances -> {len(recs)} records judged by Trace_Resize "
             f"({by_api}); rejected {len(rej)}")
    if not quick:
        apalache_round_trips(ctx)
    ctx.assumptions = [
        "data movement is value-independent: re-checked per record with random real payloads, bit for bit through the same source map",
        "coordinates are compared relationally (output pixel vs the input pixel it shows), both read from the real API and "
        "abstracted to a tick lattice; off-lattice values are rejected, not rounded",
        "a parity-changing resize may take either of the two centred offsets; coordinates are judged only when parity is preserved",
        "zoom is judged on window content only (its coordinate origin belongs to C12)",
        "target shapes / kernel shapes are handed to resized_from / padded_before_convolution_from / trimmed_after_convolution_from "
        "with rotating entry types (Python ints, list, numpy int64/int32/uint8/uint16/uint64 scalars, int64 and uint16 arrays); "
        "the expectation does not depend on the type",
        "masking histories: ds.apply_mask(a1).apply_mask(a2)... on one Imaging dataset, every mask given on the original frame; "
        "each result is judged against the ORIGINAL unmasked data (its own mask only), as a single automatic padding would be",
        "histories: one Mask2D object is zoomed (through a new Array2D per zoom), edited in place with mask[y,x]=bool, read "
        "(zoom_shape_native) and zoomed again; every zoom is judged against the mask current at that time",
        "Mask2D.trimmed_array_from is judged for parity-preserving pads (its only use: odd kernels)",
        "Imaging.trimmed_after_convolution_from is observed on a fresh dataset (the cached-grid path belongs to C11)",
    ]


def replay(ctx, rp):
    rec = rp["record"]
    inst = rec["inst"]
    recs = [r for r in records_for(inst, inst.get("seed", ctx.seed), inst.get("full_variants", True)) if r["api"] == rec["api"]
            and all(r.get(k) == rec.get(k) for k in ("mpad", "pad", "u"))]
    rej = validate(ctx, recs, "C14-replay")
    print("replayed", len(recs), "records; rejected:", [(r["clauses"]) for r in rej])
    return ctx.finish()
