"""Shared by C01 and C10: instance enumeration through Masks.tla and record validation through Trace_Masks.tla."""
import json
import numpy as np

from harness import core

MC_CFG = """CONSTANTS
  Shapes <- MCShapes
  KernelShapes <- MCKernelShapes
SPECIFICATION Spec
INVARIANT RoundTripSlim
INVARIANT RoundTripNative
INVARIANT IndexTablesBijective
INVARIANT Partition
INVARIANT EdgeSandwich
INVARIANT BorderNonEmpty
INVARIANT BlurringSane
INVARIANT BuffedIsDilation
"""

TRACE_CFG = """CONSTANTS
  Shapes = {}
  KernelShapes = {}
SPECIFICATION TraceSpec
POSTCONDITION TraceAccepted
"""


def tla_set_of_pairs(pairs):
    return "{" + ", ".join(f"<<{a},{b}>>" for a, b in pairs) + "}"


def shapes_upto(max_cells, min_cells=1, max_side=None):
    out = []
    for h in range(1, max_cells + 1):
        for w in range(1, max_cells + 1):
            if min_cells <= h * w <= max_cells and (max_side is None or max(h, w) <= max_side):
                out.append((h, w))
    return out


def enumerate_masks(ctx, shapes, kernels=((1, 1), (3, 3), (1, 3), (3, 1), (5, 3)), tag="MC_Masks", timeout=1800):
    """Exhaustive exploration of the bounded machine; returns the list of instances (h, w, u)."""
    defs = f"MCShapes == {tla_set_of_pairs(shapes)}\nMCKernelShapes == {tla_set_of_pairs(kernels)}"
    res = ctx.tlc("Masks", MC_CFG, defs=defs, tag=tag, timeout=timeout, coverage=False)
    insts = [(r["h"], r["w"], r["u"]) for r in res.by_kind("inst")]
    expect = sum(2 ** (h * w) - 1 for h, w in shapes)
    if len(insts) != expect or res.distinct != 2 * expect:
        raise core.MachineryError(f"Masks.tla enumerated {len(insts)} instances / {res.distinct} states, expected {expect}")
    return insts


def random_masks(rng, n, max_side=12, min_side=3):
    """Random larger masks with varied structure (density, isolated pixels, full rows, stripes, ring-touching)."""
    out = []
    for k in range(n):
        h = int(rng.integers(min_side, max_side + 1))
        w = int(rng.integers(min_side, max_side + 1))
        style = k % 6
        dens = rng.choice([0.15, 0.5, 0.85])
        m = rng.random((h, w)) < dens  # True = unmasked here
        if style == 1:
            m[:, :] = False
            m[rng.integers(0, h), w - 1] = True  # isolated pixel in last column
            m[rng.integers(0, h), rng.integers(0, w)] = True
        elif style == 2:
            m[rng.integers(0, h), :] = True  # an all-unmasked row
        elif style == 3:
            m[:, ::2] = False  # stripes
        elif style == 4:
            m[0, :] = False
            m[-1, :] = False
            m[:, 0] = False
            m[:, -1] = False  # fully masked outer ring
            if h > 4 and w > 4:
                m[h // 2, w // 2] = False  # a hole
        elif style == 5:
            m[:, :] = False
            cy, cx = h // 2, w // 2
            m[max(cy - 2, 1) : min(cy + 3, h - 1), max(cx - 2, 1) : min(cx + 3, w - 1)] = True
            if h > 4 and w > 4:
                m[cy, cx] = False
        if not m.any():
            m[rng.integers(0, h), rng.integers(0, w)] = True
        u = [int(x) for x in np.flatnonzero(m.ravel())]
        out.append((h, w, u))
    return out


def validate(ctx, records, tag, chunk=4000):
    """Validate records through Trace_Masks in parallel TLC processes; register violations."""
    import concurrent.futures as cf

    for n, r in enumerate(records):
        r["id"] = n
    chunks = [records[k : k + chunk] for k in range(0, len(records), chunk)]
    rejects = []

    def one(args):
        k, ch = args
        res, rej = ctx.validate_trace("Trace_Masks", TRACE_CFG, ch, tag=f"{tag}-{k}", timeout=1800)
        return rej

    with cf.ThreadPoolExecutor(max_workers=min(16, len(chunks) or 1)) as ex:
        for rej in ex.map(one, list(enumerate(chunks))):
            rejects.extend(rej)
    for rj in rejects:
        rec = records[rj["id"]]
        ctx.violation(
            rj["sig"],
            f"{rec['p']} {rec['api']} on {rec['h']}x{rec['w']} mask u={rec['u']}: failed {rj['clauses']}",
            {"record": rec, "failed_clauses": rj["clauses"], "spec_wanted": rj.get("want")},
            cls=",".join(rj["clauses"]),
        )
    return rejects
