"""alpha / gamma helpers: exact abstraction of float results onto the lattices used by the specifications.
Every alpha is *rejecting*: a value that is not on the lattice is reported (sentinel / OffLattice), never rounded away."""
import hashlib
import numpy as np

OFF = -2  # sentinel for "not a known tag / off lattice"


class OffLattice(Exception):
    pass


def to_int_exact(x, scale=1.0, tol=1e-6, what="value"):
    """x/scale must be within tol of an integer (elementwise). Returns python ints (nested lists)."""
    a = np.asarray(x, dtype=float) / scale
    r = np.rint(a)
    if a.size and (not np.all(np.isfinite(a)) or np.max(np.abs(a - r)) > tol):
        raise OffLattice(f"{what}: off lattice by {np.max(np.abs(a - r)) if a.size else 0}")
    return r.astype(np.int64).tolist()


def try_int(x, scale=1.0, tol=1e-6):
    """Like to_int_exact, but maps off-lattice / non-finite entries to None (json null is avoided: use sentinel)."""
    a = np.asarray(x, dtype=float) / scale
    r = np.rint(a)
    ok = np.isfinite(a) & (np.abs(a - r) <= tol)
    return r, ok


def fp(arr):
    a = np.ascontiguousarray(np.asarray(arr))
    h = hashlib.sha256()
    h.update(str(a.dtype).encode())
    h.update(str(a.shape).encode())
    h.update(a.tobytes())
    return h.hexdigest()[:16]


def tags_to_src(out, base=1, n_cells=None):
    """out: array of tags where tag = lin+base for a cell, exact 0 for Zero. Returns list of ints (lin, -1, or OFF)."""
    a = np.asarray(out, dtype=float).ravel()
    res = []
    for v in a:
        if v == 0:
            res.append(-1)
        elif float(v).is_integer() and (n_cells is None or 0 <= int(v) - base < n_cells):
            res.append(int(v) - base)
        else:
            res.append(OFF)
    return res
