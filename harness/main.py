"""./check <ID> [--tier quick|thorough] [--replay path]"""
import argparse
import importlib
import json
import os
import sys
import traceback


def main():
    ap = argparse.ArgumentParser()
    ap.add_argument("pid")
    ap.add_argument("--tier", default=os.environ.get("VERIF_TIER", "quick"), choices=["quick", "thorough"])
    ap.add_argument("--replay", default=None)
    a = ap.parse_args()
    seed = int(os.environ.get("VERIF_SEED", "0") or 0)
    pid = a.pid.upper()
    from harness import core

    try:
        from harness import repo_env

        repo_env.setup()
        mod = importlib.import_module(f"harness.drivers.{pid.lower()}")
        ctx = core.Ctx(pid, a.tier, seed)
        if a.replay:
            rp = json.loads(open(a.replay).read())
            rc = mod.replay(ctx, rp)
            sys.exit(rc)
        mod.run(ctx)
        rc = ctx.finish()
        sys.exit(rc)
    except core.MachineryError as e:
        print(f"[{pid}] MACHINERY FAILURE: {e}", file=sys.stderr)
        sys.exit(2)
    except SystemExit:
        raise
    except Exception:
        traceback.print_exc()
        print(f"[{pid}] MACHINERY FAILURE (driver exception)", file=sys.stderr)
        sys.exit(2)


if __name__ == "__main__":
    main()
