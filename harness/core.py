"""
Core of the verification harness: run TLC, collect its structured output, decide verdicts,
handle known findings, write evidence.

Exit codes of a check:  0 = property held on everything explored (possibly with KNOWN-FINDING lines),
                        1 = at least one VIOLATION not listed in known_findings.json,
                        2 = machinery failure (TLC crashed, spec rejected by SANY, driver error).
"""
from __future__ import annotations

import hashlib
import json
import os
import re
import shutil
import subprocess
import sys
import time
import traceback
from pathlib import Path

VERIF = Path(os.environ.get("VERIF_HOME", Path(__file__).resolve().parent.parent))
REPO = Path(os.environ.get("VERIF_REPO", "/repo"))
SPEC = VERIF / "spec"
WORK = VERIF / ".work"
JAVA_CP = "/opt/veriftools/tla/tla2tools.jar:/opt/veriftools/tla/CommunityModules-deps.jar"


class MachineryError(Exception):
    """The check itself failed to run (never a verdict about the repository)."""


# --------------------------------------------------------------------------------------------
# TLC
# --------------------------------------------------------------------------------------------
class TlcResult:
    def __init__(self):
        self.generated = 0
        self.distinct = 0
        self.depth = 0
        self.init_states = 0
        self.records = []  # every JSON object printed by the spec through PrintT(ToJson(..))
        self.errors = []  # TLC error blocks (invariant violated, evaluation error, ...)
        self.postcondition_ok = True
        self.coverage = {}  # action name -> (distinct, total)
        self.wall = 0.0
        self.raw_tail = ""
        self.cmd = ""

    @property
    def transitions(self):
        return max(self.generated - self.init_states, 0)

    def by_kind(self, kind):
        return [r for r in self.records if r.get("k") == kind]


_GEN = re.compile(r"^(\d+) states generated, (\d+) distinct states found")
_DEPTH = re.compile(r"^The depth of the complete state graph search is (\d+)")
_INIT = re.compile(r"^Finished computing initial states: (\d+) distinct state")
_COV = re.compile(r"^<(\w+) line \d+, col \d+ to line \d+, col \d+ of module (\w+)>: (\d+):(\d+)")


def _parse_json_line(line):
    """PrintT(ToJson(x)) prints a TLA+ string literal: "...\"...". Decode twice."""
    try:
        s = json.loads(line)
        if isinstance(s, str):
            return json.loads(s)
    except Exception:
        return None
    return None


def run_tlc(
    module: str,
    cfg_text: str,
    workdir: Path,
    *,
    env: dict | None = None,
    workers: int | str = "auto",
    timeout: int = 600,
    simulate: str | None = None,
    depth: int | None = None,
    seed: int | None = None,
    coverage: bool = False,
    deadlock: bool = False,
    extra: list | None = None,
    tag: str | None = None,
    allow_errors: bool = False,
    defs: str | None = None,
) -> TlcResult:
    """Run TLC on spec/<module>.tla with the given cfg text. Returns a TlcResult.
    `defs`: TLA+ definitions (e.g. constant values that the cfg syntax cannot express, such as sets of
    tuples); a wrapper module `MC_<tag>` that EXTENDS <module> and holds them is generated in the workdir
    and the cfg refers to them with `Const <- Name`."""
    workdir.mkdir(parents=True, exist_ok=True)
    tag = re.sub(r"[^A-Za-z0-9_]", "_", tag or module)
    root = SPEC / f"{module}.tla"
    if defs is not None:
        root = workdir / f"MC_{tag}.tla"
        root.write_text(f"---- MODULE MC_{tag} ----\nEXTENDS {module}\n{defs}\n====\n")
    cfg = workdir / f"{tag}.cfg"
    cfg.write_text(cfg_text)
    meta = workdir / f"meta-{tag}"
    if meta.exists():
        shutil.rmtree(meta, ignore_errors=True)
    heap = os.environ.get("VERIF_TLC_XMX") or ("2g" if str(workers) == "1" else "6g")
    cmd = [
        "java",
        "-XX:+UseParallelGC",
        f"-Xmx{heap}",
        "-Xss64m",
        f"-Djava.io.tmpdir={workdir}",
        f"-DTLA-Library={SPEC}",
        "-cp",
        JAVA_CP,
        "tlc2.TLC",
        "-config",
        str(cfg),
        "-metadir",
        str(meta),
        "-noGenerateSpecTE",
        "-workers",
        str(workers),
    ]
    if not deadlock:
        cmd.append("-deadlock")  # -deadlock = do NOT check for deadlock
    if simulate is not None:
        cmd += ["-simulate", simulate]
    if depth is not None:
        cmd += ["-depth", str(depth)]
    if seed is not None:
        cmd += ["-seed", str(seed)]
    if coverage:
        cmd += ["-coverage", "1"]
    if extra:
        cmd += list(extra)
    cmd.append(str(root))
    e = dict(os.environ)
    e.pop("JAVA_TOOL_OPTIONS", None)
    if env:
        e.update({k: str(v) for k, v in env.items()})
    t0 = time.time()
    out_path = workdir / f"{tag}.out"
    with open(out_path, "w") as fo:
        try:
            p = subprocess.run(cmd, stdout=fo, stderr=subprocess.STDOUT, env=e, cwd=str(root.parent), timeout=timeout)
            rc = p.returncode
        except subprocess.TimeoutExpired:
            rc = -9
    res = TlcResult()
    res.cmd = " ".join(cmd)
    res.wall = time.time() - t0
    res.rc = rc
    err_block = None
    tail = []
    with open(out_path, errors="replace") as fi:
        for line in fi:
            line = line.rstrip("\n")
            if line.startswith('"{'):
                r = _parse_json_line(line)
                if r is not None:
                    res.records.append(r)
                    continue
            tail.append(line)
            if len(tail) > 60:
                tail.pop(0)
            m = _GEN.match(line)
            if m:
                res.generated, res.distinct = int(m.group(1)), int(m.group(2))
                continue
            m = _DEPTH.match(line)
            if m:
                res.depth = int(m.group(1))
                continue
            m = _INIT.match(line)
            if m:
                res.init_states = int(m.group(1))
                continue
            m = _COV.match(line)
            if m:
                res.coverage[m.group(1)] = (int(m.group(3)), int(m.group(4)))
                continue
            if line.startswith("Error:") or "is violated" in line or "Exception" in line:
                res.errors.append(line)
            if "Postcondition" in line and ("violated" in line or "false" in line.lower()):
                res.postcondition_ok = False
    res.raw_tail = "\n".join(tail)
    if rc == -9:
        raise MachineryError(f"TLC timed out after {timeout}s on {module} ({tag}); see {out_path}")
    if rc in (137, -9 % 256) or (rc < 0 and rc != -9):
        raise MachineryError(f"TLC was killed (rc={rc}, out of memory?) on {module} ({tag}); see {out_path}")
    if simulate is None and res.generated == 0 and not res.errors:
        raise MachineryError(f"TLC produced no state count for {module} ({tag}); rc={rc}\n{res.raw_tail}")
    if res.errors and not allow_errors:
        raise MachineryError(f"TLC reported errors on {module} ({tag}): {res.errors[:3]}\n{res.raw_tail}")
    return res


def sany(module: str, workdir: Path):
    workdir.mkdir(parents=True, exist_ok=True)
    p = subprocess.run(
        ["java", f"-Djava.io.tmpdir={workdir}", "-cp", JAVA_CP, "tla2sany.SANY", str(SPEC / f"{module}.tla")],
        capture_output=True,
        text=True,
        cwd=str(SPEC),
    )
    ok = p.returncode == 0 and "error" not in p.stdout.lower().replace("errors: 0", "")
    return ok, p.stdout + p.stderr


# --------------------------------------------------------------------------------------------
# Parsing of `tlc -simulate file=...` behaviour files (TLA+ syntax) -- small value parser
# --------------------------------------------------------------------------------------------
class _P:
    def __init__(self, s):
        self.s = s
        self.i = 0

    def ws(self):
        while self.i < len(self.s) and self.s[self.i] in " \t\r\n":
            self.i += 1

    def peek(self, t):
        self.ws()
        return self.s.startswith(t, self.i)

    def eat(self, t):
        self.ws()
        if not self.s.startswith(t, self.i):
            raise ValueError(f"expected {t!r} at {self.s[self.i:self.i+40]!r}")
        self.i += len(t)

    def value(self):
        self.ws()
        s = self.s
        if self.peek("<<"):
            self.eat("<<")
            out = []
            if not self.peek(">>"):
                while True:
                    out.append(self.value())
                    if self.peek(","):
                        self.eat(",")
                    else:
                        break
            self.eat(">>")
            return out
        if self.peek("{"):
            self.eat("{")
            out = []
            if not self.peek("}"):
                while True:
                    out.append(self.value())
                    if self.peek(","):
                        self.eat(",")
                    else:
                        break
            self.eat("}")
            return {"__set__": out}
        if self.peek("["):
            self.eat("[")
            d = {}
            while True:
                self.ws()
                m = re.compile(r"[A-Za-z_][A-Za-z_0-9]*").match(s, self.i)
                key = m.group(0)
                self.i = m.end()
                self.eat("|->")
                d[key] = self.value()
                if self.peek(","):
                    self.eat(",")
                else:
                    break
            self.eat("]")
            return d
        if self.peek("("):
            # function literal (a :> b @@ c :> d)
            self.eat("(")
            d = {}
            while True:
                k = self.value()
                self.eat(":>")
                v = self.value()
                d[json.dumps(k) if not isinstance(k, (str, int)) else k] = v
                if self.peek("@@"):
                    self.eat("@@")
                else:
                    break
            self.eat(")")
            return d
        if self.peek('"'):
            j = self.i + 1
            while s[j] != '"':
                if s[j] == "\\":
                    j += 1
                j += 1
            v = json.loads(s[self.i : j + 1])
            self.i = j + 1
            return v
        m = re.compile(r"-?\d+").match(s, self.i)
        if m:
            self.i = m.end()
            return int(m.group(0))
        m = re.compile(r"[A-Za-z_][A-Za-z_0-9]*").match(s, self.i)
        if m:
            self.i = m.end()
            w = m.group(0)
            if w == "TRUE":
                return True
            if w == "FALSE":
                return False
            return w
        raise ValueError(f"cannot parse value at {s[self.i:self.i+40]!r}")


def parse_tla_value(text):
    p = _P(text)
    return p.value()


_STATE_HDR = re.compile(r"^\\\* <(\w+)(?: line .*)?>\s*$|^STATE_(\d+) ==\s*$")


def parse_sim_file(path: Path):
    """Parse one behaviour file written by `tlc -simulate file=...`.
    Returns list of (action_name, {var: value}) in order."""
    text = Path(path).read_text()
    states = []
    action = None
    # split on STATE_n ==
    parts = re.split(r"^STATE_\d+ ==\s*$", text, flags=re.M)
    heads = re.findall(r"^\\\* <([A-Za-z_0-9]+)[ >]", text, flags=re.M)
    for k, body in enumerate(parts[1:]):
        body = body.split("\\*")[0]
        body = body.split("====")[0]
        vars_ = {}
        # conjunct list: /\ x = value
        items = re.split(r"^\s*/\\ ", body, flags=re.M)
        for it in items:
            it = it.strip()
            if not it:
                continue
            name, _, val = it.partition("=")
            vars_[name.strip()] = parse_tla_value(val.strip())
        act = heads[k] if k < len(heads) else "?"
        states.append((act, vars_))
    return states


# --------------------------------------------------------------------------------------------
# Known findings
# --------------------------------------------------------------------------------------------
def load_known_findings():
    out = []
    f = VERIF / "known_findings.json"
    if f.exists():
        out += json.loads(f.read_text()).get("findings", [])
    for g in sorted((VERIF / "known_findings.d").glob("*.json")):
        out += json.loads(g.read_text()).get("findings", [])
    return out


# --------------------------------------------------------------------------------------------
# The per-run context
# --------------------------------------------------------------------------------------------
class Ctx:
    def __init__(self, pid: str, tier: str, seed: int):
        self.pid = pid
        self.tier = tier
        self.seed = seed
        self.t0 = time.time()
        self.work = WORK / f"{pid}-{tier}-{os.getpid()}"
        if self.work.exists():
            shutil.rmtree(self.work, ignore_errors=True)
        self.work.mkdir(parents=True, exist_ok=True)
        self.replay_dir = WORK / "replay"
        self.replay_dir.mkdir(parents=True, exist_ok=True)
        self.states = 0
        self.transitions = 0
        self.traces_validated = 0
        self.replayed = 0
        self.samples = []
        self.notes = []
        self.bounds = {}
        self.coverage_actions = {}
        self.violations = []  # (signature, description, replay_path)
        self.viol_classes = {}
        self.known_fired = {}
        self.assumptions = []
        self.exhaustive = None
        self.tlc_cmds = []
        self._known = [k for k in load_known_findings() if k.get("property") == pid and k.get("status") == "open"]
        self.quick = tier == "quick"

    # ---- TLC helpers -----------------------------------------------------------------
    def tlc(self, module, cfg_text, **kw) -> TlcResult:
        kw.setdefault("workers", os.cpu_count() or 4)
        res = run_tlc(module, cfg_text, self.work, **kw)
        self.states += res.distinct
        self.transitions += res.transitions
        self.tlc_cmds.append(f"{module}[{kw.get('tag', module)}]: {res.generated} generated / {res.distinct} distinct, depth {res.depth}, {res.wall:.1f}s")
        for a, (d, t) in res.coverage.items():
            o = self.coverage_actions.get(a, (0, 0))
            self.coverage_actions[a] = (o[0] + d, o[1] + t)
        return res

    def validate_trace(self, module, cfg_text, records, *, tag=None, timeout=900, env=None, defs=None):
        """Write records as a JSON array, run the trace spec, return (TlcResult, rejects).
        The trace spec must consume one record per step and print {"k":"reject", "i":..} objects."""
        tag = tag or module
        tf = self.work / f"{tag}.trace.json"
        tf.write_text(json.dumps(records))
        e = {"TRACE_FILE": str(tf)}
        if env:
            e.update(env)
        res = self.tlc(module, cfg_text, env=e, workers=1, timeout=timeout, tag=tag, defs=defs)
        if not res.postcondition_ok:
            raise MachineryError(f"trace spec {module} did not consume the whole trace ({tag}): {res.raw_tail[-1500:]}")
        rejects = res.by_kind("reject")
        self.traces_validated += len(records) - len({r.get("i") for r in rejects})
        return res, rejects

    # ---- verdicts -------------------------------------------------------------------
    def violation(self, signature: str, what: str, replay: dict, cls: str = ""):
        """Register a property violation. `signature` identifies the failing input class / call site."""
        key = f"{signature}|{cls}"
        self.viol_classes[key] = self.viol_classes.get(key, 0) + 1
        for k in self._known:
            if k["signature"] == signature:
                c = self.known_fired.setdefault(signature, {"what": k["what"], "count": 0})
                c["count"] += 1
                return False
        n = len(self.violations)
        if n < 50:
            h = hashlib.sha1(json.dumps(replay, sort_keys=True, default=str).encode()).hexdigest()[:10]
            path = self.replay_dir / f"{self.pid}-{h}.json"
            replay = dict(replay)
            replay.update({"property": self.pid, "signature": signature, "what": what})
            path.write_text(json.dumps(replay, indent=1, default=str))
        else:
            path = self.replay_dir / f"{self.pid}-more.json"
        self.violations.append((signature, what, str(path)))
        return True

    def sample(self, obj):
        if len(self.samples) < 6:
            self.samples.append(obj)

    def note(self, s):
        self.notes.append(s)

    # ---- finish ---------------------------------------------------------------------
    def finish(self, level="model_checking"):
        wall = time.time() - self.t0
        for sig, c in self.known_fired.items():
            print(f"KNOWN-FINDING: property={self.pid} {c['what']} [signature={sig}, seen {c['count']}x]")
        seen = set()
        for sig, what, path in self.violations:
            if (sig, path) in seen:
                continue
            seen.add((sig, path))
            if len(seen) <= 20:
                print(f"VIOLATION property={self.pid} replay={path}  # {sig}: {what[:300]}")
        ev = {
            "property_id": self.pid,
            "tier": self.tier,
            "seed": self.seed,
            "level": level,
            "coverage": {
                "states": int(self.states),
                "transitions": int(self.transitions),
                "traces_validated_against_impl": int(self.traces_validated),
                "spec_states_replayed_into_impl": int(self.replayed),
                "samples": self.samples if self.samples else ["(no sample recorded)"],
                "exhaustive": bool(self.exhaustive) if self.exhaustive is not None else False,
                "bounds": self.bounds,
                "tlc_runs": self.tlc_cmds,
                "action_coverage": {a: {"distinct": d, "taken": t} for a, (d, t) in self.coverage_actions.items()},
                "known_findings_fired": {s: c["count"] for s, c in self.known_fired.items()},
                "rejection_classes": self.viol_classes,
                "notes": self.notes,
            },
            "assumptions": self.assumptions,
            "wall_s": round(wall, 2),
            "violations": len(self.violations),
        }
        # evidence of runs against anything but the tree under test (mutants, seeded changes) goes to a scratch directory
        evdir = Path(os.environ["VERIF_EVIDENCE_DIR"]) if os.environ.get("VERIF_EVIDENCE_DIR") else VERIF / "evidence"
        evdir.mkdir(parents=True, exist_ok=True)
        (evdir / f"{self.pid}.json").write_text(json.dumps(ev, indent=1, default=str))
        if not os.environ.get("VERIF_KEEP"):
            shutil.rmtree(self.work, ignore_errors=True)
        for k, v in sorted(self.viol_classes.items(), key=lambda kv: -kv[1])[:40]:
            print(f"  [{self.pid}] rejected x{v}: {k}")
        status = "FAIL" if self.violations else "OK"
        print(
            f"[{self.pid}] {status} tier={self.tier} seed={self.seed} states={self.states} transitions={self.transitions} "
            f"replayed={self.replayed} traces={self.traces_validated} violations={len(self.violations)} wall={wall:.1f}s"
        )
        return 1 if self.violations else 0


# --------------------------------------------------------------------------------------------
# parallel map for Python-side replay (fork; autoarray already imported in the parent)
# --------------------------------------------------------------------------------------------
def pmap(fn, items, procs=None, chunksize=None):
    import multiprocessing as mp

    items = list(items)
    if not items:
        return []
    procs = procs or min(os.cpu_count() or 4, 16)
    if len(items) < 2 * procs or procs == 1:
        return [fn(x) for x in items]
    ctx = mp.get_context("fork")
    with ctx.Pool(procs) as pool:
        return pool.map(fn, items, chunksize=chunksize or max(1, len(items) // (procs * 8)))
