"""Per-property registration data used to generate MANIFEST.json (python -m harness.manifest)."""

TRUSTED = ("TLC 1.8 / SANY / CommunityModules; the thin alpha/gamma layer of harness/exact.py (rejecting abstraction); "
           "IEEE-754 exactness on the lattices chosen; exhaustive only inside the stated bounds")

REG = {
    "C01": dict(
        modules=["Masks", "Trace_Masks"],
        text=("Masks.tla defines slim/native forms and the index tables; TLC checks the round-trip, bijection and partition "
              "theorems on every mask of every shape inside the bound and enumerates those masks; each is replayed through the "
              "real Array2D/Grid2D/VectorYX2D/Array1D/Grid1D/Mask2D API (tagged and random-real payloads) and every recorded "
              "output is validated by TLC against Trace_Masks.tla; seeded random masks up to 12x12 extend the reach."),
        technique="TLA+ spec (Masks.tla) + TLC exhaustive mask enumeration + trace validation of recorded API outputs (Trace_Masks.tla)",
        ref="DESIGN.md section 4, C01",
    ),
    "C10": dict(
        modules=["Masks", "Trace_Masks"],
        text=("Masks.tla defines the blurring set, the two-sided edge specification (EdgeMust <= E <= EdgeMay), the border relative "
              "to the reported edge set and the consistency of the four views; TLC enumerates every mask inside the bound "
              "(outer-ring pixels, holes, bridges included), the real derive_indexes/derive_mask/derive_grid/blurring API is run "
              "on each, and TLC validates every record against Trace_Masks.tla; seeded random masks up to 12x12."),
        technique="TLA+ spec (Masks.tla) + TLC exhaustive mask enumeration + trace validation with two-sided postconditions",
        ref="DESIGN.md section 4, C10",
    ),
}
