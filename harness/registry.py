"""Per-property registration data used to generate MANIFEST.json (python -m harness.manifest).
One JSON file per property in harness/registry.d/<ID>.json with keys: modules, text, technique, ref, [note]."""
import json
from pathlib import Path

TRUSTED = ("TLC 1.8 / SANY / CommunityModules; the thin alpha/gamma layer of harness/exact.py (rejecting abstraction); "
           "IEEE-754 exactness on the lattices chosen; exhaustive only inside the stated bounds")

REG = {}
for f in sorted((Path(__file__).resolve().parent / "registry.d").glob("C*.json")):
    REG[f.stem] = json.loads(f.read_text())
