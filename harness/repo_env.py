"""Prepare the process for importing the repository under test (from $VERIF_REPO) with production defaults."""
import io
import os
import sys
import types
import contextlib
import warnings

_done = False


def setup():
    global _done
    if _done:
        return
    _done = True
    warnings.filterwarnings("ignore")
    # stand-in for the optional pylops base class (only used as a base class by the transformers)
    if "pylops" not in sys.modules:
        m = types.ModuleType("pylops")

        class LinearOperator:  # noqa
            def __init__(self, *a, **k):
                pass

        m.LinearOperator = LinearOperator
        sys.modules["pylops"] = m
    here = os.path.dirname(os.path.abspath(__file__))
    import logging

    logging.disable(logging.WARNING)
    with contextlib.redirect_stdout(io.StringIO()):
        from autoconf import conf
        import autoarray  # noqa: F401

        out = os.path.join(os.environ.get("VERIF_HOME", os.path.dirname(here)), ".work", "autoconf_out")
        conf.instance.push(new_path=os.path.join(here, "conf"), output_path=out)
    logging.disable(logging.NOTSET)
    logging.getLogger().setLevel(logging.ERROR)
    repo = os.environ.get("VERIF_REPO", "/repo")
    import autoarray as aa

    if not os.path.abspath(aa.__file__).startswith(os.path.abspath(repo)):
        raise RuntimeError(f"autoarray imported from {aa.__file__}, expected under {repo}")
