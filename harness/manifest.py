"""Generate /verif/MANIFEST.json from harness/registry.py and the drivers that exist."""
import json
import os
from pathlib import Path

from harness.registry import REG, TRUSTED

VERIF = Path(__file__).resolve().parent.parent


def main():
    props = [json.loads(l) for l in open(VERIF / "properties.jsonl")]
    checks, na = [], []
    notapp = {}
    naf = VERIF / "harness" / "not_applicable.json"
    if naf.exists():
        notapp = json.loads(naf.read_text())
    for p in props:
        pid = p["id"]
        drv = VERIF / "harness" / "drivers" / f"{pid.lower()}.py"
        if pid in REG and drv.exists() and pid not in notapp:
            r = REG[pid]
            checks.append({
                "property_id": pid,
                "quick_cmd": f"./check {pid} --tier quick",
                "thorough_cmd": f"./check {pid} --tier thorough",
                "evidence_file": f"/verif/evidence/{pid}.json",
                "replay_cmd_template": f"./check {pid} --replay {{path}}",
                "engine": "tlc-conformance",
                "level_claimed": {"category": "model_checking", "text": r["text"], "design_ref": r["ref"]},
                "level_note": r.get("note", TRUSTED),
                "technique": r["technique"],
            })
        else:
            na.append({"property_id": pid, "reason": notapp.get(pid, "check not built yet in this session (work in progress); the TLA+ technique applies, see DESIGN.md section 4")})
    import subprocess
    fixes = subprocess.run(["git", "-C", os.environ.get("VERIF_REPO", "/repo"), "log", "--format=%h %s"], capture_output=True, text=True).stdout.splitlines()
    hook_commits = [l.split()[0] for l in fixes if l.split(" ", 1)[1].startswith("verif-hook:")]
    man = {
        "version": 1,
        "setup_cmd": "./setup.sh",
        "hooks": {
            "guard": "PYAUTOARRAY_VERIF",
            "enable": "PYAUTOARRAY_VERIF=1 in the environment (set by ./check); sources are imported straight from /repo's working tree, no build step",
            "baseline_off_cmd": "cd /repo && env -u PYAUTOARRAY_VERIF /venv/bin/python -m pytest -ra -q -p no:cacheprovider --timeout=900 --continue-on-collection-errors",
            "source_commits": hook_commits,
            "add_only": True,
        },
        "engines": [{
            "name": "tlc-conformance",
            "path": "/verif/check",
            "serves_properties": [c["property_id"] for c in checks],
            "kind_free_text": "explicit TLA+ specifications (spec/*.tla) model-checked by TLC; bound to the code by replaying TLC-enumerated states/behaviours into the real API and by validating recorded executions against Trace_*.tla",
        }],
        "checks": checks,
        "not_applicable": na,
        "notes": "Single entry point ./check <ID> --tier quick|thorough. Known findings in known_findings.json. See DESIGN.md.",
    }
    (VERIF / "MANIFEST.json").write_text(json.dumps(man, indent=1))
    print(f"MANIFEST.json: {len(checks)} checks, {len(na)} not_applicable")


if __name__ == "__main__":
    main()
