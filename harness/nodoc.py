import ast, sys
path = sys.argv[1]
lo = int(sys.argv[2]) if len(sys.argv) > 2 else 1
hi = int(sys.argv[3]) if len(sys.argv) > 3 else 10**9
src = open(path).read()
tree = ast.parse(src)
skip = set()
for node in ast.walk(tree):
    if isinstance(node, (ast.FunctionDef, ast.ClassDef, ast.AsyncFunctionDef, ast.Module)):
        b = node.body
        if b and isinstance(b[0], ast.Expr) and isinstance(getattr(b[0], 'value', None), ast.Constant) and isinstance(b[0].value.value, str):
            for l in range(b[0].lineno, b[0].end_lineno + 1):
                skip.add(l)
    if isinstance(node, ast.Expr) and isinstance(getattr(node, 'value', None), ast.Constant) and isinstance(node.value.value, str):
        for l in range(node.lineno, node.end_lineno + 1):
            skip.add(l)
for i, line in enumerate(src.splitlines(), 1):
    if i < lo or i > hi: continue
    if i in skip or not line.strip(): continue
    print(f"{i}\t{line}")
