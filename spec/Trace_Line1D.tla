---------------------------- MODULE Trace_Line1D ----------------------------
(***************************************************************************)
(* Validation of recorded executions of the real 1D API against            *)
(* Line1D.tla (extra X03).  One record per constructed object / call       *)
(* group; data movement abstracted to source tags (pixel index, Zero = -1  *)
(* for an exact 0, -2 for anything else), positions to integer ticks       *)
(* (alpha counts off-lattice values in r.off and replaces them by a        *)
(* sentinel).  Verdicts are total: every record is judged, a rejected      *)
(* record is printed with the names of the failing clauses, the signature  *)
(* of the failing input class and the value the specification wanted.      *)
(*                                                                         *)
(* Every record carries its instance: n (line length), u (unmasked pixel   *)
(* indices, ascending), p (half pixel scale), o (origin), in ticks.        *)
(***************************************************************************)
EXTENDS Line1D, IOUtils

Trace == JsonDeserialize(IOEnv.TRACE_FILE)

VARIABLE i

Cl(nm, b) == [n |-> nm, ok |-> b]

Un(r) == { r.u[k] : k \in DOMAIN r.u }
WellFormed(r) == /\ r.n >= 1 /\ r.p >= 1
                 /\ \A k \in DOMAIN r.u : r.u[k] >= 0 /\ r.u[k] < r.n
                 /\ \A k \in 1 .. Len(r.u) - 1 : r.u[k] < r.u[k+1]
Everything(N) == LeftToRight(N)                       \* the unmasked-index list of an all-unmasked mask
GeomOk(r) == r.ps2 = 2 * r.p /\ r.og = r.o            \* the result carries the instance's pixel scale and origin
Masked(r) == Pixels(r.n) \ Un(r)
Const(N, v) == [k \in 1 .. N |-> v]
Tags(N) == [k \in 1 .. N |-> k]                       \* value tags of a full line: position k holds the value k

\* ---- structure: one Array1D / Grid1D built from slim or native input, stored slim or native ----------
\* r.slim / r.native / r.stored / r.sns / r.nsn: source tags of obj.slim, obj.native, obj.array,
\* obj.slim.native.slim, obj.native.slim.native
ClStructure(r) ==
    LET u  == Un(r)
        ss == SlimSrc(u, r.n)
        ns == NativeSrc(u, r.n)
    IN << Cl("offlattice", r.off = 0),
          Cl("slim-is-ascending-gather", r.slim = ss),
          Cl("native-is-scatter-with-zeros", r.native = ns),
          Cl("stored-form", r.stored = IF r.store THEN ns ELSE ss),
          Cl("slim-native-slim-identity", r.sns = r.slim),
          Cl("native-slim-native-zeroes-masked", r.nsn = ns),
          Cl("payload-independent", r.payload_ok),
          Cl("structure-carries-mask-geometry", GeomOk(r)) >>
WantStructure(r) == [slim |-> SlimSrc(Un(r), r.n), native |-> NativeSrc(Un(r), r.n)]
\* the class of the known deviation: native input kept as given by a native-storing object
KeepsMaskedValues(r) == r.given = "native" /\ r.store /\ Masked(r) # {}

\* ---- ctor: constructors that build an unmasked Array1D ------------------------------------------------
\* r.vals: the integer values of the result (-2 = not an integer); r.um / r.nout: its mask
ClCtor(r) ==
    LET want == CASE r.ctor = "no_mask" -> Tags(r.n)
                  [] r.ctor = "full"    -> Const(r.n, r.fill)
                  [] r.ctor = "ones"    -> Const(r.n, 1)
                  [] r.ctor = "zeros"   -> Const(r.n, 0)
                  [] OTHER              -> Tags(r.n)
        raw  == r.ctor \in {"from_fits", "from_primary_hdu"}
    IN << Cl("offlattice", r.off = 0),
          \* a file written by astropy itself: its values in file order (the 1D reader documents a flip
          \* "as DS9 shows it", so the reversed order is not excluded by the statement; nothing else is allowed)
          Cl("constructor-values", IF raw THEN r.vals = want \/ r.vals = Reverse(want) ELSE r.vals = want),
          Cl("constructor-length", r.nout = r.n),
          Cl("constructor-mask-all-unmasked", r.um = Everything(r.n)),
          Cl("constructor-geometry", GeomOk(r)),
          Cl("header-pixel-scale-kept", raw => r.hps = 2 * r.p) >>

\* ---- grid: constructors of Grid1D and the grids derived from a mask / an array ----------------------
\* r.x: slim coordinates, r.xn: native coordinates (ticks); r.um / r.nout: the mask of the result
WantGrid(r) ==
    LET u == Un(r) IN
    CASE r.ctor = "from_mask" ->
           [x |-> GridSlim(u, r.n, r.p, r.o), xn |-> GridNative(u, r.n, r.p, r.o), um |-> r.u, origin |-> TRUE]
      [] r.ctor = "uniform" ->
           [x |-> CentredGrid(r.n, r.p, r.o), xn |-> CentredGrid(r.n, r.p, r.o), um |-> Everything(r.n), origin |-> TRUE]
      [] r.ctor \in {"uniform_from_zero", "grid_radial"} ->
           \* "the first (x) coordinate of the grid is 0.0 and all other values ascend": the origin of the paired
           \* mask is not documented, hence not judged
           [x |-> FromZero(r.n, r.p), xn |-> FromZero(r.n, r.p), um |-> Everything(r.n), origin |-> FALSE]
      [] r.ctor = "no_mask" ->
           [x |-> r.vals, xn |-> r.vals, um |-> Everything(r.n), origin |-> TRUE]
      [] r.ctor \in {"derive_grid.all_false", "unmasked_grid"} ->
           \* "every pixel in the mask irrespective of whether pixels are masked or unmasked"
           [x |-> CentredGrid(r.n, r.p, r.o), xn |-> CentredGrid(r.n, r.p, r.o), um |-> Everything(r.n), origin |-> TRUE]
      [] OTHER -> [x |-> << >>, xn |-> << >>, um |-> << >>, origin |-> TRUE]
ClGrid(r) ==
    LET w == WantGrid(r) IN
    << Cl("offlattice", r.off = 0),
       Cl("known-grid-constructor", r.ctor \in {"from_mask", "uniform", "uniform_from_zero", "grid_radial", "no_mask",
                                                "derive_grid.all_false", "unmasked_grid"}),
       Cl("coordinates-at-pixel-centres", r.x = w.x),
       Cl("native-coordinates-zero-where-masked", r.xn = w.xn),
       Cl("grid-mask", r.um = w.um /\ r.nout = r.n),
       Cl("grid-geometry", r.ps2 = 2 * r.p /\ (w.origin => r.og = r.o)) >>
\* the class of the known deviation: the all-pixels grid of a mask with masked pixels holds the unmasked pixels only
AllFalseOmitsMasked(r) ==
    /\ r.ctor \in {"derive_grid.all_false", "unmasked_grid"} /\ Masked(r) # {}
    /\ r.x = GridSlim(Un(r), r.n, r.p, r.o)

\* ---- geometry: Geometry1D of the mask ------------------------------------------------------------------
ClGeometry(r) ==
    << Cl("offlattice", r.off = 0),
       Cl("shape-slim-scaled-is-n-pixel-scales", r.sss = ShapeScaled(r.n, r.p)),
       Cl("scaled-maxima-is-right-frame-edge", r.mx = ScaledMax(r.n, r.p, r.o)),
       Cl("scaled-minima-is-left-frame-edge", r.mn = ScaledMin(r.n, r.p, r.o)),
       Cl("extent-is-min-max", r.ext = Extent(r.n, r.p, r.o)) >>

\* ---- derive: masks derived from the mask ---------------------------------------------------------------
ClDerive(r) ==
    CASE r.which = "all_false" ->
           << Cl("all-false-mask-unmasks-everything", r.um = Everything(r.n) /\ r.nout = r.n),
              Cl("all-false-mask-keeps-geometry", GeomOk(r)), Cl("offlattice", r.off = 0) >>
      [] r.which = "to_mask_2d" ->
           \* the docstring gives the shape once as [n, 1] and once (example) as one row: either is accepted
           << Cl("mask-2d-holds-the-line", r.flat = r.u),
              Cl("mask-2d-shape", r.shape = << 1, r.n >> \/ r.shape = << r.n, 1 >>),
              Cl("mask-2d-pixel-scales", r.psy = 2 * r.p /\ r.psx = 2 * r.p), Cl("offlattice", r.off = 0) >>
      [] OTHER -> << Cl("unknown-derive", FALSE) >>

\* ---- fits: output followed by input ----------------------------------------------------------------------
\* kinds: array_file (output_to_fits + from_fits), array_hdu (hdu_for_output + from_primary_hdu),
\* array_file_hdu (output_to_fits, astropy open, from_primary_hdu), mask_file, mask_hdu
ClFits(r) ==
    LET u == Un(r)
        isMask == r.kind \in {"mask_file", "mask_hdu"}
    IN << Cl("offlattice", r.off = 0),
          Cl("known-fits-kind", r.kind \in {"array_file", "array_hdu", "array_file_hdu", "mask_file", "mask_hdu"}),
          Cl("round-trip-values", isMask \/ r.out = NativeSrc(u, r.n)),
          Cl("round-trip-mask", r.nout = r.n /\ r.um = IF isMask THEN r.u ELSE Everything(r.n)),
          Cl("round-trip-pixel-scale", r.ps2 = 2 * r.p),
          Cl("round-trip-origin", r.og = r.o),
          Cl("header-pixscale", r.hps = 2 * r.p) >>

\* ---- header ----------------------------------------------------------------------------------------------
ClHeader(r) ==
    << Cl("offlattice", r.off = 0),
       Cl("counts-per-second-is-counts-over-exposure-time", r.cps = r.vals),
       Cl("counts-per-second-without-exposure-time-raises", r.cps_none_raises),
       \* the base class leaves this conversion to instrument-specific subclasses: either it is the documented
       \* conversion [Counts] = [EPS] * [Exposure time], or it says so by raising NotImplementedError
       Cl("eps-to-counts-is-eps-times-exposure-time-or-declared-unimplemented",
          r.eps_status = "not-implemented" \/ (r.eps_status = "value" /\ r.eps = EpsToCounts(r.vals, r.e))),
       Cl("mjd-none-without-date-or-time", r.none_no_date /\ r.none_no_time /\ r.none_neither),
       Cl("mjd-deterministic", r.det),
       Cl("mjd-documented-value", r.mjd8 = 8 * Mjd(r.y, r.m, r.d) + r.h3) >>

\* ---- history: one object read several times ------------------------------------------------------------
\* r.reads: names of the reads in order; r.outs: source tags of each result (values divided by the read's factor);
\* r.forms: "slim"/"native" by result length where decidable; r.final: source tags of obj.array after all reads
ReadOk(r, j) ==
    LET e == Expected(r.reads[j], r.store, Un(r), r.n) IN r.outs[j] = e.src /\ r.muls[j] = e.mul
ClHistory(r) ==
    IF ~ ( Len(r.outs) = Len(r.reads) /\ Len(r.muls) = Len(r.reads) /\ \A j \in DOMAIN r.reads : r.reads[j] \in ReadNames )
    THEN << Cl("malformed-history-record", FALSE) >>
    ELSE << Cl("every-read-agrees-with-instance", \A j \in DOMAIN r.reads : ReadOk(r, j)),
            Cl("object-unchanged-after-reads", r.final = SrcOfForm(StoredForm(r.store), Un(r), r.n)),
            Cl("copy-is-independent", r.copy_independent),
            Cl("payload-independent", r.payload_ok) >>
WantHistory(r) == [j \in DOMAIN r.reads |-> Expected(r.reads[j], r.store, Un(r), r.n).src]
\* the known deviation seen through a history: only the reads that return the stored native array are affected,
\* and they return the caller's values
HistoryKeepsMaskedValues(r) ==
    /\ KeepsMaskedValues(r)
    /\ Len(r.outs) = Len(r.reads) /\ Len(r.muls) = Len(r.reads)
    /\ \A j \in DOMAIN r.reads :
          \/ ReadOk(r, j)
          \/ /\ r.reads[j] \in {"native", "copy", "twice", "sum"}
             /\ r.outs[j] = FullSrc(r.n) /\ r.muls[j] = ExpectedMul(r.reads[j])
    /\ r.final = FullSrc(r.n)
    /\ r.copy_independent /\ r.payload_ok

-----------------------------------------------------------------------------
Clauses(r) ==
    IF ~ WellFormed(r) THEN << Cl("malformed-input-record", FALSE) >>
    ELSE CASE r.api = "structure" -> ClStructure(r)
           [] r.api = "ctor"      -> ClCtor(r)
           [] r.api = "grid"      -> ClGrid(r)
           [] r.api = "geometry"  -> ClGeometry(r)
           [] r.api = "derive"    -> ClDerive(r)
           [] r.api = "fits"      -> ClFits(r)
           [] r.api = "header"    -> ClHeader(r)
           [] r.api = "history"   -> ClHistory(r)
           \* a documented call raised an exception: r.where names the group of calls, r.exc the exception
           [] r.api = "raised"    -> << Cl("call-raised-" \o r.exc, FALSE) >>
           [] OTHER               -> << Cl("unknown-api", FALSE) >>

Failed(r) == SelectSeq(Clauses(r), LAMBDA c : ~ c.ok)
Names(f) == { f[j].n : j \in DOMAIN f }

Want(r) ==
    IF ~ WellFormed(r) THEN << >>
    ELSE CASE r.api = "structure" -> WantStructure(r)
           [] r.api = "grid"      -> [x |-> WantGrid(r).x, um |-> WantGrid(r).um]
           [] r.api = "geometry"  -> [sss |-> ShapeScaled(r.n, r.p), ext |-> Extent(r.n, r.p, r.o)]
           [] r.api = "fits"      -> [out |-> NativeSrc(Un(r), r.n)]
           [] r.api = "history"   -> IF Len(r.outs) = Len(r.reads) /\ \A j \in DOMAIN r.reads : r.reads[j] \in ReadNames
                                     THEN WantHistory(r) ELSE << >>
           [] r.api = "header"    -> [mjd8 |-> 8 * Mjd(r.y, r.m, r.d) + r.h3]
           [] OTHER               -> << >>

\* signature of the failing input class / call site (used to match known findings); f = the failed clauses
Sig(r, f) ==
    IF ~ WellFormed(r) THEN "malformed"
    ELSE CASE r.api = "structure" ->
                IF /\ KeepsMaskedValues(r)
                   /\ Names(f) \subseteq {"native-is-scatter-with-zeros", "stored-form"}
                   /\ r.native = FullSrc(r.n) /\ r.stored = FullSrc(r.n)
                THEN "native-input-stored-native-keeps-masked-values:" \o r.kind
                ELSE "structure:" \o r.kind
           [] r.api = "history" ->
                IF HistoryKeepsMaskedValues(r)
                THEN "native-input-stored-native-keeps-masked-values:" \o r.kind
                ELSE "history:" \o r.kind
           [] r.api = "grid" ->
                IF /\ AllFalseOmitsMasked(r)
                   /\ Names(f) \subseteq {"coordinates-at-pixel-centres", "native-coordinates-zero-where-masked"}
                THEN "derive-grid-all-false-omits-masked-pixels"
                ELSE "grid:" \o r.ctor
           [] r.api = "ctor"     -> "ctor:" \o r.ctor
           [] r.api = "geometry" -> "geometry:" \o r.via
           [] r.api = "derive"   -> "derive:" \o r.which
           [] r.api = "fits"     -> "fits:" \o r.kind
           [] r.api = "header"   -> "header"
           [] r.api = "raised"   -> "raised:" \o r.where
           [] OTHER              -> "unknown-api"

TraceInit == /\ i = 1
             /\ n = 1 /\ U = {} /\ geo = << 1, 0 >> /\ given = "slim" /\ store = FALSE
             /\ phase = "trace" /\ obj = NoObj /\ hist = << >> /\ last = NoObj

TraceNext ==
    /\ i <= Len(Trace)
    /\ LET r == Trace[i]
           f == Failed(r)
       IN IF f = << >> THEN TRUE
          ELSE PrintT(ToJson([k |-> "reject", i |-> i, id |-> r.id,
                              clauses |-> [j \in DOMAIN f |-> f[j].n],
                              sig |-> Sig(r, f), want |-> Want(r)]))
    /\ i' = i + 1
    /\ UNCHANGED vars

TraceSpec == TraceInit /\ [][TraceNext]_<< vars, i >>
TraceAccepted == TLCGet("stats").diameter - 1 = Len(Trace)
=============================================================================
