-------------------------------- MODULE Nnls --------------------------------
(***************************************************************************)
(* C05: the reconstruction is the true (non-negative) least-squares        *)
(* optimum.                                                                *)
(*                                                                         *)
(* Layer 1 (meaning): exact rational arithmetic, the KKT certificate of    *)
(*   min 1/2 s'As - b's  s.t. s >= 0   for symmetric positive definite A.  *)
(* Layer 2 (machine): the active-set solver of autoarray/util/fnnls.py     *)
(*   (Lawson-Hanson with an optional warm start of the passive set) as a   *)
(*   state machine, one action per critical section: WarmStart,            *)
(*   OuterStep(j), InnerFix, InnerDone, Terminate.                         *)
(*   CONSTANT RepairedWarmStart selects the warm start as designed         *)
(*   (TRUE: the passive set is made feasible and the gradient recomputed)  *)
(*   or as found on the pinned tree (FALSE: clipped solution, stale        *)
(*   gradient) -- with FALSE TLC produces counterexamples to               *)
(*   DoneImpliesKKT and NeverDiverges, which is the design-level           *)
(*   diagnosis of the defect.                                              *)
(* Layer 3 (properties): Feasible, PassiveOptimalPositive,                 *)
(*   ObjectiveNonIncreasing, DoneImpliesKKT, NeverDiverges, Terminates.    *)
(***************************************************************************)
EXTENDS Integers, Sequences, FiniteSets, TLC, Json, IOUtils, FiniteSetsExt, SequencesExt, Folds

CONSTANTS RepairedWarmStart,  \* BOOLEAN
          MaxSteps            \* bound used by Terminates

\* The instance family: a JSON array of {"A": [[..],..], "b": [..]} with A symmetric positive definite, integer
\* entries, n <= 4.  (A zero-arity definition is evaluated once by TLC; a cfg substitution would be re-evaluated
\* at every use.)
Insts == JsonDeserialize(IOEnv.INST_FILE)

-----------------------------------------------------------------------------
(* exact rationals <<n, d>>, d > 0, reduced *)
RECURSIVE Gcd(_, _)
Gcd(a, b) == IF b = 0 THEN (IF a < 0 THEN -a ELSE a) ELSE Gcd(b, a % b)
Abs(x) == IF x < 0 THEN -x ELSE x
Norm(n, dd) == LET g == Gcd(Abs(n), Abs(dd))
                   sg == IF dd < 0 THEN -1 ELSE 1
               IN IF n = 0 THEN <<0, 1>> ELSE <<sg * (n \div g), sg * (dd \div g)>>
R(n) == <<n, 1>>
RAdd(x, y) == Norm(x[1]*y[2] + y[1]*x[2], x[2]*y[2])
RSub(x, y) == Norm(x[1]*y[2] - y[1]*x[2], x[2]*y[2])
RMul(x, y) == Norm(x[1]*y[1], x[2]*y[2])
RDiv(x, y) == Norm(x[1]*y[2], x[2]*y[1])     \* y # 0
RLe(x, y) == x[1]*y[2] <= y[1]*x[2]
RLt(x, y) == x[1]*y[2] < y[1]*x[2]
RIsZero(x) == x[1] = 0
Zero == <<0, 1>>
RSum(f, S) == FoldFunctionOnSet(LAMBDA x, acc : RAdd(acc, x), Zero, f, S)

\* integer determinant by Laplace expansion along the first row (k <= 4)
RECURSIVE Det(_, _)
Det(M, k) ==
  IF k = 0 THEN 1 ELSE
  IF k = 1 THEN M[1][1] ELSE
  LET Minor(c) == [i \in 1 .. k-1 |-> [j \in 1 .. k-1 |-> M[i+1][IF j < c THEN j ELSE j+1]]]
      term(c) == (IF c % 2 = 1 THEN 1 ELSE -1) * M[1][c] * Det(Minor(c), k-1)
  IN FoldFunctionOnSet(LAMBDA x, acc : acc + x, 0, [c \in 1 .. k |-> term(c)], 1 .. k)

\* solve A[idx,idx] x = b[idx] by Cramer's rule; idx a sequence of distinct indices
SolveOn(A, b, idx) ==
  LET k == Len(idx)
      M == [i \in 1 .. k |-> [j \in 1 .. k |-> A[idx[i]][idx[j]]]]
      dt == Det(M, k)
      Mi(c) == [i \in 1 .. k |-> [j \in 1 .. k |-> IF j = c THEN b[idx[i]] ELSE M[i][j]]]
  IN [c \in 1 .. k |-> Norm(Det(Mi(c), k), dt)]

\* leading principal minors positive (Sylvester): A is positive definite
IsSPD(A, n) == /\ \A i, j \in 1 .. n : A[i][j] = A[j][i]
               /\ \A k \in 1 .. n : Det([i \in 1 .. k |-> [j \in 1 .. k |-> A[i][j]]], k) > 0

\* gradient of the objective is A s - b; Resid = b - A s (what the code calls w)
Resid(A, b, sv, n) == [i \in 1 .. n |-> RSub(R(b[i]), RSum([j \in 1 .. n |-> RMul(R(A[i][j]), sv[j])], 1 .. n))]
\* objective value 1/2 s'As - b's (times 2, to stay in rationals without halves)
Obj2(A, b, sv, n) ==
  RSub(RSum([i \in 1 .. n |-> RMul(sv[i], RSum([j \in 1 .. n |-> RMul(R(A[i][j]), sv[j])], 1 .. n))], 1 .. n),
       RMul(R(2), RSum([i \in 1 .. n |-> RMul(R(b[i]), sv[i])], 1 .. n)))

\* the KKT certificate: s >= 0, gradient zero on positive entries, non-negative on zero entries
KKT(A, b, sv, n) ==
  LET g == Resid(A, b, sv, n)
  IN /\ \A i \in 1 .. n : RLe(Zero, sv[i])
     /\ \A i \in 1 .. n : RLt(Zero, sv[i]) => RIsZero(g[i])
     /\ \A i \in 1 .. n : RIsZero(sv[i]) => RLe(g[i], Zero)

-----------------------------------------------------------------------------
(* Layer 2: the solver machine *)
VARIABLES inst, warm, P, order, d, s, w, pc, noUpd, curP, steps
vars == << inst, warm, P, order, d, s, w, pc, noUpd, curP, steps >>

A == Insts[inst].A
b == Insts[inst].b
N == Len(Insts[inst].b)
Idx == 1 .. N

SortedSeq(S) == SetToSortSeq(S, <)
WithSolve(sv, idx) == LET sol == SolveOn(A, b, idx) IN
                      [i \in Idx |-> IF \E c \in 1 .. Len(idx) : idx[c] = i
                                     THEN sol[CHOOSE c \in 1 .. Len(idx) : idx[c] = i] ELSE sv[i]]
ZeroOutside(sv, S) == [i \in Idx |-> IF i \in S THEN sv[i] ELSE Zero]
Clip(sv) == [i \in Idx |-> IF RLt(sv[i], Zero) THEN Zero ELSE sv[i]]
ZeroVec == [i \in Idx |-> Zero]

Init == /\ inst \in 1 .. Len(Insts)
        /\ warm \in BOOLEAN
        /\ P = {} /\ order = << >> /\ curP = {}
        /\ d = [i \in 1 .. Len(Insts[inst].b) |-> Zero]
        /\ s = [i \in 1 .. Len(Insts[inst].b) |-> Zero]
        /\ w = [i \in 1 .. Len(Insts[inst].b) |-> R(Insts[inst].b[i])]
        /\ pc = "start" /\ noUpd = 0 /\ steps = 0

\* sign pattern of the unconstrained solution (the warm-start guess of the positive set)
Unc == SolveOn(A, b, [i \in Idx |-> i])
Guess == {i \in Idx : RLt(Zero, Unc[i])}

\* repaired warm start: shrink the guessed passive set until the solution on it is strictly positive
RECURSIVE FeasiblePassive(_)
FeasiblePassive(S) ==
  IF S = {} THEN {}
  ELSE LET sv == WithSolve(ZeroVec, SortedSeq(S))
           bad == {i \in S : RLe(sv[i], Zero)}
       IN IF bad = {} THEN S ELSE FeasiblePassive(S \ bad)

WarmStart ==
  /\ pc = "start"
  /\ IF warm /\ Guess # {}
     THEN IF RepairedWarmStart
          THEN LET P0 == FeasiblePassive(Guess)
                   ord == SortedSeq(P0)
                   s1 == IF P0 = {} THEN ZeroVec ELSE WithSolve(ZeroVec, ord)
               IN /\ P' = P0 /\ order' = ord /\ s' = s1 /\ d' = s1
                  /\ w' = Resid(A, b, s1, N)
          ELSE LET ord == SortedSeq(Guess)     \* as found: clipped solution, gradient left at its d = 0 value
                   s1 == WithSolve(ZeroVec, ord)
               IN /\ P' = Guess /\ order' = ord /\ s' = s1 /\ d' = Clip(s1)
                  /\ UNCHANGED w
     ELSE UNCHANGED << P, order, s, d, w >>
  /\ pc' = "outer"
  /\ UNCHANGED << inst, warm, noUpd, curP, steps >>

Active == Idx \ P
MaxW == CHOOSE m \in {w[i] : i \in Active} : \A i \in Active : RLe(w[i], m)

\* the loop condition fails: all passive, or no positive multiplier left
Terminate ==
  /\ pc = "outer"
  /\ (IF Active = {} THEN TRUE ELSE RLe(MaxW, Zero))
  /\ pc' = "done"
  /\ UNCHANGED << inst, warm, P, order, d, s, w, noUpd, curP, steps >>

\* move an index with maximal multiplier into the passive set (ties: any) and solve on the passive set
OuterStep(j) ==
  /\ pc = "outer"
  /\ j \in Active
  /\ RLt(Zero, MaxW) /\ w[j] = MaxW
  /\ curP' = P
  /\ P' = P \cup {j}
  /\ order' = Append(order, j)
  /\ s' = WithSolve(s, Append(order, j))
  /\ pc' = "inner"
  /\ steps' = steps + 1
  /\ UNCHANGED << inst, warm, d, w, noUpd >>

NeedsFix == P # {} /\ \E i \in P : RLe(s[i], Zero)

\* line search back to feasibility, drop the indices that hit zero, re-solve
InnerFix ==
  /\ pc = "inner" /\ NeedsFix
  /\ LET q == {i \in P : RLe(s[i], Zero)}
     IN IF \E i \in q : RIsZero(RSub(d[i], s[i]))
        THEN /\ pc' = "diverged"        \* 0/0 in the line search
             /\ UNCHANGED << P, order, d, s >>
        ELSE LET ratios == {RDiv(d[i], RSub(d[i], s[i])) : i \in q}
                 alpha == CHOOSE a \in ratios : \A r \in ratios : RLe(a, r)
                 d2 == [i \in Idx |-> RAdd(d[i], RMul(alpha, RSub(s[i], d[i])))]
                 ord2 == SelectSeq(order, LAMBDA i : RLt(Zero, d2[i]))
                 P2 == {i \in P : RLt(Zero, d2[i])}
                 s2 == IF Len(ord2) > 0 THEN WithSolve(s, ord2) ELSE s
             IN /\ d' = d2 /\ order' = ord2 /\ P' = P2
                /\ s' = ZeroOutside(s2, P2)
                /\ pc' = "inner"
  /\ steps' = steps + 1
  /\ UNCHANGED << inst, warm, w, noUpd, curP >>

\* the passive solution is strictly positive: accept it, recompute the multipliers
InnerDone ==
  /\ pc = "inner" /\ ~ NeedsFix
  /\ d' = s
  /\ w' = Resid(A, b, s, N)
  /\ LET nu == IF P = curP THEN noUpd + 1 ELSE 0
     IN /\ noUpd' = nu
        /\ pc' = IF nu >= 3 THEN "done" ELSE "outer"     \* the code's max_repetitions escape
  /\ UNCHANGED << inst, warm, P, order, s, curP, steps >>

Next == WarmStart \/ Terminate \/ (\E j \in Idx : OuterStep(j)) \/ InnerFix \/ InnerDone
Spec == Init /\ [][Next]_vars

-----------------------------------------------------------------------------
(* Layer 3: properties *)
InstancesAreSPD == IsSPD(A, N)
Feasible == \A i \in Idx : RLe(Zero, d[i])
\* at the head of the outer loop the accepted solution is optimal on the passive set and positive there
PassiveOptimalPositive ==
  (pc = "outer" /\ (RepairedWarmStart \/ ~ warm)) =>
     /\ \A i \in P : RLt(Zero, d[i]) /\ RIsZero(w[i])
     /\ \A i \in Idx \ P : RIsZero(d[i])
     /\ w = Resid(A, b, d, N)
DoneImpliesKKT == pc = "done" => KKT(A, b, d, N)
NeverDiverges == pc # "diverged"
Terminates == steps <= MaxSteps
ObjectiveNonIncreasing ==
  [][(pc = "inner" /\ pc' \in {"outer", "done"} /\ (RepairedWarmStart \/ ~ warm))
       => RLe(Obj2(A, b, d', N), Obj2(A, b, d, N))]_vars
\* the optimum is unique: any two terminal states of the same instance agree (checked through the dump by the driver)

\* dump of terminal states: the exact optimum of every instance (always TRUE)
DumpDone ==
  IF pc = "done"
  THEN PrintT(ToJson([k |-> "inst", id |-> inst, warm |-> warm, d |-> d, steps |-> steps]))
  ELSE TRUE
=============================================================================
