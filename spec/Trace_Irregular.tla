-------------------------- MODULE Trace_Irregular --------------------------
(***************************************************************************)
(* Validation of recorded executions of the real irregular-grid / distance *)
(* API against Irregular.tla (X02).  One record per exercised call; all    *)
(* coordinates are integers (value / tick, alpha rejects anything off the  *)
(* lattice with the sentinel OFF = 99999; non-negative quantities use -2). *)
(*                                                                         *)
(*  api "container"  Grid2DIrregular / Grid2DIrregularUniform built from   *)
(*        groups      the given coordinates: a list of groups (one group   *)
(*                    for the flat input forms), each a list of [y,x]      *)
(*        array, in_list, slim, native, values   the views read back       *)
(*        meta_in / meta_out   pixel scales + shape_native given / kept    *)
(*        payload_ok  the same construction on arbitrary reals returned    *)
(*                    them bit for bit in every view                       *)
(*        pure_ok     the stored entries (and the caller's input) are bit  *)
(*                    for bit unchanged after every query was asked        *)
(*  api "values"     ArrayIrregular: vals, array, in_list, slim, native,   *)
(*                    values, payload_ok                                   *)
(*  api "sqdist"     squared_distances_to_coordinate_from /                *)
(*                    distances_to_coordinate_from on Grid2DIrregular or   *)
(*                    Grid2D:  pts, c, sq (exact), R = round(F * d / tick),*)
(*                    F, dint (d / tick when within 1e-9 of an integer,    *)
(*                    else -2); Grid2D: u, out_u (mask of the result)      *)
(*  api "furthest"   furthest_distances_to_other_coordinates: pts, R, F,   *)
(*                    dint                                                 *)
(*  api "closest"    grid_of_closest_from: pts, pair, out, bitwise         *)
(*  api "remove"     Grid2D.grid_with_coordinates_within_distance_removed_ *)
(*                    from: h, w, u, g, pts, cs, dd2, out, out_u, out_g,   *)
(*                    valued (the grid's values are not the pixel centres) *)
(*  api "summary"    scaled_minima / scaled_maxima / extent_with_buffer_   *)
(*                    from / shape_native_scaled_interior (Grid2D) /       *)
(*                    geometry (Grid2DIrregular): pts, minima, maxima,     *)
(*                    interior, b, extb, extd (default buffer: lattice     *)
(*                    part) and extd_off (offset in units of 1e-8),        *)
(*                    gext / gmin / gmax (geometry of an irregular grid),  *)
(*                    stored ("slim" | "native" | "list")                  *)
(*  api "pixels"     Grid2DIrregular.from_pixels_and_mask                  *)
(*  api "yx1d"       Grid2DIrregular.from_yx_1d                            *)
(*  api "deflect"    grid_2d_via_deflection_grid_from (three classes)      *)
(*  api "upscale"    Grid2DIrregularUniform.from_grid_sparse_uniform_      *)
(*                    upscale: pts, f, e (pixel scale = 2 f e), out, ps_out*)
(*  api "gridfrom"   Grid2DIrregularUniform.grid_from                      *)
(*                                                                         *)
(* Rounding of a recorded root R = round(F * d), d*d = n exactly (in       *)
(* lattice units):  |R - F d| <= 1/2 + eta, hence                          *)
(*    |R*R - F*F*n| = |R - F d| (R + F d) <= (1/2 + eta)(2 R + 1/2 + eta)  *)
(*                  <  R + 1                                               *)
(* which is the integer tolerance used below; no epsilon is guessed.       *)
(* Verdicts are total: every record is judged; a rejected record is        *)
(* printed with the failing clauses, its signature and the wanted value.   *)
(***************************************************************************)
EXTENDS Irregular, IOUtils

Trace == JsonDeserialize(IOEnv.TRACE_FILE)

VARIABLE i

Cl(n, b) == [n |-> n, ok |-> b]
OFF == 99999
Un(r) == { CellOf(r.u[k], r.w) : k \in DOMAIN r.u }
IsPairs(s) == \A k \in DOMAIN s : Len(s[k]) = 2 /\ s[k][1] # OFF /\ s[k][2] # OFF
Pts(s) == [k \in DOMAIN s |-> Pt(s[k])]
SameSeq(a, b) == Len(a) = Len(b) /\ \A k \in DOMAIN a : Len(a[k]) = 2 /\ Pt(a[k]) = Pt(b[k])
MaxOf(s) == IF Len(s) = 0 THEN 0 ELSE SeqMax(s)

\* a recorded fixed-point root R (factor F) of the exact squared value n
RootOk(R, F, n) == R >= 0 /\ R <= 40000 /\ Abs(R * R - F * F * n) <= R + 1
ExactRootOk(dint, n) == IsSquare(n) => dint = Isqrt(n)
ScaleOk(F, nmax) == F >= 1 /\ F <= 1024 /\ nmax <= 160000 /\ nmax + 1 <= 1073741824 \div (F * F)

\* ---- containers ------------------------------------------------------------
GroupsOk(r) == \A n \in DOMAIN r.groups : IsPairs(r.groups[n])
ClausesContainer(r) ==
    IF ~ GroupsOk(r) THEN << Cl("record-well-formed", FALSE) >>
    ELSE
    LET want == Held([n \in DOMAIN r.groups |-> Pts(r.groups[n])]) IN
    << Cl("holds-the-given-entries-in-the-given-order", SameSeq(r.array, want)),
       Cl("in-list-round-trips", SameSeq(r.in_list, want)),
       Cl("slim-view-is-the-grid", SameSeq(r.slim, want)),
       Cl("native-view-is-the-grid", SameSeq(r.native, want)),
       Cl("values-view-is-the-grid", SameSeq(r.values, want)),
       Cl("pixel-scales-and-shape-kept", r.meta_out = r.meta_in),
       Cl("payload-independent", r.payload_ok),
       Cl("queries-leave-the-entries-unchanged", r.pure_ok) >>
WantContainer(r) == IF GroupsOk(r) THEN Held([n \in DOMAIN r.groups |-> Pts(r.groups[n])]) ELSE << >>

ClausesValues(r) ==
    << Cl("holds-the-given-values-in-the-given-order", r.array = r.vals),
       Cl("in-list-round-trips", r.in_list = r.vals),
       Cl("slim-view-is-the-array", r.slim = r.vals),
       Cl("native-view-is-the-array", r.native = r.vals),
       Cl("values-view-is-the-array", r.values = r.vals),
       Cl("payload-independent", r.payload_ok) >>

\* ---- distances -------------------------------------------------------------
ClausesSqDist(r) ==
    IF ~ (IsPairs(r.pts) /\ Len(r.c) = 2) THEN << Cl("record-well-formed", FALSE) >>
    ELSE
    LET P == Pts(r.pts)
        want == SqDists(P, Pt(r.c))
        lens == Len(r.sq) = Len(P) /\ Len(r.R) = Len(P) /\ Len(r.dint) = Len(P)
    IN IF ~ ScaleOk(r.F, MaxOf(want)) THEN << Cl("fixed-point-scale-in-range", FALSE) >>
       ELSE
       << Cl("one-entry-per-coordinate", lens),
          Cl("squared-distance-of-entry-k-exact", lens /\ \A k \in DOMAIN P : r.sq[k] = want[k]),
          Cl("distance-is-root-of-squared-distance", lens /\ \A k \in DOMAIN P : RootOk(r.R[k], r.F, want[k])),
          Cl("distance-exact-on-perfect-squares", lens /\ \A k \in DOMAIN P : ExactRootOk(r.dint[k], want[k])),
          Cl("result-on-the-same-mask", r.cls = "Grid2D" => r.out_u = r.u),
          Cl("grid-unchanged", r.pure_ok) >>
WantSqDist(r) == IF IsPairs(r.pts) /\ Len(r.c) = 2 THEN SqDists(Pts(r.pts), Pt(r.c)) ELSE << >>

ClausesFurthest(r) ==
    IF ~ IsPairs(r.pts) THEN << Cl("record-well-formed", FALSE) >>
    ELSE
    LET P == Pts(r.pts)
        lens == Len(r.R) = Len(P) /\ Len(r.dint) = Len(P)
    IN IF Len(P) < 2 THEN << Cl("one-entry-per-coordinate", lens) >>     \* a single coordinate has no other: value not pinned
       ELSE LET want == Furthest2(P) IN
       IF ~ ScaleOk(r.F, MaxOf(want)) THEN << Cl("fixed-point-scale-in-range", FALSE) >>
       ELSE
       << Cl("one-entry-per-coordinate", lens),
          Cl("furthest-distance-to-another-entry", lens /\ \A k \in DOMAIN P : RootOk(r.R[k], r.F, want[k])),
          Cl("furthest-distance-exact-on-perfect-squares", lens /\ \A k \in DOMAIN P : ExactRootOk(r.dint[k], want[k])) >>
WantFurthest(r) == IF IsPairs(r.pts) /\ Len(r.pts) >= 2 THEN [squared |-> Furthest2(Pts(r.pts))] ELSE << >>

ClausesClosest(r) ==
    IF ~ (IsPairs(r.pts) /\ IsPairs(r.pair) /\ Len(r.pts) >= 1) THEN << Cl("record-well-formed", FALSE) >>
    ELSE
    LET P == Pts(r.pts)
        Q == Pts(r.pair)
        lens == Len(r.out) = Len(Q) /\ \A k \in DOMAIN r.out : Len(r.out[k]) = 2
    IN << Cl("one-entry-per-pair-coordinate", lens),
          Cl("entry-is-a-nearest-coordinate-of-the-grid", lens /\ \A k \in DOMAIN Q : Pt(r.out[k]) \in NearestPts(P, Q[k])),
          Cl("entry-is-a-grid-coordinate-bit-for-bit", r.bitwise) >>
WantClosest(r) ==
    IF IsPairs(r.pts) /\ IsPairs(r.pair) /\ Len(r.pts) >= 1
    THEN [any_of |-> [k \in DOMAIN r.pair |-> NearestPts(Pts(r.pts), Pt(r.pair[k]))]] ELSE << >>

\* ---- removal ---------------------------------------------------------------
RemoveOk(r) == IsPairs(r.pts) /\ IsPairs(r.cs) /\ Len(r.cs) >= 1 /\ r.dd2 % 2 = 1 /\ Len(r.pts) = Len(r.u) /\ Len(r.g) = 4
ClausesRemove(r) ==
    IF ~ RemoveOk(r) THEN << Cl("record-well-formed", FALSE) >>
    ELSE IF r.raised THEN << Cl("no-exception", FALSE) >>
    ELSE
    LET P == Pts(r.pts)
        C == Pts(r.cs)
        u == Un(r)
        cells == RemovedCells(u, P, r.h, r.w, C, r.dd2)
    IN << Cl("grid-is-the-pixel-centres-of-its-mask", r.valued \/ P = GridPts(u, r.h, r.w, r.g)),
          Cl("keeps-exactly-the-far-coordinates-in-order", SameSeq(r.out, Keep(P, C, r.dd2))),
          Cl("mask-unmasks-exactly-the-kept-pixels", r.out_u = SlimSrc(cells, r.h, r.w)),
          Cl("pixel-scales-and-origin-kept", r.out_g = r.g),
          Cl("grid-unchanged", r.pure_ok) >>
WantRemove(r) == IF RemoveOk(r) THEN [kept |-> Keep(Pts(r.pts), Pts(r.cs), r.dd2),
                                      kept_entries |-> KeepIdx(Pts(r.pts), Pts(r.cs), r.dd2)] ELSE << >>

\* ---- summaries -------------------------------------------------------------
ClausesSummary(r) ==
    IF ~ (IsPairs(r.pts) /\ Len(r.pts) >= 1) THEN << Cl("record-well-formed", FALSE) >>
    ELSE IF r.raised THEN << Cl("no-exception", FALSE) >>
    ELSE
    LET P == Pts(r.pts) IN
    << Cl("scaled-minima-coordinate-wise", r.minima = Minima(P)),
       Cl("scaled-maxima-coordinate-wise", r.maxima = Maxima(P)),
       Cl("interior-shape-is-maxima-minus-minima", r.interior = Interior(P)),
       Cl("extent-with-buffer", r.extb = ExtentBuf(P, r.b)),
       Cl("extent-with-default-buffer", r.extd = Extent(P) /\ r.extd_off = << -1, 1, -1, 1 >>),
       Cl("geometry-extent", r.cls = "Grid2D" \/ r.gext = Extent(P)),
       Cl("geometry-extremes", r.cls = "Grid2D" \/ (r.gmin = Minima(P) /\ r.gmax = Maxima(P))) >>
WantSummary(r) ==
    IF IsPairs(r.pts) /\ Len(r.pts) >= 1
    THEN [minima |-> Minima(Pts(r.pts)), maxima |-> Maxima(Pts(r.pts)), interior |-> Interior(Pts(r.pts)),
          extent_with_buffer |-> ExtentBuf(Pts(r.pts), r.b)]
    ELSE << >>
OneSided(P) == \/ \A k \in DOMAIN P : P[k][1] > 0
               \/ \A k \in DOMAIN P : P[k][1] < 0
               \/ \A k \in DOMAIN P : P[k][2] > 0
               \/ \A k \in DOMAIN P : P[k][2] < 0

\* ---- helpers that build grids ----------------------------------------------
ClausesPixels(r) ==
    IF ~ (IsPairs(r.pixels) /\ Len(r.g) = 4) THEN << Cl("record-well-formed", FALSE) >>
    ELSE << Cl("entry-k-is-the-centre-of-pixel-k", SameSeq(r.out, PixelsToPts(r.pixels, r.h, r.w, r.g))) >>
ClausesYX(r) ==
    IF Len(r.ys) # Len(r.xs) THEN << Cl("record-well-formed", FALSE) >>
    ELSE << Cl("entry-k-is-y-k-x-k", SameSeq(r.out, ZipYX(r.ys, r.xs))) >>
ClausesDeflect(r) ==
    IF ~ (IsPairs(r.pts) /\ IsPairs(r.defl) /\ Len(r.pts) = Len(r.defl)) THEN << Cl("record-well-formed", FALSE) >>
    ELSE << Cl("entry-k-minus-deflection-k", SameSeq(r.out, Deflected(Pts(r.pts), Pts(r.defl)))),
            Cl("class-and-pairing-kept", r.meta_out = r.meta_in),
            Cl("grid-unchanged", r.pure_ok) >>
UpscaleOk(r) == IsPairs(r.pts) /\ r.f >= 1 /\ Len(r.e) = 2 /\ r.e[1] >= 1 /\ r.e[2] >= 1
ClausesUpscale(r) ==
    IF ~ UpscaleOk(r) THEN << Cl("record-well-formed", FALSE) >>
    ELSE << Cl("sub-pixel-centres-of-entry-k-in-order", SameSeq(r.out, Upscaled(Pts(r.pts), r.f, Pt(r.e)))),
            Cl("pixel-scales-divided-by-the-factor", r.ps_out = << 2 * r.e[1], 2 * r.e[2] >>),
            Cl("shape-native-kept", r.meta_out = r.meta_in) >>
ClausesGridFrom(r) ==
    IF ~ IsPairs(r.pts) THEN << Cl("record-well-formed", FALSE) >>
    ELSE << Cl("holds-the-given-entries-in-the-given-order", SameSeq(r.out, Pts(r.pts))),
            Cl("pixel-scales-and-shape-kept", r.meta_out = r.meta_in) >>

\* ---- signatures of the failing call site / input class (used to match known findings) ----
Sig(r) ==
    CASE r.api = "remove" -> "remove-" \o r.cls \o (IF r.valued THEN "-values-off-pixel-centres" ELSE "-pixel-centres")
                                        \o (IF r.stored = "native" THEN "-native-stored" ELSE "")
      [] r.api = "summary" -> "summary-" \o r.cls \o "-" \o r.stored
                                        \o (IF IsPairs(r.pts) /\ Len(r.pts) >= 1 /\ OneSided(Pts(r.pts)) /\ r.stored # "native"
                                            THEN "-one-side-of-zero" ELSE "")
      [] r.api \in {"sqdist", "deflect"} -> r.api \o "-" \o r.cls
      [] r.api = "container" -> "container-" \o r.cls \o "-" \o r.form
      [] OTHER -> r.api

Clauses(r) == CASE r.api = "container" -> ClausesContainer(r)
                [] r.api = "values" -> ClausesValues(r)
                [] r.api = "sqdist" -> ClausesSqDist(r)
                [] r.api = "furthest" -> ClausesFurthest(r)
                [] r.api = "closest" -> ClausesClosest(r)
                [] r.api = "remove" -> ClausesRemove(r)
                [] r.api = "summary" -> ClausesSummary(r)
                [] r.api = "pixels" -> ClausesPixels(r)
                [] r.api = "yx1d" -> ClausesYX(r)
                [] r.api = "deflect" -> ClausesDeflect(r)
                [] r.api = "upscale" -> ClausesUpscale(r)
                [] r.api = "gridfrom" -> ClausesGridFrom(r)
                [] OTHER -> << Cl("unknown-api", FALSE) >>
Want(r) == CASE r.api = "container" -> WantContainer(r)
             [] r.api = "sqdist" -> WantSqDist(r)
             [] r.api = "furthest" -> WantFurthest(r)
             [] r.api = "closest" -> WantClosest(r)
             [] r.api = "remove" -> WantRemove(r)
             [] r.api = "summary" -> WantSummary(r)
             [] r.api = "pixels" /\ IsPairs(r.pixels) /\ Len(r.g) = 4 -> PixelsToPts(r.pixels, r.h, r.w, r.g)
             [] r.api = "deflect" /\ IsPairs(r.pts) /\ IsPairs(r.defl) /\ Len(r.pts) = Len(r.defl) -> Deflected(Pts(r.pts), Pts(r.defl))
             [] r.api = "upscale" /\ UpscaleOk(r) -> Upscaled(Pts(r.pts), r.f, Pt(r.e))
             [] OTHER -> << >>
Failed(r) == SelectSeq(Clauses(r), LAMBDA c : ~ c.ok)

TraceInit == /\ i = 1
             /\ shape = << 1, 1 >> /\ U = {} /\ phase = "trace" /\ obs = << >>
             /\ pts = << >> /\ geom = << >> /\ arg = << >>

TraceNext ==
    /\ i <= Len(Trace)
    /\ LET r == Trace[i]
           f == Failed(r)
       IN IF f = << >> THEN TRUE
          ELSE PrintT(ToJson([k |-> "reject", i |-> i, id |-> r.id,
                              clauses |-> [j \in DOMAIN f |-> f[j].n],
                              sig |-> Sig(r), want |-> Want(r)]))
    /\ i' = i + 1
    /\ UNCHANGED ivars

TraceSpec == TraceInit /\ [][TraceNext]_<< ivars, i >>
TraceAccepted == TLCGet("stats").diameter - 1 = Len(Trace)
=============================================================================
