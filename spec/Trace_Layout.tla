---------------------------- MODULE Trace_Layout ----------------------------
(***************************************************************************)
(* Validation of recorded executions of the real layout code against       *)
(* Layout.tla (C19).  One record per exercised call group:                 *)
(*   rot     array + region rotation for a read-out corner (layout_util,   *)
(*           Array2D.original_orientation, Layout2D), commutation with     *)
(*           slicing, involution                                           *)
(*   slices  Region2D / Region1D .slice & friends, Layout extract_* calls  *)
(*   ext1    x0x1_after_extraction                                         *)
(*   ext2    region_after_extraction / Layout2D.layout_extracted_from      *)
(*   sub1    Region1D front / trailing sub-regions                         *)
(*   sub2    Region2D parallel / serial front / trailing sub-regions       *)
(*   ctor    Region1D / Region2D validation                                *)
(*   moo     rotation of a MASKED Array2D: Array2D.original_orientation /   *)
(*           Layout2D.original_orientation_from, slim- or native-stored    *)
(*   hist    a history of Layout2D objects: built (plainly or through      *)
(*           rotated_from_roe_corner), then new_rotated_from /             *)
(*           layout_extracted_from steps; the record carries the whole     *)
(*           history and what was observed after its LAST step (every      *)
(*           prefix of a history is a record of its own)                   *)
(* Arrays are recorded as rows of source tags (cell of the original frame, *)
(* -2 = not a known tag); "no region" / "raised" as the empty tuple.       *)
(* Verdicts are total: every record is judged, a rejected record is        *)
(* printed with the failing clauses, its input-class signature and the     *)
(* value the specification wanted.                                         *)
(***************************************************************************)
EXTENDS Layout, IOUtils

Trace == JsonDeserialize(IOEnv.TRACE_FILE)

VARIABLE i

Cl(n, b) == [n |-> n, ok |-> b]
T2(s) == << s[1], s[2] >>
AllEq(seq, v) == \A k \in DOMAIN seq : seq[k] = v

\* ---- rotation -------------------------------------------------------------
ClausesRot(r) ==
    LET sh == << r.h, r.w >>
        c  == T2(r.c)
        A  == Ident(r.h, r.w)
        wa == RotArray(c, A)
        wr == RotRegion(c, sh, r.r)
    IN << Cl("array-rotation", r.arot = wa),
          Cl("array-rotation-original-orientation", r.arot_oo = wa),
          Cl("array-rotation-layout", r.arot_lay = wa),
          Cl("region-rotation", r.rrot = wr),
          Cl("region-rotation-layout-from-corner", Len(r.rrot_lay) = 3 /\ AllEq(r.rrot_lay, wr)),
          Cl("region-rotation-layout-new-rotated", Len(r.rrot_new) = 3 /\ AllEq(r.rrot_new, wr)),
          Cl("commute-slice-of-rotated", r.srot = RotArray(c, Slice(A, r.r))),
          Cl("involution-array", r.arot2 = A),
          Cl("involution-region", r.rrot2 = r.r),
          Cl("payload-independent", r.payload_ok) >>
WantRot(r) == [arot |-> RotArray(T2(r.c), Ident(r.h, r.w)), rrot |-> RotRegion(T2(r.c), << r.h, r.w >>, r.r),
               srot |-> RotArray(T2(r.c), Slice(Ident(r.h, r.w), r.r))]

\* ---- slicing --------------------------------------------------------------
ClausesSlices(r) ==
    LET A  == Ident(r.h, r.w)
        ws == Slice(A, r.r)
        p  == << r.r[3], r.r[4] >>
    IN << Cl("region2d-slice", r.s2 = ws),
          Cl("region2d-y-slice", r.ys = Slice(A, << r.r[1], r.r[2], 0, r.w >>)),
          Cl("region2d-x-slice", r.xs = Slice(A, << 0, r.h, r.r[3], r.r[4] >>)),
          Cl("region2d-shape", r.shape = << r.r[2] - r.r[1], r.r[4] - r.r[3] >>),
          Cl("layout-extract-parallel-overscan", r.po = ws),
          Cl("layout-extract-serial-overscan", r.so = ws),
          Cl("region1d-slice", r.s1 = Slice1(A[1], p)),
          Cl("layout1d-extract-overscan", r.ov1 = Slice1(A[1], p)),
          Cl("region1d-total-pixels", r.tp = p[2] - p[1]),
          Cl("payload-independent", r.payload_ok) >>
WantSlices(r) == [s2 |-> Slice(Ident(r.h, r.w), r.r), s1 |-> Slice1(Ident(r.h, r.w)[1], << r.r[3], r.r[4] >>)]

\* ---- extraction -----------------------------------------------------------
ClausesExt1(r) == << Cl("interval-after-extraction-is-overlap", r.out = Overlap1(r.o, r.e)) >>
ClausesExt2(r) ==
    LET want == AfterExtraction(r.o, r.e)
        A == Ident(r.h, r.w)
    IN << Cl("region-after-extraction-is-overlap", r.out = want),
          Cl("layout-extracted-from", Len(r.lay) = 3 /\ AllEq(r.lay, want)),
          Cl("addresses-overlap-inside-window",
             r.content = IF want = Absent THEN << >> ELSE Slice(A, BoxOf(OverlapCells(r.o, r.e)))) >>
WantExt2(r) == [out |-> AfterExtraction(r.o, r.e)]

\* ---- sub-regions ----------------------------------------------------------
ClausesSub1(r) ==
    LET want == Sub1(ModeOf(r.m), r.r, r.px)
    IN << Cl("sub-region-1d", r.out = want),
          Cl("sub-region-1d-rejected-iff-invalid", r.raised <=> want = Rejected),
          Cl("sub-region-1d-content",
             want # Rejected /\ want[2] <= r.n => r.content = Slice1(Ident(1, r.n)[1], want)) >>
ClausesSub2(r) ==
    LET want == Sub2(r.m, r.r, r.px)
    IN << Cl("sub-region-2d", r.out = want),
          Cl("sub-region-2d-rejected-iff-invalid", r.raised <=> want = Rejected),
          Cl("sub-region-2d-content",
             want # Rejected /\ want[2] <= r.h /\ want[4] <= r.w => r.content = Slice(Ident(r.h, r.w), want)) >>

\* ---- constructors ---------------------------------------------------------
ClausesCtor(r) ==
    << Cl("invalid-region-rejected", (IF r.dim = 1 THEN Invalid1(r.r) ELSE Invalid2(r.r)) => r.raised),
       Cl("valid-region-accepted", (IF r.dim = 1 THEN Valid1(r.r) ELSE Valid2(r.r)) => ~ r.raised),
       Cl("accepted-region-keeps-coordinates", ~ r.raised => r.kept = r.r) >>

\* ---- masked arrays -----------------------------------------------------------
\* r.u: bitmap of the unmasked cells; r.entry: which call; r.stored: "native" / "slim" storage of the input;
\* r.raised; r.dim: 2 (rows in r.vals; an Array2D result is read through its native view) or 1 (r.vals = << slim >>);
\* r.hasmask / r.umask: the mask the result carries; r.twice: the call applied to its own result (2D results).
\* A slim-stored input for which the call raises is not judged (the call hands the stored 1D values to a function
\* documented for 2D arrays); whatever it returns is judged.
ClausesMoo(r) ==
    LET U == UnmaskedOf(r.u, r.w)
        c == T2(r.c)
        want == RotMasked(c, r.h, r.w, U)
    IN IF r.raised THEN << Cl("masked-rotation-of-native-stored-input-raised", r.stored = "slim") >>
       ELSE << Cl("masked-rotation-content",
                  IF r.dim = 2 THEN r.vals = want ELSE r.dim = 1 /\ Len(r.vals) = 1 /\ r.vals[1] = SlimOf(want)),
               Cl("masked-rotation-carried-mask-is-rotated",
                  r.hasmask => r.umask = BitmapOf(RotUnmasked(c, r.h, r.w, U), r.h, r.w)),
               Cl("masked-rotation-twice-restores", r.dim = 2 => r.twice = MaskedIdent(r.h, r.w, U)),
               Cl("payload-independent", r.payload_ok) >>
WantMoo(r) == [vals |-> RotMasked(T2(r.c), r.h, r.w, UnmaskedOf(r.u, r.w)),
               umask |-> BitmapOf(RotUnmasked(T2(r.c), r.h, r.w, UnmaskedOf(r.u, r.w)), r.h, r.w)]
\* a result that is exactly "the rotated content wrapped with the un-rotated mask" (for a mask that is not
\* symmetric under the flips) is classified as such, per entry point; anything else by storage and corner
MooSig(r) ==
    LET U == UnmaskedOf(r.u, r.w)
        c == T2(r.c)
        stale == /\ ~ r.raised /\ r.dim = 2 /\ r.hasmask
                 /\ r.umask = r.u
                 /\ RotUnmasked(c, r.h, r.w, U) # U
                 /\ r.vals = ApplyMask(RotMasked(c, r.h, r.w, U), U)
    IN "moo:" \o r.entry \o (IF stale THEN ":result-carries-unrotated-mask"
                              ELSE ":" \o r.stored \o ":corner" \o ToString(r.c[1]) \o ToString(r.c[2]))

\* ---- layout histories -----------------------------------------------------
\* r.regs: the three slots given to the constructor; r.steps: [op, c, e] records; observed after the last step:
\* r.out (the three slots), r.arr (the array taken through the same history with layout_util / Region2D.slice),
\* r.cont (what every slot slices from that array, << >> for an absent slot)
HistWellFormed(r) == Len(r.regs) = 3 /\ Len(r.steps) >= 1 /\ r.steps[1].op \in {"build", "buildrot"}
                     /\ \A k \in 2 .. Len(r.steps) : r.steps[k].op \in {"rot", "ext"}
HistRun(r, stale) == RunHist(<< r.h, r.w >>, r.regs, r.steps, stale)
ClausesHist(r) ==
    IF ~ HistWellFormed(r) THEN << Cl("layout-history-malformed", FALSE) >>
    ELSE LET L == HistRun(r, FALSE)
         IN << Cl("layout-history-regions", Len(r.out) = 3 /\ \A k \in 1 .. 3 : r.out[k] = L.regs[k]),
               Cl("layout-history-array", r.arr = L.arr),
               Cl("layout-history-regions-index-array",
                  Len(r.cont) = 3 /\ \A k \in 1 .. 3 :
                      r.cont[k] = IF L.regs[k] = Absent THEN << >> ELSE Slice(L.arr, L.regs[k])) >>
WantHist(r) == IF ~ HistWellFormed(r) THEN << >>
               ELSE LET L == HistRun(r, FALSE) IN [regs |-> L.regs, sh |-> L.sh]
\* input class of a failing history.  A history whose observation is exactly what the code-shaped formulation
\* (extraction keeps the old shape_2d) predicts, and differs from the specification only for that reason, is
\* classified as such; anything else by its last two steps.
HistSig(r) ==
    IF ~ HistWellFormed(r) THEN "hist:malformed"
    ELSE LET L  == HistRun(r, FALSE)
             Ls == HistRun(r, TRUE)
             n  == Len(r.steps)
         IN IF /\ \E k \in 1 .. 3 : Ls.regs[k] # L.regs[k]
               /\ Len(r.out) = 3 /\ \A k \in 1 .. 3 : r.out[k] = Ls.regs[k]
               /\ r.arr = L.arr
            THEN "hist:rotate-after-extract:stale-shape_2d"
            ELSE "hist:" \o (IF n >= 2 THEN r.steps[n-1].op \o "-" ELSE "") \o r.steps[n].op \o
                 (IF n >= 2 /\ IsRotStep(r.steps[n]) /\ IsRotStep(r.steps[n-1])
                  THEN (IF r.steps[n].c = r.steps[n-1].c THEN ":same-corner" ELSE ":mixed-corners") ELSE "")

Clauses(r) ==
    CASE r.api = "rot" -> ClausesRot(r)
      [] r.api = "slices" -> ClausesSlices(r)
      [] r.api = "ext1" -> ClausesExt1(r)
      [] r.api = "ext2" -> ClausesExt2(r)
      [] r.api = "sub1" -> ClausesSub1(r)
      [] r.api = "sub2" -> ClausesSub2(r)
      [] r.api = "ctor" -> ClausesCtor(r)
      [] r.api = "hist" -> ClausesHist(r)
      [] r.api = "moo" -> ClausesMoo(r)
      [] OTHER -> << Cl("unknown-api", FALSE) >>

Want(r) ==
    CASE r.api = "rot" -> WantRot(r)
      [] r.api = "slices" -> WantSlices(r)
      [] r.api = "ext1" -> [out |-> Overlap1(r.o, r.e)]
      [] r.api = "ext2" -> WantExt2(r)
      [] r.api = "sub1" -> [out |-> Sub1(ModeOf(r.m), r.r, r.px)]
      [] r.api = "sub2" -> [out |-> Sub2(r.m, r.r, r.px)]
      [] r.api = "ctor" -> [rejected |-> IF r.dim = 1 THEN Invalid1(r.r) ELSE Invalid2(r.r)]
      [] r.api = "hist" -> WantHist(r)
      [] r.api = "moo" -> WantMoo(r)
      [] OTHER -> << >>

\* signature of the failing input class (used to match known findings)
CtorClass(r) == IF \E k \in DOMAIN r.r : r.r[k] < 0 THEN "negative"
                ELSE IF (r.dim = 1 /\ Invalid1(r.r)) \/ (r.dim = 2 /\ Invalid2(r.r)) THEN "empty" ELSE "valid"
Sig(r) ==
    CASE r.api = "rot" -> "rot:corner" \o ToString(r.c[1]) \o ToString(r.c[2]) \o
                          (IF r.h = r.w THEN ":square" ELSE ":nonsquare")
      [] r.api = "ext1" -> "ext1:" \o IvClass(r.o, r.e)
      [] r.api = "ext2" -> "ext2:" \o IvClass(<< r.o[1], r.o[2] >>, << r.e[1], r.e[2] >>) \o "/" \o
                           IvClass(<< r.o[3], r.o[4] >>, << r.e[3], r.e[4] >>)
      [] r.api \in {"sub1", "sub2"} -> r.api \o ":" \o r.m \o (IF Len(r.px) = 2 /\ r.px[1] >= r.px[2] THEN ":empty-range" ELSE "")
      [] r.api = "ctor" -> "ctor" \o ToString(r.dim) \o ":" \o CtorClass(r)
      [] r.api = "hist" -> HistSig(r)
      [] r.api = "moo" -> MooSig(r)
      [] OTHER -> r.api

Failed(r) == SelectSeq(Clauses(r), LAMBDA c : ~ c.ok)

TraceInit == /\ i = 1
             /\ kind = "trace" /\ inp = Blank /\ phase = "trace" /\ obs = << >> /\ hist = << >> /\ lay = << >>

TraceNext ==
    /\ i <= Len(Trace)
    /\ LET r == Trace[i]
           f == Failed(r)
       IN IF f = << >> THEN TRUE
          ELSE PrintT(ToJson([k |-> "reject", i |-> i, id |-> r.id,
                              clauses |-> [j \in DOMAIN f |-> f[j].n],
                              sig |-> Sig(r), want |-> Want(r)]))
    /\ i' = i + 1
    /\ UNCHANGED vars

TraceSpec == TraceInit /\ [][TraceNext]_<< vars, i >>
TraceAccepted == TLCGet("stats").diameter - 1 = Len(Trace)
=============================================================================
