--------------------------- MODULE Regularization ---------------------------
(***************************************************************************)
(* C07: regularization matrices of PyAutoArray are symmetric, positive     *)
(* semi-definite, of the size of the linear object's parameter count, have *)
(* the stated quadratic form, and are placed block-wise in object order.   *)
(*                                                                         *)
(* Exact domain.  A matrix is a pair (Q, R) of integer matrices standing   *)
(* for  H = u * Q + rho * R,  u a known positive unit (1/4 for the         *)
(* constant schemes with dyadic coefficients, 1 for integer weights) and   *)
(* rho = 1e-8 the documented ridge.  Because 0 < rho * |r| << u for every  *)
(* r that occurs (|r| < 2.5e7), the sign of a value u*q + rho*r is the     *)
(* lexicographic sign of (q, r): everything is decided on integers.        *)
(*                                                                         *)
(* Layer 1 (meaning).  A neighbour table N (N[i] = sequence of neighbours  *)
(* of pixel i, 1-based) induces the set Pairs(N) of neighbouring pixel     *)
(* pairs.  The statement gives QUADRATIC FORMS:                            *)
(*   constant        x'Hx = c^2 * SUM_pairs (x_i - x_j)^2 + rho |x|^2      *)
(*   adaptive        x'Hx = SUM_pairs (w_i^2 + w_j^2)(x_i - x_j)^2 + rho|x|^2 *)
(* and the documentation gives MATRICES (Lap(N)[i,i] = #neighbours,        *)
(* Lap(N)[i,j] = -[i,j neighbours]; Constant = c^2 Lap + rho I; ...).  A   *)
(* quadratic form is determined by its values on e_i and e_i + e_j         *)
(* (polarisation), so "has the stated form" is EQUIVALENT to entry-wise    *)
(* equality with these matrices: invariant FormDeterminesMatrix.           *)
(*                                                                         *)
(* PSD: every form above is a sum of squares with non-negative weights     *)
(* plus rho |x|^2, hence >= 0, and > 0 for x # 0 when the ridge part is    *)
(* the identity (strictly positive definite).  TLC re-checks this on all   *)
(* x in {-1,0,1}^n for n <= MaxTernary and by exact integer determinants   *)
(* (all principal minors of Q >= 0, ridge = I; or Sylvester on Q) n <= 4.  *)
(*                                                                         *)
(* Second formulation (structured like the code): the accumulation loops   *)
(* over the neighbour table (one-sided for the constant schemes, two-sided *)
(* for the weighted scheme), the split-cross double loop with the halved   *)
(* diagonal, and np.delete-style reduction of the block-diagonal matrix.   *)
(* Invariants say both formulations agree.                                 *)
(*                                                                         *)
(* Layer 2: Init picks an instance (mesh x scheme x coefficients, a        *)
(* split-cross instance, or an object list); Assemble evaluates the        *)
(* code-structured formulation and dumps the instance.                     *)
(* Layer 3: the named invariants at the end.                               *)
(***************************************************************************)
EXTENDS Integers, Sequences, FiniteSets, TLC, Json, FiniteSetsExt, SequencesExt, Folds

CONSTANTS RectShapes,  \* set of <<h, w>>: rectangular meshes (the module defines their 4-connectivity itself)
          Graphs,      \* sequence of neighbour tables (a family of Delaunay neighbour graphs)
          C2Q,         \* set of coefficient^2 values in the unit u = 1/4  (c in {1/2,1,2,3} -> {1,4,16,36})
          ZerothSet,   \* constant-zeroth instances take EVERY pair <<c2q, czq>> of this set (equal values included)
          WeightSet,   \* exact adaptive instances take EVERY pair <<inner, outer>> of this set of integers (equal values included)
          Patterns,    \* set of pattern ids selecting the bright pixels of the exact adaptive instances
          Splits,      \* sequence of split-cross instances [n, T, om, rows] with integer interpolation weights (unit 1/T)
          ObjKinds,    \* set of <<p, reg>>: parameter count and has-regularization flag of a linear object
          MaxObjs,     \* object lists of length 1 .. MaxObjs
          Stages,      \* inversion-level histories after which the matrices of an inversion are read (see HistRead)
          StageMaxObjs, \* every history of Stages is enumerated for the object lists of length 1 .. StageMaxObjs ...
          StageKinds,  \* ... over these object kinds (a subset of ObjKinds)
          MaxTernary   \* forms are evaluated on all x in {-1,0,1}^n for n <= MaxTernary

SumOver(S, f(_)) == FoldSet(LAMBDA x, acc : acc + f(x), 0, S)
Abs(a) == IF a < 0 THEN -a ELSE a

-----------------------------------------------------------------------------
(* small integer matrices: M[i][j], i, j in 1 .. n *)
Mat(n, f(_, _)) == [i \in 1 .. n |-> [j \in 1 .. n |-> f(i, j)]]
Zero(n) == Mat(n, LAMBDA i, j : 0)
Ident(n) == Mat(n, LAMBDA i, j : IF i = j THEN 1 ELSE 0)
IsSquare(M, n) == Len(M) = n /\ \A i \in 1 .. n : Len(M[i]) = n
IsSym(M, n) == \A i, j \in 1 .. n : M[i][j] = M[j][i]
QF(M, x, n) == SumOver(1 .. n, LAMBDA i : x[i] * SumOver(1 .. n, LAMBDA j : M[i][j] * x[j]))
Unit(n, a) == [k \in 1 .. n |-> IF k = a THEN 1 ELSE 0]
Unit2(n, a, b) == [k \in 1 .. n |-> IF k = a \/ k = b THEN 1 ELSE 0]
Ternary(n) == [1 .. n -> {-1, 0, 1}]

\* exact determinant by Laplace expansion (n <= 4; the drivers keep the entries small enough for 32-bit integers)
RECURSIVE Det(_, _)
Det(M, k) ==
  IF k = 0 THEN 1
  ELSE IF k = 1 THEN M[1][1]
  ELSE LET Minor(c) == [i \in 1 .. k-1 |-> [j \in 1 .. k-1 |-> M[i+1][IF j < c THEN j ELSE j+1]]]
       IN SumOver(1 .. k, LAMBDA c : (IF c % 2 = 1 THEN 1 ELSE -1) * M[1][c] * Det(Minor(c), k-1))
Sub(M, idx) == [i \in 1 .. Len(idx) |-> [j \in 1 .. Len(idx) |-> M[idx[i]][idx[j]]]]
\* Sylvester's criterion: all leading principal minors positive  <=>  symmetric M is positive definite
Sylvester(M, n) == \A k \in 1 .. n : Det(Sub(M, [i \in 1 .. k |-> i]), k) > 0
\* all principal minors non-negative  <=>  symmetric M is positive semi-definite
AllPrincipalNonNeg(M, n) ==
  \A S \in (SUBSET (1 .. n)) \ {{}} : LET idx == SetToSortSeq(S, <) IN Det(Sub(M, idx), Len(idx)) >= 0
\* H = u*Q + rho*R is strictly positive definite if Q is PD and R is 0 or I, or Q is PSD and R = I  (u, rho > 0)
StrictlyPD(Q, R, n) ==
  /\ IsSym(Q, n)
  /\ \/ Sylvester(Q, n) /\ R \in {Zero(n), Ident(n)}
     \/ AllPrincipalNonNeg(Q, n) /\ R = Ident(n)
\* lexicographic sign of u*q + rho*r
NonNeg(q, r) == q > 0 \/ (q = 0 /\ r >= 0)
Pos(q, r) == q > 0 \/ (q = 0 /\ r > 0)

-----------------------------------------------------------------------------
(* Layer 1: meaning *)

\* neighbour tables
NSet(N, i) == { N[i][k] : k \in DOMAIN N[i] }
Adj(N, i, j) == i # j /\ (j \in NSet(N, i) \/ i \in NSet(N, j))
\* ({ p : p \in .. } makes TLC enumerate the set once instead of re-evaluating the predicate at every use)
Pairs(N) == { p : p \in { q \in (1 .. Len(N)) \X (1 .. Len(N)) : q[1] < q[2] /\ Adj(N, q[1], q[2]) } }
PairsAt(P, i) == { p \in P : p[1] = i \/ p[2] = i }
IsPair(P, i, j) == << i, j >> \in P \/ << j, i >> \in P
\* a well-formed table lists every neighbouring pair from both sides, once, and no pixel as its own neighbour
TableOk(N) ==
  \A i \in 1 .. Len(N) : /\ \A k \in DOMAIN N[i] : N[i][k] \in (1 .. Len(N)) \ {i}
                         /\ Cardinality(NSet(N, i)) = Len(N[i])
                         /\ \A j \in NSet(N, i) : i \in NSet(N, j)

\* 4-connectivity of an h x w rectangular mesh, pixels numbered row-major from the top-left, 1-based
Rect4(h, w) ==
  [p \in 1 .. h*w |->
     LET a == (p-1) \div w
         b == (p-1) % w
         cand == << <<a-1, b>>, <<a, b-1>>, <<a, b+1>>, <<a+1, b>> >>
         ok == SelectSeq(cand, LAMBDA c : c[1] >= 0 /\ c[1] < h /\ c[2] >= 0 /\ c[2] < w)
     IN [k \in 1 .. Len(ok) |-> ok[k][1] * w + ok[k][2] + 1]]

\* ---- the quadratic forms of the statement: <<coefficient part, ridge part>> of x'Hx ----
Diff2(P, wt(_), x) == SumOver(P, LAMBDA p : wt(p) * (x[p[1]] - x[p[2]]) * (x[p[1]] - x[p[2]]))
Norm2(x, n) == SumOver(1 .. n, LAMBDA i : x[i] * x[i])
\* pr = [c2q, czq, w2]: coefficient^2, zeroth coefficient^2 (unit u) and w2[i] = (reported weight of pixel i)^2
FormQ(s, P, n, pr, x) ==
  CASE s = "constant" -> Diff2(P, LAMBDA p : pr.c2q, x)
    [] s = "constant_zeroth" -> Diff2(P, LAMBDA p : pr.c2q, x) + pr.czq * Norm2(x, n)
    [] s = "zeroth" -> pr.c2q * Norm2(x, n)
    [] s = "adaptive" -> Diff2(P, LAMBDA p : pr.w2[p[1]] + pr.w2[p[2]], x)
    [] s = "brightness_zeroth" -> SumOver(1 .. n, LAMBDA i : pr.w2[i] * x[i] * x[i])
HasRidge(s) == s \in {"constant", "constant_zeroth", "adaptive"}
FormR(s, n, x) == IF HasRidge(s) THEN Norm2(x, n) ELSE 0

\* ---- the documented matrices ----
LapE(P, i, j) == IF i = j THEN Cardinality(PairsAt(P, i)) ELSE IF IsPair(P, i, j) THEN -1 ELSE 0
AdaE(P, w2, i, j) ==
  IF i = j THEN SumOver(PairsAt(P, i), LAMBDA p : w2[p[1]] + w2[p[2]])
  ELSE IF IsPair(P, i, j) THEN -(w2[i] + w2[j]) ELSE 0
WantQ(s, P, n, pr) ==
  CASE s = "constant" -> Mat(n, LAMBDA i, j : pr.c2q * LapE(P, i, j))
    [] s = "constant_zeroth" -> Mat(n, LAMBDA i, j : pr.c2q * LapE(P, i, j) + (IF i = j THEN pr.czq ELSE 0))
    [] s = "zeroth" -> Mat(n, LAMBDA i, j : IF i = j THEN pr.c2q ELSE 0)
    [] s = "adaptive" -> Mat(n, LAMBDA i, j : AdaE(P, pr.w2, i, j))
    [] s = "brightness_zeroth" -> Mat(n, LAMBDA i, j : IF i = j THEN pr.w2[i] ELSE 0)
WantR(s, n) == IF HasRidge(s) THEN Ident(n) ELSE Zero(n)

\* ---- split-cross: every pixel has four cross points; cross point k of pixel rows[k].pix is interpolated from
\* pixels rows[k].map with weights rows[k].wt / T.  r_k = T*e_pix - SUM_l wt[l] e_map[l]  (unit 1/T),
\* H = SUM_k om[pix_k] r_k r_k' / T^2 + rho I,  om = squared regularization weight of the pixel.
RVec(row, T, a) == (IF row.pix = a THEN T ELSE 0)
                   - SumOver({l \in DOMAIN row.map : row.map[l] = a}, LAMBDA l : row.wt[l])
SplitQ(n, T, om, rows) ==
  Mat(n, LAMBDA a, b : SumOver(DOMAIN rows, LAMBDA k : om[rows[k].pix] * RVec(rows[k], T, a) * RVec(rows[k], T, b)))
SplitForm(n, T, om, rows, x) ==
  SumOver(DOMAIN rows, LAMBDA k :
     LET d == SumOver(1 .. n, LAMBDA a : RVec(rows[k], T, a) * x[a]) IN om[rows[k].pix] * d * d)

\* ---- blocks: object o has p[o] parameters and its own matrix own[o]; blocks follow the object order ----
RECURSIVE Off(_, _)
Off(ps, o) == IF o = 1 THEN 0 ELSE Off(ps, o-1) + ps[o-1]
Total(ps) == IF Len(ps) = 0 THEN 0 ELSE Off(ps, Len(ps)) + ps[Len(ps)]
ObjOf(ps, c) == CHOOSE o \in 1 .. Len(ps) : c > Off(ps, o) /\ c <= Off(ps, o) + ps[o]
Offs(ps) == [o \in 1 .. Len(ps) |-> Off(ps, o)]
Owner(ps) == LET offs == Offs(ps)
             IN [c \in 1 .. Total(ps) |-> CHOOSE o \in 1 .. Len(ps) : c > offs[o] /\ c <= offs[o] + ps[o]]
BlockDiag(owns, ps) ==
  LET offs == Offs(ps)
      own == Owner(ps)
  IN Mat(Total(ps), LAMBDA a, b : IF own[a] = own[b] THEN owns[own[a]][a - offs[own[a]]][b - offs[own[a]]] ELSE 0)
\* the reduced matrix: the blocks of the regularised objects only, in object order
Keep(seq, flags) == LET idx == SelectSeq([k \in 1 .. Len(seq) |-> k], LAMBDA k : flags[k])
                    IN [k \in 1 .. Len(idx) |-> seq[idx[k]]]
ReducedDef(owns, ps, regs) == BlockDiag(Keep(owns, regs), Keep(ps, regs))

-----------------------------------------------------------------------------
(* second formulation, structured like the code *)

\* the loop "for i: for k < sizes[i]: j = neighbors[i, k]" flattened into its sequence of <<i, j>> visits
RECURSIVE Visits(_, _)
Visits(N, i) == IF i > Len(N) THEN << >> ELSE [k \in 1 .. Len(N[i]) |-> << i, N[i][k] >>] \o Visits(N, i+1)

\* constant_regularization_matrix_from: M[i,i] += c; M[i,j] -= c  (one-sided: relies on the table listing both sides)
RECURSIVE AsmConst(_, _, _, _)
AsmConst(M, vs, k, c) ==
  IF k > Len(vs) THEN M
  ELSE LET a == vs[k][1] b == vs[k][2]
           M1 == [M EXCEPT ![a][a] = @ + c]
       IN AsmConst([M1 EXCEPT ![a][b] = @ - c], vs, k+1, c)
\* weighted_regularization_matrix_from: M[i,i] += w2[j]; M[j,j] += w2[j]; M[i,j] -= w2[j]; M[j,i] -= w2[j]
RECURSIVE AsmWeighted(_, _, _, _)
AsmWeighted(M, vs, k, w2) ==
  IF k > Len(vs) THEN M
  ELSE LET a == vs[k][1] b == vs[k][2]
           M1 == [M EXCEPT ![a][a] = @ + w2[b]]
           M2 == [M1 EXCEPT ![b][b] = @ + w2[b]]
           M3 == [M2 EXCEPT ![a][b] = @ - w2[b]]
       IN AsmWeighted([M3 EXCEPT ![b][a] = @ - w2[b]], vs, k+1, w2)
Diag(n, d(_)) == Mat(n, LAMBDA i, j : IF i = j THEN d(i) ELSE 0)

AsmQ(s, N, n, pr) ==
  CASE s = "constant" -> AsmConst(Zero(n), Visits(N, 1), 1, pr.c2q)
    [] s = "constant_zeroth" -> AsmConst(Diag(n, LAMBDA i : pr.czq), Visits(N, 1), 1, pr.c2q)
    [] s = "zeroth" -> Diag(n, LAMBDA i : pr.c2q)
    [] s = "adaptive" -> AsmWeighted(Zero(n), Visits(N, 1), 1, pr.w2)
    [] s = "brightness_zeroth" -> Diag(n, LAMBDA i : pr.w2[i])

\* reg_split_from: weights are negated, the pixel itself gets +1 (appended when it is not among the interpolation pixels)
RegSplit(row, T) ==
  LET neg == [l \in DOMAIN row.wt |-> -row.wt[l]]
  IN IF \E l \in DOMAIN row.map : row.map[l] = row.pix
     THEN [pix |-> row.pix, map |-> row.map, wt |-> [l \in DOMAIN neg |-> IF row.map[l] = row.pix THEN neg[l] + T ELSE neg[l]]]
     ELSE [pix |-> row.pix, map |-> Append(row.map, row.pix), wt |-> Append(neg, T)]
\* pixel_splitted_regularization_matrix_from: for l, for m >= 0: M[map l, map l+m] += .., M[map l+m, map l] += ..; diag halved.
\* the ridge enters as 2 on the diagonal before the halving; here the two parts are kept apart
LMPairs(sz) == { lm \in (1 .. sz) \X (0 .. sz - 1) : lm[1] + lm[2] <= sz }
RECURSIVE AsmSplitRow(_, _, _, _)
AsmSplitRow(M, row, todo, om) ==
  IF todo = {} THEN M
  ELSE LET lm == CHOOSE z \in todo : TRUE
           a == row.map[lm[1]]
           b == row.map[lm[1] + lm[2]]
           v == row.wt[lm[1]] * row.wt[lm[1] + lm[2]] * om
           M1 == [M EXCEPT ![a][b] = @ + v]
       IN AsmSplitRow([M1 EXCEPT ![b][a] = @ + v], row, todo \ {lm}, om)
RECURSIVE AsmSplitRows(_, _, _, _, _)
AsmSplitRows(M, rows, k, T, om) ==
  IF k > Len(rows) THEN M
  ELSE LET row == RegSplit(rows[k], T)
       IN AsmSplitRows(AsmSplitRow(M, row, LMPairs(Len(row.map)), om[row.pix]), rows, k+1, T, om)
AsmSplit(n, T, om, rows) ==
  LET M == AsmSplitRows(Zero(n), rows, 1, T, om)
  IN Mat(n, LAMBDA a, b : IF a = b THEN M[a][a] \div 2 ELSE M[a][b])
AsmSplitDiagEven(n, T, om, rows) ==
  LET M == AsmSplitRows(Zero(n), rows, 1, T, om) IN \A a \in 1 .. n : M[a][a] % 2 = 0

\* regularization_matrix_reduced: np.delete of the index list of the unregularised objects, rows then columns
NoRegIdx(ps, regs) == LET own == Owner(ps) IN { c \in 1 .. Total(ps) : ~ regs[own[c]] }
ReducedAsm(full, ps, regs) ==
  IF \A o \in DOMAIN regs : regs[o] THEN full
  ELSE LET drop == NoRegIdx(ps, regs)
           keep == SelectSeq([c \in 1 .. Total(ps) |-> c], LAMBDA c : c \notin drop)
       IN [a \in 1 .. Len(keep) |-> [b \in 1 .. Len(keep) |-> full[keep[a]][keep[b]]]]

-----------------------------------------------------------------------------
(* Layer 2: the bounded machine *)
VARIABLES inst, phase, out
vars == << inst, phase, out >>

\* bright pixels of an exact adaptive instance (never empty)
Bright(pat, n) ==
  CASE pat = 1 -> {n}
    [] pat = 2 -> {1}
    [] pat = 3 -> { i \in 1 .. n : i % 2 = 1 }
    [] OTHER  -> { i \in 1 .. n : i % 3 = 0 } \cup {1}

Meshes == { << "rect", s[1], s[2] >> : s \in RectShapes } \cup { << "graph", g, 0 >> : g \in DOMAIN Graphs }
TableOf(m) == IF m[1] = "rect" THEN Rect4(m[2], m[3]) ELSE Graphs[m[2]]

Blank == [kind |-> "nbr", mesh |-> << "rect", 0, 0 >>, scheme |-> "", c2q |-> 0, czq |-> 0, wa |-> 0, wb |-> 0, pat |-> 0,
          split |-> 0, objs |-> << >>, stage |-> "fresh"]
NbrInsts ==
  { [Blank EXCEPT !.mesh = m, !.scheme = "constant", !.c2q = c] : m \in Meshes, c \in C2Q }
  \cup { [Blank EXCEPT !.mesh = m, !.scheme = "constant_zeroth", !.c2q = cz[1], !.czq = cz[2]] : m \in Meshes, cz \in ZerothSet \X ZerothSet }
  \cup { [Blank EXCEPT !.mesh = m, !.scheme = "zeroth", !.c2q = c] : m \in Meshes, c \in C2Q }
  \cup { [Blank EXCEPT !.mesh = m, !.scheme = "adaptive", !.wa = ab[1], !.wb = ab[2], !.pat = t] :
            m \in Meshes, ab \in WeightSet \X WeightSet, t \in Patterns }
  \cup { [Blank EXCEPT !.mesh = m, !.scheme = "brightness_zeroth", !.wa = a, !.pat = t] :
            m \in Meshes, a \in WeightSet, t \in Patterns }
SplitInsts == { [Blank EXCEPT !.kind = "split", !.scheme = "split", !.split = k] : k \in DOMAIN Splits }
RECURSIVE ObjListsOver(_, _)
ObjListsOver(K, len) == IF len = 0 THEN { << >> } ELSE { Append(l, o) : l \in ObjListsOver(K, len - 1), o \in K }
ObjLists(len) == ObjListsOver(ObjKinds, len)
BlockInsts == { [Blank EXCEPT !.kind = "blocks", !.scheme = "blocks", !.objs = l] :
                  l \in UNION { ObjLists(len) : len \in 1 .. MaxObjs } }
              \cup { [Blank EXCEPT !.kind = "blocks", !.scheme = "blocks", !.objs = l, !.stage = st] :
                       l \in UNION { ObjListsOver(StageKinds, len) : len \in 1 .. StageMaxObjs }, st \in Stages \ {"fresh"} }

NOf(I) == Len(TableOf(I.mesh))
\* reported weights of the exact instances: adaptive w = a^2 on bright pixels (signal 1), b^2 elsewhere (signal 0);
\* brightness-zeroth w = a * (1 - signal)
WeightsOf(I) ==
  LET n == NOf(I) br == Bright(I.pat, n)
  IN IF I.scheme = "adaptive" THEN [i \in 1 .. n |-> IF i \in br THEN I.wa * I.wa ELSE I.wb * I.wb]
     ELSE IF I.scheme = "brightness_zeroth" THEN [i \in 1 .. n |-> IF i \in br THEN 0 ELSE I.wa]
     ELSE [i \in 1 .. n |-> 0]
ParamsOf(I) == LET w == WeightsOf(I) IN [c2q |-> I.c2q, czq |-> I.czq, w2 |-> [i \in DOMAIN w |-> w[i] * w[i]]]

\* the own matrix of object k of a list: distinct tags for a regularised object, zeros otherwise
OwnTag(k, o) == IF o[2] THEN Mat(o[1], LAMBDA a, b : 10000 * k + 100 * (IF a < b THEN a ELSE b) + (IF a < b THEN b ELSE a))
                ELSE Zero(o[1])
PsOf(l) == [k \in DOMAIN l |-> l[k][1]]
RegsOf(l) == [k \in DOMAIN l |-> l[k][2]]
OwnsOf(l) == [k \in DOMAIN l |-> OwnTag(k, l[k])]

\* ---- inversion-level histories ------------------------------------------------------------------------------
\* What an inversion reports as its regularization matrix does not depend on what was done with the inversion before:
\*   "fresh"                    inversion built, matrix read
\*   "after-solve"              curvature_reg_matrix / reconstruction / log-determinants evaluated first
\*   "preloaded"                the matrix is supplied through Preloads (taken from a first, source inversion), read before the solve
\*   "preloaded-after-solve"    ... read after the solve
\*   "second-inversion"         a second inversion sharing the same Preloads object, read after the first one solved
\*   "preload-source"           the source inversion, read after the inversion it preloaded has solved
\* Second formulation, structured like the code: matrices live in BUFFERS.  regularization_matrix hands out the preloaded buffer
\* "pre" (which is also the source inversion's cache) or the inversion's own cache "h1"; curvature_reg_matrix of an inversion with
\* ONE linear object accumulates F + H in place in the curvature buffer "f1" (then evicted from the cache) and otherwise builds a new
\* array.  HistRead is the content of the buffer the judged read is served from; HistoryIndependent says it is the block matrix.
Solved(st) == st \in {"after-solve", "preloaded-after-solve", "second-inversion", "preload-source"}
Preloaded(st) == st \in {"preloaded", "preloaded-after-solve", "second-inversion", "preload-source"}
HistRead(l, st) ==
  LET ps == PsOf(l)
      H == BlockDiag(OwnsOf(l), ps)
      F == Mat(Total(ps), LAMBDA a, b : 1 + a + b)            \* some curvature matrix
      single == Len(l) = 1 /\ l[1][2]
      mem0 == [pre |-> H, h1 |-> H, f1 |-> F]
      mem1 == IF Solved(st) /\ single
              THEN [mem0 EXCEPT !.f1 = Mat(Total(ps), LAMBDA a, b : F[a][b] + mem0[IF Preloaded(st) THEN "pre" ELSE "h1"][a][b])]
              ELSE mem0
  IN mem1[IF Preloaded(st) THEN "pre" ELSE "h1"]

Init == /\ inst \in NbrInsts \cup SplitInsts \cup BlockInsts
        /\ phase = "given"
        /\ out = << >>

Assemble ==
  /\ phase = "given"
  /\ phase' = "assembled"
  /\ out' = CASE inst.kind = "nbr" ->
                   LET n == NOf(inst)
                   IN [q |-> AsmQ(inst.scheme, TableOf(inst.mesh), n, ParamsOf(inst)), r |-> WantR(inst.scheme, n)]
              [] inst.kind = "split" ->
                   LET sp == Splits[inst.split] IN [q |-> AsmSplit(sp.n, sp.T, sp.om, sp.rows), r |-> Ident(sp.n)]
              [] OTHER ->
                   LET full == HistRead(inst.objs, inst.stage)
                   IN [q |-> full, r |-> ReducedAsm(full, PsOf(inst.objs), RegsOf(inst.objs))]
  /\ PrintT(ToJson([k |-> "inst", kind |-> inst.kind, mesh |-> inst.mesh, scheme |-> inst.scheme, c2q |-> inst.c2q,
                    czq |-> inst.czq, wa |-> inst.wa, wb |-> inst.wb, pat |-> inst.pat, split |-> inst.split,
                    objs |-> inst.objs, stage |-> inst.stage,
                    bright |-> IF inst.kind = "nbr" THEN SetToSortSeq(Bright(inst.pat, NOf(inst)), <) ELSE << >>]))
  /\ UNCHANGED inst

Next == Assemble
Spec == Init /\ [][Next]_vars

-----------------------------------------------------------------------------
(* Layer 3: properties of the design *)
Done == phase = "assembled"
IsNbr == Done /\ inst.kind = "nbr"
IsSplit == Done /\ inst.kind = "split"
IsBlocks == Done /\ inst.kind = "blocks"

\* every mesh of the family has a well-formed table; rectangular meshes have 2 / 3 / 4 neighbours (corner, edge, interior)
TablesWellFormed ==
  IsNbr => LET T == TableOf(inst.mesh) n == Len(T) IN
           /\ TableOk(T)
           /\ inst.mesh[1] = "rect" =>
                \A p \in 1 .. n :
                   LET a == (p-1) \div inst.mesh[3]  b == (p-1) % inst.mesh[3]
                       edges == (IF a \in {0, inst.mesh[2]-1} THEN 1 ELSE 0) + (IF b \in {0, inst.mesh[3]-1} THEN 1 ELSE 0)
                   IN Len(T[p]) = 4 - edges
\* the loops of the code build the documented matrix
AssemblyIsDocumentedMatrix ==
  IsNbr => LET T == TableOf(inst.mesh) IN out.q = WantQ(inst.scheme, Pairs(T), Len(T), ParamsOf(inst))
SizeIsParamCount ==
  /\ IsNbr => LET n == NOf(inst) IN IsSquare(out.q, n) /\ IsSquare(out.r, n)
  /\ IsSplit => IsSquare(out.q, Splits[inst.split].n)
  /\ IsBlocks => IsSquare(out.q, Total(PsOf(inst.objs)))
Symmetric ==
  /\ IsNbr => LET n == NOf(inst) IN IsSym(out.q, n) /\ IsSym(out.r, n)
  /\ IsSplit => IsSym(out.q, Splits[inst.split].n)
\* polarisation: the documented matrix is THE symmetric matrix of the stated quadratic form
FormDeterminesMatrix ==
  IsNbr => LET T == TableOf(inst.mesh) n == Len(T) P == Pairs(T) pr == ParamsOf(inst) s == inst.scheme
               fq(x) == FormQ(s, P, n, pr, x)
               fr(x) == FormR(s, n, x)
               dq == [a \in 1 .. n |-> fq(Unit(n, a))]
               dr == [a \in 1 .. n |-> fr(Unit(n, a))]
           IN \A a \in 1 .. n :
                 /\ out.q[a][a] = dq[a] /\ out.r[a][a] = dr[a]
                 /\ \A b \in a+1 .. n :
                      /\ 2 * out.q[a][b] = fq(Unit2(n, a, b)) - dq[a] - dq[b]
                      /\ 2 * out.r[a][b] = fr(Unit2(n, a, b)) - dr[a] - dr[b]
\* x'Hx is the stated form, is >= 0, and > 0 for x # 0 when the scheme has the ridge (all x in {-1,0,1}^n, small n)
FormOnTernaryVectors ==
  (IsNbr /\ NOf(inst) <= MaxTernary) =>
     LET T == TableOf(inst.mesh) n == Len(T) P == Pairs(T) pr == ParamsOf(inst) s == inst.scheme
     IN \A x \in Ternary(n) :
          LET q == QF(out.q, x, n) r == QF(out.r, x, n)
          IN /\ q = FormQ(s, P, n, pr, x) /\ r = FormR(s, n, x)
             /\ NonNeg(q, r)
             /\ (HasRidge(s) /\ \E k \in 1 .. n : x[k] # 0) => Pos(q, r)
\* strictly positive definite by exact determinants (neighbour-difference schemes and zeroth with c > 0), n <= 4
SylvesterSmall ==
  (IsNbr /\ NOf(inst) <= 4 /\ inst.scheme # "brightness_zeroth") => StrictlyPD(out.q, out.r, NOf(inst))
\* H(2c) - 4 H(c) = -3 rho I: what lets a recorded pair of runs expose the ridge of a fixed-point scheme exactly
RidgeByHomogeneity ==
  (IsNbr /\ inst.scheme \in {"constant", "adaptive"}) =>
     LET T == TableOf(inst.mesh) n == Len(T)
         pr == ParamsOf(inst)
         pr2 == [c2q |-> 4 * pr.c2q, czq |-> 4 * pr.czq, w2 |-> [k \in DOMAIN pr.w2 |-> 16 * pr.w2[k]]]
         f == IF inst.scheme = "constant" THEN 4 ELSE 16
     IN AsmQ(inst.scheme, T, n, pr2) = Mat(n, LAMBDA a, b : f * out.q[a][b])
\* split-cross: the double loop with the halved diagonal is SUM_k om r_k r_k'; the form is a sum of squares; H 1 = rho 1
SplitAssemblyIsSumOfSquares ==
  IsSplit => LET sp == Splits[inst.split]
             IN /\ AsmSplitDiagEven(sp.n, sp.T, sp.om, sp.rows)
                /\ out.q = SplitQ(sp.n, sp.T, sp.om, sp.rows)
                /\ \A a \in 1 .. sp.n : SumOver(1 .. sp.n, LAMBDA b : out.q[a][b]) = 0
SplitFormOnTernaryVectors ==
  (IsSplit /\ Splits[inst.split].n <= MaxTernary) =>
     LET sp == Splits[inst.split]
     IN \A x \in Ternary(sp.n) : LET q == QF(out.q, x, sp.n) IN q = SplitForm(sp.n, sp.T, sp.om, sp.rows, x) /\ q >= 0
\* blocks
BlocksInObjectOrder ==
  IsBlocks => LET l == inst.objs ps == PsOf(l) offs == Offs(ps)
              IN \A k \in DOMAIN l :
                    LET own == OwnTag(k, l[k])
                    IN \A a, b \in 1 .. ps[k] : out.q[offs[k] + a][offs[k] + b] = own[a][b]
OffBlocksAreZero ==
  IsBlocks => LET ps == PsOf(inst.objs) own == Owner(ps)
              IN \A a, b \in 1 .. Total(ps) : own[a] # own[b] => out.q[a][b] = 0
UnregularisedBlockIsZero ==
  IsBlocks => LET l == inst.objs ps == PsOf(l) offs == Offs(ps)
              IN \A k \in DOMAIN l : ~ l[k][2] => \A a, b \in 1 .. ps[k] : out.q[offs[k] + a][offs[k] + b] = 0
HistoryIndependent ==
  IsBlocks => out.q = BlockDiag(OwnsOf(inst.objs), PsOf(inst.objs))
ReducedIsRegularisedBlocks ==
  IsBlocks => out.r = ReducedDef(OwnsOf(inst.objs), PsOf(inst.objs), RegsOf(inst.objs))
=============================================================================
