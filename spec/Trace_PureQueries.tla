------------------------- MODULE Trace_PureQueries -------------------------
(***************************************************************************)
(* Validation of recorded access histories against PureQueries.tla.        *)
(* A record is one public call at its return.  Content ids are NOT logged: *)
(* the specification infers them from the logged Derive operations.  For a *)
(* Read the driver logs which contents the returned value matches (by      *)
(* fingerprint against cold twins: the same content built from scratch in  *)
(* a fresh object graph and read exactly once): `own` (the reader's own    *)
(* content) and `match` (the handle whose content it matches, 0 if none);  *)
(* plus whether every caller-owned buffer, every shared default and every  *)
(* other object's cold-twin value is unchanged after the call.             *)
(***************************************************************************)
EXTENDS PureQueries, IOUtils

Trace == JsonDeserialize(IOEnv.TRACE_FILE)
VARIABLE i

Cl(nm, ok) == IF ok THEN << >> ELSE << nm >>
ToSetS(s) == { s[k] : k \in DOMAIN s }

TraceInit == /\ i = 1 /\ n = 0
             /\ typ = [o \in 1 .. MaxObjs |-> "none"] /\ content = [o \in 1 .. MaxObjs |-> << >>]
             /\ cache = [o \in 1 .. MaxObjs |-> {}] /\ memo = [o \in 1 .. MaxObjs |-> NoMemo]
             /\ bufs = 0 /\ defaults = 0 /\ last = << >> /\ hist = << >>

\* start of an episode: the base objects of a scenario
StepStart(r) ==
  /\ n' = Len(r.types)
  /\ typ' = [o \in 1 .. MaxObjs |-> IF o <= Len(r.types) THEN r.types[o] ELSE "none"]
  /\ content' = [o \in 1 .. MaxObjs |-> IF o <= Len(r.types) THEN << o >> ELSE << >>]
  /\ cache' = [o \in 1 .. MaxObjs |-> {}] /\ memo' = [o \in 1 .. MaxObjs |-> NoMemo]
  /\ bufs' = 0 /\ defaults' = 0 /\ last' = << >> /\ UNCHANGED hist

\* which object's content a stale value belongs to, for the signature
Stale(r) == IF r.own THEN "" ELSE IF r.match > 0 /\ r.match <= n /\ Len(content[r.match]) < Len(content[r.o])
            THEN ":value-of-the-object-it-was-derived-from" ELSE ":unexplained-value"

Sig(r) == CASE r.a = "Read" /\ ~ r.bufs_ok /\ "changed_buffers" \in DOMAIN r ->
                    r.type \o ":changes-caller-input:" \o r.changed_buffers[1]
            [] r.a = "Read" -> "Read:" \o r.type \o "." \o r.q \o Stale(r)
            [] r.a = "Derive" -> "Derive:" \o r.type \o "." \o r.op
            [] OTHER -> r.a \o ":" \o r.what

Common(r) == Cl("caller-owned-inputs-unchanged", r.bufs_ok)
             \o Cl("shared-defaults-unchanged", r.defaults_ok)
             \o Cl("no-exception", ~ r.raised)

\* the model step is the module's own action restricted to the logged arguments (bounds lifted); the logged outcome
\* is judged against the property; the observed cache set is compared with the model's (informational drift)
StepRead(r) ==
  /\ IF r.q \in cache[r.o]
     THEN /\ last' = << r.o, r.q, memo[r.o][r.q] >> /\ UNCHANGED << cache, memo >>
     ELSE /\ last' = << r.o, r.q, content[r.o] >>
          /\ IF r.cached_quantity
             THEN /\ cache' = [cache EXCEPT ![r.o] = @ \cup {r.q}]
                  /\ memo' = [memo EXCEPT ![r.o] = [x \in DOMAIN @ \cup {r.q} |-> IF x = r.q THEN content[r.o] ELSE @[x]]]
             ELSE UNCHANGED << cache, memo >>
  /\ UNCHANGED << n, typ, content, bufs, defaults, hist >>
  /\ LET bad == Cl("read-reports-own-content", r.own)
                \o Cl("other-objects-unchanged", r.others_ok)
                \o Common(r)
     IN IF bad = << >> THEN TRUE
        ELSE PrintT(ToJson([k |-> "reject", i |-> i, id |-> r.id, clauses |-> bad, sig |-> Sig(r),
                            want |-> [content |-> content[r.o]]]))

StepDerive(r) ==
  /\ n' = n + 1
  /\ typ' = [typ EXCEPT ![n+1] = r.rtype]
  /\ content' = [content EXCEPT ![n+1] = Append(content[r.o], r.op)]
  /\ cache' = [cache EXCEPT ![n+1] = {}] /\ memo' = [memo EXCEPT ![n+1] = NoMemo]
  /\ last' = << >>
  /\ UNCHANGED << bufs, defaults, hist >>
  \* a derivation that raises (e.g. masking a dataset that no longer holds its unmasked parent) creates a dead handle;
  \* purity is about values and inputs, so only those are judged here
  /\ LET bad == Cl("derivation-leaves-source-and-others-unchanged", r.others_ok)
                \o Cl("caller-owned-inputs-unchanged", r.bufs_ok) \o Cl("shared-defaults-unchanged", r.defaults_ok)
     IN IF bad = << >> THEN TRUE
        ELSE PrintT(ToJson([k |-> "reject", i |-> i, id |-> r.id, clauses |-> bad, sig |-> Sig(r), want |-> << >>]))

\* constructor / determinism probes: a single judged call outside the object machine
StepProbe(r) ==
  /\ UNCHANGED vars
  /\ LET bad == Cl(r.clause, r.ok) \o Common(r)
     IN IF bad = << >> THEN TRUE
        ELSE PrintT(ToJson([k |-> "reject", i |-> i, id |-> r.id, clauses |-> bad, sig |-> Sig(r), want |-> << >>]))

TraceNext ==
  /\ i <= Len(Trace)
  /\ LET r == Trace[i] IN
       CASE r.a = "Start" -> StepStart(r)
         [] r.a = "Read" -> StepRead(r)
         [] r.a = "Derive" -> StepDerive(r)
         [] OTHER -> StepProbe(r)
  /\ i' = i + 1

TraceSpec == TraceInit /\ [][TraceNext]_<< vars, i >>
TraceAccepted == TLCGet("stats").diameter - 1 = Len(Trace)
=============================================================================
