---------------------------- MODULE Trace_Resize ----------------------------
(***************************************************************************)
(* Validation of recorded calls of the real code against Resize.tla (C14). *)
(* One record per public call.  Verdicts are total: every record is judged *)
(* by named clauses; a rejected record is printed with the failing         *)
(* clauses, the signature of its input class and what the spec wanted.     *)
(*                                                                         *)
(* Record fields (all integers are small; coordinates are ticks):          *)
(*   h, w, u      input frame and the linear indices of its unmasked cells *)
(*   oh, ow       shape of the returned structure                          *)
(*   src          source (input linear index / -1 = zero / -2 = unknown)   *)
(*                of every cell of the returned native array               *)
(*   um           linear indices of the unmasked cells of the returned mask*)
(*   gin_y/x      coordinates of all input pixel centres, as the real API  *)
(*   gout_y/x     reports them for the input / returned structure          *)
(*   lat_ok       every coordinate was on the tick lattice                 *)
(*   payload_ok   the same call on random reals moved bits the same way    *)
(*   raised       the call raised an exception (then no result fields)     *)
(*   steps        (api "zoom_history") the steps made on ONE mask object   *)
(***************************************************************************)
EXTENDS MaskHistory, IOUtils

Trace == JsonDeserialize(IOEnv.TRACE_FILE)

VARIABLE i

Un(r) == { CellOf(r.u[k], r.w) : k \in DOMAIN r.u }
Cl(n, b) == [n |-> n, ok |-> b]
NoDup(s) == Cardinality(ToSet(s)) = Len(s)

\* coordinates stay attached: every output cell that shows an input cell has that cell's coordinates
Attached(r, oy, ox) ==
    /\ Len(r.gin_y) = r.h * r.w /\ Len(r.gin_x) = r.h * r.w
    /\ Len(r.gout_y) = r.oh * r.ow /\ Len(r.gout_x) = r.oh * r.ow
    /\ \A k \in 1 .. r.oh * r.ow :
          LET c == << (k-1) \div r.ow + oy, ((k-1) % r.ow) + ox >>
          IN InFrame(c, r.h, r.w) =>
                /\ r.gout_y[k] = r.gin_y[Lin(c, r.w) + 1]
                /\ r.gout_x[k] = r.gin_x[Lin(c, r.w) + 1]

ShapeIs(r, H2, W2) == r.oh = H2 /\ r.ow = W2 /\ Len(r.src) = H2 * W2
MaskShapeIs(r, H2, W2) == r.oh = H2 /\ r.ow = W2

\* ---- resize of an array (with its mask) ------------------------------------------------------
\* data: window of the masked input, zeros outside; mask: the same window of the mask, pad value outside
ExplainsData(r, H2, W2, oy, ox) == r.src = WindowSrc(r.h, r.w, Un(r), H2, W2, oy, ox)
ExplainsMask(r, H2, W2, oy, ox, padUnmasked) ==
    /\ NoDup(r.um)
    /\ ToSet(r.um) = WindowUnmasked(r.h, r.w, Un(r), H2, W2, oy, ox, padUnmasked)

\* the centred offset pairs that explain the returned data / the returned mask
DataOffsets(r, H2, W2) ==
    LET U == Un(r) IN
    { o \in Offsets(r.h, H2) \X Offsets(r.w, W2) : r.src = WindowSrc(r.h, r.w, U, H2, W2, o[1], o[2]) }
MaskOffsets(r, H2, W2, padUnmasked) ==
    LET U == Un(r)
        got == ToSet(r.um)
    IN IF ~ NoDup(r.um) THEN {}
       ELSE { o \in Offsets(r.h, H2) \X Offsets(r.w, W2) :
                got = WindowUnmasked(r.h, r.w, U, H2, W2, o[1], o[2], padUnmasked) }

ResizeArrayClauses(r, H2, W2, padUnmasked) ==
    LET shp == ShapeIs(r, H2, W2)
        same == SameParity(r.h, H2) /\ SameParity(r.w, W2)
        ED == IF shp THEN DataOffsets(r, H2, W2) ELSE {}
        EM == IF shp THEN MaskOffsets(r, H2, W2, padUnmasked) ELSE {}
    IN << Cl("output-shape", shp),
          Cl("data-is-centred-crop-or-zero-padded-embedding", ED # {}),
          Cl("mask-is-centred-crop-or-embedding-with-pad-value", EM # {}),
          Cl("data-and-mask-move-together", ED \cap EM # {}),
          Cl("coordinates-on-lattice", r.lat_ok),
          Cl("coordinates-attached-when-parity-preserved",
             same => (shp /\ r.lat_ok /\ Attached(r, (r.h - H2) \div 2, (r.w - W2) \div 2))),
          Cl("payload-independent", r.payload_ok) >>

ResizeMaskClauses(r, H2, W2, padUnmasked) ==
    LET shp == MaskShapeIs(r, H2, W2)
        same == SameParity(r.h, H2) /\ SameParity(r.w, W2)
        EM == IF shp THEN MaskOffsets(r, H2, W2, padUnmasked) ELSE {}
    IN << Cl("output-shape", shp),
          Cl("mask-is-centred-crop-or-embedding-with-pad-value", EM # {}),
          Cl("coordinates-on-lattice", r.lat_ok),
          Cl("coordinates-attached-when-parity-preserved",
             same => (shp /\ r.lat_ok /\ Attached(r, (r.h - H2) \div 2, (r.w - W2) \div 2))) >>

\* the result of a round trip (pad then trim, grow then shrink) must be the input itself
IdentityClauses(r, name) ==
    LET shp == ShapeIs(r, r.h, r.w)
    IN << Cl("output-shape", shp),
          Cl(name, shp /\ ExplainsData(r, r.h, r.w, 0, 0)),
          Cl("mask-restored", shp /\ ExplainsMask(r, r.h, r.w, 0, 0, FALSE)),
          Cl("coordinates-on-lattice", r.lat_ok),
          Cl("coordinates-attached-when-parity-preserved", shp /\ r.lat_ok /\ Attached(r, 0, 0)),
          Cl("payload-independent", r.payload_ok) >>

\* ---- automatic padding in Imaging.apply_mask ---------------------------------------------------
PreTriples(r) == { << r.pre_y[k], r.pre_x[k], r.u[k], r.u[k] >> : k \in DOMAIN r.u }
PostTriples(r) == { << r.post_y[k], r.post_x[k], r.post_d[k], r.post_n[k] >> : k \in DOMAIN r.post_d }
AutoPadClauses(r) ==
    LET n == Len(r.u)
        lens == /\ Len(r.pre_y) = n /\ Len(r.pre_x) = n
                /\ Len(r.post_y) = Len(r.post_d) /\ Len(r.post_x) = Len(r.post_d) /\ Len(r.post_n) = Len(r.post_d)
        shp == r.oh >= 1 /\ r.ow >= 1 /\ Len(r.src_d) = r.oh * r.ow /\ Len(r.src_n) = r.oh * r.ow
        OY == Offsets(r.h, r.oh)
        OX == Offsets(r.w, r.ow)
    IN << Cl("coordinates-on-lattice", r.lat_ok),
          Cl("same-number-of-unmasked-pixels", lens /\ Len(r.post_d) = n),
          Cl("coordinate-data-noise-triples-unchanged",
             lens /\ r.lat_ok /\ Len(r.post_d) = n /\ PostTriples(r) = PreTriples(r)),
          Cl("padded-frame-is-centred-embedding-of-masked-data-and-noise",
             shp /\ \E oy \in OY, ox \in OX :
                       /\ r.src_d = WindowSrc(r.h, r.w, Un(r), r.oh, r.ow, oy, ox)
                       /\ r.src_n = r.src_d
                       /\ NoDup(r.um)
                       /\ ToSet(r.um) = WindowUnmasked(r.h, r.w, Un(r), r.oh, r.ow, oy, ox, FALSE)),
          Cl("payload-independent", r.payload_ok) >>

\* ---- dataset trimmed after convolution (fresh dataset): data, noise and grid move together --------
DatasetTrimClauses(r) ==
    LET ts == TrimShape(r.h, r.w, r.kh, r.kw)
        shp == r.oh = ts[1] /\ r.ow = ts[2] /\ Len(r.src_d) = ts[1] * ts[2] /\ Len(r.src_n) = ts[1] * ts[2]
        oy == r.kh \div 2
        ox == r.kw \div 2
        want == WindowSrc(r.h, r.w, Un(r), ts[1], ts[2], oy, ox)
    IN << Cl("output-shape", shp),
          Cl("data-is-centred-crop", shp /\ r.src_d = want),
          Cl("noise-is-centred-crop", shp /\ r.src_n = want),
          Cl("coordinates-on-lattice", r.lat_ok),
          Cl("grid-attached-to-data",
             /\ shp /\ r.lat_ok
             /\ Len(r.post_y) = Len(r.post_d) /\ Len(r.post_x) = Len(r.post_d)
             /\ Len(r.gin_y) = r.h * r.w /\ Len(r.gin_x) = r.h * r.w
             /\ \A k \in DOMAIN r.post_d :
                   /\ r.post_d[k] >= 0 /\ r.post_d[k] < r.h * r.w
                   /\ r.post_y[k] = r.gin_y[r.post_d[k] + 1]
                   /\ r.post_x[k] = r.gin_x[r.post_d[k] + 1]),
          Cl("payload-independent", r.payload_ok) >>

\* ---- zoom ---------------------------------------------------------------------------------------
ZoomClauses(r) ==
    LET shp == r.oh >= 1 /\ r.ow >= 1 /\ Len(r.src) = r.oh * r.ow
    IN << Cl("output-shape", shp),
          Cl("window-contains-every-unmasked-pixel-with-its-value",
             shp /\ ValidZoom(r.src, r.h, r.w, Un(r), r.oh, r.ow, 0)),
          Cl("window-keeps-buffer-around-unmasked-pixels",
             shp /\ ValidZoom(r.src, r.h, r.w, Un(r), r.oh, r.ow, r.b)),
          Cl("payload-independent", r.payload_ok) >>

\* ---- a history on one mask object: every zoom is judged against the mask current at that time ------------------
\* r.u is the mask the object started with, r.steps the steps in order: edits (cell, val), reads, and zooms with what
\* came back (oh, ow, src, payload_ok).
HistWellFormed(r) ==
    /\ r.u # << >>
    /\ \A k \in DOMAIN r.steps :
          /\ r.steps[k].op \in {"zoom", "edit", "read"}
          /\ r.steps[k].op = "edit" => /\ r.steps[k].cell >= 0 /\ r.steps[k].cell < r.h * r.w
                                       /\ r.steps[k].val \in {0, 1}
          /\ MaskAfter(Un(r), r.steps, k, r.w) # {}
ZoomSteps(r) == { k \in DOMAIN r.steps : r.steps[k].op = "zoom" }
\* the zoom steps whose window is not a valid zoom (margin m(step)) of the mask as it was just before the step
BadZoomSteps(r, useBuffer) ==
    { k \in ZoomSteps(r) :
        LET z == r.steps[k]
            U == MaskAfter(Un(r), r.steps, k - 1, r.w)
        IN ~ ( /\ z.oh >= 1 /\ z.ow >= 1 /\ Len(z.src) = z.oh * z.ow
               /\ ValidZoom(z.src, r.h, r.w, U, z.oh, z.ow, IF useBuffer THEN z.b ELSE 0) ) }
HistoryClauses(r) ==
    IF ~ HistWellFormed(r) THEN << Cl("driver-history-well-formed", FALSE) >>
    ELSE << Cl("every-zoom-of-the-history-contains-every-currently-unmasked-pixel-with-its-value",
               BadZoomSteps(r, FALSE) = {}),
            Cl("every-zoom-of-the-history-keeps-its-buffer-around-the-current-mask", BadZoomSteps(r, TRUE) = {}),
            Cl("payload-independent", \A k \in ZoomSteps(r) : r.steps[k].payload_ok) >>

MinOfSet(S) == CHOOSE x \in S : \A y \in S : x <= y
\* class of the first rejected zoom: was the mask edited after the object had already been zoomed / read?
HistClass(r) ==
    LET bad == BadZoomSteps(r, TRUE)
    IN IF ~ HistWellFormed(r) \/ bad = {} THEN ""
       ELSE LET k == MinOfSet(bad)
                edits == { e \in 1 .. k - 1 : r.steps[e].op = "edit" }
            IN IF \E e \in edits : \E j \in 1 .. e - 1 : r.steps[j].op \in {"zoom", "read"}
               THEN ":edited-after-first-use"
               ELSE IF edits # {} THEN ":edited-before-first-use" ELSE ":unedited"

\* ---- a masking history on one imaging dataset: ds.apply_mask(a1).apply_mask(a2)... ---------------------------------
\* r.h x r.w is the ORIGINAL frame, r.gin_y / r.gin_x the coordinates of all its pixels as the unmasked dataset reports
\* them, r.steps[k] = the mask given at step k (m: unmasked linear indices on the original frame) and what came back.
\* Every step is judged exactly like a single automatic padding (AutoPadClauses) of the ORIGINAL data under its own
\* mask: earlier masks, and an earlier padding, must have left no trace.
MHistWellFormed(r) ==
    /\ Len(r.gin_y) = r.h * r.w /\ Len(r.gin_x) = r.h * r.w
    /\ r.steps # << >>
    /\ \A k \in DOMAIN r.steps :
          /\ r.steps[k].m # << >>
          /\ \A j \in DOMAIN r.steps[k].m : r.steps[k].m[j] >= 0 /\ r.steps[k].m[j] < r.h * r.w
\* step k seen as a single-call record against the original dataset
AsSingleCall(r, k) ==
    LET st == r.steps[k]
    IN [h |-> r.h, w |-> r.w, u |-> st.m, lat_ok |-> r.lat_ok, payload_ok |-> st.payload_ok,
        pre_y |-> [j \in DOMAIN st.m |-> r.gin_y[st.m[j] + 1]],
        pre_x |-> [j \in DOMAIN st.m |-> r.gin_x[st.m[j] + 1]],
        post_y |-> st.post_y, post_x |-> st.post_x, post_d |-> st.post_d, post_n |-> st.post_n,
        oh |-> st.oh, ow |-> st.ow, src_d |-> st.src_d, src_n |-> st.src_n, um |-> st.um]
MHistStepFailures(r, k) ==
    IF r.steps[k].raised THEN << "apply-mask-returns-a-result" >>
    ELSE LET f == SelectSeq(AutoPadClauses(AsSingleCall(r, k)), LAMBDA c : ~ c.ok)
         IN [j \in DOMAIN f |-> f[j].n]
MHistBadSteps(r) == { k \in DOMAIN r.steps : MHistStepFailures(r, k) # << >> }
MaskHistoryClauses(r) ==
    IF ~ MHistWellFormed(r) THEN << Cl("driver-mask-history-well-formed", FALSE) >>
    ELSE LET names == { "coordinates-on-lattice", "same-number-of-unmasked-pixels",
                        "coordinate-data-noise-triples-unchanged",
                        "padded-frame-is-centred-embedding-of-masked-data-and-noise", "payload-independent",
                        "apply-mask-returns-a-result" }
             failing == UNION { ToSet(MHistStepFailures(r, k)) : k \in DOMAIN r.steps }
         IN << Cl("every-mask-of-the-history-returns-a-result", "apply-mask-returns-a-result" \notin failing),
               Cl("every-step-shows-the-original-coordinate-data-noise-triples-of-its-own-mask",
                  /\ "coordinate-data-noise-triples-unchanged" \notin failing
                  /\ "same-number-of-unmasked-pixels" \notin failing),
               Cl("every-step-frame-is-centred-embedding-of-the-original-data-and-noise-under-its-own-mask",
                  "padded-frame-is-centred-embedding-of-masked-data-and-noise" \notin failing),
               Cl("coordinates-on-lattice", "coordinates-on-lattice" \notin failing),
               Cl("payload-independent", "payload-independent" \notin failing),
               Cl("no-unnamed-failure", failing \subseteq names) >>

\* class of the first rejected step: how does its mask relate to the previous one, and was the previous result padded?
MHistClass(r) ==
    IF ~ MHistWellFormed(r) \/ MHistBadSteps(r) = {} THEN ""
    ELSE LET k == MinOfSet(MHistBadSteps(r))
             st == r.steps[k]
         IN (IF st.raised THEN ":raised" ELSE "") \o
            (IF k = 1 THEN ":first-mask"
             ELSE LET a == ToSet(st.m)
                      p == ToSet(r.steps[k-1].m)
                      pu == { CellOf(x, r.w) : x \in p }
                  IN (IF a \ p # {} THEN ":unmasks-pixels-the-previous-mask-hid" ELSE ":within-previous-mask") \o
                     (IF FootLeaves(pu, r.h, r.w, r.kh, r.kw) THEN ":previous-padded" ELSE ":previous-not-padded"))

OddKernel(r) == r.kh % 2 = 1 /\ r.kw % 2 = 1 /\ r.kh >= 1 /\ r.kw >= 1

\* an exception of the code under test on an input inside the property's domain is a rejection
Clauses(r) ==
    IF r.raised THEN << Cl("call-returns-a-result", FALSE) >> ELSE
    CASE r.api = "resize_array" -> ResizeArrayClauses(r, r.h2, r.w2, r.mpad = 0)
      [] r.api = "resize_mask" -> ResizeMaskClauses(r, r.h2, r.w2, r.pad = 0)
      [] r.api = "pad" ->
           IF ~ OddKernel(r) THEN << Cl("driver-odd-kernel", FALSE) >>
           ELSE ResizeArrayClauses(r, r.h + r.kh - 1, r.w + r.kw - 1, r.mpad = 0)
      [] r.api = "trim" ->
           IF ~ (OddKernel(r) /\ Trimmable(r.h, r.w, r.kh, r.kw)) THEN << Cl("driver-trimmable-odd-kernel", FALSE) >>
           ELSE ResizeArrayClauses(r, r.h - (r.kh - 1), r.w - (r.kw - 1), TRUE)
      [] r.api = "pad_trim" -> IdentityClauses(r, "pad-then-trim-is-identity")
      [] r.api = "grow_shrink" ->
           IF ~ (r.h2 >= r.h /\ r.w2 >= r.w) THEN << Cl("driver-grow-shape", FALSE) >>
           ELSE IdentityClauses(r, "grow-then-shrink-loses-nothing")
      [] r.api = "trimmed_array_from" ->
           \* h x w is the padded frame, h2 x w2 the image shape; only the parity-preserving use is specified
           IF ~ (SameParity(r.h, r.h2) /\ SameParity(r.w, r.w2) /\ r.h2 <= r.h /\ r.w2 <= r.w /\ r.h2 >= 1 /\ r.w2 >= 1)
           THEN << Cl("driver-parity-preserving-trim", FALSE) >>
           ELSE LET shp == ShapeIs(r, r.h2, r.w2)
                    oy == (r.h - r.h2) \div 2
                    ox == (r.w - r.w2) \div 2
                IN << Cl("output-shape", shp),
                      Cl("trimmed-array-is-centred-crop", shp /\ ExplainsData(r, r.h2, r.w2, oy, ox)),
                      Cl("coordinates-on-lattice", r.lat_ok),
                      Cl("coordinates-attached-when-parity-preserved", shp /\ r.lat_ok /\ Attached(r, oy, ox)),
                      Cl("payload-independent", r.payload_ok) >>
      [] r.api = "autopad" -> IF ~ OddKernel(r) THEN << Cl("driver-odd-kernel", FALSE) >> ELSE AutoPadClauses(r)
      [] r.api = "dataset_trim" ->
           IF ~ (OddKernel(r) /\ Trimmable(r.h, r.w, r.kh, r.kw)) THEN << Cl("driver-trimmable-odd-kernel", FALSE) >>
           ELSE DatasetTrimClauses(r)
      [] r.api = "zoom" -> ZoomClauses(r)
      [] r.api = "zoom_history" -> HistoryClauses(r)
      [] r.api = "mask_history" -> IF ~ OddKernel(r) THEN << Cl("driver-odd-kernel", FALSE) >> ELSE MaskHistoryClauses(r)
      [] OTHER -> << Cl("unknown-api", FALSE) >>

\* ---- what the specification wanted (for the replay file) ----------------------------------------------
Want(r) ==
    CASE r.api \in {"resize_array", "resize_mask"} ->
           [offsets_y |-> Offsets(r.h, r.h2), offsets_x |-> Offsets(r.w, r.w2),
            one_valid_src |-> WindowSrc(r.h, r.w, Un(r), r.h2, r.w2,
                                        CodeMin(r.h, r.h2), CodeMin(r.w, r.w2))]
      [] r.api = "pad" -> [src |-> PadForKernel(r.h, r.w, Un(r), r.kh, r.kw)]
      [] r.api = "trim" -> [src |-> TrimForKernel(r.h, r.w, Un(r), r.kh, r.kw)]
      [] r.api \in {"pad_trim", "grow_shrink"} -> [src |-> WindowSrc(r.h, r.w, Un(r), r.h, r.w, 0, 0)]
      [] r.api = "trimmed_array_from" ->
           [src |-> WindowSrc(r.h, r.w, Un(r), r.h2, r.w2, (r.h - r.h2) \div 2, (r.w - r.w2) \div 2)]
      [] r.api = "autopad" -> [triples |-> IF r.raised THEN {} ELSE PreTriples(r),
                               spec_shape |-> AutoPadShape(r.h, r.w, Un(r), r.kh, r.kw)]
      [] r.api = "dataset_trim" -> [src |-> TrimForKernel(r.h, r.w, Un(r), r.kh, r.kw)]
      [] r.api = "zoom" -> [unmasked |-> r.u, one_valid_shape |-> CodeZoomShape(Un(r), r.b),
                            one_valid_src |-> CodeZoomSrc(r.h, r.w, Un(r), r.b)]
      [] r.api = "zoom_history" ->
           IF r.raised \/ ~ HistWellFormed(r) THEN << >>
           ELSE [rejected_steps |-> BadZoomSteps(r, TRUE),
                 mask_before_step |-> [k \in DOMAIN r.steps |->
                                          LET U == MaskAfter(Un(r), r.steps, k - 1, r.w) IN LinSeq(U, r.h, r.w)],
                 one_valid_window |-> [k \in DOMAIN r.steps |->
                                          IF r.steps[k].op # "zoom" THEN << >>
                                          ELSE LET U == MaskAfter(Un(r), r.steps, k - 1, r.w)
                                               IN [shape |-> CodeZoomShape(U, r.steps[k].b),
                                                   src |-> CodeZoomSrc(r.h, r.w, U, r.steps[k].b)]]]
      [] r.api = "mask_history" ->
           IF r.raised \/ ~ MHistWellFormed(r) THEN << >>
           ELSE [rejected_steps |-> MHistBadSteps(r),
                 failures |-> [k \in DOMAIN r.steps |-> MHistStepFailures(r, k)],
                 spec_result |-> [k \in DOMAIN r.steps |->
                                    LET a == { CellOf(r.steps[k].m[j], r.w) : j \in DOMAIN r.steps[k].m }
                                        m == MaskedFromOriginal(r.h, r.w, a, r.kh, r.kw)
                                    IN [shape |-> << m.h, m.w >>, src |-> m.src]]]
      [] OTHER -> << >>

\* ---- signature of the failing input class (used to match known findings) -------------------------------
Par(n) == IF n % 2 = 0 THEN "e" ELSE "o"
Ax(n, m) == Par(n) \o (IF m > n THEN "<" ELSE IF m < n THEN ">" ELSE "=") \o Par(m)
Geo(r) == (IF r.oy # 0 \/ r.ox # 0 THEN ":origin" ELSE "") \o (IF r.hy # r.hx THEN ":aniso" ELSE "")
Ker(r) == IF r.kh = r.kw THEN ":ksquare" ELSE ":knonsquare"
TouchesFrame(r) == \E p \in Un(r) : p[1] = 0 \/ p[2] = 0 \/ p[1] = r.h - 1 \/ p[2] = r.w - 1
\* how the target shape / kernel shape was handed over (Python ints, numpy scalars of some type, array ...)
ShapeTy(r) == IF "shape_type" \in DOMAIN r THEN ":shape=" \o r.shape_type ELSE ""
Sig(r) ==
    CASE r.api \in {"resize_array", "resize_mask", "grow_shrink", "trimmed_array_from"} ->
           r.api \o ":y" \o Ax(r.h, r.h2) \o ":x" \o Ax(r.w, r.w2) \o Geo(r) \o ShapeTy(r)
      [] r.api \in {"pad", "trim", "pad_trim", "dataset_trim"} -> r.api \o Ker(r) \o Geo(r) \o ShapeTy(r)
      [] r.api = "autopad" ->
           r.api \o (IF FootLeaves(Un(r), r.h, r.w, r.kh, r.kw) THEN ":leaves" ELSE ":fits") \o Ker(r) \o Geo(r)
      [] r.api = "zoom" -> r.api \o (IF TouchesFrame(r) THEN ":touches-frame" ELSE ":interior") \o ":b" \o ToString(r.b)
      [] r.api = "zoom_history" -> r.api \o (IF r.raised THEN ":raised" ELSE HistClass(r))
      [] r.api = "mask_history" -> r.api \o (IF r.raised THEN ":raised" ELSE MHistClass(r)) \o Ker(r) \o Geo(r)
      [] OTHER -> r.api

Failed(r) == SelectSeq(Clauses(r), LAMBDA c : ~ c.ok)

TraceInit == /\ i = 1
             /\ inst = Blank /\ phase = "trace" /\ obs = << >>

TraceNext ==
    /\ i <= Len(Trace)
    /\ LET r == Trace[i]
           f == Failed(r)
       IN IF f = << >> THEN TRUE
          ELSE PrintT(ToJson([k |-> "reject", i |-> i, id |-> r.id,
                              clauses |-> [j \in DOMAIN f |-> f[j].n],
                              sig |-> Sig(r), want |-> Want(r)]))
    /\ i' = i + 1
    /\ UNCHANGED vars

TraceSpec == TraceInit /\ [][TraceNext]_<< vars, i >>
TraceAccepted == TLCGet("stats").diameter - 1 = Len(Trace)
=============================================================================
