----------------------------- MODULE Construct2D -----------------------------
(***************************************************************************)
(* The 2D constructors and region / binning queries of PyAutoArray (extra  *)
(* X12): Array2D.no_mask / full / ones / zeros / from_yx_and_values /      *)
(* from_fits / from_primary_hdu, binned_across_rows / columns, in_counts,  *)
(* Grid2D.no_mask / from_yx_1d / from_yx_2d / uniform / bounding_box /     *)
(* from_extent / from_mask / blurring grids / flipped / in_radians /       *)
(* subtracted_from / is_uniform / padded_grid_from and the helper          *)
(* functions of grid_2d_util / array_2d_util.                              *)
(*                                                                         *)
(* Three exact domains (DESIGN section 3):                                 *)
(*  - data movement is described by TAGS: the source of every output       *)
(*    position (the index of a given entry, or Zero);                      *)
(*  - coordinates are integer HALF-TICKS u as in Geometry.tla (C02): pixel *)
(*    scales are multiples of 4u, origins multiples of 2u, so that pixel   *)
(*    centres and pixel boundaries are even and a query point is an odd    *)
(*    multiple of u, never on a boundary;                                  *)
(*  - means are rationals: a mean over c entries is carried as             *)
(*    numerator * (D / c) for a denominator D that every count divides.    *)
(*                                                                         *)
(* A frame geometry is the record g = [h, w, sy, sx, oy, ox]; a mask is    *)
(* its set U of UNMASKED cells <<i,j>> (0-based, row i from the top).      *)
(* Layer 1 (meaning) takes everything as parameters so that the bounded    *)
(* machines below and the trace specification (whose records carry their   *)
(* own instance) share the same operators.  The operators are copies of    *)
(* the few definitions needed from Masks.tla / Geometry.tla (those modules *)
(* declare their own constants and variables and are left untouched).      *)
(***************************************************************************)
EXTENDS Integers, Sequences, FiniteSets, TLC, Json, SequencesExt, FiniteSetsExt

CONSTANTS MaskFrames,    \* set of <<H,W>>: every non-empty mask of each frame is explored
          MaskGeoms,     \* set of <<sy,sx,oy,ox>> for the mask family
          Patterns,      \* set of naturals: value patterns of the arrays of the mask family
          Kernels,       \* set of <<kh,kw>> (odd) for the blurring grids
          Offsets,       \* set of <<dy,dx>> (half-ticks) for subtracted_from
          RadiiR2,       \* set of odd integers R2 = 2 r^2 for the points-within-radius helper
          FrameFrames,   \* set of <<H,W>>: frames of the constructor family (no mask)
          FrameGeoms,    \* set of <<sy,sx,oy,ox>> for the constructor family
          PadKernels,    \* set of <<kh,kw>> (any parity) for padded_grid_from
          UpFactors,     \* set of upscale factors f >= 1
          PermMaxCells,  \* from_yx_and_values: every permutation of the pixels of frames with at most this many cells
          HistFrames,    \* frames of the history machine (every non-empty mask of each)
          HistGeoms,     \* geometries of the history machine
          HistDepth,     \* number of steps of a history
          DumpHistories, \* TRUE: every complete history is printed (for the replay into the real objects)
          SetItemDropsCaches,   \* design switch: item assignment forgets remembered views (TRUE = the documented design)
          DerivedCarriesCaches  \* design switch: 2*a carries the remembered views of a (FALSE = the documented design)

Zero == -1            \* source tag "this position holds 0"
Nan  == 2000000002    \* alpha's marker for "not a number" (mean over no entry); never used in arithmetic
BinDen == 360360      \* lcm(1..15): every count of unmasked entries in a row / column of a frame up to 15 x 15 divides it

-----------------------------------------------------------------------------
(* Layer 1: meaning *)

Abs(a) == IF a < 0 THEN -a ELSE a
Sq(a) == a * a
SumSeq(s) == FoldLeft(LAMBDA a, b : a + b, 0, s)

Geo(h, w, sy, sx, oy, ox) == [h |-> h, w |-> w, sy |-> sy, sx |-> sx, oy |-> oy, ox |-> ox]
WellFormedGeo(g) == /\ g.h >= 1 /\ g.w >= 1 /\ g.sy > 0 /\ g.sx > 0
                    /\ g.sy % 4 = 0 /\ g.sx % 4 = 0 /\ g.oy % 2 = 0 /\ g.ox % 2 = 0

Cells(h, w) == (0 .. h-1) \X (0 .. w-1)
Lin(c, w) == c[1] * w + c[2]
CellOf(k, w) == << k \div w, k % w >>
InFrame(c, h, w) == c[1] >= 0 /\ c[1] < h /\ c[2] >= 0 /\ c[2] < w
\* "pixels begin from the top-row and go right and down"
RowMajor(h, w) == [k \in 1 .. h*w |-> CellOf(k-1, w)]
\* the slim order: unmasked cells in row-major order
SlimSeq(U, h, w) == SelectSeq(RowMajor(h, w), LAMBDA c : c \in U)
Rank(c, U, w) == 1 + Cardinality({d \in U : Lin(d, w) < Lin(c, w)})
LinSeq(cs, w) == [k \in DOMAIN cs |-> Lin(cs[k], w)]
Everything(n) == [k \in 1 .. n |-> k-1]

\* "pixel (i,j) has centre y = origin_y + ((H-1)/2 - i) s_y,  x = origin_x + (j - (W-1)/2) s_x"  (C02)
CentreY(g, i) == g.oy + (g.h - 1 - 2*i) * (g.sy \div 2)
CentreX(g, j) == g.ox + (2*j - g.w + 1) * (g.sx \div 2)
Centre(g, c) == << CentreY(g, c[1]), CentreX(g, c[2]) >>
Centres(g, cs) == [k \in DOMAIN cs |-> Centre(g, cs[k])]
AllCentres(g) == Centres(g, RowMajor(g.h, g.w))
Top(g)    == g.oy + g.h * (g.sy \div 2)
Bottom(g) == g.oy - g.h * (g.sy \div 2)
Left(g)   == g.ox - g.w * (g.sx \div 2)
Right(g)  == g.ox + g.w * (g.sx \div 2)
Extent(g) == << Left(g), Right(g), Bottom(g), Top(g) >>          \* reported as (x_min, x_max, y_min, y_max)
\* the pixel whose square contains an (odd, hence interior) point q = <<y,x>>
IndexOf(g, q) == << (Top(g) - q[1]) \div g.sy, (q[2] - Left(g)) \div g.sx >>
Ys(ps) == [k \in DOMAIN ps |-> ps[k][1]]
Xs(ps) == [k \in DOMAIN ps |-> ps[k][2]]
\* a native grid: the pair of the pixel where unmasked, (0,0) where masked
NativePairs(ps, U, h, w) == [k \in 1 .. h*w |-> IF CellOf(k-1, w) \in U THEN ps[Rank(CellOf(k-1, w), U, w)] ELSE << 0, 0 >>]

\* ---- Array2D constructors: "an Array2D from an array via inputs in its slim or native data representation" ----
\* The caller's entries are tagged 1..n in the order he gives them (a native input is read row by row).  For an
\* unmasked frame the slim form and the row-major flattening of the native form are both that order.
Tags(n) == [k \in 1 .. n |-> k]
Const(n, v) == [k \in 1 .. n |-> v]
\* native[i][j] of a 1D input with shape_native: "row-major fill"
FillRowMajor(given, h, w) == [c \in Cells(h, w) |-> given[Lin(c, w) + 1]]
FlatOf(nat, h, w) == [k \in 1 .. h*w |-> nat[CellOf(k-1, w)]]

\* ---- Array2D.from_yx_and_values: "the y and x pixel values where the array is filled and the values that fill it" ----
\* perm[k] = linear index of the pixel whose centre is the k-th (y,x) pair; value k "lands in" that pixel.
\* As a source map: native position perm[k] holds tag k.
IsPerm(perm, n) == Len(perm) = n /\ { perm[k] : k \in 1 .. n } = 0 .. n-1
YxScatter(perm, n) == [p \in 1 .. n |-> CHOOSE k \in 1 .. n : perm[k] = p-1]
\* the same call formulated the way the code is written: entry i of the result is values[pixel index of pair i]
YxGather(perm, n) == [q \in 1 .. n |-> perm[q] + 1]
IsInvolution(perm, n) == \A k \in 1 .. n : perm[perm[k] + 1] = k - 1

\* ---- binning: "each value is the mean of all unmasked values" of one column (across rows) / one row (across columns) ----
\* nat: values of the native form, row-major (what masked positions hold must not matter).  A mean over c entries with
\* sum s is carried as s * (D / c); D must be divisible by c.  No unmasked entry: Nan (not constrained by the docstring).
ColCells(U, j) == { c \in U : c[2] = j }
RowCells(U, i) == { c \in U : c[1] = i }
SumOver(S, nat, w) == FoldSet(LAMBDA c, acc : acc + nat[Lin(c, w) + 1], 0, S)
MeanOver(S, nat, w, D) == IF S = {} THEN Nan ELSE SumOver(S, nat, w) * (D \div Cardinality(S))
BinRows(nat, U, h, w, D) == [jj \in 1 .. w |-> MeanOver(ColCells(U, jj-1), nat, w, D)]    \* one value per COLUMN
BinCols(nat, U, h, w, D) == [ii \in 1 .. h |-> MeanOver(RowCells(U, ii-1), nat, w, D)]    \* one value per ROW
CountsDivide(U, h, w, D) == /\ \A j \in 0 .. w-1 : ColCells(U, j) # {} => D % Cardinality(ColCells(U, j)) = 0
                            /\ \A i \in 0 .. h-1 : RowCells(U, i) # {} => D % Cardinality(RowCells(U, i)) = 0
\* a native form from slim values (zeros at masked positions)
NativeOfSlim(vals, U, h, w) == [k \in 1 .. h*w |-> IF CellOf(k-1, w) \in U THEN vals[Rank(CellOf(k-1, w), U, w)] ELSE 0]

\* ---- Grid2D.bounding_box / from_extent ----
\* bb = <<y_min, y_max, x_min, x_max>>.  buffer_around_corners = False: "the mask's edge pixels align with the bounding
\* box": the H x W pixels tile the box, the first centre is half a pixel inside.  True: "the grid's (y,x) values fully
\* align with the input bounding box values": the first / last centres ARE the box values.  Stated without division
\* (cross-multiplied), so that any box is covered; ys / xs are the coordinates of the rows / columns.
RowY(ps, w, i) == ps[i * w + 1][1]
ColX(ps, j) == ps[j + 1][2]
IsProductGrid(ps, h, w) == /\ Len(ps) = h * w
                           /\ \A k \in 1 .. h*w : ps[k] = << RowY(ps, w, (k-1) \div w), ColX(ps, (k-1) % w) >>
BBoxInside(ps, bb, h, w) ==
    /\ IsProductGrid(ps, h, w)
    /\ \A i \in 0 .. h-1 : RowY(ps, w, i) * 2 * h = 2 * h * bb[2] - (2*i + 1) * (bb[2] - bb[1])
    /\ \A j \in 0 .. w-1 : ColX(ps, j) * 2 * w = 2 * w * bb[3] + (2*j + 1) * (bb[4] - bb[3])
BBoxOnCorners(ps, bb, h, w) ==
    /\ h >= 2 /\ w >= 2
    /\ IsProductGrid(ps, h, w)
    /\ \A i \in 0 .. h-1 : RowY(ps, w, i) * (h - 1) = (h - 1) * bb[2] - i * (bb[2] - bb[1])
    /\ \A j \in 0 .. w-1 : ColX(ps, j) * (w - 1) = (w - 1) * bb[3] + j * (bb[4] - bb[3])
\* from_extent: "the extent of the (y,x) grid coordinates as an input (x0, x1, y0, y1)": the coordinates span it,
\* top row at y1, left column at x0
FromExtentOk(ps, ext, h, w) == BBoxOnCorners(ps, << ext[3], ext[4], ext[1], ext[2] >>, h, w)
\* the boxes of a frame: its extent, and the box through its outermost pixel centres
BoxOfExtent(g) == << Bottom(g), Top(g), Left(g), Right(g) >>
BoxOfCorners(g) == << CentreY(g, g.h - 1), CentreY(g, 0), CentreX(g, 0), CentreX(g, g.w - 1) >>

\* ---- blurring grid: "all pixels that are masked, but are close enough to the unmasked pixels that their values will ----
\* be convolved into the unmasked pixels" (C10's blurring set), as pixel centres in slim order
Foot(p, kh, kw) == { << p[1] + a, p[2] + b >> : a \in -(kh \div 2) .. (kh \div 2), b \in -(kw \div 2) .. (kw \div 2) }
FootLeaves(U, h, w, kh, kw) == \E p \in U : \E c \in Foot(p, kh, kw) : ~ InFrame(c, h, w)
BlurringSeq(U, h, w, kh, kw) ==
    SelectSeq(RowMajor(h, w), LAMBDA c : c \notin U /\ \E p \in U : c \in Foot(p, kh, kw))
\* the mask moved into a frame with a margin of a rows and b columns on every side
Embed(U, a, b) == { << c[1] + a, c[2] + b >> : c \in U }

\* ---- queries of a grid holding the pairs ps (one per unmasked pixel, slim order) ----
\* "coordinates are given as (x,y) values"
Flip(ps) == [k \in DOMAIN ps |-> << ps[k][2], ps[k][1] >>]
\* subtracted_from(offset): every coordinate minus the offset; the frame (origin) moves with it
Subtract(ps, d) == [k \in DOMAIN ps |-> << ps[k][1] - d[1], ps[k][2] - d[2] >>]
\* is_uniform: "all pixels are separated by the same pixel-scale ... does not check the x coordinates, only the y
\* coordinates": consecutive entries (slim order) stay on their row or step down by exactly one y pixel scale
IsUniformDoc(ps, sy) == \A k \in 1 .. Len(ps) - 1 : ps[k][1] - ps[k+1][1] \in {0, sy}
\* The docstring does not say whether rows listed bottom-up (steps of MINUS one pixel scale) count as "separated by the
\* same pixel-scale" (the code says no): such a grid may be answered either way; any other step makes it non-uniform.
MayBeUniform(ps, sy) == \A k \in 1 .. Len(ps) - 1 : ps[k][1] - ps[k+1][1] \in {0, sy, -sy}
UniformAnswerOk(flag, ps, sy) == IF IsUniformDoc(ps, sy) THEN flag ELSE IF ~ MayBeUniform(ps, sy) THEN ~ flag ELSE TRUE
\* in_radians: "all (y,x) values are converted to Radians" from arc seconds: the factor pi / 648000.  A coordinate of m
\* units gives m pi / 648000; the record carries R = round(value * 648000 * 10^6) = round(m pi 10^6), judged through the
\* rational bracket 3141592 / 10^6 < pi < 3141593 / 10^6 (|m| <= 600 keeps everything below 2^31)
RadOk(m, R) == IF m >= 0 THEN 3141592 * m - 1 <= R /\ R <= 3141593 * m + 1
               ELSE -3141593 * (-m) - 1 <= R /\ R <= -3141592 * (-m) + 1
\* padded_grid_from(kernel): "includes all pixels whose signal will be convolved into the unmasked pixels": the frame
\* grown by kernel - 1 pixels per axis about the same centre, same pixel scales
PadGeo(g, kh, kw) == [g EXCEPT !.h = g.h + kh - 1, !.w = g.w + kw - 1]

\* ---- helper functions ----
\* grid_2d_centre_from: "the (y,x) central coordinates of the grid" = midpoint of the coordinate-wise extremes (doubled)
Centre2(ps) == << Max({ ps[k][1] : k \in DOMAIN ps }) + Min({ ps[k][1] : k \in DOMAIN ps }),
                  Max({ ps[k][2] : k \in DOMAIN ps }) + Min({ ps[k][2] : k \in DOMAIN ps }) >>
\* compute_polygon_area: the shoelace formula over the vertices in order (doubled, so an integer)
Prev(k, n) == IF k = 1 THEN n ELSE k - 1
Shoelace2(ps) == LET n == Len(ps) IN
    Abs(SumSeq([k \in 1 .. n |-> ps[k][2] * ps[Prev(k, n)][1] - ps[k][1] * ps[Prev(k, n)][2]]))
\* an independent formulation: the fan of triangles from the first vertex
Cross(a, b, c) == (b[2] - a[2]) * (c[1] - a[1]) - (b[1] - a[1]) * (c[2] - a[2])
Fan2(ps) == LET n == Len(ps) IN IF n < 3 THEN 0 ELSE Abs(SumSeq([k \in 1 .. n-2 |-> Cross(ps[1], ps[k+1], ps[k+2])]))
\* grid_2d_of_points_within_radius: the points at most `radius` from the centre, in order (R2 = 2 r^2 odd: no tie)
WithinRadius(ps, ctr, R2) == SelectSeq(ps, LAMBDA p : 2 * (Sq(p[1] - ctr[1]) + Sq(p[2] - ctr[2])) <= R2)
\* grid_pixels_in_mask_pixels_from: "the number of pixels of one grid in every pixel of another" (row-major)
PixelCounts(g, qs) == [k \in 1 .. g.h * g.w |-> Cardinality({ n \in DOMAIN qs : IndexOf(g, qs[n]) = CellOf(k-1, g.w) })]
\* grid_2d_slim_upscaled_from: every coordinate replaced by the f x f sub-pixel centres of a pixel-scale square around
\* it, row-major inside the square (f must divide sy / 2 and sx / 2 for the lattice to hold them)
UpBlock(p, f, sy, sx) == [m \in 1 .. f*f |->
    << p[1] + sy \div 2 - (2 * ((m-1) \div f) + 1) * (sy \div (2*f)),
       p[2] - sx \div 2 + (2 * ((m-1) % f) + 1) * (sx \div (2*f)) >>]
Upscaled(ps, f, sy, sx) == [m \in 1 .. Len(ps) * f * f |-> UpBlock(ps[(m-1) \div (f*f) + 1], f, sy, sx)[((m-1) % (f*f)) + 1]]
\* index helpers: "Indexing is defined from the top-left corner rightwards and downwards"
Index2DForSlim(ks, w) == [n \in DOMAIN ks |-> CellOf(ks[n], w)]
IndexSlimFor2D(cs, w) == [n \in DOMAIN cs |-> Lin(cs[n], w)]
\* array_2d_via_indexes_from: slim entry k goes to native_index_for_slim_index[k], zeros elsewhere (source tags)
ViaIndexes(cs, h, w) == [k \in 1 .. h*w |-> IF \E n \in DOMAIN cs : cs[n] = CellOf(k-1, w)
                                             THEN CHOOSE n \in DOMAIN cs : cs[n] = CellOf(k-1, w) ELSE Zero]
\* replace_noise_map_2d_values_where_image_2d_values_are_negative, in quarter units (img, noise4 = 4 * noise, target t):
\* a negative pixel whose |signal-to-noise| exceeds the target gets noise |image| / target; non-negative pixels are kept;
\* a negative pixel below the target: the first sentence of the docstring replaces it, its rationale and the examples
\* keep it -- either is accepted.  (|S/N| = target: both readings give the same number.)
NoiseAllowed(v, n4, t) ==
    IF v < 0 /\ 4 * Abs(v) >= t * n4 THEN { (4 * Abs(v)) \div t }
    ELSE IF v < 0 THEN { n4, (4 * Abs(v)) \div t }
    ELSE { n4 }

\* ---- histories on one object: reads, b = 2 * a, item assignment ----
\* An object of the history part is what it currently holds: for an array the values of the unmasked pixels in slim
\* order, for a grid the (y,x) pairs.  A read is a function of the CURRENT entries (and of the mask / geometry).
Flat2(ps) == [k \in 1 .. 2 * Len(ps) |-> ps[(k+1) \div 2][IF k % 2 = 1 THEN 1 ELSE 2]]
Bool01(b) == IF b THEN << 1 >> ELSE << 0 >>
ReadArray(q, vals, U, h, w) ==
    CASE q = "rows"   -> BinRows(NativeOfSlim(vals, U, h, w), U, h, w, BinDen)
      [] q = "cols"   -> BinCols(NativeOfSlim(vals, U, h, w), U, h, w, BinDen)
      [] q = "slim"   -> vals
      [] q = "native" -> NativeOfSlim(vals, U, h, w)
ReadGrid(q, ps, U, g) ==
    CASE q = "flip"   -> Flat2(Flip(ps))
      [] q = "uni"    -> Bool01(IsUniformDoc(ps, g.sy))
      [] q = "slim"   -> Flat2(ps)
      [] q = "native" -> Flat2(NativePairs(ps, U, g.h, g.w))
ArrayReads == {"rows", "cols", "slim", "native"}
GridReads == {"flip", "uni", "slim", "native"}
ReadOf(kind, q, x, U, g) == IF kind = "array" THEN ReadArray(q, x, U, g.h, g.w) ELSE ReadGrid(q, x, U, g)
Twice(kind, x) == IF kind = "array" THEN [k \in DOMAIN x |-> 2 * x[k]]
                  ELSE [k \in DOMAIN x |-> << 2 * x[k][1], 2 * x[k][2] >>]
\* item assignment: entry k (1-based slim position; component c for grids) becomes v
Assign(kind, x, k, c, v) == IF kind = "array" THEN [x EXCEPT ![k] = v]
                            ELSE [x EXCEPT ![k] = IF c = 1 THEN << v, x[k][2] >> ELSE << x[k][1], v >>]

-----------------------------------------------------------------------------
(* Layer 2a: the bounded instance machine.  Init picks a family ("mask":    *)
(* every non-empty mask of a frame x geometry x value pattern; "frame": an *)
(* unmasked frame x geometry); Build dumps the instance; then one public   *)
(* call is made (one named action per call) and its result is in `out`.    *)

VARIABLES fam, sh, U, geo, pat, phase, call, par, out,      \* instance machine
          kind, cur, dbl, memoA, memoD, steps, last          \* history machine
ivars == << fam, sh, U, geo, pat, phase, call, par, out >>
hvars == << kind, cur, dbl, memoA, memoD, steps, last >>
vars == << ivars, hvars >>

G == Geo(sh[1], sh[2], geo[1], geo[2], geo[3], geo[4])
HH == sh[1]
WW == sh[2]
\* the values of the arrays of the mask family: small integers of both signs with ties (row-major native form)
MachNat(p, h, w) == [k \in 1 .. h*w |-> (((k-1) * (2*p + 1) + p) % 7) - 3]
\* the grid of the mask family: the pixel centres of the unmasked pixels
MachPairs == Centres(G, SlimSeq(U, HH, WW))

NoHist == /\ kind = "none" /\ cur = << >> /\ dbl = << >> /\ memoA = << >> /\ memoD = << >>
          /\ steps = << >> /\ last = << >>

Init == /\ phase = "new" /\ call = "none" /\ par = << >> /\ out = << >>
        /\ NoHist
        /\ \/ /\ fam = "mask"
              /\ sh \in MaskFrames
              /\ U \in (SUBSET Cells(sh[1], sh[2])) \ {{}}
              /\ geo \in MaskGeoms
              /\ pat \in Patterns
           \/ /\ fam = "frame"
              /\ sh \in FrameFrames
              /\ U = Cells(sh[1], sh[2])
              /\ geo \in FrameGeoms
              /\ pat = 0

Build == /\ phase = "new"
         /\ phase' = "built"
         /\ PrintT(ToJson([k |-> "inst", fam |-> fam, h |-> HH, w |-> WW, u |-> LinSeq(SlimSeq(U, HH, WW), WW),
                           sy |-> geo[1], sx |-> geo[2], oy |-> geo[3], ox |-> geo[4], pat |-> pat]))
         /\ UNCHANGED << fam, sh, U, geo, pat, call, par, out, hvars >>

Done(name, p, result) == /\ phase' = "done" /\ call' = name /\ par' = p /\ out' = result
                         /\ UNCHANGED << fam, sh, U, geo, pat, hvars >>
MaskCall == phase = "built" /\ fam = "mask"
FrameCall == phase = "built" /\ fam = "frame"

\* ---- calls on a masked array / grid ----
BinnedAcrossRows    == MaskCall /\ Done("binned_across_rows", << >>, BinRows(MachNat(pat, HH, WW), U, HH, WW, BinDen))
BinnedAcrossColumns == MaskCall /\ Done("binned_across_columns", << >>, BinCols(MachNat(pat, HH, WW), U, HH, WW, BinDen))
GridFromMask        == MaskCall /\ Done("from_mask", << >>, MachPairs)
BlurringGrid ==
    /\ MaskCall
    /\ \E k \in Kernels :
          LET a  == k[1] \div 2
              b  == k[2] \div 2
              gE == Geo(HH + 2*a, WW + 2*b, geo[1], geo[2], geo[3], geo[4])
          IN Done("blurring_grid_from", k, Centres(gE, BlurringSeq(Embed(U, a, b), gE.h, gE.w, k[1], k[2])))
Flipped        == MaskCall /\ Done("flipped", << >>, Flip(MachPairs))
SubtractedFrom == MaskCall /\ \E d \in Offsets : Done("subtracted_from", d, Subtract(MachPairs, d))
IsUniform      == MaskCall /\ Done("is_uniform", << >>, IsUniformDoc(MachPairs, geo[1]))
GridCentre     == MaskCall /\ Done("grid_2d_centre_from", << >>, Centre2(MachPairs))
PolygonArea    == MaskCall /\ Done("compute_polygon_area", << >>, Shoelace2(MachPairs))
PointsWithinRadius ==
    MaskCall /\ \E r2 \in RadiiR2 : Done("grid_2d_of_points_within_radius", r2, WithinRadius(MachPairs, << geo[3], geo[4] >>, r2))

\* ---- constructors on an unmasked frame ----
NN == HH * WW
ArrayNoMask == FrameCall /\ \E form \in {"native", "slim"} :
                   Done("Array2D.no_mask", form, FlatOf(FillRowMajor(Tags(NN), HH, WW), HH, WW))
ArrayFull   == FrameCall /\ \E v \in {0, 1, -3} : Done("Array2D.full", v, Const(NN, v))
FromYxAndValues ==
    /\ FrameCall /\ NN <= PermMaxCells /\ geo[3] = 0 /\ geo[4] = 0
    /\ \E perm \in SetToSeqs(0 .. NN - 1) :
          /\ PrintT(ToJson([k |-> "yxv", h |-> HH, w |-> WW, sy |-> geo[1], sx |-> geo[2], perm |-> perm]))
          /\ Done("Array2D.from_yx_and_values", perm, YxScatter(perm, NN))
GridUniform == FrameCall /\ Done("Grid2D.uniform", << >>, AllCentres(G))
BoundingBox == FrameCall /\ Done("Grid2D.bounding_box", BoxOfExtent(G), AllCentres(G))
BoundingBoxOnCorners ==
    FrameCall /\ HH >= 2 /\ WW >= 2 /\ Done("Grid2D.bounding_box(buffer_around_corners)", BoxOfCorners(G), AllCentres(G))
FromExtent ==
    FrameCall /\ HH >= 2 /\ WW >= 2
    /\ Done("Grid2D.from_extent", << CentreX(G, 0), CentreX(G, WW-1), CentreY(G, HH-1), CentreY(G, 0) >>, AllCentres(G))
PaddedGrid == FrameCall /\ \E k \in PadKernels : Done("padded_grid_from", k, AllCentres(PadGeo(G, k[1], k[2])))
UpscaledGrid ==
    /\ FrameCall
    /\ \E f \in UpFactors :
          /\ (geo[1] \div 2) % f = 0 /\ (geo[2] \div 2) % f = 0
          /\ Done("grid_2d_slim_upscaled_from", f, Upscaled(AllCentres(G), f, geo[1], geo[2]))
IndexHelpers == FrameCall /\ Done("index_2d_for_index_slim_from", << >>, Index2DForSlim(Everything(NN), WW))

Next == \/ Build
        \/ BinnedAcrossRows \/ BinnedAcrossColumns \/ GridFromMask \/ BlurringGrid \/ Flipped \/ SubtractedFrom
        \/ IsUniform \/ GridCentre \/ PolygonArea \/ PointsWithinRadius
        \/ ArrayNoMask \/ ArrayFull \/ FromYxAndValues \/ GridUniform \/ BoundingBox \/ BoundingBoxOnCorners
        \/ FromExtent \/ PaddedGrid \/ UpscaledGrid \/ IndexHelpers
Spec == Init /\ [][Next]_vars

-----------------------------------------------------------------------------
(* Layer 2b: the history machine.  One object `a` (an array or a grid on a   *)
(* mask) is read, doubled (d = 2 * a, a new object) and edited in place    *)
(* (item assignment), in any order.  The only remembered view of the code  *)
(* is Grid2D.is_uniform (a cached property): memoA / memoD model it.  The  *)
(* two design switches say what item assignment and derivation do with it  *)
(* (<< >> = nothing remembered).                                            *)

HG == Geo(sh[1], sh[2], geo[1], geo[2], geo[3], geo[4])
HistStart(kd) == IF kd = "array" THEN [k \in 1 .. Cardinality(U) |-> MachNat(1, HH, WW)[Lin(SlimSeq(U, HH, WW)[k], WW) + 1]]
                 ELSE Centres(HG, SlimSeq(U, HH, WW))

HInit == /\ fam = "hist" /\ phase = "hist" /\ call = "none" /\ par = << >> /\ out = << >> /\ pat = 1
         /\ sh \in HistFrames
         /\ U \in (SUBSET Cells(sh[1], sh[2])) \ {{}}
         /\ geo \in HistGeoms
         /\ kind \in {"array", "grid"}
         /\ cur = HistStart(kind)
         /\ dbl = << >> /\ memoA = << >> /\ memoD = << >> /\ steps = << >> /\ last = << >>

CanStep == fam = "hist" /\ Len(steps) < HistDepth
Reads == IF kind = "array" THEN ArrayReads ELSE GridReads
\* what the object answers: the remembered view if there is one, else the view of its current entries (then remembered)
Answer(q, memo, x) == IF q = "uni" /\ memo # << >> THEN memo ELSE ReadOf(kind, q, x, U, HG)
HReadA == /\ CanStep
          /\ \E q \in Reads :
                /\ last' = Answer(q, memoA, cur)
                /\ memoA' = IF q = "uni" THEN Answer(q, memoA, cur) ELSE memoA
                /\ steps' = Append(steps, [op |-> "read", tgt |-> "a", q |-> q, k |-> 0, c |-> 0, v |-> 0])
          /\ UNCHANGED << ivars, kind, cur, dbl, memoD >>
HReadD == /\ CanStep /\ dbl # << >>
          /\ \E q \in Reads :
                /\ last' = Answer(q, memoD, dbl)
                /\ memoD' = IF q = "uni" THEN Answer(q, memoD, dbl) ELSE memoD
                /\ steps' = Append(steps, [op |-> "read", tgt |-> "d", q |-> q, k |-> 0, c |-> 0, v |-> 0])
          /\ UNCHANGED << ivars, kind, cur, dbl, memoA >>
HDouble == /\ CanStep
           /\ dbl' = Twice(kind, cur)
           /\ memoD' = IF DerivedCarriesCaches THEN memoA ELSE << >>
           /\ steps' = Append(steps, [op |-> "double", tgt |-> "a", q |-> "", k |-> 0, c |-> 0, v |-> 0])
           /\ last' = << >>
           /\ UNCHANGED << ivars, kind, cur, memoA >>
\* the edits of the machine: the first or the last entry, to a value that breaks ties / uniformity
HEdit == /\ CanStep
         /\ \E k \in {1, Len(cur)} : \E v \in {5, IF kind = "array" THEN -7 ELSE cur[k][1] + geo[1]} :
               /\ cur' = Assign(kind, cur, k, 1, v)
               /\ memoA' = IF SetItemDropsCaches THEN << >> ELSE memoA
               /\ steps' = Append(steps, [op |-> "edit", tgt |-> "a", q |-> "", k |-> k, c |-> 1, v |-> v])
         /\ last' = << >>
         /\ UNCHANGED << ivars, kind, dbl, memoD >>
HFinish == /\ fam = "hist" /\ Len(steps) = HistDepth /\ phase = "hist"
           /\ phase' = "dumped"
           /\ IF DumpHistories
              THEN PrintT(ToJson([k |-> "hist", kind |-> kind, h |-> HH, w |-> WW, u |-> LinSeq(SlimSeq(U, HH, WW), WW),
                                  sy |-> geo[1], sx |-> geo[2], oy |-> geo[3], ox |-> geo[4], steps |-> steps]))
              ELSE TRUE
           /\ UNCHANGED << fam, sh, U, geo, pat, call, par, out, hvars >>

HNext == HReadA \/ HReadD \/ HDouble \/ HEdit \/ HFinish
HSpec == HInit /\ [][HNext]_vars

-----------------------------------------------------------------------------
(* Layer 3: properties of the design, checked by TLC on every reachable state *)

Built == phase = "built"
IsDone(name) == phase = "done" /\ call = name

InputsWellFormed == fam \in {"mask", "frame"} => WellFormedGeo(G) /\ U # {} /\ U \subseteq Cells(HH, WW)

\* the slim order is the row-major gather; on an unmasked frame it is every cell
SlimOrder ==
    Built => LET s == SlimSeq(U, HH, WW) IN
             /\ Len(s) = Cardinality(U) /\ ToSet(s) = U
             /\ \A k \in 1 .. Len(s) : Rank(s[k], U, WW) = k
             /\ (fam = "frame" => LinSeq(s, WW) = Everything(NN))
\* a 1D input with shape_native and the same numbers given as rows build the same array
NoMaskFormsAgree ==
    IsDone("Array2D.no_mask") =>
        /\ out = Tags(NN)
        /\ \A c \in Cells(HH, WW) : FillRowMajor(Tags(NN), HH, WW)[c] = Lin(c, WW) + 1
\* from_yx_and_values: scattering then reading the pixels of the pairs gives the values back; the code-shaped
\* formulation (a gather through the same table) is the same array exactly when the table is its own inverse
ScatterLandsInPixel ==
    IsDone("Array2D.from_yx_and_values") =>
        /\ IsPerm(par, NN)
        /\ \A k \in 1 .. NN : out[par[k] + 1] = k
        /\ (YxGather(par, NN) = out) <=> IsInvolution(par, NN)
\* binning: the means recombine to the total of the unmasked values whichever way the array is binned
BinnedMeansRecombine ==
    (IsDone("binned_across_rows") \/ IsDone("binned_across_columns")) =>
        LET nat == MachNat(pat, HH, WW)
            tot == SumOver(U, nat, WW)
        IN /\ CountsDivide(U, HH, WW, BinDen)
           /\ IsDone("binned_across_rows") =>
                 /\ Len(out) = WW
                 /\ SumSeq([j \in 1 .. WW |-> IF out[j] = Nan THEN 0 ELSE out[j] * Cardinality(ColCells(U, j-1))]) = tot * BinDen
                 /\ \A j \in 1 .. WW : (out[j] = Nan) <=> (ColCells(U, j-1) = {})
           /\ IsDone("binned_across_columns") =>
                 /\ Len(out) = HH
                 /\ SumSeq([i \in 1 .. HH |-> IF out[i] = Nan THEN 0 ELSE out[i] * Cardinality(RowCells(U, i-1))]) = tot * BinDen
\* binning is blind to what masked positions hold
BinnedIgnoresMaskedValues ==
    IsDone("binned_across_rows") =>
        out = BinRows([k \in 1 .. NN |-> IF CellOf(k-1, WW) \in U THEN MachNat(pat, HH, WW)[k] ELSE 99], U, HH, WW, BinDen)
\* the two documented placements of a bounding box: the box of the frame's extent (edge pixels align with the box,
\* centres half a pixel inside) and the box through the outermost centres (centres on the box, edge pixels reach half
\* a pixel beyond it) both describe the frame's own pixel centres; from_extent is the second with (x0, x1, y0, y1)
BoundingBoxPlacements ==
    /\ IsDone("Grid2D.bounding_box") =>
          /\ BBoxInside(out, par, HH, WW)
          /\ out[1][1] = par[2] - geo[1] \div 2 /\ out[Len(out)][1] = par[1] + geo[1] \div 2
          /\ out[1][2] = par[3] + geo[2] \div 2 /\ out[Len(out)][2] = par[4] - geo[2] \div 2
    /\ IsDone("Grid2D.bounding_box(buffer_around_corners)") =>
          /\ BBoxOnCorners(out, par, HH, WW)
          /\ out[1] = << par[2], par[3] >> /\ out[Len(out)] = << par[1], par[4] >>
          /\ Top(G) = par[2] + geo[1] \div 2 /\ Left(G) = par[3] - geo[2] \div 2
    /\ IsDone("Grid2D.from_extent") => FromExtentOk(out, par, HH, WW)
\* the blurring grid: masked pixels of the frame within the kernel's reach of an unmasked pixel, in slim order, none of
\* them unmasked, and (with the margin) the kernel footprint never leaves the frame
BlurringGridSane ==
    IsDone("blurring_grid_from") =>
        LET a  == par[1] \div 2
            b  == par[2] \div 2
            gE == Geo(HH + 2*a, WW + 2*b, geo[1], geo[2], geo[3], geo[4])
            uE == Embed(U, a, b)
            bs == BlurringSeq(uE, gE.h, gE.w, par[1], par[2])
        IN /\ ~ FootLeaves(uE, gE.h, gE.w, par[1], par[2])
           /\ ToSet(bs) \cap uE = {}
           /\ \A k \in 1 .. Len(bs) - 1 : Lin(bs[k], gE.w) < Lin(bs[k+1], gE.w)
           /\ (par = << 1, 1 >> => bs = << >>)
           /\ \A k \in 1 .. Len(bs) : \E p \in uE : Abs(out[k][1] - Centre(gE, p)[1]) <= a * geo[1]
                                                   /\ Abs(out[k][2] - Centre(gE, p)[2]) <= b * geo[2]
\* flipping twice and subtracting an offset and its negative are identities
FlipAndSubtractInvert ==
    /\ IsDone("flipped") => Flip(out) = MachPairs
    /\ IsDone("subtracted_from") => Subtract(out, << -par[1], -par[2] >>) = MachPairs
\* the grid of a mask is uniform (in the docstring's y-only sense) exactly when its unmasked rows are contiguous
UniformIffRowsContiguous ==
    IsDone("is_uniform") =>
        LET rows == { c[1] : c \in U } IN out <=> (\A i \in Min(rows) .. Max(rows) : i \in rows)
\* the padded frame is the frame enlarged about the same centre: for an odd kernel the old pixel centres are centres of
\* the padded frame (offset by the kernel half-width), for an even one they sit on its pixel boundaries
PaddedFrameIsCentred ==
    IsDone("padded_grid_from") =>
        LET gp == PadGeo(G, par[1], par[2])
            a  == par[1] \div 2
            b  == par[2] \div 2
        IN /\ Len(out) = (HH + par[1] - 1) * (WW + par[2] - 1)
           /\ Top(gp) + Bottom(gp) = Top(G) + Bottom(G) /\ Left(gp) + Right(gp) = Left(G) + Right(G)
           /\ \A c \in Cells(HH, WW) :
                 Centre(gp, << c[1] + a, c[2] + b >>) =
                     << Centre(G, c)[1] - (IF par[1] % 2 = 0 THEN geo[1] \div 2 ELSE 0),
                        Centre(G, c)[2] + (IF par[2] % 2 = 0 THEN geo[2] \div 2 ELSE 0) >>
\* the two formulations of the polygon area agree; the centre of a grid of pixel centres is a pixel centre or corner
HelperFormulationsAgree ==
    /\ IsDone("compute_polygon_area") => out = Fan2(MachPairs)
    /\ IsDone("grid_2d_centre_from") => out[1] % 2 = 0 /\ out[2] % 2 = 0
    /\ IsDone("grid_2d_of_points_within_radius") =>
          /\ \A k \in 1 .. Len(out) : out[k] \in ToSet(MachPairs)
          /\ \A p \in ToSet(MachPairs) \ ToSet(out) : 2 * (Sq(p[1] - geo[3]) + Sq(p[2] - geo[4])) > par
    /\ IsDone("index_2d_for_index_slim_from") => IndexSlimFor2D(out, WW) = Everything(NN)
    /\ IsDone("grid_2d_slim_upscaled_from") =>
          \A n \in 1 .. NN :
             LET blk == SubSeq(out, (n-1) * par * par + 1, n * par * par) IN
             /\ SumSeq(Ys(blk)) = par * par * AllCentres(G)[n][1]
             /\ SumSeq(Xs(blk)) = par * par * AllCentres(G)[n][2]
             /\ blk[1][1] >= blk[Len(blk)][1] /\ blk[1][2] <= blk[Len(blk)][2]

\* ---- history machine ----
\* every read, after any history, describes the current entries of the object that is read
ReadsDescribeCurrentEntries ==
    (fam = "hist" /\ steps # << >> /\ steps[Len(steps)].op = "read") =>
        LET s == steps[Len(steps)] IN last = ReadOf(kind, s.q, IF s.tgt = "a" THEN cur ELSE dbl, U, HG)
\* a remembered view is never stale
MemoIsCoherent ==
    (fam = "hist" /\ kind = "grid") =>
        /\ memoA \in {<< >>, ReadOf("grid", "uni", cur, U, HG)}
        /\ dbl # << >> => memoD \in {<< >>, ReadOf("grid", "uni", dbl, U, HG)}
\* d = 2 * a is a new object: editing a afterwards leaves it alone (action property)
DoubleIsIndependent == [][(fam = "hist" /\ cur' # cur) => dbl' = dbl]_vars
=============================================================================
