------------------------------ MODULE MeshGeom ------------------------------
(***************************************************************************)
(* X09: mesh geometry -- neighbour tables, edge lists, overlay grids,      *)
(* areas and interpolation describe the actual adjacency and cells of the  *)
(* mesh.                                                                   *)
(*                                                                         *)
(* Exact domain.  Everything is an integer.  Points are <<y, x>> on a tick *)
(* lattice.  Rectangular cell centres are carried times 2*my (y) and       *)
(* 2*mx (x) -- the half-cell lattice.  Delaunay adjacency is DEFINED here  *)
(* by the empty-circle property (integer orientation and in-circle         *)
(* determinants), never by a triangulation library.  Voronoi cell areas    *)
(* are exact rationals: the cell of a bounded vertex k is cut into one     *)
(* kite per Delaunay triangle t = (k,b,c) around k (k, midpoint of kb,     *)
(* circumcentre of t, midpoint of kc); the signed kite area is             *)
(*       Kite(k;b,c) / (8 T),  T = cross(b-k, c-k) > 0,                    *)
(*       Kite = cross(b - c, N),  N = (|b|^2 c - |c|^2 b) rotated,         *)
(* which is the shoelace formula of the cell regrouped triangle by         *)
(* triangle (midpoints lie on the ridges, so they drop out of the sum).    *)
(* Real results are compared in fixed point with bounds derived from the   *)
(* rounding (Trace_MeshGeom.tla).                                          *)
(*                                                                         *)
(* Layer 1 (meaning)   4-adjacency, frame cells, overlay grid;             *)
(*                     empty-circle triangles and edges, hull, unbounded   *)
(*                     cells, cell areas, the capped areas of the split    *)
(*                     cross, barycentric / nearest interpolation.         *)
(* Second formulation  the corner / edge / centre case table of the        *)
(*                     rectangular neighbour code, the two-pass ridge      *)
(*                     table of voronoi_neighbors_from, triangle-side      *)
(*                     adjacency (scipy's vertex_neighbor_vertices).       *)
(* Layer 2 (machine)   rectangular meshes are chosen in Init; a            *)
(*                     triangulation mesh is grown vertex by vertex        *)
(*                     (AddVertex) and tabulated (TabulateTri).            *)
(* Layer 3 (theorems)  the invariants at the end.                          *)
(***************************************************************************)
EXTENDS Integers, Sequences, FiniteSets, TLC, Json, FiniteSetsExt, SequencesExt

CONSTANTS RectShapes,    \* set of <<my, mx>>: rectangular mesh shapes
          Spans,         \* set of <<lo, hi>>: coordinate spans of the overlaid grid (per axis), lo <= hi
          Buffers,       \* set of buffers (>= 0)
          LatticeN,      \* triangulation vertices range over (0 .. LatticeN-1)^2
          MaxVertices    \* triangulations with up to this many vertices

Sq(x) == x * x
AbsV(x) == IF x < 0 THEN -x ELSE x
Sign(x) == IF x > 0 THEN 1 ELSE IF x < 0 THEN -1 ELSE 0
MinI(a, b) == IF a < b THEN a ELSE b
MaxI(a, b) == IF a > b THEN a ELSE b
SumOver(S, f(_)) == FoldSet(LAMBDA x, acc : acc + f(x), 0, S)
SumSeqOf(s) == FoldSeq(LAMBDA x, acc : acc + x, 0, s)
SeqToSet(s) == {s[j] : j \in DOMAIN s}
NoDup(s) == \A a, b \in DOMAIN s : a # b => s[a] # s[b]

-----------------------------------------------------------------------------
(* Layer 1a: rectangular meshes *)

\* Cells are numbered row-major from the top-left corner: k = r * mx + c.
RRow(k, mx) == k \div mx
RCol(k, mx) == k % mx
Adjacent4(a, b, mx) == AbsV(RRow(a, mx) - RRow(b, mx)) + AbsV(RCol(a, mx) - RCol(b, mx)) = 1
\* THE DEFINITION: the 4-adjacent cells of k in the documented order up, left, right, down (ascending numbers)
NbrRow(k, my, mx) ==
    LET r == RRow(k, mx)  c == RCol(k, mx) IN
        (IF r > 0 THEN << k - mx >> ELSE << >>) \o (IF c > 0 THEN << k - 1 >> ELSE << >>)
     \o (IF c < mx - 1 THEN << k + 1 >> ELSE << >>) \o (IF r < my - 1 THEN << k + mx >> ELSE << >>)
NbrTable(my, mx) == TLCEval([k \in 0 .. my * mx - 1 |-> NbrRow(k, my, mx)])
PadTo(s, w) == s \o [j \in 1 .. (w - Len(s)) |-> -1]
\* the cells on the frame boundary
FrameCells(my, mx) == {k \in 0 .. my * mx - 1 : RRow(k, mx) \in {0, my - 1} \/ RCol(k, mx) \in {0, mx - 1}}

\* SECOND FORMULATION (the code): position classes corner / four edges / interior
CaseTable(my, mx) ==
    LET P == my * mx IN
    [a \in 0 .. P - 1 |->
        LET r == a \div mx  c == a % mx IN
        CASE r = 0 /\ c = 0 -> << 1, mx >>
          [] r = 0 /\ c = mx - 1 -> << mx - 2, 2 * mx - 1 >>
          [] r = my - 1 /\ c = 0 -> << P - 2 * mx, P - mx + 1 >>
          [] r = my - 1 /\ c = mx - 1 -> << P - mx - 1, P - 2 >>
          [] r = 0 -> << a - 1, a + 1, a + mx >>
          [] c = 0 -> << a - mx, a + 1, a + mx >>
          [] c = mx - 1 -> << a - mx, a - 1, a + mx >>
          [] r = my - 1 -> << a - mx, a - 1, a + 1 >>
          [] OTHER -> << a - mx, a - 1, a + 1, a + mx >> ]
\* the code's edge list: cells whose padded row holds a -1
FewerThanFour(tbl) == {k \in DOMAIN tbl : Len(tbl[k]) < 4}

\* ---- overlay grid ----------------------------------------------------------
\* pts: the grid the mesh is laid over; b: buffer.  The outer edges of the mesh are the bounding box of pts enlarged by b.
BBoxOf(pts) == [ y0 |-> Min({pts[q][1] : q \in DOMAIN pts}), y1 |-> Max({pts[q][1] : q \in DOMAIN pts}),
                 x0 |-> Min({pts[q][2] : q \in DOMAIN pts}), x1 |-> Max({pts[q][2] : q \in DOMAIN pts}) ]
OvH(bb, b) == bb.y1 - bb.y0 + 2 * b        \* height = pixel scale (y) * my
OvW(bb, b) == bb.x1 - bb.x0 + 2 * b        \* width  = pixel scale (x) * mx
OverlayOk(bb, b) == OvH(bb, b) > 0 /\ OvW(bb, b) > 0
\* centre of cell k: y times 2*my, x times 2*mx  (row 0 is the top row = largest y, column 0 the smallest x)
Centre2(k, my, mx, bb, b) ==
    << 2 * my * (bb.y1 + b) - (2 * RRow(k, mx) + 1) * OvH(bb, b),
       2 * mx * (bb.x0 - b) + (2 * RCol(k, mx) + 1) * OvW(bb, b) >>
Centres2(my, mx, bb, b) == TLCEval([j \in 1 .. my * mx |-> Centre2(j - 1, my, mx, bb, b)])
Origin2(bb) == << bb.y0 + bb.y1, bb.x0 + bb.x1 >>                       \* twice the origin (centre of the box)
ExtentOf(bb, b) == << bb.x0 - b, bb.x1 + b, bb.y0 - b, bb.y1 + b >>   \* (x0, x1, y0, y1) as the library orders it

-----------------------------------------------------------------------------
(* Layer 1b: Delaunay / Voronoi meshes on lattice points *)

\* V: sequence of points <<y,x>>; vertices are numbered 1..Len(V) here (0.. in the library: row k+1 <-> vertex k)
Idx(V) == 1 .. Len(V)
\* twice the signed area of (a,b,c); only signs / absolute values are used, so the (y,x) order is immaterial
Orient(a, b, c) == (b[1] - a[1]) * (c[2] - a[2]) - (b[2] - a[2]) * (c[1] - a[1])
Area2(a, b, c) == AbsV(Orient(a, b, c))
\* in-circle determinant: sign * sign of Orient(a,b,c) = +1 iff d lies strictly inside the circle through a, b, c
InCircle(a, b, c, d) ==
    LET ay == a[1] - d[1]  ax == a[2] - d[2]
        by == b[1] - d[1]  bx == b[2] - d[2]
        cy == c[1] - d[1]  cx == c[2] - d[2]
    IN  (Sq(ay) + Sq(ax)) * (by * cx - bx * cy)
      - (Sq(by) + Sq(bx)) * (ay * cx - ax * cy)
      + (Sq(cy) + Sq(cx)) * (ay * bx - ax * by)
StrictlyInCircle(a, b, c, d) == Sign(InCircle(a, b, c, d)) * Sign(Orient(a, b, c)) > 0
Dist2(a, b) == Sq(a[1] - b[1]) + Sq(a[2] - b[2])

Triples(n) == {t \in (1 .. n) \X (1 .. n) \X (1 .. n) : t[1] < t[2] /\ t[2] < t[3]}
Pairs(n) == {e \in (1 .. n) \X (1 .. n) : e[1] < e[2]}
TriSet(t) == {t[1], t[2], t[3]}
\* THE DEFINITION (empty-circle property): a non-degenerate triple whose circumcircle has no vertex strictly inside
EmptyCircleTriangle(V, t) ==
    /\ Orient(V[t[1]], V[t[2]], V[t[3]]) # 0
    /\ \A m \in Idx(V) \ TriSet(t) : ~ StrictlyInCircle(V[t[1]], V[t[2]], V[t[3]], V[m])
DelTriangles(V) == TLCEval({t \in Triples(Len(V)) : EmptyCircleTriangle(V, t)})

\* the same property for a pair: some circle through i and j has no other vertex inside.  Centres of circles through i, j
\* run along the bisector; a vertex l on the left bounds the centre from one side, a vertex r on the right from the other,
\* and the two bounds are compatible iff r is not strictly inside the circle through i, j, l.
SideOf(V, i, j, s) == {m \in Idx(V) \ {i, j} : Sign(Orient(V[i], V[j], V[m])) = s}
StrictlyBetween(a, b, p) ==
    /\ Orient(a, b, p) = 0 /\ p # a /\ p # b
    /\ MinI(a[1], b[1]) <= p[1] /\ p[1] <= MaxI(a[1], b[1]) /\ MinI(a[2], b[2]) <= p[2] /\ p[2] <= MaxI(a[2], b[2])
EmptyCircleEdge(V, i, j) ==
    /\ i # j
    /\ \A m \in Idx(V) \ {i, j} : ~ StrictlyBetween(V[i], V[j], V[m])
    /\ \A l \in SideOf(V, i, j, 1) : \A r \in SideOf(V, i, j, -1) : ~ StrictlyInCircle(V[i], V[j], V[l], V[r])
DelEdges(V) == TLCEval({e \in Pairs(Len(V)) : EmptyCircleEdge(V, e[1], e[2])})
\* adjacency table: vertex k |-> set of vertices sharing a Delaunay edge (= a Voronoi ridge) with it
AdjOf(V, E) == TLCEval([k \in Idx(V) |-> {e[2] : e \in {f \in E : f[1] = k}} \cup {e[1] : e \in {f \in E : f[2] = k}}])
Adjacency(V) == AdjOf(V, DelEdges(V))

\* SECOND FORMULATIONS
\* (i) scipy's vertex_neighbor_vertices: the sides of the triangles
TriangleSides(T) == UNION {{<< t[1], t[2] >>, << t[1], t[3] >>, << t[2], t[3] >>} : t \in T}
\* (ii) voronoi_neighbors_from: two passes over a ridge list (count, then fill)
RECURSIVE RidgeFill(_, _, _)
RidgeFill(tbl, ridges, q) ==
    IF q > Len(ridges) THEN tbl
    ELSE LET a == ridges[q][1]  b == ridges[q][2]
         IN RidgeFill([tbl EXCEPT ![a] = Append(@, b), ![b] = Append(@, a)], ridges, q + 1)
RidgeTable(n, ridges) == RidgeFill([k \in 1 .. n |-> << >>], ridges, 1)
RidgeSizes(n, ridges) == [k \in 1 .. n |-> Cardinality({q \in DOMAIN ridges : ridges[q][1] = k \/ ridges[q][2] = k})]

\* ---- hull and unbounded cells ---------------------------------------------
HullEdge(V, i, j) == i # j /\ (SideOf(V, i, j, 1) = {} \/ SideOf(V, i, j, -1) = {})
                           /\ \A m \in Idx(V) \ {i, j} : ~ StrictlyBetween(V[i], V[j], V[m])
HullEdges(V) == {e \in Pairs(Len(V)) : HullEdge(V, e[1], e[2])}
\* vertices on the boundary of the convex hull
HullVertices(V) == {k \in Idx(V) : \E j \in Idx(V) : HullEdge(V, k, j)}
\* the Voronoi cell of k is unbounded iff its Delaunay neighbours leave an angular gap of at least a half turn
UnboundedCell(V, adj, k) == \E j \in adj[k] : \A m \in adj[k] \ {j} : Orient(V[k], V[j], V[m]) <= 0
\* ... iff the fan of triangles around k does not close up
TrianglesAt(T, k) == {t \in T : k \in TriSet(t)}
FanClosed(T, adj, k) == Cardinality(TrianglesAt(T, k)) = Cardinality(adj[k])

\* ---- general position (the domain of the statement) -------------------------
Distinct(V) == \A a, b \in Idx(V) : a # b => V[a] # V[b]
NotAllCollinear(V) == {t \in Triples(Len(V)) : Orient(V[t[1]], V[t[2]], V[t[3]]) # 0} # {}
\* no vertex in the relative interior of a side of the hull (three collinear hull points)
NoCollinearHullPoints(V) ==
    \A e \in Pairs(Len(V)) :
        (SideOf(V, e[1], e[2], 1) = {} \/ SideOf(V, e[1], e[2], -1) = {}) =>
            \A m \in Idx(V) \ {e[1], e[2]} : Orient(V[e[1]], V[e[2]], V[m]) # 0
\* no empty circle through four vertices (the only way two Delaunay triangulations can exist)
NoAmbiguousCircle(V) ==
    \A t \in DelTriangles(V) : \A m \in Idx(V) \ TriSet(t) : InCircle(V[t[1]], V[t[2]], V[t[3]], V[m]) # 0
GeneralPosition(V) ==
    Len(V) >= 3 /\ Distinct(V) /\ NotAllCollinear(V) /\ NoCollinearHullPoints(V) /\ NoAmbiguousCircle(V)

\* ---- Voronoi cell areas -----------------------------------------------------
\* kite of vertex k in the triangle (k, b, c): numerator over 8*T, see the module header
KiteOf(k, b0, c0) ==
    LET b1 == << b0[1] - k[1], b0[2] - k[2] >>
        c1 == << c0[1] - k[1], c0[2] - k[2] >>
        pos == b1[1] * c1[2] - b1[2] * c1[1] > 0
        b == IF pos THEN b1 ELSE c1
        c == IF pos THEN c1 ELSE b1
        T == b[1] * c[2] - b[2] * c[1]
        bb == Sq(b[1]) + Sq(b[2])
        cc == Sq(c[1]) + Sq(c[2])
        n1 == bb * c[2] - cc * b[2]
        n2 == cc * b[1] - bb * c[1]
    IN [q |-> (b[1] - c[1]) * n2 - (b[2] - c[2]) * n1, t |-> T]
Others(t, k) == LET o == TriSet(t) \ {k} IN << Min(o), Max(o) >>
\* the kites of the cell of k, one per triangle of the fan
CellKites(V, T, k) ==
    LET fan == SetToSeq(TrianglesAt(T, k))
    IN TLCEval([j \in DOMAIN fan |-> KiteOf(V[k], V[Others(fan[j], k)[1]], V[Others(fan[j], k)[2]])])
\* area of a bounded cell times F, bracketed:  Lo <= area * F < Lo + (number of kites)
AreaLoF(kites, F) == SumSeqOf([j \in DOMAIN kites |-> (kites[j].q * F) \div (8 * kites[j].t)])
AreaHiF(kites, F) == AreaLoF(kites, F) + Len(kites)
\* exact: area = Num / (8 L), L = lcm of the T's of the fan -- formed only while it stays small (ExactCap), so that no
\* product leaves the 32-bit range; the reduced fraction << num, den >> is what a float can be identified with
RECURSIVE Gcd(_, _)
Gcd(a, b) == IF b = 0 THEN a ELSE Gcd(b, a % b)
Lcm(a, b) == (a \div Gcd(a, b)) * b
ExactCap == 1250
FanLcm(kites) == FoldSeq(LAMBDA kt, acc : IF acc > ExactCap THEN acc ELSE Lcm(acc, kt.t), 1, kites)
MaxAbsKite(kites) == Max({AbsV(kites[j].q) : j \in DOMAIN kites})
ExactFits(kites) == FanLcm(kites) <= ExactCap /\ MaxAbsKite(kites) * Len(kites) < 200000
AreaExact(kites) ==
    LET L == FanLcm(kites)
        num == SumSeqOf([j \in DOMAIN kites |-> kites[j].q * (L \div kites[j].t)])
        g == Gcd(AbsV(num), 8 * L)
    IN << num \div g, (8 * L) \div g >>

\* ---- the capped areas of the split cross ------------------------------------
\* voronoi_pixel_areas_for_split: cap = 90th percentile (linear interpolation between order statistics, the rule of
\* numpy.percentile) of the area vector in which unbounded cells stand as -1; unbounded cells and cells above the cap
\* get the cap.  ar: sequence of integers (areas * F, unbounded cells as -sent).  Result times 10.
PercentileCap10(ar) ==
    LET s == SortSeq(ar, LAMBDA a, b : a < b)
        n == Len(ar)
        lo == (9 * (n - 1)) \div 10
        fr == (9 * (n - 1)) % 10
        hi == MinI(lo + 1, n - 1)
    IN (10 - fr) * s[lo + 1] + fr * s[hi + 1]

\* ---- interpolation -----------------------------------------------------------
\* Output points of interpolated_array_from(values, shape_native = (H, W), extent = (x0, x1, y0, y1)):
\*   y_r = y1 - r (y1 - y0) / (H - 1),  x_c = x0 + c (x1 - x0) / (W - 1)     (Grid2D.from_extent, rows from the top)
\* With the extent given in HALF ticks (E = 2 * extent) the point (r, c) is  << PY / sy, PX / sx >>  with
\*   sy = 2 (H - 1), sx = 2 (W - 1),  PY = E.y1 (H-1) - r (E.y1 - E.y0),  PX = E.x0 (W-1) + c (E.x1 - E.x0).
\* Orientation signs and area ratios are invariant under the axis scalings, so the vertices are scaled instead.
OutPoint(E, H, W, r, c) == << E[4] * (H - 1) - r * (E[4] - E[3]), E[1] * (W - 1) + c * (E[2] - E[1]) >>
ScaleV(V, sy, sx) == TLCEval([k \in DOMAIN V |-> << V[k][1] * sy, V[k][2] * sx >>])
InClosedTriangle(Ws, t, p) ==
    LET a == Ws[t[1]]  b == Ws[t[2]]  c == Ws[t[3]]  s == Sign(Orient(a, b, c))
    IN Sign(Orient(a, b, p)) * s >= 0 /\ Sign(Orient(b, c, p)) * s >= 0 /\ Sign(Orient(c, a, p)) * s >= 0
OnSegment(a, b, p) ==
    /\ Orient(a, b, p) = 0
    /\ MinI(a[1], b[1]) <= p[1] /\ p[1] <= MaxI(a[1], b[1]) /\ MinI(a[2], b[2]) <= p[2] /\ p[2] <= MaxI(a[2], b[2])
OnHullBoundary(Ws, HE, p) == \E e \in HE : OnSegment(Ws[e[1]], Ws[e[2]], p)
\* barycentric interpolation in the triangle t: value = BaryNum / BaryDen
BaryNum(Ws, vals, t, p) ==
      vals[t[1]] * Area2(p, Ws[t[2]], Ws[t[3]]) + vals[t[2]] * Area2(Ws[t[1]], p, Ws[t[3]])
    + vals[t[3]] * Area2(Ws[t[1]], Ws[t[2]], p)
BaryDen(Ws, t) == Area2(Ws[t[1]], Ws[t[2]], Ws[t[3]])
\* squared distance of the point p = << PY/sy, PX/sx >> to the scaled vertex w, times (sy sx)^2 / (sy sx)^2 ... in common units
Dist2Scaled(w, p, sy, sx) == Sq((w[1] - p[1]) * sx) + Sq((w[2] - p[2]) * sy)
NearestVertices(Ws, p, sy, sx) ==
    {k \in DOMAIN Ws : \A j \in DOMAIN Ws : Dist2Scaled(Ws[k], p, sy, sx) <= Dist2Scaled(Ws[j], p, sy, sx)}

-----------------------------------------------------------------------------
(* Layer 2: the bounded machine *)

VARIABLES mesh,   \* [kind |-> "rect", my, mx, ys, xs, b]  or  [kind |-> "tri", cells |-> increasing lattice cell numbers]
          tab     \* << >> until the mesh is tabulated, then the record of its tables
vars == << mesh, tab >>

LatticePoint(c) == << c \div LatticeN, c % LatticeN >>
PointsOf(cells) == TLCEval([j \in DOMAIN cells |-> LatticePoint(cells[j])])
SpanBox(ys, xs) == [y0 |-> ys[1], y1 |-> ys[2], x0 |-> xs[1], x1 |-> xs[2]]

Init ==
    /\ tab = << >>
    /\ \/ mesh = [kind |-> "tri", cells |-> << >>]
       \/ \E sh \in RectShapes : \E ys \in Spans : \E xs \in Spans : \E b \in Buffers :
            /\ OverlayOk(SpanBox(ys, xs), b)
            /\ mesh = [kind |-> "rect", my |-> sh[1], mx |-> sh[2], ys |-> ys, xs |-> xs, b |-> b]

\* Mesh2DDelaunay / Mesh2DVoronoi(values): one more vertex (sets are built in increasing lattice order: each set once)
AddVertex ==
    /\ mesh.kind = "tri" /\ tab = << >> /\ Len(mesh.cells) < MaxVertices
    /\ \E c \in 0 .. LatticeN * LatticeN - 1 :
          /\ (IF Len(mesh.cells) = 0 THEN TRUE ELSE c > mesh.cells[Len(mesh.cells)])
          /\ mesh' = [mesh EXCEPT !.cells = Append(@, c)]
    /\ UNCHANGED tab

TriTables(V) ==
    LET T == DelTriangles(V)
        E == DelEdges(V)
    IN [T |-> T, E |-> E, adj |-> AdjOf(V, E), hull |-> HullVertices(V), ntri |-> Cardinality(T), nedge |-> Cardinality(E)]

\* neighbors / edge_pixel_list / voronoi_pixel_areas of a mesh in general position
TabulateTri ==
    /\ mesh.kind = "tri" /\ tab = << >> /\ Len(mesh.cells) >= 3
    /\ GeneralPosition(PointsOf(mesh.cells)) = TRUE
    /\ tab' = TriTables(PointsOf(mesh.cells))
    /\ PrintT(ToJson([k |-> "inst", kind |-> "tri", cells |-> mesh.cells]))
    /\ UNCHANGED mesh

\* Mesh2DRectangular.overlay_grid + neighbors + edge_pixel_list
TabulateRect ==
    /\ mesh.kind = "rect" /\ tab = << >>
    /\ tab' = [nbr |-> NbrTable(mesh.my, mesh.mx), edge |-> FrameCells(mesh.my, mesh.mx),
               cen |-> Centres2(mesh.my, mesh.mx, SpanBox(mesh.ys, mesh.xs), mesh.b)]
    /\ PrintT(ToJson([k |-> "inst", kind |-> "rect", my |-> mesh.my, mx |-> mesh.mx, ys |-> mesh.ys, xs |-> mesh.xs,
                      b |-> mesh.b]))
    /\ UNCHANGED mesh

Next == AddVertex \/ TabulateTri \/ TabulateRect
Spec == Init /\ [][Next]_vars

-----------------------------------------------------------------------------
(* Layer 3: design-level theorems (checked by TLC on every tabulated mesh) *)

IsRect == mesh.kind = "rect" /\ tab # << >>
IsTri == mesh.kind = "tri" /\ tab # << >>
TV == PointsOf(mesh.cells)

\* ---- rectangular ----
RectNeighboursAre4Adjacency ==
    IsRect => \A a, b \in 0 .. mesh.my * mesh.mx - 1 :
                  (b \in SeqToSet(tab.nbr[a])) <=> Adjacent4(a, b, mesh.mx)
RectNeighboursSymmetric ==
    IsRect => \A a, b \in DOMAIN tab.nbr : (b \in SeqToSet(tab.nbr[a])) <=> (a \in SeqToSet(tab.nbr[b]))
RectRowsAscendingNoRepeat ==
    IsRect => \A a \in DOMAIN tab.nbr :
                  /\ Len(tab.nbr[a]) <= 4
                  /\ \A p, q \in DOMAIN tab.nbr[a] : p < q => tab.nbr[a][p] < tab.nbr[a][q]
\* the corner / edge / centre case analysis of the code is the definition exactly when no two classes collide
CaseTableValidFrom2x2 ==
    IsRect => ((CaseTable(mesh.my, mesh.mx) = tab.nbr) <=> (mesh.my >= 2 /\ mesh.mx >= 2))
\* "a cell with fewer than four neighbours" is "a cell on the frame" (the code's edge list), for every shape
FewerThanFourIsFrame == IsRect => FewerThanFour(tab.nbr) = tab.edge
FrameCount ==
    IsRect => Cardinality(tab.edge) = mesh.my * mesh.mx - MaxI(mesh.my - 2, 0) * MaxI(mesh.mx - 2, 0)
\* overlay: the outer edges are the box +- buffer, rows from the top, columns from the left, centres symmetric about the origin
OverlayFillsTheBox ==
    IsRect =>
      LET bb == SpanBox(mesh.ys, mesh.xs)  my == mesh.my  mx == mesh.mx  b == mesh.b
          H == OvH(bb, b)  W == OvW(bb, b)
      IN /\ tab.cen[1][1] + H = 2 * my * (bb.y1 + b)                    \* top edge of the first row
         /\ tab.cen[my * mx][1] - H = 2 * my * (bb.y0 - b)               \* bottom edge of the last row
         /\ tab.cen[1][2] - W = 2 * mx * (bb.x0 - b)                    \* left edge
         /\ tab.cen[my * mx][2] + W = 2 * mx * (bb.x1 + b)               \* right edge
         /\ \A j \in 1 .. my * mx - 1 :
               IF j % mx # 0 THEN tab.cen[j + 1] = << tab.cen[j][1], tab.cen[j][2] + 2 * W >>       \* next column
               ELSE tab.cen[j + 1][1] = tab.cen[j][1] - 2 * H /\ tab.cen[j + 1][2] = tab.cen[1][2]  \* next row
         /\ \A j \in 1 .. my * mx :
               /\ tab.cen[j][1] + tab.cen[my * mx + 1 - j][1] = 2 * my * Origin2(bb)[1]
               /\ tab.cen[j][2] + tab.cen[my * mx + 1 - j][2] = 2 * mx * Origin2(bb)[2]

\* ---- triangulations ----
\* (each theorem is stated on the vertex sequence V and the tabulated answer t, and instantiated once per state)
EdgeRelationSymmetricOn(V) == \A i, j \in Idx(V) : EmptyCircleEdge(V, i, j) <=> EmptyCircleEdge(V, j, i)
EdgeRelationSymmetric == IsTri => EdgeRelationSymmetricOn(TV)
AdjacencySymmetric == IsTri => \A i, j \in DOMAIN tab.adj : (j \in tab.adj[i]) <=> (i \in tab.adj[j])
\* the pairwise empty-circle property is the side relation of the empty-circle triangles (scipy's formulation)
EdgesAreTriangleSides == IsTri => tab.E = TriangleSides(tab.T)
\* the two-pass ridge table stands for the same adjacency, whatever the order of the ridge list
RidgeTableIsAdjacency ==
    IsTri => LET n == Len(mesh.cells)
                 R == SetToSeq(tab.E)
                 tbl == RidgeTable(n, R)
             IN /\ \A k \in 1 .. n : SeqToSet(tbl[k]) = tab.adj[k] /\ NoDup(tbl[k])
                /\ RidgeSizes(n, R) = [k \in 1 .. n |-> Cardinality(tab.adj[k])]
                /\ RidgeTable(n, Reverse(R)) = [k \in 1 .. n |-> Reverse(tbl[k])]
\* Euler: e = 3n - 3 - h, t = 2n - 2 - h
EulerCount ==
    IsTri => LET n == Len(mesh.cells)  h == Cardinality(tab.hull)
             IN tab.nedge = 3 * n - 3 - h /\ tab.ntri = 2 * n - 2 - h
\* hull vertices = unbounded Voronoi cells = open triangle fans
HullIsUnboundedCellsOn(V, t) ==
    \A k \in Idx(V) : /\ (k \in t.hull) <=> UnboundedCell(V, t.adj, k)
                      /\ (k \in t.hull) <=> ~ FanClosed(t.T, t.adj, k)
HullIsUnboundedCells == IsTri => HullIsUnboundedCellsOn(TV, tab)
HullEdgesAreDelaunay == IsTri => HullEdges(TV) \subseteq tab.E
\* the three kites of a triangle tile it: K_a + K_b + K_c = 4 T^2 (all over 8 T), and bounded cells have positive area
KitesTileOn(V, t) ==
    \A tr \in t.T :
        LET a == V[tr[1]]  b == V[tr[2]]  c == V[tr[3]]
            ka == KiteOf(a, b, c)  kb == KiteOf(b, c, a)  kc == KiteOf(c, a, b)
        IN /\ ka.t = Area2(a, b, c) /\ kb.t = ka.t /\ kc.t = ka.t
           /\ ka.q + kb.q + kc.q = 4 * Sq(ka.t)
KitesTileTheTriangle == IsTri => KitesTileOn(TV, tab)
PositiveAreasOn(V, t) == \A k \in Idx(V) \ t.hull : AreaLoF(CellKites(V, t.T, k), 64) > 0
BoundedCellsHavePositiveArea == IsTri => PositiveAreasOn(TV, tab)
\* the exact area lies in the fixed-point bracket used for recorded executions
ExactAreaInBracketOn(V, t) ==
    \A k \in Idx(V) \ t.hull :
        LET ks == CellKites(V, t.T, k) IN
        ExactFits(ks) => LET a == AreaExact(ks) IN
                         a[2] > 0 /\ a[1] > 0 /\ AreaLoF(ks, 1000) * a[2] <= 1000 * a[1] /\ 1000 * a[1] < AreaHiF(ks, 1000) * a[2]
ExactAreaInBracket == IsTri => ExactAreaInBracketOn(TV, tab)
\* the tables follow the vertex order: reversing the input reverses the rows and renames the entries, nothing else
PermutationCovariantOn(V, t) ==
    LET n == Len(V)
        R == TLCEval([k \in 1 .. n |-> V[n + 1 - k]])
        adjR == Adjacency(R)
    IN /\ \A k \in 1 .. n : adjR[n + 1 - k] = {n + 1 - j : j \in t.adj[k]}
       /\ HullVertices(R) = {n + 1 - k : k \in t.hull}
PermutationCovariant == IsTri => PermutationCovariantOn(TV, tab)
\* every vertex lies in some triangle, every triangle is empty: the answer is a triangulation of the vertices
EveryVertexInATriangle == IsTri => \A k \in 1 .. Len(mesh.cells) : TrianglesAt(tab.T, k) # {}
=============================================================================
