------------------------------ MODULE Simulate ------------------------------
(***************************************************************************)
(* X15 -- a simulated dataset is the documented pipeline applied to the    *)
(* input image, stage by stage, and nothing else                           *)
(* (PyAutoArray: autoarray/dataset/imaging/simulator.py,                   *)
(*  autoarray/dataset/interferometer/simulator.py).                        *)
(*                                                                         *)
(* Every stage is stated with the operators that already define it in the  *)
(* other checks (restated below, see "Definitions shared with ..."):       *)
(*   Convolution.tla (C03)  whole-frame 'same' convolution                 *)
(*   Resize.tla      (C14)  padding / trimming for an odd kernel           *)
(*   Preprocess.tla  (X01)  sqrt(|d t|)/t, the fixed-point verdict on      *)
(*                          square roots, seed-then-draw                   *)
(*   Dft.tla         (C13)  the forward transform on the lattice           *)
(*                                                                         *)
(* Exact domain (imaging).  A frame is H x W, native images are row-major  *)
(* sequences.  A kernel is a flat row-major sequence K of integers whose   *)
(* sum Q is a power of two, so that normalising it (dividing by Q) is      *)
(* exact.  Every image value is an INTEGER in the FINE UNIT u = (image     *)
(* unit)(kernel unit)/Q: the PSF the simulator uses is PsfFine(K, norm) =  *)
(* K when it was asked to normalise and Q K when it was not.  The sky      *)
(* level is an integer in the same unit.  The exposure time is tm times a  *)
(* power of two chosen such that one count is u * 2^e = 1/cw (cw = 1, 4):  *)
(* data times exposure time, the expected counts, is X tm / cw for a pixel *)
(* value X, and a Poisson-noisy pixel value is an integer Y in the unit    *)
(* u/tm.  A noise-map value is sqrt(N)/D with N = |Y|, D = tm (X01's       *)
(* radicands), judged in fixed point.  Random contents are never modelled  *)
(* by value: the machine uses a stand-in draw that is a function of (seed, *)
(* expected counts) and nothing else, the trace spec binds the real draws  *)
(* to X01's function by content identifiers.                               *)
(* Exact domain (interferometer): Dft.tla's quarter-turn lattice.          *)
(*                                                                         *)
(* Layer 1 (meaning) is written from the docstrings of the two simulators: *)
(*   1) receive an image  2) convolve it with the PSF (normalised if       *)
(*   normalize_psf)  3) add the background sky  4) add Poisson noise       *)
(*   5) subtract the background sky (if subtract_background_sky);          *)
(*   the noise map is noise_if_add_noise_false everywhere unless           *)
(*   include_poisson_noise_in_noise_map, in which case it holds "the noise *)
(*   levels expected if Poisson noise had been included".                  *)
(* Layer 2 is the machine: one simulator object, calls of via_image_from   *)
(* on it, every call a sequence of the named stages Pad / Convolve / Trim  *)
(* / AddSky / Poisson / NoiseMap / SubtractSky selected by local guards on *)
(* the option flags (the shape of the code).  Layer 3 states that the      *)
(* staged machine computes the documented pipeline.                        *)
(***************************************************************************)
EXTENDS Integers, Sequences, FiniteSets, TLC, Json, SequencesExt

CONSTANTS
  Kernels,       \* set of <<kh, kw, variant>>: odd PSF shapes x {"pos", "signed"};  <<0, 0, "none">> stands for psf = None
  FlagSets,      \* set of <<norm, pn, nm, sub>> (normalize_psf, add_poisson_noise_to_data, include_poisson_noise_in_noise_map,
                 \* subtract_background_sky) for the single-call family
  SkyLevels,     \* subset of {0, 1, 2}: no sky, a small odd sky, a sky covering every negative pixel
  Times,         \* exposure time mantissas tm
  Seeds,         \* noise seeds (0 is a real seed)
  Frames,        \* set of <<H, W>> image frames of the single-call family
  ImgVariants,   \* subset of {"pos", "signed"}: image value patterns
  Geoms,         \* sequence of <<py, px, oy, ox>>: pixel scales and origin of an image in ticks
  Thin, ThinOff, \* a call of the single-call family is explored iff (Hash + ThinOff) % Thin = 0
  HistKernels, HistFlagSets, HistSky, HistTime,   \* simulators of the history family
  HistChoices,   \* set of <<H, W, variant, seed>>: what a call of a history may be
  HistLen,       \* number of calls in a history
  VisShapes, VisOrigins, VisBaselines,   \* interferometer: frames, mask origins <<oy2, ox2>>, baseline sequences
  VisMaskMode,   \* "all" | "few" | "two": which masks of the frames with more than 3 cells (as in Dft.tla)
  VisHistLen     \* number of calls in an interferometer history (1 = single calls only)

-----------------------------------------------------------------------------
(* Definitions shared with the modules of the other checks.  They are RESTATED here, not INSTANCEd: those modules      *)
(* declare CONSTANTS and VARIABLES of their own machines and keep growing, and an INSTANCE breaks whenever one of them   *)
(* gains a parameter.  Each block names the module and operator it restates, verbatim up to renaming.                  *)

\* ---- frames (Masks.tla / Convolution.tla / Resize.tla / Dft.tla all use these) -------------------------------
Cells(H, W) == (0 .. H - 1) \X (0 .. W - 1)
Lin(c, W) == c[1] * W + c[2]
CellOf(k, W) == << k \div W, k % W >>
InFrame(c, H, W) == c[1] >= 0 /\ c[1] < H /\ c[2] >= 0 /\ c[2] < W
RowMajor(H, W) == [k \in 1 .. H * W |-> CellOf(k - 1, W)]
SlimSeq(u, H, W) == SelectSeq(RowMajor(H, W), LAMBDA c : c \in u)

\* ---- Convolution.tla (C03): Sum, Offsets, ImgAt, Full, WholeFrame ------------------------------------------------
Sum(s) == FoldLeft(LAMBDA a, b : a + b, 0, s)
\* kernel entry n (flat, row-major) sits at this offset from the kernel centre
Offsets(kh, kw) == [n \in 1 .. kh * kw |-> << ((n - 1) \div kw) - (kh \div 2), ((n - 1) % kw) - (kw \div 2) >>]
\* a native image read at any integer position: zero outside the frame
ImgAt(img, c, H, W) == IF InFrame(c, H, W) THEN img[Lin(c, W) + 1] ELSE 0
\* (img * K)[t] = SUM over offsets d of Kc[d] * img[t - d]   ("flipped": the image index runs against d)
Full(img, K, H, W, kh, kw, t) ==
    LET off == Offsets(kh, kw)
    IN Sum([n \in 1 .. kh * kw |-> K[n] * ImgAt(img, << t[1] - off[n][1], t[2] - off[n][2] >>, H, W)])
\* whole-frame 'same' convolution (what Kernel2D.convolved_array_from computes on an unmasked array)
WholeFrame(img, K, H, W, kh, kw) == [n \in 1 .. H * W |-> Full(img, K, H, W, kh, kw, CellOf(n - 1, W))]

\* ---- Resize.tla (C14): Pad, WindowSrc, PadShape, TrimShape, PadForKernel, TrimForKernel ---------------------------
PadTag == -1   \* source tag "padding / zero"
\* the H2 x W2 window of an H x W frame whose top-left output cell shows input cell <<oy, ox>>
WindowSrc(H, W, U, H2, W2, oy, ox) ==
    [k \in 1 .. H2 * W2 |->
        LET c == << (k - 1) \div W2 + oy, ((k - 1) % W2) + ox >>
        IN IF InFrame(c, H, W) /\ c \in U THEN Lin(c, W) ELSE PadTag]
PadShape(H, W, kh, kw) == << H + kh - 1, W + kw - 1 >>
TrimShape(H, W, kh, kw) == << H - (kh - 1), W - (kw - 1) >>
PadForKernel(H, W, U, kh, kw) == WindowSrc(H, W, U, H + kh - 1, W + kw - 1, -(kh \div 2), -(kw \div 2))
TrimForKernel(H, W, U, kh, kw) == WindowSrc(H, W, U, H - (kh - 1), W - (kw - 1), kh \div 2, kw \div 2)

\* ---- Preprocess.tla (X01): Rad, PoissonRad, InRange, Isqrt, IsSquare, FxSqrtOk, ExactSqrtOk, SqrtOk, CodeDraw --------
Abs(x) == IF x < 0 THEN -x ELSE x
\* every noise-map builder is sqrt(N) / D with integers N >= 0, D > 0;  from data in eps and an exposure time: sqrt(|d t|) / t
Rad(N, D) == [n |-> N, d |-> D]
PoissonRad(d, t) == Rad(Abs(d * t), t)
InRange(x) == x >= -10000000 /\ x <= 10000000
RECURSIVE IsqrtB(_, _, _)
IsqrtB(x, lo, hi) == IF lo = hi THEN lo
                     ELSE LET m == (lo + hi + 1) \div 2
                          IN IF m * m <= x THEN IsqrtB(x, m, hi) ELSE IsqrtB(x, lo, m - 1)
Isqrt(x) == IsqrtB(x, 0, 46340)
IsSquare(x) == x >= 0 /\ Isqrt(x) * Isqrt(x) = x
\* coarse fixed point: s = round(S * sqrt(N) / D) up to one unit; guarded against 32-bit overflow
FxInRange(s, N, D, S) == /\ S >= 1 /\ N >= 0 /\ D >= 1
                         /\ N <= 2000000000 \div (S * S)
                         /\ s >= 0 /\ s <= (46000 \div D) - 1
FxSqrtOk(s, N, D, S) ==
    /\ FxInRange(s, N, D, S)
    /\ S * S * N <= ((s + 1) * D) * ((s + 1) * D)
    /\ (s >= 1 => ((s - 1) * D) * ((s - 1) * D) <= S * S * N)
\* exact mode for perfect squares N = r^2: sf = round(SF * r / D), |sf D - SF r| <= D/2
ExactSqrtOk(sf, N, D, SF) ==
    LET r == Isqrt(N)
    IN /\ sf >= 0 /\ D >= 1 /\ sf <= 2000000000 \div D /\ r <= 2000000000 \div SF
       /\ Abs(sf * D - SF * r) <= D \div 2
SqrtOk(s, sf, rad, S, SF) ==
    IF IsSquare(rad.n) THEN ExactSqrtOk(sf, rad.n, rad.d, SF) ELSE FxSqrtOk(s, rad.n, rad.d, S)
\* the seeded noise functions: `if seed == -1: seed = randint(...)`; np.random.seed(seed); draw from the global generator.
\* A content is named by the generator state it was drawn from.
CodeDraw(fn, seed, g) == IF seed = -1 THEN << fn, "global", g >> ELSE << fn, "seeded", seed >>

\* ---- Dft.tla (C13): Gaussian integers, Phase, Centres, OnLattice, Vis, MaskFamily, Images ----------------------------
GZero == << 0, 0 >>
GAdd(a, b) == << a[1] + b[1], a[2] + b[2] >>
GScale(n, a) == << n * a[1], n * a[2] >>
\* exp(-2 pi i n / 4) = (-i)^n
CosQ(n) == CASE n % 4 = 0 -> 1 [] n % 4 = 2 -> -1 [] OTHER -> 0
SinQ(n) == CASE n % 4 = 1 -> -1 [] n % 4 = 3 -> 1 [] OTHER -> 0
Phase(n) == << CosQ(n), SinQ(n) >>
GSum(s0) == LET s == TLCEval(s0)
               f[k \in 0 .. Len(s)] == IF k = 0 THEN GZero ELSE GAdd(f[k - 1], s[k]) IN f[Len(s)]
\* centre of cell <<i,j>> in half pixels: y grows upwards, x to the right, the frame centre sits at the origin
Centre(c, H, W, org) == << (H - 1) - 2 * c[1] + org[1], 2 * c[2] - (W - 1) + org[2] >>
Centres(U, H, W, org) == LET s == SlimSeq(U, H, W) IN TLCEval([p \in 1 .. Len(s) |-> Centre(s[p], H, W, org)])
\* u pairs with x, v pairs with y:  8 (x u + y v) in turns = 2 n
TwiceN(c, b) == c[2] * b[1] + c[1] * b[2]
OnLattice(Cn, Bs) == \A p \in DOMAIN Cn : \A k \in DOMAIN Bs : TwiceN(Cn[p], Bs[k]) % 2 = 0
PhaseN(c, b) == TwiceN(c, b) \div 2
VisAt(img, Cn, b) == GSum([p \in 1 .. Len(Cn) |-> GScale(img[p], Phase(PhaseN(Cn[p], b)))])
DftVis(img, Cn, Bs) == TLCEval([k \in 1 .. Len(Bs) |-> VisAt(img, Cn, Bs[k])])
\* Dft!MaskFamily for the modes "all" / "few" / "two"
MaskFamily(H, W) ==
    LET all == Cells(H, W)
        first == << 0, 0 >>
        last == << H - 1, W - 1 >>
        mid == CellOf((H * W) \div 2, W)
    IN IF VisMaskMode = "all" \/ H * W <= 3 THEN (SUBSET all) \ {{}}
       ELSE IF VisMaskMode = "two" THEN {all \ {first}, {mid, last}}
       ELSE {all, all \ {first}, all \ {mid}, {first}, {last}, {first, last}, {mid, last}}
\* Dft!Images (the family without Rich): values in -2 .. 2, both signs, zeros
Ramp(n) == [p \in 1 .. n |-> ((2 * p) % 5) - 2]
UnitImg(n, q, c) == [p \in 1 .. n |-> IF p = q THEN c ELSE 0]
Images(n) ==
    IF n = 1 THEN [1 .. n -> -2 .. 2]
    ELSE {UnitImg(n, q, IF q % 2 = 0 THEN -2 ELSE 1) : q \in 1 .. n}
         \cup {Ramp(n), [p \in 1 .. n |-> IF p % 2 = 0 THEN -1 ELSE 2]}

-----------------------------------------------------------------------------
(* Layer 1: meaning *)

Pow2s == { 1, 2, 4, 8, 16, 32, 64, 128, 256, 512, 1024, 2048, 4096 }
Pow2Above(s) == CHOOSE q \in Pow2s : q >= s /\ \A p \in Pow2s : p >= s => q <= p
IsOddShape(kh, kw) == kh % 2 = 1 /\ kw % 2 = 1
NCells(H, W) == H * W

\* ---- the PSF ---------------------------------------------------------------------------------
\* "normalize_psf: if True, the PSF kernel is normalized so all values sum to 1.0" -- and if False it is used as given.
\* In units of 1/Q (Q = the sum of K): normalised K/Q is K, unnormalised K is Q K.
KSum(K) == Sum(K)
PsfDen(K, norm) == IF norm THEN KSum(K) ELSE 1
PsfFine(K, norm) == [n \in DOMAIN K |-> K[n] * (KSum(K) \div PsfDen(K, norm))]
AbsSum(K) == Sum([n \in DOMAIN K |-> Abs(K[n])])

\* ---- stages 1-2: the image convolved with the PSF, on the frame of the image ------------------------
\* (the whole-frame 'same' convolution of C03: the image counts as zero outside its frame)
Blurred(img, Kf, H, W, kh, kw) == WholeFrame(img, Kf, H, W, kh, kw)

\* the same stage as the three steps  pad by half a kernel / convolve / trim back  (C14's data movements)
AllCells(H, W) == Cells(H, W)
Move(src, v) == [k \in DOMAIN src |-> IF src[k] = PadTag THEN 0 ELSE v[src[k] + 1]]
PadImg(img, H, W, kh, kw) == Move(PadForKernel(H, W, AllCells(H, W), kh, kw), img)
TrimImg(v, PH, PW, kh, kw) == Move(TrimForKernel(PH, PW, AllCells(PH, PW), kh, kw), v)

\* ---- stage 3 / 5: the background sky ---------------------------------------------------------------
AddConst(v, c) == [k \in DOMAIN v |-> v[k] + c]
Scale(v, c) == [k \in DOMAIN v |-> v[k] * c]
\* the sky levels explored: none, a small odd one (finer than the lattice of an unnormalised convolution), and one that
\* covers every negative pixel of a convolved image whose values are at most 8 in magnitude
SkyOf(level, Kf) == CASE level = 0 -> 0 [] level = 1 -> 3 [] OTHER -> 8 * AbsSum(Kf)

\* ---- stage 4: Poisson noise -------------------------------------------------------------------------
\* expected counts of a pixel value X (fine units): X tm / cw.  X01's function returns
\*     data_eps + (data_eps - poisson(counts) / t)  =  (2 X tm - cw n) / tm      for the drawn count n >= 0.
NoisyValue(X, n, tm, cw) == 2 * X * tm - cw * n
\* n explains an observed noisy value Y (unit u/tm)
IsPoissonReflection(Y, X, tm, cw) == LET d == 2 * X * tm - Y IN d >= 0 /\ d % cw = 0
\* The machine's stand-in for the seeded generator: ANY function of (seed, expected counts, position) would do; what
\* matters is that it is a function of nothing else.
Draw(seed, lam, k) == LET n == lam + ((seed + 3 * k) % 5) - 2 IN IF n < 0 THEN 0 ELSE n
\* (the content of a seeded draw as X01 names it: CodeDraw)
DrawId(fn, seed) == CodeDraw(fn, seed, 0)

\* ---- the noise map ------------------------------------------------------------------------------------
\* X01: noise = sqrt(|data_eps t|) / t = sqrt(N) / D with N = |counts|, D = t.  Here the counts of a pixel whose value
\* in the unit u/tm is Y are Y / cw and t = tm 2^e: noise = sqrt(|Y|) / tm in the unit sqrt(1/cw) / 2^e.
CountsRad(Y, tm) == Rad(Abs(Y), tm)

\* ---- the documented pipeline as one function -----------------------------------------------------------
\* c: simulator configuration; a: the arguments of one call [h, w, img, seed, g].
KernelOfCfg(c) == c.k
Raised(a) == [h |-> a.h, w |-> a.w, raised |-> TRUE, num |-> << >>, den |-> 1,
              nmap |-> [kind |-> "none", rad |-> << >>], g |-> a.g]
NoiseFreeWithSky(c, a) == AddConst(Blurred(a.img, PsfFine(c.k, c.norm), a.h, a.w, c.kh, c.kw), c.sky)
HasNegative(v) == \E k \in DOMAIN v : v[k] < 0
ImgPipeline(c, a) ==
    LET X == NoiseFreeWithSky(c, a)
        draws == c.pn \/ c.nm
    IN IF draws /\ HasNegative(X) THEN Raised(a)       \* a Poisson distribution of negative mean is not defined
       ELSE LET Y == [k \in DOMAIN X |-> NoisyValue(X[k], Draw(a.seed, X[k] * c.tm, k), c.tm, 1)]
            IN [h |-> a.h, w |-> a.w, raised |-> FALSE,
                num |-> IF c.pn THEN AddConst(Y, IF c.sub THEN -(c.sky * c.tm) ELSE 0)
                                ELSE AddConst(X, IF c.sub THEN -c.sky ELSE 0),
                den |-> IF c.pn THEN c.tm ELSE 1,
                nmap |-> IF c.nm THEN [kind |-> "poisson", rad |-> [k \in DOMAIN Y |-> CountsRad(Y[k], c.tm)]]
                                 ELSE [kind |-> "const", rad |-> << >>],
                g |-> a.g]

\* ---- the documented order of the stages, and which of them an option combination selects --------------
DocOrder == << "Pad", "Convolve", "Trim", "AddSky", "Poisson", "NoiseMap", "SubtractSky" >>
StageOn(c, s) == CASE s \in { "Pad", "Convolve", "Trim" } -> c.psf
                   [] s = "Poisson" -> c.pn \/ c.nm
                   [] s = "SubtractSky" -> c.sub
                   [] OTHER -> TRUE
Selected(c) == SelectSeq(DocOrder, LAMBDA s : StageOn(c, s))
VisOrder == << "Transform", "GaussianNoise", "VisNoiseMap" >>
VisSelected(c) == SelectSeq(VisOrder, LAMBDA s : s # "GaussianNoise" \/ c.sigma)
PrefixOf(p, s) == Len(p) <= Len(s) /\ \A j \in DOMAIN p : p[j] = s[j]

\* ---- interferometer ----------------------------------------------------------------------------------
VisNoiseFree(img, u, H, W, org, b) == DftVis(img, Centres(u, H, W, org), b)
VisPipeline(c, a) ==
    [h |-> c.h, w |-> c.w, raised |-> FALSE, num |-> VisNoiseFree(a.img, c.u, c.h, c.w, c.org, c.b), den |-> 1,
     nmap |-> [kind |-> IF c.sigma THEN "sigma" ELSE "if-add-noise-false",
               rad |-> IF c.sigma THEN DrawId("data_with_complex_gaussian_noise_added", a.seed) ELSE << >>],
     g |-> a.g]

-----------------------------------------------------------------------------
(* Kernels and images of the bounded machine *)

\* entries n = 1 .. kh kw (alternating signs for "signed"), the central entry adjusted so that the sum is a power of two
BaseK(v, kh, kw) ==
    [n \in 1 .. kh * kw |-> IF v = "signed" /\ (((n - 1) \div kw) + ((n - 1) % kw)) % 2 = 1 THEN -n ELSE n]
KernelOf(v, kh, kw) ==
    LET b == BaseK(v, kh, kw)
        s == Sum(b)
        q == Pow2Above(IF s < 1 THEN 1 ELSE s)
        c == (kh \div 2) * kw + (kw \div 2) + 1
    IN [n \in 1 .. kh * kw |-> IF n = c THEN b[n] + q - s ELSE b[n]]
ImgOf(v, H, W) ==
    [n \in 1 .. H * W |-> IF v = "pos" THEN ((7 * n) % 5) + (n % 2)
                          ELSE IF n % 3 = 0 THEN -((n % 4) + 1) ELSE (n % 5)]

-----------------------------------------------------------------------------
(* Layer 2: the machine *)

VARIABLES sim,    \* the simulator object (its configuration; the seed is a public attribute that a user may assign)
          pc,     \* "new" | "Call" | the stage just done | "done"
          call,   \* arguments of the call in progress
          work,   \* the working image [h, w, v, den]: values v / den in fine units
          noisy,  \* the Poisson-noisy image with sky (unit u/tm), kept for the noise map
          nmap,   \* the noise map
          log,    \* stages done in this call
          hist    \* completed calls: [args, out]
vars == << sim, pc, call, work, noisy, nmap, log, hist >>

B2I(b) == IF b THEN 1 ELSE 0
VCode(v) == CASE v = "pos" -> 0 [] v = "signed" -> 1 [] OTHER -> 2

BlankSim == [kind |-> "none", fam |-> "", psf |-> FALSE, kh |-> 1, kw |-> 1, kv |-> "none", k |-> << 1 >>, norm |-> FALSE,
             pn |-> FALSE, nm |-> FALSE, sub |-> FALSE, lvl |-> 0, sky |-> 0, tm |-> 1, seed |-> 0, ncalls |-> 1,
             h |-> 1, w |-> 1, u |-> {}, org |-> << 0, 0 >>, b |-> << >>, sigma |-> FALSE]
BlankCall == [h |-> 1, w |-> 1, iv |-> "", seed |-> 0, img |-> << 0 >>, g |-> << 0, 0, 0, 0 >>]
BlankWork == [h |-> 1, w |-> 1, v |-> << >>, den |-> 1]
NoMap == [kind |-> "none", rad |-> << >>]

ImgSim(fam, kd, f, lvl, tm, n) ==
    LET psf == kd[1] > 0
        kh == IF psf THEN kd[1] ELSE 1
        kw == IF psf THEN kd[2] ELSE 1
        K == IF psf THEN KernelOf(kd[3], kh, kw) ELSE << 1 >>
    IN [BlankSim EXCEPT !.kind = "img", !.fam = fam, !.psf = psf, !.kh = kh, !.kw = kw, !.kv = kd[3], !.k = K,
                        !.norm = f[1], !.pn = f[2], !.nm = f[3], !.sub = f[4], !.lvl = lvl,
                        !.sky = SkyOf(lvl, PsfFine(K, f[1])), !.tm = tm, !.ncalls = n]
\* (psf = None has nothing to normalise: only norm = TRUE is explored for it; without sky there is nothing to subtract,
\*  but the flag is still explored)
ImgSims(fam, kernels, flags, levels, times, n) ==
    { ImgSim(fam, x[1], x[2], x[3], x[4], n) :
        x \in { y \in kernels \X flags \X levels \X times : y[1][1] > 0 \/ y[2][1] } }
VisSimsOf(s) ==
    { [BlankSim EXCEPT !.kind = "vis", !.fam = IF n > 1 THEN "vhist" ELSE "vsingle", !.h = s[1], !.w = s[2], !.u = u,
                       !.org = o, !.b = b, !.sigma = sg, !.ncalls = n] :
        u \in MaskFamily(s[1], s[2]), o \in VisOrigins, b \in VisBaselines, sg \in BOOLEAN,
        \* histories of VisHistLen calls on one object: on the frames of at most two cells
        n \in { 1 } \cup (IF VisHistLen > 1 /\ s[1] * s[2] <= 2 THEN { VisHistLen } ELSE {}) }
VisSims == UNION { VisSimsOf(s) : s \in VisShapes }
VisSimOk(c) == /\ c.u \in MaskFamily(c.h, c.w)
               /\ OnLattice(Centres(c.u, c.h, c.w, c.org), c.b)

Init ==
    /\ sim \in ImgSims("single", Kernels, FlagSets, SkyLevels, Times, 1)
               \cup ImgSims("hist", HistKernels, HistFlagSets, { HistSky }, { HistTime }, HistLen)
               \cup { c \in VisSims : VisSimOk(c) }
    /\ pc = "new" /\ call = BlankCall /\ work = BlankWork /\ noisy = << >> /\ nmap = NoMap /\ log = << >> /\ hist = << >>

\* ---- one call of via_image_from on the object ------------------------------------------------------------
SeedsFor(c) == IF c.pn \/ c.nm THEN Seeds ELSE { 7 }
Hash(c, ch) ==
    c.kh * 7 + c.kw * 13 + VCode(c.kv) * 3 + B2I(c.norm) + 2 * B2I(c.pn) + 4 * B2I(c.nm) + 8 * B2I(c.sub) + c.lvl * 5 + c.tm
    + ch[1] * 11 + ch[2] * 17 + VCode(ch[3]) * 19 + ch[4]
Keep(c, ch) == c.fam # "single" \/ (Hash(c, ch) + ThinOff) % Thin = 0
CallChoices(c) == IF c.fam = "hist" THEN HistChoices
              ELSE { << f[1], f[2], v, s >> : f \in Frames, v \in ImgVariants, s \in SeedsFor(c) }
GeomOf(c, ch) == Geoms[(Hash(c, ch) % Len(Geoms)) + 1]

Call ==
    /\ sim.kind = "img" /\ pc \in { "new", "done" } /\ Len(hist) < sim.ncalls
    /\ \E ch \in CallChoices(sim) :
          /\ Keep(sim, ch)
          /\ call' = [h |-> ch[1], w |-> ch[2], iv |-> ch[3], seed |-> ch[4], img |-> ImgOf(ch[3], ch[1], ch[2]),
                      g |-> GeomOf(sim, ch)]
          /\ sim' = [sim EXCEPT !.seed = ch[4]]                \* (constructor argument, or sim.noise_seed = ... later on)
          /\ work' = [h |-> ch[1], w |-> ch[2], v |-> ImgOf(ch[3], ch[1], ch[2]), den |-> 1]
    /\ pc' = "Call" /\ log' = << >> /\ noisy' = << >> /\ nmap' = NoMap
    /\ UNCHANGED hist

Kf == PsfFine(sim.k, sim.norm)

Pad ==
    /\ pc = "Call" /\ sim.kind = "img" /\ sim.psf
    /\ LET ps == PadShape(work.h, work.w, sim.kh, sim.kw)
       IN work' = [work EXCEPT !.h = ps[1], !.w = ps[2], !.v = PadImg(work.v, work.h, work.w, sim.kh, sim.kw)]
    /\ pc' = "Pad" /\ log' = Append(log, "Pad")
    /\ UNCHANGED << sim, call, noisy, nmap, hist >>

Convolve ==
    /\ pc = "Pad"
    /\ work' = [work EXCEPT !.v = WholeFrame(work.v, Kf, work.h, work.w, sim.kh, sim.kw)]
    /\ pc' = "Convolve" /\ log' = Append(log, "Convolve")
    /\ UNCHANGED << sim, call, noisy, nmap, hist >>

Trim ==
    /\ pc = "Convolve"
    /\ LET ts == TrimShape(work.h, work.w, sim.kh, sim.kw)
       IN work' = [work EXCEPT !.h = ts[1], !.w = ts[2], !.v = TrimImg(work.v, work.h, work.w, sim.kh, sim.kw)]
    /\ pc' = "Trim" /\ log' = Append(log, "Trim")
    /\ UNCHANGED << sim, call, noisy, nmap, hist >>

AddSky ==
    /\ pc = "Trim" \/ (pc = "Call" /\ sim.kind = "img" /\ ~ sim.psf)
    /\ work' = [work EXCEPT !.v = AddConst(work.v, sim.sky)]
    /\ pc' = "AddSky" /\ log' = Append(log, "AddSky")
    /\ UNCHANGED << sim, call, noisy, nmap, hist >>

DumpIfComplete(h2) ==
    (Len(h2) = sim.ncalls) =>
        PrintT(ToJson([k |-> "inst", kind |-> sim.kind, fam |-> sim.fam, psf |-> sim.psf, kh |-> sim.kh, kw |-> sim.kw,
                       kv |-> sim.kv, kern |-> sim.k, norm |-> sim.norm, pn |-> sim.pn, nm |-> sim.nm, sub |-> sim.sub,
                       sky |-> sim.sky, tm |-> sim.tm, h |-> sim.h, w |-> sim.w,
                       u |-> LET s == SlimSeq(sim.u, sim.h, sim.w) IN [q \in 1 .. Len(s) |-> Lin(s[q], sim.w)],
                       org |-> sim.org, b |-> sim.b, sigma |-> sim.sigma,
                       calls |-> [j \in DOMAIN h2 |-> h2[j].args]]))

Finish(out) ==
    LET h2 == Append(hist, [args |-> call, out |-> out])
    IN /\ hist' = h2
       /\ DumpIfComplete(h2)
       /\ pc' = "done"

\* the Poisson stage runs when its draw is needed for the data or for the noise map; a negative expected count has no
\* Poisson distribution: the call ends there (what the code does then is recorded as observed, not judged)
Poisson ==
    /\ pc = "AddSky" /\ (sim.pn \/ sim.nm) = TRUE      \* ("= TRUE": a plain Boolean, not an action disjunction)
    /\ log' = Append(log, "Poisson")
    /\ IF HasNegative(work.v)
       THEN /\ Finish(Raised(call))
            /\ UNCHANGED << work, noisy, nmap >>
       ELSE /\ LET Y == [k \in DOMAIN work.v |-> NoisyValue(work.v[k], Draw(sim.seed, work.v[k] * sim.tm, k), sim.tm, 1)]
               IN /\ noisy' = Y
                  /\ work' = IF sim.pn THEN [work EXCEPT !.v = Y, !.den = sim.tm] ELSE work
            /\ pc' = "Poisson"
            /\ UNCHANGED << nmap, hist >>
    /\ UNCHANGED << sim, call >>

NoiseMap ==
    /\ pc = "Poisson" \/ (pc = "AddSky" /\ ~ (sim.pn \/ sim.nm))
    /\ nmap' = IF sim.nm THEN [kind |-> "poisson", rad |-> [k \in DOMAIN noisy |-> CountsRad(noisy[k], sim.tm)]]
                         ELSE [kind |-> "const", rad |-> << >>]
    /\ pc' = "NoiseMap" /\ log' = Append(log, "NoiseMap")
    /\ UNCHANGED << sim, call, work, noisy, hist >>

SubtractSky ==
    /\ pc = "NoiseMap" /\ sim.sub
    /\ work' = [work EXCEPT !.v = AddConst(work.v, -(sim.sky * work.den))]
    /\ pc' = "SubtractSky" /\ log' = Append(log, "SubtractSky")
    /\ UNCHANGED << sim, call, noisy, nmap, hist >>

Return ==
    /\ pc = "SubtractSky" \/ (pc = "NoiseMap" /\ ~ sim.sub)
    /\ Finish([h |-> work.h, w |-> work.w, raised |-> FALSE, num |-> work.v, den |-> work.den, nmap |-> nmap, g |-> call.g])
    /\ UNCHANGED << sim, call, work, noisy, nmap, log >>

\* ---- the interferometer simulator ------------------------------------------------------------------------
\* (histories draw from two images and two seeds, so that equal and different calls meet on one object)
VisImages(c) == LET all == Images(Cardinality(c.u))
                IN IF c.fam = "vhist" THEN { Ramp(Cardinality(c.u)), [p \in 1 .. Cardinality(c.u) |-> IF p % 2 = 0 THEN -1 ELSE 2] } ELSE all
VisSeeds(c) == IF ~ c.sigma THEN { 7 } ELSE IF c.fam = "vhist" THEN { 0, 1 } ELSE Seeds
VisCall ==
    /\ sim.kind = "vis" /\ pc \in { "new", "done" } /\ Len(hist) < sim.ncalls
    /\ \E img \in VisImages(sim) : \E s \in VisSeeds(sim) :
          /\ call' = [BlankCall EXCEPT !.h = sim.h, !.w = sim.w, !.seed = s, !.img = img]
          /\ sim' = [sim EXCEPT !.seed = s]
    /\ pc' = "Call" /\ log' = << >> /\ noisy' = << >> /\ nmap' = NoMap /\ work' = BlankWork
    /\ UNCHANGED hist

Transform ==
    /\ pc = "Call" /\ sim.kind = "vis"
    /\ work' = [h |-> sim.h, w |-> sim.w, v |-> VisNoiseFree(call.img, sim.u, sim.h, sim.w, sim.org, sim.b), den |-> 1]
    /\ pc' = "Transform" /\ log' = Append(log, "Transform")
    /\ UNCHANGED << sim, call, noisy, nmap, hist >>

GaussianNoise ==
    /\ pc = "Transform" /\ sim.sigma
    /\ noisy' = DrawId("data_with_complex_gaussian_noise_added", sim.seed)
    /\ pc' = "GaussianNoise" /\ log' = Append(log, "GaussianNoise")
    /\ UNCHANGED << sim, call, work, nmap, hist >>

VisNoiseMap ==
    /\ pc = "GaussianNoise" \/ (pc = "Transform" /\ ~ sim.sigma)
    /\ nmap' = [kind |-> IF sim.sigma THEN "sigma" ELSE "if-add-noise-false", rad |-> noisy]
    /\ pc' = "VisNoiseMap" /\ log' = Append(log, "VisNoiseMap")
    /\ UNCHANGED << sim, call, work, noisy, hist >>

ReturnVis ==
    /\ pc = "VisNoiseMap"
    /\ Finish([h |-> work.h, w |-> work.w, raised |-> FALSE, num |-> work.v, den |-> 1, nmap |-> nmap, g |-> call.g])
    /\ UNCHANGED << sim, call, work, noisy, nmap, log >>

Next == Call \/ Pad \/ Convolve \/ Trim \/ AddSky \/ Poisson \/ NoiseMap \/ SubtractSky \/ Return
        \/ VisCall \/ Transform \/ GaussianNoise \/ VisNoiseMap \/ ReturnVis
Spec == Init /\ [][Next]_vars

-----------------------------------------------------------------------------
(* Layer 3: properties of the design *)

IsImg == sim.kind = "img"
IsVis == sim.kind = "vis"
LastCall == hist[Len(hist)]
Done == pc = "done"

\* the locally guarded stages run in the documented order, and exactly the stages the options select are run
StageOrderAsDocumented ==
    /\ IsImg => /\ PrefixOf(log, Selected(sim))
              /\ (Done /\ ~ LastCall.out.raised => log = Selected(sim))
              /\ (pc \notin { "new", "Call", "done" } => pc = log[Len(log)])
    /\ IsVis => /\ PrefixOf(log, VisSelected(sim))
              /\ (Done => log = VisSelected(sim))

\* pad / convolve / trim is the 'same' convolution of C03 on the frame of the image, whatever the (odd) kernel shape
PadConvolveTrimIsSameConvolution ==
    /\ pc = "Pad" => /\ << work.h, work.w >> = << call.h + sim.kh - 1, call.w + sim.kw - 1 >>
                     /\ Sum(work.v) = Sum(call.img)
                     /\ TrimImg(work.v, work.h, work.w, sim.kh, sim.kw) = call.img        \* padding then trimming: identity
    /\ pc = "Trim" => /\ << work.h, work.w >> = << call.h, call.w >>
                      /\ work.v = Blurred(call.img, Kf, call.h, call.w, sim.kh, sim.kw)

\* the kernels: odd shapes, sums that are powers of two, exact normalisation
KernelsAreExactlyNormalisable ==
    IsImg => /\ IsOddShape(sim.kh, sim.kw) /\ Len(sim.k) = sim.kh * sim.kw
           /\ KSum(sim.k) \in Pow2s
           /\ Sum(PsfFine(sim.k, TRUE)) = KSum(sim.k)                                 \* sums to 1 in units of 1/Q
           /\ PsfFine(sim.k, FALSE) = Scale(sim.k, KSum(sim.k))                       \* K itself in units of 1/Q
           /\ (~ sim.psf => sim.k = << 1 >>)

\* with Poisson noise off the returned data are the convolved image plus the sky (minus the sky when it is subtracted)
NoiseFreeDataIsConvolvedImagePlusSky ==
    IsImg /\ Done /\ ~ sim.pn /\ ~ LastCall.out.raised =>
        LET a == LastCall.args
            conv == Blurred(a.img, Kf, a.h, a.w, sim.kh, sim.kw)
        IN /\ LastCall.out.den = 1
           /\ LastCall.out.num = AddConst(conv, IF sim.sub THEN 0 ELSE sim.sky)
           /\ (~ sim.psf => conv = a.img)
           /\ (sim.lvl = 2 => ~ HasNegative(AddConst(conv, sim.sky)))                   \* the covering sky covers

\* with Poisson noise on, the sky is in the image when the draw is made and leaves it afterwards; every noisy value is
\* the reflection of a non-negative count about the expected value
SkyIsAddedBeforeTheDrawAndSubtractedAfter ==
    IsImg /\ Done /\ sim.pn /\ ~ LastCall.out.raised =>
        LET a == LastCall.args
            X == NoiseFreeWithSky(sim, a)
            out == LastCall.out
        IN /\ out.den = sim.tm
           /\ \A k \in DOMAIN X : IsPoissonReflection(out.num[k] + (IF sim.sub THEN sim.sky * sim.tm ELSE 0), X[k], sim.tm, 1)

\* the noise map is the constant when Poisson noise is not requested in it, X01's sqrt(|counts|)/t of the image WITH sky
\* when it is -- never of the sky-subtracted data, so it does not depend on subtract_background_sky
NoiseMapMatchesOption ==
    IsImg /\ Done /\ ~ LastCall.out.raised =>
        LET a == LastCall.args
            out == LastCall.out
        IN /\ (~ sim.nm => out.nmap = [kind |-> "const", rad |-> << >>])
           /\ (sim.nm => /\ out.nmap.kind = "poisson" /\ Len(out.nmap.rad) = a.h * a.w
                         /\ \A k \in DOMAIN out.nmap.rad : out.nmap.rad[k].d = sim.tm /\ out.nmap.rad[k].n >= 0)
           /\ (sim.nm /\ sim.pn =>
                 \A k \in DOMAIN out.nmap.rad :
                     out.nmap.rad[k] = CountsRad(out.num[k] + (IF sim.sub THEN sim.sky * sim.tm ELSE 0), sim.tm))
           /\ out.nmap = ImgPipeline([sim EXCEPT !.sub = ~ sim.sub], a).nmap
           \* X01's formula on a noise-free image: sqrt(|X t|) / t
           /\ \A k \in DOMAIN a.img : CountsRad(a.img[k] * sim.tm, sim.tm) = PoissonRad(a.img[k], sim.tm)

\* the output lives on the frame of the input image, with its pixel scales and origin, for every kernel shape
OutputFrameIsImageFrame ==
    IsImg /\ Done =>
        /\ LastCall.out.h = LastCall.args.h /\ LastCall.out.w = LastCall.args.w /\ LastCall.out.g = LastCall.args.g
        /\ (~ LastCall.out.raised => Len(LastCall.out.num) = LastCall.args.h * LastCall.args.w)

\* every completed call is the documented pipeline of ITS OWN arguments and of the configuration of the simulator:
\* equal calls give equal results, earlier calls leave no trace
CallsAreIndependent ==
    /\ \A j \in DOMAIN hist :
          hist[j].out = IF IsImg THEN ImgPipeline(sim, hist[j].args) ELSE VisPipeline(sim, hist[j].args)
    /\ \A i \in DOMAIN hist : \A j \in DOMAIN hist : hist[i].args = hist[j].args => hist[i].out = hist[j].out
\* ... and nothing but the seed attribute of the simulator ever changes
SimulatorKeepsItsConfiguration == [][ [sim' EXCEPT !.seed = 0] = [sim EXCEPT !.seed = 0] ]_vars

\* interferometer: noise-free data are C13's forward transform on the mask; the noise map is one of the two constants
VisibilitiesAreTheForwardTransform ==
    IsVis /\ Done =>
        /\ OnLattice(Centres(sim.u, sim.h, sim.w, sim.org), sim.b)
        /\ LastCall.out.num = DftVis(LastCall.args.img, Centres(sim.u, sim.h, sim.w, sim.org), sim.b)
        /\ Len(LastCall.out.num) = Len(sim.b)
        /\ LastCall.out.nmap.kind = (IF sim.sigma THEN "sigma" ELSE "if-add-noise-false")
        /\ (sim.sigma <=> LastCall.out.nmap.rad # << >>)
=============================================================================
