------------------------------ MODULE Preloads ------------------------------
(***************************************************************************)
(* C15: preloaded and cached intermediate results never change inversion   *)
(* outputs.  A history machine over one shared Preloads object and a       *)
(* sequence of inversions that use it.                                     *)
(*                                                                         *)
(* Contents are abstract.  A curvature-like buffer is the multiplicity k   *)
(* in  F + k*H  (the single-regularization fast path adds H IN PLACE into  *)
(* the buffer that holds the curvature matrix and evicts the cache entry); *)
(* every other quantity is "ok" (equal to the fresh computation) or        *)
(* derived from a curvature buffer and then carries its k.                 *)
(*                                                                         *)
(* CopyOnUse is the defensive copy of the preloaded curvature matrix.      *)
(* With CopyOnUse = FALSE TLC shows the second inversion reading F+H as F. *)
(***************************************************************************)
EXTENDS Integers, Sequences, FiniteSets, TLC, Json

CONSTANTS Slots,        \* the public preload slots, a subset of AllSlots
          CopyOnUse,    \* BOOLEAN
          MaxRuns,      \* number of successive inversions sharing one Preloads object
          MaxReads,     \* reads per inversion explored
          SingleReg     \* BOOLEAN: exactly one linear object (the in-place F += H path) or several (np.add)

AllSlots == {"w_tilde", "curvature_matrix", "regularization_matrix", "log_det_regularization_matrix_term", "operated_mapping_matrix"}
Quantities == {"data_vector", "curvature_matrix", "regularization_matrix", "curvature_reg_matrix", "reconstruction",
               "mapped_reconstructed_data", "regularization_term", "log_det_curvature_reg_matrix_term",
               "log_det_regularization_matrix_term", "operated_mapping_matrix"}

VARIABLES filled,   \* subset of Slots that the shared Preloads object has filled (from a reference inversion)
          preK,     \* multiplicity k of the preloaded curvature buffer (0 = pristine F)
          run,      \* index of the current inversion (0 = none yet)
          cache,    \* current inversion: cached quantity -> k of its buffer (only curvature-like ones matter)
          alias,    \* current inversion: does its cached curvature_matrix alias the preloaded buffer?
          nreads,   \* reads done on the current inversion
          out,      \* last read: [q, k] (k = multiplicity reported, relative to what a fresh inversion reports)
          hist      \* history of actions (hidden by VIEW)
vars == << filled, preK, run, cache, alias, nreads, out, hist >>
view == << filled, preK, run, cache, alias, nreads, out >>

NoCache == [q \in {} |-> 0]

Init == /\ filled \in SUBSET Slots
        /\ preK = 0 /\ run = 0 /\ cache = NoCache /\ alias = FALSE /\ nreads = 0
        /\ out = [q |-> "none", k |-> 0]
        /\ hist = << [a |-> "Preloads", filled |-> filled] >>

\* a new inversion on identical inputs with the same Preloads object
NewInversion ==
  /\ run < MaxRuns
  /\ (run = 0 \/ nreads > 0)
  /\ run' = run + 1 /\ cache' = NoCache /\ alias' = FALSE /\ nreads' = 0
  /\ out' = [q |-> "new", k |-> 0]
  /\ hist' = Append(hist, [a |-> "NewInversion"])
  /\ UNCHANGED << filled, preK >>

\* --- the dependency structure of the cached properties (what a read computes transitively) ---
\* curvature_matrix: from the cache, else from the preload slot (copied or aliased), else computed afresh (k = 0)
CurvK == IF "curvature_matrix" \in DOMAIN cache THEN cache["curvature_matrix"]
         ELSE IF "curvature_matrix" \in filled THEN preK ELSE 0
CurvAliases == IF "curvature_matrix" \in DOMAIN cache THEN alias
               ELSE "curvature_matrix" \in filled /\ ~ CopyOnUse

\* reading curvature_matrix caches it
AfterCurv(c) == IF "curvature_matrix" \in DOMAIN c THEN c ELSE c @@ [q \in {"curvature_matrix"} |-> CurvK]

\* curvature_reg_matrix: cached, else F (+) H.  Single regularization: in place on the curvature buffer, which is evicted.
RegK == IF "curvature_reg_matrix" \in DOMAIN cache THEN cache["curvature_reg_matrix"] ELSE CurvK + 1

ReadCurvature ==
  /\ cache' = AfterCurv(cache)
  /\ alias' = CurvAliases
  /\ out' = [q |-> "curvature_matrix", k |-> CurvK]
  /\ UNCHANGED preK

\* any quantity that needs F + H (curvature_reg_matrix itself, reconstruction, mapped data, reg term, log det of F+H)
ReadNeedsReg(q) ==
  /\ IF "curvature_reg_matrix" \in DOMAIN cache
     THEN /\ cache' = cache /\ alias' = alias /\ UNCHANGED preK
     ELSE IF SingleReg
          THEN \* in place: the curvature buffer becomes F+H and leaves the cache; if it aliased the preload, that changed too
               /\ cache' = [x \in (DOMAIN cache \ {"curvature_matrix"}) \cup {"curvature_reg_matrix"} |->
                               IF x = "curvature_reg_matrix" THEN CurvK + 1 ELSE cache[x]]
               /\ preK' = IF CurvAliases THEN preK + 1 ELSE preK
               /\ alias' = FALSE
          ELSE /\ cache' = AfterCurv(cache) @@ [x \in {"curvature_reg_matrix"} |-> CurvK + 1]
               /\ alias' = CurvAliases
               /\ UNCHANGED preK
  /\ out' = [q |-> q, k |-> RegK - 1]      \* 0 iff the value is what a fresh inversion reports

\* quantities independent of the curvature buffers (served from slots or computed; never modified in place)
ReadPlain(q) ==
  /\ out' = [q |-> q, k |-> 0]
  /\ UNCHANGED << cache, alias, preK >>

Read(q) ==
  /\ run > 0 /\ nreads < MaxReads
  /\ CASE q = "curvature_matrix" -> ReadCurvature
       [] q \in {"curvature_reg_matrix", "reconstruction", "mapped_reconstructed_data", "regularization_term",
                 "log_det_curvature_reg_matrix_term"} -> ReadNeedsReg(q)
       [] OTHER -> ReadPlain(q)
  /\ nreads' = nreads + 1
  /\ hist' = Append(hist, [a |-> "Read", q |-> q])
  /\ UNCHANGED << filled, run >>

Next == NewInversion \/ \E q \in Quantities : Read(q)
Spec == Init /\ [][Next]_vars

-----------------------------------------------------------------------------
(* properties *)
\* every reported value equals what a fresh inversion without preloads reports
OutputsEqualFresh == out.k = 0
\* a preloaded curvature matrix is never changed by the inversions that use it
PreloadBuffersNeverChange == preK = 0
\* ... for any number of successive inversions (the two invariants above hold in every state with run <= MaxRuns)
\* a cached curvature matrix is always the curvature matrix
CachedCurvatureIsCurvature == "curvature_matrix" \in DOMAIN cache => cache["curvature_matrix"] = 0
=============================================================================
