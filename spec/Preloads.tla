------------------------------ MODULE Preloads ------------------------------
(***************************************************************************)
(* C15: preloaded and cached intermediate results never change inversion   *)
(* outputs.  A history machine over one shared Preloads object and a       *)
(* sequence of inversions that use it.                                     *)
(*                                                                         *)
(* Contents are abstract.  A curvature-like buffer is the multiplicity k   *)
(* in  F + k*H  (the single-regularization fast path adds H IN PLACE into  *)
(* the buffer that holds the curvature matrix and evicts the cache entry); *)
(* every other quantity is "ok" (equal to the fresh computation) or        *)
(* derived from a curvature buffer and then carries its k; k = -1 stands   *)
(* for "differs from the fresh computation in another way".                *)
(*                                                                         *)
(* Ten public slots.  Five PRIMARY ones hold a whole quantity.  Five       *)
(* SECONDARY ones hold a PART of a quantity (the mapper part of the data   *)
(* vector, the mapper diagonal blocks of the curvature matrix, the         *)
(* operated mapping matrices of the mappers / of the function lists, the   *)
(* function-list x data term of the mapper x function-list blocks): which  *)
(* part of which output they feed depends on the formalism and on the      *)
(* make-up of the linear-object list (section "data flow").  The slots     *)
(* relocated_grid, mapper_list, image_plane_mesh_grid_pg_list,             *)
(* traced_mesh_grids_list_of_planes, image_plane_mesh_grid_list are        *)
(* consumed outside the inversions and are not part of this machine.       *)
(*                                                                         *)
(* Design switches (TRUE = the design; FALSE gives TLC's counterexample):  *)
(*   CopyOnUse          the defensive copy of the preloaded curvature      *)
(*                      matrix (FALSE: the second inversion reads F+H as F)*)
(*   CopySecondary      a secondary array is copied before the parts of    *)
(*                      the other linear objects are written next to it    *)
(*                      (FALSE: the preloaded buffer is written in place)  *)
(*   EmbedMapperVector  the mapper data vector is the whole data vector    *)
(*                      only when every linear object is a mapper (FALSE:  *)
(*                      the entries of the function lists are lost)        *)
(***************************************************************************)
EXTENDS Integers, Sequences, FiniteSets, TLC, Json

CONSTANTS Slots,             \* the public preload slots explored, a subset of AllSlots
          MakeUps,           \* make-ups explored: records [f, nm, nf, ov] (see below)
          CopyOnUse,         \* BOOLEAN
          CopySecondary,     \* BOOLEAN
          EmbedMapperVector, \* BOOLEAN
          MaxRuns,           \* number of successive inversions sharing one Preloads object
          MaxReads,          \* reads per inversion explored
          ReadSet,           \* the quantities a read may ask for (Quantities, or one representative per class of equal dynamics)
          DumpInstances,     \* BOOLEAN: print every initial state (the instances the driver realises)
          KeepHistory        \* BOOLEAN: record the actions in hist (for simulated behaviours; hidden by VIEW)

PrimarySlots == {"w_tilde", "curvature_matrix", "regularization_matrix", "log_det_regularization_matrix_term", "operated_mapping_matrix"}
SecondarySeq == << "data_vector_mapper", "curvature_matrix_mapper_diag", "mapper_operated_mapping_matrix_dict",
                   "linear_func_operated_mapping_matrix_dict", "data_linear_func_matrix_dict" >>
SecondarySlots == { SecondarySeq[j] : j \in DOMAIN SecondarySeq }
AllSlots == PrimarySlots \cup SecondarySlots
Quantities == {"data_vector", "curvature_matrix", "regularization_matrix", "curvature_reg_matrix", "reconstruction",
               "mapped_reconstructed_data", "regularization_term", "log_det_curvature_reg_matrix_term",
               "log_det_regularization_matrix_term", "operated_mapping_matrix"}

\* quantities whose evaluation needs F + H, the data vector, the curvature matrix
RegQs == {"curvature_reg_matrix", "reconstruction", "mapped_reconstructed_data", "regularization_term", "log_det_curvature_reg_matrix_term"}
NeedsDV == {"data_vector", "reconstruction", "mapped_reconstructed_data", "regularization_term"}
NeedsCM == {"curvature_matrix"} \cup RegQs
PlainQs == Quantities \ (RegQs \cup {"curvature_matrix", "data_vector"})
\* one quantity per class of equal model dynamics (the classes differ in: F read / F + H needed / data vector needed)
ClassRepresentatives == {"curvature_matrix", "data_vector", "curvature_reg_matrix", "reconstruction", "regularization_matrix"}

-----------------------------------------------------------------------------
(* make-up of an inversion: f = formalism asked for in the settings, nm / nf = number of mappers / of linear function lists,
   ov = some function list brings its own operated mapping matrix *)
AllMakeUps == [f : {"mapping", "w_tilde"}, nm : 0..2, nf : 0..2, ov : BOOLEAN]
WT(m) == m.f = "w_tilde" /\ m.nm > 0          \* the factory solves a list of function lists only by the mapping formalism
Single(m) == m.nm + m.nf = 1                  \* exactly one linear object: the in-place F += H path (else np.add)

\* a reference inversion of this make-up has something to put into the slot (None otherwise: the slot stays empty)
Present(s, m) == s \in {"data_vector_mapper", "curvature_matrix_mapper_diag"} => m.nm > 0
Eff(F, m) == { s \in F : Present(s, m) }

(* data flow, structured like the code: the filled slots whose content flows into a fresh evaluation of a quantity.
   F = effectively filled slots, m = make-up.  A slot outside Feeds(q, m, F) is invisible to q. *)
Has(s, F) == IF s \in F THEN {s} ELSE {}
FeedsOMM(m, F) == IF "operated_mapping_matrix" \in F THEN {"operated_mapping_matrix"}
                  ELSE IF m.ov THEN Has("linear_func_operated_mapping_matrix_dict", F) ELSE {}   \* only objects with an own operated matrix are looked up
FeedsOML(m, F) == IF m.ov THEN Has("linear_func_operated_mapping_matrix_dict", F) ELSE {}         \* the per-object list never uses the stacked slot
FeedsDV(m, F) ==
  IF WT(m)
  THEN IF m.nf > 0 THEN Has("data_vector_mapper", F) \cup Has("linear_func_operated_mapping_matrix_dict", F)   \* mapper part embedded, function entries computed
       ELSE Has("data_vector_mapper", F)
  ELSE IF "data_vector_mapper" \in F /\ m.nf = 0 THEN {"data_vector_mapper"}         \* the whole vector only if every object is a mapper
       ELSE FeedsOMM(m, F)
FeedsCM(m, F) ==
  IF "curvature_matrix" \in F THEN {"curvature_matrix"}
  ELSE IF ~ WT(m) THEN FeedsOMM(m, F)
  ELSE (IF "curvature_matrix_mapper_diag" \in F THEN {"curvature_matrix_mapper_diag"} ELSE Has("w_tilde", F))      \* mapper diagonal blocks
       \cup (IF m.nm > 1 THEN Has("w_tilde", F) ELSE {})                                                           \* mapper x mapper blocks
       \cup (IF m.nf = 0 THEN {}
             ELSE Has("linear_func_operated_mapping_matrix_dict", F) \cup                                          \* function x function blocks
                  (IF "data_linear_func_matrix_dict" \in F THEN {"data_linear_func_matrix_dict"}                   \* mapper x function blocks
                   ELSE Has("mapper_operated_mapping_matrix_dict", F)))
FeedsRM(m, F) == Has("regularization_matrix", F)
Feeds(q, m, F) ==
  CASE q = "data_vector" -> FeedsDV(m, F)
    [] q = "curvature_matrix" -> FeedsCM(m, F)
    [] q = "regularization_matrix" -> FeedsRM(m, F)
    [] q = "operated_mapping_matrix" -> FeedsOMM(m, F)
    [] q = "log_det_regularization_matrix_term" ->
         IF "log_det_regularization_matrix_term" \in F THEN {"log_det_regularization_matrix_term"} ELSE FeedsRM(m, F)
    [] q \in {"curvature_reg_matrix", "log_det_curvature_reg_matrix_term"} -> FeedsCM(m, F) \cup FeedsRM(m, F)
    [] q \in {"reconstruction", "regularization_term"} -> FeedsDV(m, F) \cup FeedsCM(m, F) \cup FeedsRM(m, F)
    [] q = "mapped_reconstructed_data" ->
         FeedsDV(m, F) \cup FeedsCM(m, F) \cup FeedsRM(m, F)
         \cup (IF WT(m) THEN (IF m.nf > 0 THEN Has("linear_func_operated_mapping_matrix_dict", F) ELSE {}) ELSE FeedsOML(m, F))
    [] OTHER -> {}

\* secondary arrays next to which the evaluation of q writes the parts of the other linear objects (w-tilde formalism only)
Embeds(q, m, F) ==
  (IF q \in NeedsDV /\ WT(m) /\ m.nf > 0 /\ "data_vector_mapper" \in F THEN {"data_vector_mapper"} ELSE {})
  \cup (IF q \in NeedsCM /\ WT(m) /\ (m.nm > 1 \/ m.nf > 0) /\ "curvature_matrix_mapper_diag" \in FeedsCM(m, F)
        THEN {"curvature_matrix_mapper_diag"} ELSE {})

\* does the data vector lose the entries of the function lists (only without the embedding rule)?
DataVectorTruncated(m, F) == ~ EmbedMapperVector /\ ~ WT(m) /\ m.nf > 0 /\ "data_vector_mapper" \in F

-----------------------------------------------------------------------------
VARIABLES filled,   \* subset of Slots that the shared Preloads object has filled (from a reference inversion)
          mk,       \* make-up of the inversions (identical inputs: the same for the reference and every run)
          preK,     \* multiplicity k of the preloaded curvature buffer (0 = pristine F)
          dirty,    \* secondary slots whose preloaded buffer was written to
          run,      \* index of the current inversion (0 = none yet)
          cache,    \* current inversion: cached quantity -> k of its buffer (only curvature-like ones matter)
          alias,    \* current inversion: does its cached curvature_matrix alias the preloaded buffer?
          nreads,   \* reads done on the current inversion
          out,      \* last read: [q, k] (k = multiplicity reported, relative to what a fresh inversion reports)
          hist      \* history of actions (hidden by VIEW)
vars == << filled, mk, preK, dirty, run, cache, alias, nreads, out, hist >>
view == << filled, mk, preK, dirty, run, cache, alias, nreads, out.k >>

NoCache == [q \in {} |-> 0]
EF == Eff(filled, mk)

Init == /\ filled \in SUBSET Slots
        /\ mk \in MakeUps
        /\ preK = 0 /\ dirty = {} /\ run = 0 /\ cache = NoCache /\ alias = FALSE /\ nreads = 0
        /\ out = [q |-> "none", k |-> 0]
        /\ hist = IF KeepHistory THEN << [a |-> "Preloads", filled |-> filled, mk |-> mk] >> ELSE << >>
        /\ (DumpInstances => PrintT(ToJson([k |-> "inst", filled |-> filled, mk |-> mk])))

\* a new inversion on identical inputs with the same Preloads object
NewInversion ==
  /\ run < MaxRuns
  /\ (run = 0 \/ nreads > 0)
  /\ run' = run + 1 /\ cache' = NoCache /\ alias' = FALSE /\ nreads' = 0
  /\ out' = [q |-> "new", k |-> 0]
  /\ hist' = IF KeepHistory THEN Append(hist, [a |-> "NewInversion"]) ELSE hist
  /\ UNCHANGED << filled, mk, preK, dirty >>

\* --- the dependency structure of the cached properties (what a read computes transitively) ---
\* curvature_matrix: from the cache, else from the preload slot (copied or aliased), else computed afresh (k = 0)
CurvK == IF "curvature_matrix" \in DOMAIN cache THEN cache["curvature_matrix"]
         ELSE IF "curvature_matrix" \in filled THEN preK ELSE 0
CurvAliases == IF "curvature_matrix" \in DOMAIN cache THEN alias
               ELSE "curvature_matrix" \in filled /\ ~ CopyOnUse

\* reading curvature_matrix caches it
AfterCurv(c) == IF "curvature_matrix" \in DOMAIN c THEN c ELSE c @@ [q \in {"curvature_matrix"} |-> CurvK]

\* curvature_reg_matrix: cached, else F (+) H.  Single regularization: in place on the curvature buffer, which is evicted.
RegK == IF "curvature_reg_matrix" \in DOMAIN cache THEN cache["curvature_reg_matrix"] ELSE CurvK + 1

\* the secondary buffers written in place by this read (none under the design; the curvature part only if F is evaluated now)
Written(q, evaluatesF) ==
  IF CopySecondary THEN {}
  ELSE { s \in Embeds(q, mk, EF) : s = "curvature_matrix_mapper_diag" => evaluatesF }

ReadCurvature ==
  /\ cache' = AfterCurv(cache)
  /\ alias' = CurvAliases
  /\ out' = [q |-> "curvature_matrix", k |-> CurvK]
  /\ dirty' = dirty \cup Written("curvature_matrix", "curvature_matrix" \notin DOMAIN cache)
  /\ UNCHANGED preK

\* any quantity that needs F + H (curvature_reg_matrix itself, reconstruction, mapped data, reg term, log det of F+H)
ReadNeedsReg(q) ==
  /\ IF "curvature_reg_matrix" \in DOMAIN cache
     THEN /\ cache' = cache /\ alias' = alias /\ UNCHANGED preK
     ELSE IF Single(mk)
          THEN \* in place: the curvature buffer becomes F+H and leaves the cache; if it aliased the preload, that changed too
               /\ cache' = [x \in (DOMAIN cache \ {"curvature_matrix"}) \cup {"curvature_reg_matrix"} |->
                               IF x = "curvature_reg_matrix" THEN CurvK + 1 ELSE cache[x]]
               /\ preK' = IF CurvAliases THEN preK + 1 ELSE preK
               /\ alias' = FALSE
          ELSE /\ cache' = AfterCurv(cache) @@ [x \in {"curvature_reg_matrix"} |-> CurvK + 1]
               /\ alias' = CurvAliases
               /\ UNCHANGED preK
  /\ dirty' = dirty \cup Written(q, DOMAIN cache \cap {"curvature_matrix", "curvature_reg_matrix"} = {})
  /\ out' = [q |-> q, k |-> IF q \in NeedsDV /\ DataVectorTruncated(mk, EF) THEN -1
                            ELSE RegK - 1]      \* 0 iff the value is what a fresh inversion reports

\* the data vector: served from the mapper slot (whole or embedded), from the operated mapping matrix, or computed
ReadDataVector ==
  /\ out' = [q |-> "data_vector", k |-> IF DataVectorTruncated(mk, EF) THEN -1 ELSE 0]
  /\ dirty' = dirty \cup Written("data_vector", FALSE)
  /\ UNCHANGED << cache, alias, preK >>

\* quantities independent of the curvature buffers (served from slots or computed; never modified in place)
ReadPlain(q) ==
  /\ out' = [q |-> q, k |-> 0]
  /\ UNCHANGED << cache, alias, preK, dirty >>

\* --- the named actions of the bounded machine ---
CanRead == run > 0 /\ nreads < MaxReads
Done(q) == /\ nreads' = nreads + 1
           /\ hist' = IF KeepHistory THEN Append(hist, [a |-> "Read", q |-> q]) ELSE hist
           /\ UNCHANGED << filled, mk, run >>

ReadCurvatureMatrix == CanRead /\ "curvature_matrix" \in ReadSet /\ ReadCurvature /\ Done("curvature_matrix")
ReadRegDependent == CanRead /\ \E q \in RegQs \cap ReadSet : ReadNeedsReg(q) /\ Done(q)
ReadTheDataVector == CanRead /\ "data_vector" \in ReadSet /\ ReadDataVector /\ Done("data_vector")
ReadPlainQuantity == CanRead /\ \E q \in PlainQs \cap ReadSet : ReadPlain(q) /\ Done(q)

Next == NewInversion \/ ReadCurvatureMatrix \/ ReadRegDependent \/ ReadTheDataVector \/ ReadPlainQuantity
Spec == Init /\ [][Next]_vars

-----------------------------------------------------------------------------
(* properties *)
\* every reported value equals what a fresh inversion without preloads reports
OutputsEqualFresh == out.k = 0
\* a preloaded curvature matrix is never changed by the inversions that use it
PreloadBuffersNeverChange == preK = 0
\* ... nor is the buffer of any secondary slot
SecondarySlotBuffersNeverChange == dirty = {}
\* ... for any number of successive inversions (the invariants above hold in every state with run <= MaxRuns)
\* a cached curvature matrix is always the curvature matrix
CachedCurvatureIsCurvature == "curvature_matrix" \in DOMAIN cache => cache["curvature_matrix"] = 0
\* the data flow only ever names filled slots that have content: a slot without content for this make-up, or outside
\* Feeds(q, ..) for every q, is invisible (checked once, for every subset and make-up explored)
ASSUME FeedsOnlyFilledSlots ==
  \A m \in MakeUps : \A F \in SUBSET Slots : \A q \in Quantities :
     Feeds(q, m, Eff(F, m)) \subseteq Eff(F, m) /\ Embeds(q, m, Eff(F, m)) \subseteq Eff(F, m) \cap SecondarySlots
TypeOK == filled \subseteq AllSlots /\ mk \in AllMakeUps /\ dirty \subseteq SecondarySlots
=============================================================================
