-------------------------- MODULE Trace_Preprocess --------------------------
(***************************************************************************)
(* Validation of recorded calls of autoarray/dataset/preprocess.py against *)
(* Preprocess.tla (X01).  One record per group of public calls on one      *)
(* instance.  Verdicts are total: every record is judged by named clauses  *)
(* (each clause names the function it judges); a rejected record is        *)
(* printed with the failing clauses, the signature of the failing call     *)
(* site / input class and what the specification wanted.                   *)
(*                                                                         *)
(* Record fields (integers; native = row-major over the h x w frame):      *)
(*   h, w, u       frame and linear indices of the unmasked cells          *)
(*   sn            inputs were stored in native form (units/noise/weight)  *)
(*   units:  d t g et den | counts cslim cback ceps ceback adus aback aeps *)
(*           aeback cps      (quotients are round(value * den))            *)
(*   noise:  d t b fs ff den | pn pnf bn bnf bv bvf inv                    *)
(*           (x = coarse round(value*fs), xf = fine round(value*ff))       *)
(*   weight: wn wd fs ff | out outf      (sentinels Large / NaNTag / Off)  *)
(*   edges:  v n fs | raised tags sky2 sd sdmax boh bow                    *)
(*   snr:    d nz ln ld haslm lm | raised out oh ow   (out = value * ln)   *)
(*   newshape: h2 w2 | oh ow src um                                        *)
(*   psf:    | raised oh ow src                                            *)
(*   rng:    fn seed | ids inb ina q qn                                    *)
(***************************************************************************)
EXTENDS Preprocess, IOUtils

Trace == JsonDeserialize(IOEnv.TRACE_FILE)

VARIABLE i

Un(r) == { CellOf(r.u[k], r.w) : k \in DOMAIN r.u }
Cl(fn, n, b) == [fn |-> fn, n |-> n, ok |-> b]
NoDup(s) == Cardinality(ToSet(s)) = Len(s)
HW(r) == r.h * r.w
Lens(r, fields) == \A f \in fields : Len(r[f]) = HW(r)

\* an element-wise result: native, judged on the unmasked cells, exactly 0 on the masked ones (for inputs that
\* are stored in native form -- r.sn -- the masked cells of the result are whatever 0/0 gives: not constrained)
Elem(r, out, ok(_)) ==
    /\ Len(out) = HW(r)
    /\ \A k \in 1 .. HW(r) : IF Unmasked(k, Un(r), r.w) THEN ok(k) ELSE (r.sn \/ out[k] = 0)

\* ---- unit conversions ------------------------------------------------------------------------
UnitsClauses(r) ==
    IF ~ (Lens(r, {"d", "t"}) /\ r.g >= 1 /\ r.et >= 1 /\ r.den >= 1 /\ \A k \in 1 .. HW(r) : r.t[k] >= 1)
    THEN << Cl("driver", "well-formed-units-record", FALSE) >>
    ELSE
    LET U == Un(r)
        L == r.den
        D(k) == QInt(r.d[k])
    IN << Cl("array_eps_to_counts", "counts-is-eps-times-exposure-time",
             Elem(r, r.counts, LAMBDA k : IsQ(r.counts[k], 1, EpsToCountsQ(D(k), r.t[k])))),
          Cl("array_eps_to_counts", "slim-form-is-the-row-major-gather-of-the-unmasked-pixels",
             Len(r.counts) = HW(r) /\ r.cslim = Gather(r.counts, U, r.h, r.w)),
          Cl("array_counts_to_eps", "eps-is-counts-over-exposure-time",
             Elem(r, r.ceps, LAMBDA k : IsQ(r.ceps[k], L, CountsToEpsQ(D(k), r.t[k])))),
          Cl("array_counts_to_eps", "eps-to-counts-to-eps-is-identity", Elem(r, r.cback, LAMBDA k : r.cback[k] = r.d[k])),
          Cl("array_eps_to_counts", "counts-to-eps-to-counts-is-identity", Elem(r, r.ceback, LAMBDA k : r.ceback[k] = r.d[k])),
          Cl("array_eps_to_adus", "adus-is-eps-times-exposure-time-over-gain",
             Elem(r, r.adus, LAMBDA k : IsQ(r.adus[k], L, EpsToAdusQ(D(k), r.t[k], r.g)))),
          Cl("array_adus_to_eps", "eps-to-adus-to-eps-is-identity", Elem(r, r.aback, LAMBDA k : r.aback[k] = r.d[k])),
          Cl("array_adus_to_eps", "eps-is-adus-times-gain-over-exposure-time",
             Elem(r, r.aeps, LAMBDA k : IsQ(r.aeps[k], L, AdusToEpsQ(D(k), r.t[k], r.g)))),
          Cl("array_eps_to_adus", "adus-to-eps-to-adus-is-identity", Elem(r, r.aeback, LAMBDA k : r.aeback[k] = r.d[k])),
          Cl("array_counts_to_counts_per_second", "counts-per-second-is-counts-over-exposure-time",
             Elem(r, r.cps, LAMBDA k : IsQ(r.cps[k], L, CountsToCpsQ(D(k), r.et)))) >>

\* ---- noise-map builders --------------------------------------------------------------------------
NoiseClauses(r) ==
    IF ~ (Lens(r, {"d", "t", "b"}) /\ r.fs >= 1 /\ r.ff >= 1 /\ r.den >= 1
          /\ \A k \in 1 .. HW(r) : r.t[k] >= 1 /\ r.b[k] >= 0)
    THEN << Cl("driver", "well-formed-noise-record", FALSE) >>
    ELSE
    << Cl("noise_map_via_data_eps_and_exposure_time_map_from", "noise-is-sqrt-abs-counts-over-exposure-time",
          Len(r.pnf) = HW(r) /\
          Elem(r, r.pn, LAMBDA k : SqrtOk(r.pn[k], r.pnf[k], PoissonRad(r.d[k], r.t[k]), r.fs, r.ff))),
       Cl("noise_map_via_data_eps_exposure_time_map_and_background_noise_map_from", "quadrature-sum-of-poisson-and-background-noise",
          Len(r.bnf) = HW(r) /\
          Elem(r, r.bn, LAMBDA k : SqrtOk(r.bn[k], r.bnf[k], BgNoiseRad(r.d[k], r.t[k], r.b[k]), r.fs, r.ff))),
       Cl("noise_map_via_data_eps_exposure_time_map_and_background_variances_from", "sqrt-of-abs-counts-plus-background-variance-counts",
          Len(r.bvf) = HW(r) /\
          Elem(r, r.bv, LAMBDA k : SqrtOk(r.bv[k], r.bvf[k], BgVarRad(r.d[k], r.t[k], r.b[k]), r.fs, r.ff))),
       Cl("noise_map_via_inverse_noise_map_from", "noise-is-one-over-inverse-noise",
          Elem(r, r.inv, LAMBDA k : IsQ(r.inv[k], r.den, InverseNoiseQ(r.t[k])))) >>

\* ---- weight map --------------------------------------------------------------------------------
WeightPixelOk(r, k) == WeightOk(r.out[k], r.outf[k], r.wn[k], r.wd[k], r.fs, r.ff)
WeightClauses(r) ==
    IF ~ (Lens(r, {"wn", "wd"}) /\ r.fs >= 1 /\ r.ff >= 1 /\ \A k \in 1 .. HW(r) : r.wd[k] >= 1)
    THEN << Cl("driver", "well-formed-weight-record", FALSE) >>
    ELSE
    << Cl("noise_map_via_weight_map_from", "positive-weight-gives-one-over-sqrt-weight",
          Len(r.outf) = HW(r) /\ Elem(r, r.out, LAMBDA k : r.wn[k] > 0 => WeightPixelOk(r, k))),
       Cl("noise_map_via_weight_map_from", "zero-weight-gives-a-large-finite-value",
          Len(r.outf) = HW(r) /\ Elem(r, r.out, LAMBDA k : r.wn[k] = 0 => WeightPixelOk(r, k))),
       \* negative weights are outside the documented domain (the docstring speaks of zeros): the pixel may come back as a
       \* large value or as not-a-number, but as nothing else, and the other pixels are judged as usual
       Cl("noise_map_via_weight_map_from", "negative-weight-gives-a-large-value-or-nan",
          Len(r.outf) = HW(r) /\ Elem(r, r.out, LAMBDA k : r.wn[k] < 0 => (r.out[k] \in {NaNTag, Large} \/ WeightPixelOk(r, k)))) >>
\* every deviation of the record is "a negative weight came back as not-a-number"
OnlyNegativeWeightsAreNaN(r) ==
    /\ Lens(r, {"wn", "wd", "out", "outf"})
    /\ \A k \in 1 .. HW(r) :
          IF ~ Unmasked(k, Un(r), r.w) THEN (r.sn \/ r.out[k] = 0)
          ELSE IF r.wn[k] < 0 THEN r.out[k] \in {NaNTag, Large} ELSE WeightPixelOk(r, k)
    /\ \E k \in 1 .. HW(r) : Unmasked(k, Un(r), r.w) /\ r.wn[k] < 0 /\ r.out[k] = NaNTag

\* ---- edges and the background estimators -----------------------------------------------------
EdgesWellFormed(r) == Lens(r, {"v"}) /\ r.n >= 1 /\ r.n <= NRings(r.h, r.w) /\ r.fs >= 1
EdgesClauses(r) ==
    IF ~ EdgesWellFormed(r) THEN << Cl("driver", "well-formed-edges-record", FALSE) >>
    ELSE IF r.raised # "" THEN << Cl("edges_from", "no-exception", FALSE) >>
    ELSE
    LET U == Un(r)
        vals == EdgeValueSeq(r.v, U, r.h, r.w, r.n)
    IN << Cl("edges_from", "every-pixel-of-the-outermost-rings-exactly-once",
             SameBag(r.tags, EdgeTags(U, r.h, r.w, r.n))),
          Cl("background_sky_level_via_edges_from", "sky-level-is-the-median-of-the-edge-pixels",
             r.sky2 = Median2(vals)),
          Cl("background_noise_map_via_edges_from", "noise-is-the-standard-deviation-of-the-edge-pixels",
             StdOk(r.sd, vals, r.fs)),
          Cl("background_noise_map_via_edges_from", "constant-map-of-the-image-shape",
             r.boh = r.h /\ r.bow = r.w /\ r.sdmax = r.sd) >>
\* the whole record is what the four-slices formulation produces on a frame with a single-line ring
ExplainedByDoubling(r) ==
    /\ EdgesWellFormed(r) /\ r.raised = ""
    /\ SingleLineRing(r.h, r.w, r.n)
    /\ LET U == Un(r)
           cv == CodeEdgeVals(r.v, U, r.h, r.w, r.n)
       IN /\ SameBag(r.tags, CodeEdgeTags(U, r.h, r.w, r.n))
          /\ r.sky2 = Median2(cv)
          /\ StdOk(r.sd, cv, r.fs)
          /\ r.boh = r.h /\ r.bow = r.w /\ r.sdmax = r.sd

\* ---- signal-to-noise limit -------------------------------------------------------------------
SnrClauses(r) ==
    IF ~ (Lens(r, {"d", "nz"}) /\ r.ln >= 1 /\ r.ld >= 1 /\ \A k \in 1 .. HW(r) : r.nz[k] >= 1)
    THEN << Cl("driver", "well-formed-snr-record", FALSE) >>
    ELSE IF r.raised # "" THEN << Cl("noise_map_with_signal_to_noise_limit_from", "no-exception", FALSE) >>
    ELSE
    LET U == Un(r)
        LM == { CellOf(r.lm[k], r.w) : k \in DOMAIN r.lm }
        Cov(k) == r.haslm /\ CellOf(k-1, r.w) \in LM
        Want(k) == LimitedQ(r.d[k], r.nz[k], r.ln, r.ld, Cov(k))
        \* (values only: one value per pixel of the frame, row-major; the container is not constrained)
        shp == r.oh * r.ow = HW(r) /\ Len(r.out) = HW(r)
    IN << Cl("noise_map_with_signal_to_noise_limit_from", "one-value-per-pixel", shp),
          Cl("noise_map_with_signal_to_noise_limit_from", "pixels-below-the-limit-or-covered-by-the-limit-mask-unchanged",
             shp /\ \A k \in 1 .. HW(r) :
                       IF ~ Unmasked(k, U, r.w) THEN r.out[k] = 0
                       ELSE (Cov(k) \/ ~ Exceeds(r.d[k], r.nz[k], r.ln, r.ld)) => r.out[k] = r.nz[k] * r.ln),
          Cl("noise_map_with_signal_to_noise_limit_from", "pixels-above-the-limit-raised-to-abs-data-over-limit",
             shp /\ \A k \in 1 .. HW(r) :
                       (Unmasked(k, U, r.w) /\ ~ Cov(k) /\ Exceeds(r.d[k], r.nz[k], r.ln, r.ld))
                           => IsQ(r.out[k], r.ln, Want(k))) >>

\* ---- array_with_new_shape (C14's centred resize) and the odd-sized PSF ---------------------------
NewShapeClauses(r) ==
    LET U == Un(r)
        shp == r.oh = r.h2 /\ r.ow = r.w2 /\ Len(r.src) = r.h2 * r.w2
        OO == R!Offsets(r.h, r.h2) \X R!Offsets(r.w, r.w2)
        ED == IF shp THEN { o \in OO : r.src = R!WindowSrc(r.h, r.w, U, r.h2, r.w2, o[1], o[2]) } ELSE {}
        EM == IF shp /\ NoDup(r.um)
              THEN { o \in OO : ToSet(r.um) = R!WindowUnmasked(r.h, r.w, U, r.h2, r.w2, o[1], o[2], TRUE) } ELSE {}
    IN << Cl("array_with_new_shape", "output-shape", shp),
          Cl("array_with_new_shape", "data-is-the-centred-crop-or-zero-padded-embedding", ED # {}),
          Cl("array_with_new_shape", "mask-moves-with-the-data", ED \cap EM # {}) >>
PsfClauses(r) ==
    IF r.raised # "" THEN << Cl("psf_with_odd_dimensions_from", "no-exception", FALSE) >>
    ELSE
    << Cl("psf_with_odd_dimensions_from", "closest-odd-dimensions", OddDimOk(r.h, r.oh) /\ OddDimOk(r.w, r.ow)),
       Cl("psf_with_odd_dimensions_from", "odd-kernel-is-returned-unchanged",
          (r.h % 2 = 1 /\ r.w % 2 = 1) =>
              /\ r.oh = r.h /\ r.ow = r.w
              /\ R!ValidResize(r.src, r.h, r.w, Cells(r.h, r.w), r.h, r.w)) >>

\* ---- random functions ------------------------------------------------------------------------------
\* ids: content of the result of every repetition of the call with the same (input, seed) under different states
\* of the global generator; inb / ina: content of every input before / after each repetition.
\* uniform values (no seed argument): repetitions under the SAME state of the global generator; q = floor((out - in) /
\* upper_limit * qn) per element.
RngClauses(r) ==
    LET fn == r.fn
    IN << Cl(fn, "same-input-and-seed-give-the-same-result-whatever-the-global-generator-state",
             Len(r.ids) >= 2 /\ \A k \in DOMAIN r.ids : r.ids[k] = r.ids[1] /\ r.ids[k] >= 0),
          Cl(fn, "inputs-are-never-modified", Len(r.inb) = Len(r.ina) /\ r.inb = r.ina),
          Cl(fn, "added-values-lie-between-zero-and-the-upper-limit",
             \A k \in DOMAIN r.q : r.q[k] >= 0 /\ r.q[k] <= r.qn) >>

Clauses(r) ==
    CASE r.api = "units" -> UnitsClauses(r)
      [] r.api = "noise" -> NoiseClauses(r)
      [] r.api = "weight" -> WeightClauses(r)
      [] r.api = "edges" -> EdgesClauses(r)
      [] r.api = "snr" -> SnrClauses(r)
      [] r.api = "newshape" -> NewShapeClauses(r)
      [] r.api = "psf" -> PsfClauses(r)
      [] r.api = "rng" -> RngClauses(r)
      [] OTHER -> << Cl("driver", "unknown-api", FALSE) >>

Failed(r) == SelectSeq(Clauses(r), LAMBDA c : ~ c.ok)

Want(r) ==
    CASE r.api = "edges" /\ EdgesWellFormed(r) ->
           LET vals == EdgeValueSeq(r.v, Un(r), r.h, r.w, r.n)
           IN [tags_as_a_bag |-> EdgeTags(Un(r), r.h, r.w, r.n), sky2 |-> Median2(vals),
               n2_times_variance |-> VarNum(vals), pixels |-> Len(vals)]
      [] r.api = "newshape" ->
           [one_valid_src |-> R!CodeResizeSrc(r.h, r.w, Un(r), r.h2, r.w2)]
      [] r.api = "units" /\ Lens(r, {"d", "t"}) ->
           [counts |-> Native(Un(r), r.h, r.w, LAMBDA k : r.d[k] * r.t[k])]
      [] r.api = "snr" /\ Lens(r, {"d", "nz"}) ->
           [out_times_ln |-> [k \in 1 .. HW(r) |->
                IF ~ Unmasked(k, Un(r), r.w) THEN 0
                ELSE IF Exceeds(r.d[k], r.nz[k], r.ln, r.ld)
                        /\ ~ (r.haslm /\ CellOf(k-1, r.w) \in { CellOf(r.lm[j], r.w) : j \in DOMAIN r.lm })
                     THEN Abs(r.d[k]) * r.ld ELSE r.nz[k] * r.ln]]
      [] OTHER -> << >>

\* signature of the failing call site / input class (used to match known findings): the function judged by the first
\* failing clause, then the input class
Sig(r) ==
    LET f == Failed(r)
        fn == IF f = << >> THEN "none" ELSE f[1].fn
    IN CASE r.api = "edges" /\ ExplainedByDoubling(r) -> "edges_from:single-line-ring-counted-twice"
         [] r.api = "snr" /\ r.raised # "" /\ r.h = 1 /\ r.w > 1 ->
              "noise_map_with_signal_to_noise_limit_from:single-row-array-raises"
         [] r.api = "weight" /\ OnlyNegativeWeightsAreNaN(r) -> "noise_map_via_weight_map_from:negative-weight-gives-nan"
         [] r.api = "edges" /\ EdgesWellFormed(r) /\ SingleLineRing(r.h, r.w, r.n) -> fn \o ":single-line-ring"
         [] r.api \in {"units", "noise", "weight", "snr"} ->
              fn \o (IF Len(r.u) < HW(r) THEN ":masked" ELSE ":unmasked")
         [] r.api = "newshape" ->
              fn \o (IF R!SameParity(r.h, r.h2) /\ R!SameParity(r.w, r.w2) THEN ":parity-kept" ELSE ":parity-changed")
         [] r.api = "rng" -> fn \o ":seed" \o (IF r.seed = 0 THEN "0" ELSE "positive")
         [] OTHER -> fn \o ":" \o r.api

TraceInit == /\ i = 1
             /\ inst = Blank /\ phase = "trace" /\ obs = << >>

TraceNext ==
    /\ i <= Len(Trace)
    /\ LET r == Trace[i]
           f == Failed(r)
       IN IF f = << >> THEN TRUE
          ELSE PrintT(ToJson([k |-> "reject", i |-> i, id |-> r.id,
                              clauses |-> [j \in DOMAIN f |-> f[j].fn \o ":" \o f[j].n],
                              sig |-> Sig(r), want |-> Want(r)]))
    /\ i' = i + 1
    /\ UNCHANGED vars

TraceSpec == TraceInit /\ [][TraceNext]_<< vars, i >>
TraceAccepted == TLCGet("stats").diameter - 1 = Len(Trace)
=============================================================================
