-------------------------- MODULE Trace_MaskShapes --------------------------
(***************************************************************************)
(* Validation of recorded executions of the real code against              *)
(* MaskShapes.tla (X07).  One record per constructor call / pixel-list     *)
(* mask / history of reads and in-place edits on one Mask2D object /       *)
(* utility call.  Coordinates are abstracted to integer half-ticks by the  *)
(* driver (alpha rejects values that are not on the lattice: they are      *)
(* counted in `off` and replaced by a sentinel).  Verdicts are total:      *)
(* every record is judged, a rejected record is printed with the names of  *)
(* the failing clauses, the signature of the failing input class and the   *)
(* value the specification wanted.                                         *)
(***************************************************************************)
EXTENDS MaskShapes, IOUtils

Trace == JsonDeserialize(IOEnv.TRACE_FILE)

VARIABLE i

Cl(n, b) == [n |-> n, ok |-> b]
Ascending(s) == \A k \in 1 .. Len(s) - 1 : s[k] < s[k+1]
GeoOf(r) == Geo(r.g.h, r.g.w, r.g.sy, r.g.sx, r.g.oy, r.g.ox)
LinOk(s, gg) == \A k \in DOMAIN s : s[k] >= 0 /\ s[k] < gg.h * gg.w
AllLin(gg) == 0 .. gg.h * gg.w - 1
Prefix(pre, cls) == [k \in DOMAIN cls |-> Cl(pre \o cls[k].n, cls[k].ok)]
Pair(s) == << s[1], s[2] >>

\* ---- the summaries of one mask -------------------------------------------------------------------------------
\* s.err   names of the summaries that raised something else than the documented MaskException
\* s.npix  pixels_in_mask; s.tp mask_2d_util.total_pixels_2d_from; s.all_false / s.all_true
\* s.centre mask_centre (half-ticks); s.smp shape_native_masked_pixels; s.zc2 / s.zop2 zoom_centre / zoom_offset_pixels
\* times 2; s.zos zoom_offset_scaled (half-ticks); s.zr zoom_region; s.zsn zoom_shape_native;
\* s.zm zoom_mask_unmasked as [h, w, nun (number of unmasked entries), sy, sx, oy, ox];
\* s.circ is_circular (1 / 0, 2 = raised MaskException); s.rad circular_radius (half-ticks, -1 = raised MaskException)
IsCircOk(gg, u, circ) ==
    IF gg.sy # gg.sx THEN circ = 2
    ELSE \E a \in RowCands(u), k \in ColCands(u) : circ = (IF RowCnt(u, a) = ColCnt(u, k) THEN 1 ELSE 0)
SummaryClauses(gg, u, s) ==
    IF u = {}
    THEN << Cl("pixels-in-mask", s.npix = 0 /\ s.tp = 0),
            Cl("is-all-true-is-all-false", s.all_true /\ ~ s.all_false) >>
    ELSE << Cl("no-exception", s.err = << >>),
            Cl("offlattice", s.off = 0),
            Cl("pixels-in-mask", s.npix = Cardinality(u) /\ s.tp = Cardinality(u)),
            Cl("is-all-true-is-all-false", (s.all_false <=> u = Cells(gg)) /\ ~ s.all_true),
            Cl("mask-centre", Len(s.centre) = 2 /\ Pair(s.centre) = MaskCentre(gg, u)),
            Cl("shape-native-masked-pixels", Len(s.smp) = 2 /\ Pair(s.smp) = MaskedShape(u)),
            Cl("zoom-centre", Len(s.zc2) = 2 /\ Pair(s.zc2) = ZoomCentre2(u)),
            Cl("zoom-offset-pixels", Len(s.zop2) = 2 /\ Pair(s.zop2) = ZoomOffsetPix2(gg, u)),
            Cl("zoom-offset-scaled", Len(s.zos) = 2 /\ Pair(s.zos) = ZoomOffsetScaled(gg, u)),
            Cl("zoom-region", Len(s.zr) = 4 /\ << s.zr[1], s.zr[2], s.zr[3], s.zr[4] >> = ZoomRegion(u)),
            Cl("zoom-shape-native", Len(s.zsn) = 2 /\ Pair(s.zsn) = ZoomShape(u)),
            Cl("zoom-mask-unmasked",
               LET z == ZoomGeo(gg, u) IN
               /\ s.zm.h = z.h /\ s.zm.w = z.w /\ s.zm.nun = z.h * z.w
               /\ s.zm.sy = z.sy /\ s.zm.sx = z.sx /\ s.zm.oy = z.oy /\ s.zm.ox = z.ox),
            Cl("is-circular", IsCircOk(gg, u, s.circ)),
            Cl("circular-radius", ValidCirc(gg, u, s.circ, s.rad)) >>
SummaryWant(gg, u) == IF u = {} THEN [npix |-> 0] ELSE Summary(gg, u)

\* ---- shape-based constructors --------------------------------------------------------------------------------
\* r.par = [kind, cy, cx, r, e1, e2] with the centre relative to the mask origin;  r.out / r.out_inv = ascending
\* flattened indices of the unmasked pixels of the mask returned with invert False / True (<< -2 >> if the returned
\* mask does not have the requested shape);  r.lab = pixel scales and origin of the returned mask;  r.out_o2 / r.lab2
\* = the same call with the other origin r.o2 (the mask must be the same, the origin is carried to the result);
\* r.has_s / r.s = the summaries of the returned mask (has_s is false for an entirely masked result)
Method(kind) == CASE kind = "annular" -> "circular_annular"
                  [] kind = "anti_annular" -> "circular_anti_annular"
                  [] OTHER -> kind
ShapeInputOk(r) == WellFormed(GeoOf(r)) /\ ParOk(r.par)
ClausesShape(r) ==
    LET gg == GeoOf(r) IN
    IF ~ ShapeInputOk(r) THEN << Cl("malformed-input-record", FALSE) >>
    ELSE LET want == SetLin(ShapeSet(gg, r.par), gg)
             uo == IF LinOk(r.out, gg) THEN OfLin(r.out, gg) ELSE {}
         IN << Cl("unmasked-set-is-the-documented-shape", Ascending(r.out) /\ ToSet(r.out) = want),
               Cl("invert-is-the-exact-complement", Ascending(r.out_inv) /\ ToSet(r.out_inv) = AllLin(gg) \ ToSet(r.out)),
               Cl("pixel-scales-and-origin-of-the-result", r.lab = << gg.sy, gg.sx, gg.oy, gg.ox >>),
               Cl("mask-is-independent-of-origin",
                  /\ Len(r.o2) = 2 /\ Pair(r.o2) # << gg.oy, gg.ox >>
                  /\ r.out_o2 = r.out /\ r.lab2 = << gg.sy, gg.sx, r.o2[1], r.o2[2] >>),
               Cl("circular-mask-reports-itself",
                  (CircPremise(gg, r.par) /\ ToSet(r.out) = want /\ r.has_s)
                     => (r.s.circ = 1 /\ RadiusWithinOnePixel(gg, r.par, r.s.rad))) >>
             \o (IF r.has_s /\ uo # {} THEN Prefix("returned-mask:", SummaryClauses(gg, uo, r.s)) ELSE << >>)
WantShape(r) ==
    LET gg == GeoOf(r) IN
    IF ShapeInputOk(r) THEN SetToSortSeq(SetLin(ShapeSet(gg, r.par), gg), <) ELSE << >>

\* ---- masks from pixel coordinates ----------------------------------------------------------------------------
\* r.pix = the pixel list as handed over (flattened indices, any order, repetitions allowed); r.b the buffer;
\* r.out / r.out_inv as above; r.out_buffed = mask_2d_util.buffed_mask_2d_from(mask of the list, buffer)
ClausesPix(r) ==
    LET gg == GeoOf(r) IN
    IF ~ (WellFormed(gg) /\ LinOk(r.pix, gg) /\ r.b >= 0) THEN << Cl("malformed-input-record", FALSE) >>
    ELSE LET want == SetLin(Buffed(OfLin(r.pix, gg), gg, r.b), gg)
             uo == IF LinOk(r.out, gg) THEN OfLin(r.out, gg) ELSE {}
         IN << Cl("unmasked-set-is-the-pixel-list-grown-by-the-buffer", Ascending(r.out) /\ ToSet(r.out) = want),
               Cl("invert-is-the-exact-complement", Ascending(r.out_inv) /\ ToSet(r.out_inv) = AllLin(gg) \ ToSet(r.out)),
               Cl("buffed-mask-2d-from", ToSet(r.out_buffed) = want),
               Cl("pixel-scales-and-origin-of-the-result", r.lab = << gg.sy, gg.sx, gg.oy, gg.ox >>) >>
             \o (IF r.has_s /\ uo # {} THEN Prefix("returned-mask:", SummaryClauses(gg, uo, r.s)) ELSE << >>)
WantPix(r) ==
    LET gg == GeoOf(r) IN
    IF WellFormed(gg) /\ LinOk(r.pix, gg) THEN SetToSortSeq(SetLin(Buffed(OfLin(r.pix, gg), gg, r.b), gg), <) ELSE << >>

\* ---- histories on one Mask2D object --------------------------------------------------------------------------
\* r.u the entries the object starts with; r.steps the steps [op, cell, val, ord, s]: "read" steps carry the
\* summaries s read at that moment (in the order number ord), "edit" steps are mask[cell] = (val = 1) in place.
\* Every read must describe the mask as it is at that moment.
HistInputOk(r) ==
    LET gg == GeoOf(r) IN
    /\ WellFormed(gg) /\ LinOk(r.u, gg)
    /\ \A k \in DOMAIN r.steps : /\ r.steps[k].op \in {"read", "edit"}
                                 /\ (r.steps[k].op = "edit" => r.steps[k].cell >= 0 /\ r.steps[k].cell < gg.h * gg.w
                                                               /\ r.steps[k].val \in {0, 1})
StepClauses(r, k) ==
    LET gg == GeoOf(r) IN
    IF r.steps[k].op # "read" THEN << >>
    ELSE Prefix("read" \o ToString(k) \o ":",
                SummaryClauses(gg, MaskAfter(OfLin(r.u, gg), r.steps, k - 1, gg), r.steps[k].s))
RECURSIVE HistClausesFrom(_, _)
HistClausesFrom(r, k) == IF k > Len(r.steps) THEN << >> ELSE StepClauses(r, k) \o HistClausesFrom(r, k + 1)
ClausesHist(r) == IF ~ HistInputOk(r) THEN << Cl("malformed-input-record", FALSE) >> ELSE HistClausesFrom(r, 1)
WantHist(r) ==
    LET gg == GeoOf(r) IN
    IF ~ HistInputOk(r) THEN << >>
    ELSE [k \in DOMAIN r.steps |-> IF r.steps[k].op = "read"
                                   THEN SummaryWant(gg, MaskAfter(OfLin(r.u, gg), r.steps, k - 1, gg)) ELSE << >>]
\* a read whose circular radius is the one an EARLIER read of the same object returned, with an edit in between
RadiusRemembered(r, k) ==
    /\ r.steps[k].op = "read" /\ r.steps[k].s.rad >= 0
    /\ \E j \in 1 .. k - 1 : /\ r.steps[j].op = "read" /\ r.steps[j].s.rad = r.steps[k].s.rad
                             /\ \E e \in j + 1 .. k - 1 : r.steps[e].op = "edit"

\* ---- utilities -----------------------------------------------------------------------------------------------
\* all_false: Mask2D.all_false(shape, pixel scales, origin, invert)
\* nfs:       mask_2d_util.mask_2d_via_shape_native_and_native_for_slim(shape, the listed pixels r.pix)
\* centres:   mask_2d_util.mask_2d_centres_from(shape, pixel scales, centre) -> r.val2 = the result times (2 sy, 2 sx)
\* rescale:   Mask2D.rescaled_from(num / den): r.out the unmasked pixels of the result of shape (r.oh, r.ow)
ClausesUtil(r) ==
    LET gg == GeoOf(r) IN
    IF ~ WellFormed(gg) THEN << Cl("malformed-input-record", FALSE) >>
    ELSE CASE r.api = "all_false" ->
                << Cl("all-false-unmasks-everything", ToSet(r.out) = AllLin(gg) /\ r.out_inv = << >>),
                   Cl("pixel-scales-and-origin-of-the-result", r.lab = << gg.sy, gg.sx, gg.oy, gg.ox >>) >>
           [] r.api = "nfs" ->
                << Cl("mask-unmasks-exactly-the-listed-pixels",
                      LinOk(r.pix, gg) /\ r.oh = gg.h /\ r.ow = gg.w /\ ToSet(r.out) = ToSet(r.pix)) >>
           [] r.api = "centres" ->
                << Cl("offlattice", r.off = 0),
                   Cl("pixel-space-centre",
                      Len(r.val2) = 2 /\ Pair(r.val2) = PixCentre2(gg, [cy |-> r.cy, cx |-> r.cx])) >>
           [] r.api = "rescale" ->
                IF ~ (LinOk(r.u, gg) /\ r.num >= 1 /\ r.den >= 1 /\ (r.num = 1 \/ r.den = 1)
                      /\ gg.h % r.den = 0 /\ gg.w % r.den = 0)
                THEN << Cl("malformed-input-record", FALSE) >>
                ELSE LET g2 == [gg EXCEPT !.h = (gg.h * r.num) \div r.den, !.w = (gg.w * r.num) \div r.den]
                         want == IF r.den = 1 THEN RescaleUp(OfLin(r.u, gg), gg, r.num)
                                 ELSE RescaleDown(OfLin(r.u, gg), gg, r.den)
                     IN << Cl("rescaled-shape", r.oh = g2.h /\ r.ow = g2.w),
                           Cl("rescaled-mask", r.oh = g2.h /\ r.ow = g2.w /\ ToSet(r.out) = SetLin(want, g2)) >>
           [] OTHER -> << Cl("unknown-api", FALSE) >>
WantUtil(r) ==
    LET gg == GeoOf(r) IN
    IF r.api = "rescale" /\ WellFormed(gg) /\ LinOk(r.u, gg) /\ r.num >= 1 /\ r.den >= 1
    THEN LET g2 == [gg EXCEPT !.h = (gg.h * r.num) \div r.den, !.w = (gg.w * r.num) \div r.den]
         IN SetToSortSeq(SetLin(IF r.den = 1 THEN RescaleUp(OfLin(r.u, gg), gg, r.num)
                                ELSE RescaleDown(OfLin(r.u, gg), gg, r.den), g2), <)
    ELSE << >>

\* ---- dispatch ------------------------------------------------------------------------------------------------
\* r.raised: the exception a call inside the property's domain ended with ("" if it returned); such a record
\* carries nothing else and is rejected as it stands
Clauses(r) == IF r.raised # "" THEN << Cl("call-raised-an-exception", FALSE) >>
              ELSE CASE r.api = "shape" -> ClausesShape(r)
                     [] r.api = "pix" -> ClausesPix(r)
                     [] r.api = "hist" -> ClausesHist(r)
                     [] OTHER -> ClausesUtil(r)
Want(r) == IF r.raised # "" THEN << >>
           ELSE CASE r.api = "shape" -> WantShape(r)
                  [] r.api = "pix" -> WantPix(r)
                  [] r.api = "hist" -> WantHist(r)
                  [] OTHER -> WantUtil(r)
Failed(r) == SelectSeq(Clauses(r), LAMBDA c : ~ c.ok)
FailedNames(r) == LET f == Failed(r) IN { f[k].n : k \in DOMAIN f }

\* Signature of the failing input class (used to match known findings).  The specific classes are recognised by
\* what came back, so that a different failure of the same call keeps the generic signature.
Sig(r) ==
    IF r.raised # "" THEN r.api \o ":raised" ELSE
    CASE r.api = "shape" ->
           "Mask2D." \o (IF ShapeInputOk(r) THEN Method(r.par.kind) ELSE "shape")
      [] r.api = "pix" -> "Mask2D.from_pixel_coordinates"
      [] r.api = "hist" ->
           IF /\ HistInputOk(r)
              /\ \A k \in DOMAIN r.steps :
                    LET f == SelectSeq(StepClauses(r, k), LAMBDA c : ~ c.ok)
                    IN f = << >> \/ ( /\ Len(f) = 1 /\ f[1].n = "read" \o ToString(k) \o ":circular-radius"
                                      /\ RadiusRemembered(r, k) )
           THEN "circular_radius:remembered-across-in-place-edit"
           ELSE "summaries"
      [] r.api = "rescale" ->
           LET gg == GeoOf(r) IN
           IF /\ WellFormed(gg) /\ LinOk(r.u, gg) /\ r.num = 1 /\ r.den = 2 /\ gg.h % 2 = 0 /\ gg.w % 2 = 0
              /\ FailedNames(r) = { "rescaled-mask" }
              /\ ToSet(r.out) = SetLin(SampleDown2(OfLin(r.u, gg), gg), [gg EXCEPT !.h = gg.h \div 2, !.w = gg.w \div 2])
           THEN "rescaled_from:reduction-samples-one-pixel-per-block"
           ELSE "rescaled_from"
      [] OTHER -> r.api

TraceInit == /\ i = 1
             /\ mode = "trace" /\ g = Geo(1, 1, 4, 4, 0, 0) /\ par = << >> /\ U = {} /\ phase = "trace" /\ obs = << >>

TraceNext ==
    /\ i <= Len(Trace)
    /\ LET r == Trace[i]
           f == Failed(r)
       IN IF f = << >> THEN TRUE
          ELSE PrintT(ToJson([k |-> "reject", i |-> i, id |-> r.id,
                              clauses |-> [j \in DOMAIN f |-> f[j].n],
                              sig |-> Sig(r), want |-> Want(r)]))
    /\ i' = i + 1
    /\ UNCHANGED vars

TraceSpec == TraceInit /\ [][TraceNext]_<< vars, i >>
TraceAccepted == TLCGet("stats").diameter - 1 = Len(Trace)
=============================================================================
