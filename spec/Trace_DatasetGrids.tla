------------------------- MODULE Trace_DatasetGrids -------------------------
(***************************************************************************)
(* Validation of what real datasets report against DatasetGrids.tla.       *)
(*                                                                         *)
(* One record per NODE of a derivation history: the constructor instance,  *)
(* the steps taken so far, and everything read from the dataset the last   *)
(* step returned (abstracted by a rejecting alpha: integers on the value   *)
(* unit / the tick lattice, opaque scheme ids by object identity, OFF =    *)
(* -999999 for anything off the lattice).  The specification folds the     *)
(* steps (RunHist) into the dataset value the documentation describes and  *)
(* judges every member with a named clause; one reject line per failing    *)
(* member, signature  <member>:after-<last action>.                        *)
(*                                                                         *)
(* `fl` holds, per prefix of the history, three facts observed on the      *)
(* intermediate dataset (did the call raise / is `unmasked` held / is a    *)
(* noise covariance matrix held).  A divergence is reported at the node    *)
(* where it FIRST appears; descendants do not repeat it (Inherited).       *)
(***************************************************************************)
EXTENDS DatasetGrids, IOUtils

Trace == JsonDeserialize(IOEnv.TRACE_FILE)
VARIABLE i

TrInsts == << >>
OFF == -999999

Cl(m, c, ok) == [m |-> m, c |-> c, ok |-> ok]
ActName(a) == CASE a = "mask" -> "apply_mask"
                [] a = "os" -> "apply_over_sampling"
                [] a = "scale" -> "apply_noise_scaling"
                [] a = "trim" -> "trimmed_after_convolution_from"
                [] a = "copy" -> "copy"
                [] OTHER -> a
LastName(r) == IF r.steps = << >> THEN "constructor" ELSE ActName(r.steps[Len(r.steps)].a)

AllEq(seq, v) == \A k \in DOMAIN seq : seq[k] = v
IsMatrix(M, nn) == Len(M) = nn /\ \A a \in DOMAIN M : Len(M[a]) = nn

\* ---- expected presence of the two carried references after the first k steps, and inherited divergences ----------
ParExpected(s) == s.par.h > 0
NcmExpected(s) == s.cs > 0
\* fl[k+1] describes the dataset after k steps
Inherited(r, what) ==
    \E k \in 0 .. Len(r.steps) - 1 :
        LET s == RunHist(r.ini, r.steps, k) IN
        /\ s.alive /\ s.dom
        /\ IF what = "par" THEN r.fl[k+1].par # ParExpected(s) ELSE r.fl[k+1].ncm # (NcmExpected(s))

\* ---- members common to both dataset types (grids on a mask) --------------------------------------------------------
GridClauses(r, s) ==
    LET o == r.o
        g == r.ini.g
        sl == SlimLin(s.um)
        want == GridOf(sl, s.h, s.w, g)
        np == Len(sl)
        subWant == IF s.os[3] > 0 /\ s.os[3] <= Len(r.ini.subs) THEN r.ini.subs[s.os[3]] ELSE o.pix_sub
    IN << Cl("shape_native", "is-the-shape-of-the-current-mask", o.shape_native = << s.h, s.w >>),
          Cl("pixel_scales", "are-those-of-the-current-data", o.ps = << 2 * g.hy, 2 * g.hx >>),
          Cl("mask", "is-the-mask-of-the-current-data", o.mask = sl /\ o.origin = << g.oy, g.ox >>),
          Cl("grids.uniform", "pixel-centres-of-the-current-mask", o.gu = want /\ o.gu_mask = sl),
          Cl("grids.uniform.over_sampling", "carries-the-uniform-scheme",
             IF s.os[1] > 0 THEN o.su = s.os[1] ELSE o.su <= 0),
          Cl("grid", "is-grids.uniform", o.grid_is_uniform),
          Cl("grids.non_uniform", "pixel-centres-of-the-current-mask-or-absent-without-a-scheme",
             IF s.os[2] > 0 THEN o.gn_k = "grid" /\ o.gn = want ELSE (o.gn_k = "none" \/ o.gn = want)),
          Cl("grids.non_uniform.over_sampling", "carries-the-non-uniform-scheme",
             IF s.os[2] > 0 THEN o.sn = s.os[2] ELSE o.sn <= 0),
          Cl("grids.pixelization", "pixel-centres-of-the-current-mask", o.gp = want),
          Cl("grids.pixelization.over_sampling", "carries-the-pixelization-scheme-or-a-default",
             IF s.os[3] > 0 THEN o.sp = s.os[3] /\ o.pix_sub = subWant ELSE o.sp <= 0 /\ o.pix_sub >= 1),
          Cl("grids.border_relocator", "built-on-the-current-mask-with-the-pixelization-sub-size",
             o.br_mask = sl /\ Len(o.br_sub) = np /\ AllEq(o.br_sub, subWant)),
          Cl("grids.over_sampler_pixelization", "built-on-the-current-mask-with-the-pixelization-sub-size",
             o.osp_k = "ok" /\ o.osp_mask = sl /\ Len(o.osp_sub) = np /\ AllEq(o.osp_sub, subWant)) >>

\* ---- aa.Imaging ------------------------------------------------------------------------------------------------------
SnrClauses(o, dsl, nsl) ==
    LET np == Len(dsl)
        allPos == \A k \in 1 .. np : nsl[k] > 0
    IN << Cl("signal_to_noise_map", "data-over-noise-with-negative-values-clipped-to-0",
             Len(o.sxn) = np /\ \A k \in 1 .. np : nsl[k] > 0 => o.sxn[k] = Pos(dsl[k])),
          Cl("signal_to_noise_max", "maximum-of-the-signal-to-noise-map",
             allPos /\ np > 0 =>
                /\ o.snr_at # << >>
                /\ \A a \in DOMAIN o.snr_at :
                      /\ o.snr_at[a] >= 0 /\ o.snr_at[a] < np
                      /\ \A q \in 1 .. np : Pos(dsl[o.snr_at[a] + 1]) * nsl[q] >= Pos(dsl[q]) * nsl[o.snr_at[a] + 1]) >>

NcmClauses(r, s) ==
    LET o == r.o
        nn == Len(s.c)
        inhN == Inherited(r, "ncm")
    IN << Cl("noise_covariance_matrix", "is-the-given-matrix-restricted-to-the-unmasked-pixels",
             inhN \/ CASE s.cs = 0 -> o.ncm_k = "none"
                       [] s.cs = 1 -> /\ o.ncm_k = "mat" /\ IsMatrix(o.ncm, nn)
                                      /\ \A a \in 1 .. nn, b \in 1 .. nn : o.ncm[a][b] = r.ini.cv[s.c[a] + 1][s.c[b] + 1]
                       [] OTHER -> TRUE),
          \* the inverse is judged against the matrix the dataset itself reports:  C X = S I  up to the rounding of X
          Cl("noise_covariance_matrix_inv", "is-the-inverse-of-the-noise-covariance-matrix",
             o.ncm_k = "mat" /\ IsMatrix(o.ncm, Len(o.ncm)) /\ s.cs # 2 =>
                LET mm == Len(o.ncm) IN
                /\ o.inv_k = "mat" /\ IsMatrix(o.inv, mm)
                /\ \A a \in 1 .. mm, b \in 1 .. mm :
                      LET dot == FoldLeft(LAMBDA x, y : x + y, 0, [k \in 1 .. mm |-> o.ncm[a][k] * o.inv[k][b]])
                          tol == FoldLeft(LAMBDA x, y : x + y, 0, [k \in 1 .. mm |-> Abs(o.ncm[a][k])]) \div 2 + 1
                      IN Abs(dot - (IF a = b THEN r.ini.invS ELSE 0)) <= tol) >>

PsfClause(r, s) ==
    LET o == r.o IN
    Cl("psf", "normalised-on-construction-and-keeps-its-shape",
       IF ~ HasPsf(s) THEN o.psf_k = "none"
       ELSE /\ o.psf_k = "psf" /\ o.psf_shape = << s.kh, s.kw >>
            /\ LET normed == o.psf_n_ok /\ o.psf_n = r.ini.kv
                   raw == o.psf_r_ok /\ o.psf_r = r.ini.kv
               IN CASE s.nm = 1 -> normed [] s.nm = 0 -> raw [] OTHER -> normed \/ raw)
PsfClauses(r, s) ==
    LET o == r.o IN
    << PsfClause(r, s),
       Cl("convolver", "exists-exactly-with-a-psf-whose-blurring-region-fits-and-is-built-on-the-current-mask",
          IF ConvolverExists(s)
          THEN /\ o.conv_k = "ok" /\ o.conv_shape = << s.h, s.w >> /\ o.conv_mask = SlimLin(s.um)
               /\ o.conv_kshape = << s.kh, s.kw >> /\ o.conv_blur = BlurLin(s.um, s.h, s.w, s.kh, s.kw)
          ELSE o.conv_k # "ok"),
       Cl("w_tilde", "tables-built-from-the-current-noise-map-psf-and-mask",
          \* (judged on datasets whose blurring region fits their frame -- what apply_mask produces; C04 decides the values)
          IF ~ HasPsf(s) THEN o.wt_k \in {"err", "skip"}
          ELSE ~ ConvolverExists(s) \/ o.wt_k = "skip" \/ (/\ o.wt_k = "ok" /\ o.wt_nl = Count(s.um) /\ o.wt_np = o.wt_sum /\ o.wt_ni = o.wt_sum
                                   \* "the first value of the noise-map" (a scalar for slim-stored noise maps)
                                   /\ (o.wt_n0_scalar => o.wt_n0 = Gather(s.n, s.um)[1]))) >>

ImgClauses(r, s) ==
    LET o == r.o
        g == r.ini.g
        dsl == Gather(s.d, s.um)
        nsl == Gather(s.n, s.um)
        bk == BlurKind(s)
    IN GridClauses(r, s)
       \o << Cl("shape_slim", "is-the-number-of-unmasked-pixels", o.shape_slim = Count(s.um)),
             Cl("data", "values-of-the-surviving-pixels", o.ds = dsl /\ o.dn = s.d),
             Cl("noise_map", "values-of-the-surviving-pixels", o.ns = nsl /\ o.nn = s.n),
             Cl("grids.blurring", "centres-of-the-blurring-set-of-the-current-mask-for-the-psf-shape",
                o.blur_k = bk /\ (bk = "grid" => o.gb = BlurGrid(s, g))),
             Cl("unmasked", "holds-the-unmasked-dataset-exactly-as-documented",
                Inherited(r, "par") \/ (/\ o.unmasked = ParExpected(s)
                                        /\ (ParExpected(s) => o.par_shape = << s.par.h, s.par.w >>))) >>
       \o SnrClauses(o, dsl, nsl) \o NcmClauses(r, s) \o PsfClauses(r, s)

\* ---- aa.Interferometer: grids on the real-space mask, transformer of the given class, S/N per real / imaginary part -----
IntfClauses(r, s) ==
    LET o == r.o
        v == r.ini.vis
        nv == Len(v.dr)
    IN GridClauses(r, s)
       \o << Cl("shape_slim", "is-the-number-of-visibilities", o.shape_slim = nv),
             Cl("data", "visibilities-kept", o.dr = v.dr /\ o.di = v.di),
             Cl("noise_map", "noise-map-kept", o.nr = v.nr /\ o.ni = v.ni),
             Cl("uv_wavelengths", "baselines-kept", o.uv = v.uv),
             Cl("grids.blurring", "absent-without-psf", o.blur_k = "none"),
             Cl("convolver", "absent-for-an-interferometer", o.conv_k # "ok"),
             Cl("transformer", "of-the-given-class-on-the-real-space-mask-and-baselines",
                o.tr_class = r.ini.tclass /\ o.tr_mask = SlimLin(s.um) /\ o.tr_uv = v.uv),
             Cl("signal_to_noise_map", "per-real-and-imaginary-part-with-negative-values-clipped-to-0",
                /\ Len(o.sxr) = nv /\ Len(o.sxi) = nv
                /\ \A k \in 1 .. nv : o.sxr[k] = Pos(v.dr[k]) /\ o.sxi[k] = Pos(v.di[k])) >>

\* ---- the verdict on one node -------------------------------------------------------------------------------------------
Clauses(r) ==
    LET nsteps == Len(r.steps)
        prev == IF nsteps = 0 THEN Construct(r.ini) ELSE RunHist(r.ini, r.steps, nsteps - 1)
        s == RunHist(r.ini, r.steps, nsteps)
        stepName == LastName(r)
        dead == r.fl[nsteps + 1].dead
    IN IF (nsteps > 0 /\ (~ prev.alive \/ ~ prev.dom)) \/ ~ s.dom
       THEN << >>      \* below a dead node / outside what the documentation pins: observed, not judged (see Unjudged)
       ELSE IF ~ s.alive
            THEN << Cl(stepName, "raises-for-non-positive-noise-with-the-check-on",
                       dead) >>      \* (the kind of exception is not documented; DatasetException in the code)
       ELSE IF dead
            \* (a second apply_mask that raises because an EARLIER step already lost `unmasked` was reported there)
            THEN << Cl(stepName, "the-call-succeeds", nsteps > 0 /\ r.steps[nsteps].a = "mask" /\ Inherited(r, "par")) >>
       ELSE IF r.only = "psf" THEN << PsfClause(r, s) >>
       ELSE IF r.ini.kind = "img" THEN ImgClauses(r, s) ELSE IntfClauses(r, s)

Unjudged(r) ==
    LET nsteps == Len(r.steps)
        prev == IF nsteps = 0 THEN Construct(r.ini) ELSE RunHist(r.ini, r.steps, nsteps - 1)
    IN (nsteps > 0 /\ (~ prev.alive \/ ~ prev.dom)) \/ ~ RunHist(r.ini, r.steps, nsteps).dom
Failed(r) == SelectSeq(Clauses(r), LAMBDA c : ~ c.ok)
\* the storage mode of the data is not part of the model; where the failing member is a statistic of data / noise it is part of
\* the classification of the failing input (division of natively stored MASKED arrays meets 0/0 at the masked cells)
NativeMasked(r) == r.ini.kind = "img" /\ "stored_native" \in DOMAIN r.o /\ r.o.stored_native /\ Len(r.o.mask) < r.o.shape_native[1] * r.o.shape_native[2]
Sig(r, c) == IF c.m \in {"signal_to_noise_map", "signal_to_noise_max"} /\ NativeMasked(r)
             THEN c.m \o ":natively-stored-masked-data"
             ELSE c.m \o ":after-" \o LastName(r)

\* what the specification wanted (for the replay file): the core of the folded dataset value
Want(r) ==
    LET s == RunHist(r.ini, r.steps, Len(r.steps))
    IN [alive |-> s.alive, dom |-> s.dom, shape |-> << s.h, s.w >>, mask |-> SlimLin(s.um), data |-> s.d, noise |-> s.n,
        os |-> s.os, psf |-> << s.kh, s.kw, s.nm >>, unmasked |-> << s.par.h, s.par.w >>, ncm_rows |-> s.c, ncm_state |-> s.cs,
        blurring |-> IF s.alive /\ s.dom /\ r.ini.kind = "img" THEN BlurKind(s) ELSE "n/a"]

TraceInit == /\ i = 1
             /\ iid = 0 /\ hist = << >> /\ st = << >>

TraceNext ==
    /\ i <= Len(Trace)
    /\ LET r == Trace[i]
           f == Failed(r)
       IN /\ Unjudged(r) => PrintT(ToJson([k |-> "unjudged", i |-> i, id |-> r.id]))
          /\ \A j \in DOMAIN f :
             PrintT(ToJson([k |-> "reject", i |-> i, id |-> r.id, clauses |-> << f[j].m \o ":" \o f[j].c >>,
                            sig |-> Sig(r, f[j]), want |-> IF j = 1 THEN Want(r) ELSE << >>]))
    /\ i' = i + 1
    /\ UNCHANGED vars

TraceSpec == TraceInit /\ [][TraceNext]_<< vars, i >>
TraceAccepted == TLCGet("stats").diameter - 1 = Len(Trace)
=============================================================================
