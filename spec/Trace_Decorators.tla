-------------------------- MODULE Trace_Decorators --------------------------
(***************************************************************************)
(* Validation of recorded executions of the real structure decorators      *)
(* against Decorators.tla (C17).  One record per decorated call.  Verdicts *)
(* are total: every record is judged; a rejected record is printed with    *)
(* the names of the failing clauses, the signature of the failing input    *)
(* class and what the specification wanted.                                *)
(*                                                                         *)
(* Fields of a record (produced by harness/drivers/c17.py):                *)
(*  api, gk, rk, lst   the call: decorator (or decorator stack), grid kind,*)
(*                     result kind, single result / list of 2              *)
(*  cls                concrete class of the grid object: "base", "uniform"  *)
(*                     (Grid2DIrregularUniform), "sub" (a subclass defined *)
(*                     by the harness); judged like the base kind          *)
(*  kinds              for every element of the result the library         *)
(*                     container class it is an instance of (first such    *)
(*                     class in its MRO), else its own class name          *)
(*  h, w, u            input mask (unmasked linear indices, ascending);    *)
(*                     irregular sets and plain arrays: h = 1, w = n       *)
(*  calls              how often the body of the user function ran         *)
(*  rid                tags of the coordinates the function received, in   *)
(*                     the order received: k for the expected coordinate k *)
(*                     (exact equality of both components), a fresh tag    *)
(*                     >= n for any other coordinate                       *)
(*  islist, kinds, out class name and slim entries (as tags) of every      *)
(*                     element of the result; nat: native view (g2d)       *)
(*  rh, rw, ru, geo_in, geo_out, geo_ok   the result's mask and its pixel  *)
(*                     scales / origin in lattice units (g2d)              *)
(*  vgrid              tags of the coordinates of result.grid (vectors)    *)
(*  payload_ok         the same call with random real payloads moved every *)
(*                     value along the recorded source map, bit for bit    *)
(*  S, q               fixed-point scale and received points round(p*S)    *)
(*  c, s, n1, o        line: centre, pixel scale, 1D length and origin     *)
(*  R, pt              radial minimum and exact points relative to the     *)
(*                     profile centre (units)                              *)
(*  tiny               per point: TRUE for a coordinate eps*(dy,dx) a hair *)
(*                     away from the centre (eps far below the unit); its  *)
(*                     pt entry is the integer direction (dy,dx)           *)
(*  gafter             the caller's grid object read again after the call: *)
(*                     k where position k still holds the coordinate the   *)
(*                     grid was built with (exact equality), -2 otherwise  *)
(*  aq, D              lines: line angle / 90 degrees when it is a multiple *)
(*                     of 90 degrees (else 99) and the documented unit     *)
(*                     direction round(16384 * (-sin t, cos t)), tabulated *)
(*                     by the harness with math.sin / math.cos             *)
(*  base, ops          history records: coordinates (units) the FIRST grid *)
(*                     of the history was built with, and the derivations  *)
(*                     << code, a, b, c >> the caller applied since        *)
(*  recvu              coordinates the function received, in exact units   *)
(*                     (99999 where not exactly on the lattice)            *)
(*  derive records     dcoords: coordinates of the derived grid object;    *)
(*                     inplace, pn, pafter: the parent read again          *)
(*  confs, prof, m     relocating calls: the configurations pushed so far  *)
(*                     in this process history, the profile class, and the *)
(*                     lattice refinement (unit = 1/(4m)): R must be the   *)
(*                     minimum configured when the call is made            *)
(*  reconfigure rec.   conf: the configuration pushed; seen: the minima    *)
(*                     (units of 1/4) the library's config now reports for *)
(*                     << VProfile, VProfileSmall >>                       *)
(*  oy, ox, dyadic     project on a 2D grid: origin (units) and whether    *)
(*                     the unit is a power of two (count judged exactly)   *)
(*  hid, step          history records: several decorated calls on ONE     *)
(*                     grid object; every call is judged against the       *)
(*                     coordinates the grid was BUILT with (0 = single)    *)
(*  depth, flag, tcount   transform: nesting depth, is_transformed passed  *)
(*                     by the caller, number of changes of frame performed *)
(***************************************************************************)
EXTENDS Decorators, IOUtils

Trace == JsonDeserialize(IOEnv.TRACE_FILE)

VARIABLE i

Un(r) == { CellOf(r.u[k], r.w) : k \in DOMAIN r.u }
Cl(n, b) == [n |-> n, ok |-> b]
NIn(r) == Len(r.u)
IsPairSeq(s) == \A k \in DOMAIN s : Len(s[k]) = 2
Pair(a) == << a[1], a[2] >>
PairsOf(q) == [k \in DOMAIN q |-> Pair(q[k])]

\* ---- the input grid is an input: whatever the call hands to the function, the caller's object still holds the
\* ---- coordinates it was built with (so the next decorated call on it pairs entry k with coordinate k again)
GridUnchanged(r) == Cl("input-grid-unchanged", r.gafter = Iota(NIn(r)))

\* ---- clauses shared by the wrapping decorators -----------------------------
CalledOnce(r) == Cl("function-body-runs-once", r.calls = 1)
ReceivedInput(r) == Cl("coordinates-reach-function-unchanged-in-order", r.rid = Iota(NIn(r)))
ListClause(r) ==
    Cl("list-wrapped-element-by-element",
       r.islist = r.lst /\ Len(r.out) = Elements(r.lst) /\ Len(r.kinds) = Elements(r.lst))
KindClause(r) ==
    LET want == ContainerKind(r.api, r.gk, r.rk)
    IN Cl("container-kind-mirrors-grid", want = AnyKind \/ \A e \in DOMAIN r.kinds : r.kinds[e] = want)
\* entry k of every element is what the function returned for the k-th point it received ...
PairingClause(r) == Cl("entry-k-is-f-of-point-k", \A e \in DOMAIN r.out : r.out[e] = r.rid)
\* ... also when the container is read through its native view, on the input mask
MaskClause(r) ==
    Cl("same-mask-as-input-grid",
       r.geo_ok /\ r.rh = r.h /\ r.rw = r.w /\ r.ru = r.u /\ Len(r.geo_in) = 4 /\ r.geo_out = r.geo_in)
NativeClause(r) ==
    Cl("native-view-holds-entry-of-each-unmasked-cell",
       /\ Len(r.nat) = Len(r.out)
       /\ \A e \in DOMAIN r.nat :
            /\ Len(r.out[e]) = NIn(r)
            /\ r.nat[e] = Scatter(r.out[e], Un(r), r.h, r.w))
PayloadClause(r) == Cl("payload-independent", r.payload_ok)
VectorGridClause(r) == Cl("vector-field-on-the-input-grid", r.vgrid = Iota(NIn(r)))

WrapCommon(r) == << CalledOnce(r), ListClause(r), KindClause(r), PairingClause(r), PayloadClause(r) >>
\* the container itself (read as it is stored, without the .slim / .native views) holds one entry per unmasked pixel in slim order
StoredSlimClause(r) ==
    Cl("result-stored-with-one-entry-per-unmasked-pixel-in-slim-order",
       /\ Len(r.raw) = Len(r.out) /\ Len(r.rawdim) = Len(r.out)
       /\ \A e \in DOMAIN r.out : r.raw[e] = r.out[e] /\ r.rawdim[e] = (IF r.rk = "values" THEN 1 ELSE 2))
Wrap2D(r) == IF r.gk = "g2d" THEN << MaskClause(r), NativeClause(r), StoredSlimClause(r) >> ELSE << >>
WrapVec(r) == IF r.api = "to_vector_yx" THEN << VectorGridClause(r) >> ELSE << >>

\* ---- the coordinates of the grid a call is made on: the built ones, or what the caller derived from them ------------
IsHist(r) == r.hid > 0
Ops(r) == [j \in DOMAIN r.ops |-> << r.ops[j][1], r.ops[j][2], r.ops[j][3], r.ops[j][4] >>]
OpsOk(r) == \A j \in DOMAIN r.ops : Len(r.ops[j]) = 4 /\ r.ops[j][1] \in 1 .. 4
Cur1D(r) == DeriveAll(Coords1D(r.u, r.n1, r.s, r.o), Ops(r), FALSE)
Cur2D(r) == DeriveAll(PairsOf(r.base), Ops(r), TRUE)
\* a call that hands the grid itself to the function: it receives the coordinates of the grid it was called with
DerivedReceived(r) ==
    Cl("function-evaluated-at-the-coordinates-of-the-grid-it-was-called-with",
       ~ IsHist(r) \/ (OpsOk(r) /\ IsPairSeq(r.base) /\ IsPairSeq(r.recvu) /\ PairsOf(r.recvu) = Cur2D(r)))
\* a relocating call: the points it is judged at are those coordinates in the profile's frame (quarter turns r.cq[3])
RotQ(p, t) == CASE t % 4 = 0 -> p [] t % 4 = 1 -> << p[2], -p[1] >> [] t % 4 = 2 -> << -p[1], -p[2] >> [] OTHER -> << -p[2], p[1] >>
DerivedRelocated(r) ==
    Cl("relocation-judged-at-the-coordinates-of-the-grid-it-was-called-with",
       ~ IsHist(r) \/ (OpsOk(r) /\ IsPairSeq(r.base) /\ IsPairSeq(r.pt) /\ Len(r.cq) = 3 /\ r.cq[3] \in 0 .. 3
                        /\ Len(Cur2D(r)) = Len(r.pt)
                        /\ \A k \in DOMAIN r.pt : Pair(r.pt[k]) = RotQ(Sub(Cur2D(r)[k], << r.cq[1], r.cq[2] >>), r.cq[3])))

\* ---- lines -------------------------------------------------------------------
\* the tabulated direction is the documented one: exact for multiples of 90 degrees, a unit vector otherwise
DirOk(r) == /\ Len(r.D) = 2 /\ IsUnit(Pair(r.D))
            /\ r.aq # 99 => Pair(r.D) = Scal(DS, QuarterDir(r.aq))
Line1DClause(r) ==
    Cl("1d-grid-evaluated-on-projected-line-point-k-at-coordinate-k",
       /\ r.s > 0 /\ r.s % 2 = 0 /\ r.S > 0 /\ IsPairSeq(r.q) /\ OpsOk(r)
       /\ Len(r.q) = NIn(r)
       /\ Len(r.rid) = NIn(r)           \* (equal coordinates -- possible after an item assignment -- share a tag)
       /\ OnLine(PairsOf(r.q), <<0, 0>>, Cur1D(r), r.S))
Line1DDirection(r) ==
    Cl("1d-grid-projected-along-the-documented-direction",
       /\ r.S > 0 /\ IsPairSeq(r.q) /\ OpsOk(r) /\ DirOk(r)
       /\ OnRay(PairsOf(r.q), <<0, 0>>, Cur1D(r), r.S, Pair(r.D)))
Ray2DClause(r) ==
    Cl("2d-grid-projected-on-one-ray-from-centre-spaced-by-pixel-scale",
       /\ r.s > 0 /\ r.S > 0 /\ IsPairSeq(r.q) /\ Len(r.c) = 2
       /\ Len(r.q) >= 1
       /\ r.rid = Iota(Len(r.q))
       /\ \E k0 \in {0, 1} : OnLine(PairsOf(r.q), Pair(r.c), ProjXs(Len(r.q), r.s, k0), r.S))
Ray2DCount(r) ==
    Cl("2d-grid-projected-on-as-many-points-as-pixel-scales-fit-the-longest-path-to-the-edge",
       /\ r.s > 0 /\ r.s % 2 = 0 /\ Len(r.c) = 2
       /\ \E k0 \in {0, 1} : CountOk(Len(r.q), k0, r.h, r.w, r.s, << r.oy, r.ox >>, Pair(r.c), r.dyadic)
       /\ Len(r.out) = 1 /\ Len(r.out[1]) = Len(r.q))
Ray2DDirection(r) ==
    Cl("2d-grid-projected-along-the-documented-direction",
       /\ r.s > 0 /\ r.S > 0 /\ IsPairSeq(r.q) /\ Len(r.c) = 2 /\ Len(r.q) >= 1 /\ DirOk(r)
       /\ \E k0 \in {0, 1} : OnRay(PairsOf(r.q), Pair(r.c), ProjXs(Len(r.q), r.s, k0), r.S, Pair(r.D)))

\* ---- the caller derives a grid ------------------------------------------------------
DeriveClauses(r) ==
    << Cl("derived-grid-holds-the-derived-coordinates",
          /\ OpsOk(r) /\ Len(r.ops) >= 1
          /\ IF r.gk = "g1d" THEN r.dcoords = Cur1D(r)
             ELSE IsPairSeq(r.base) /\ IsPairSeq(r.dcoords) /\ PairsOf(r.dcoords) = Cur2D(r)),
       Cl("parent-grid-unchanged-by-deriving", r.inplace \/ r.pafter = Iota(r.pn)) >>

\* ---- radial minimum ------------------------------------------------------------
RelocGuard(r) == Len(r.pt) = NIn(r) /\ Len(r.q) = NIn(r) /\ Len(r.rid) = NIn(r) /\ IsPairSeq(r.pt) /\ IsPairSeq(r.q)
                 /\ r.R > 0 /\ r.S > 0 /\ r.R * r.S <= MaxRS
                 /\ Len(r.tiny) = NIn(r) /\ \A k \in DOMAIN r.tiny : r.tiny[k] => Pair(r.pt[k]) # <<0, 0>>
RelocShape(r) == Cl("one-received-point-per-coordinate", RelocGuard(r))
\* a tiny coordinate is never Far and never at the centre, whatever its direction vector looks like
FarIdx(r) == { k \in DOMAIN r.pt : ~ r.tiny[k] /\ Far(Pair(r.pt[k]), r.R) }
CentreIdx(r) == { k \in DOMAIN r.pt : ~ r.tiny[k] /\ Pair(r.pt[k]) = <<0, 0>> }
TinyIdx(r) == { k \in DOMAIN r.pt : r.tiny[k] }
NearIdx(r) == DOMAIN r.pt \ (FarIdx(r) \cup CentreIdx(r) \cup TinyIdx(r))
RelocFar(r) ==
    Cl("coordinates-not-closer-than-minimum-reach-function-unchanged",
       RelocGuard(r) /\ \A k \in FarIdx(r) : r.rid[k] = k - 1)
RelocNear(r) ==
    Cl("closer-coordinates-moved-radially-outward-to-exactly-the-minimum",
       RelocGuard(r) /\ \A k \in NearIdx(r) : MovedToMinimum(Pair(r.pt[k]), Pair(r.q[k]), r.R, r.S))
RelocCentre(r) ==
    Cl("coordinate-at-the-centre-moved-to-exactly-the-minimum",
       RelocGuard(r) /\ \A k \in CentreIdx(r) : CentreToMinimum(Pair(r.q[k]), r.R, r.S))
RelocTiny(r) ==
    Cl("coordinate-a-hair-from-the-centre-moved-along-its-ray-to-exactly-the-minimum",
       RelocGuard(r) /\ \A k \in TinyIdx(r) : TinyToMinimum(Pair(r.pt[k]), Pair(r.q[k]), r.R, r.S))
\* the minimum the call is judged with is the one configured when the call was made
RelocConfigured(r) ==
    Cl("radial-minimum-is-the-one-configured-at-the-time-of-the-call",
       /\ r.prof \in {"VProfile", "VProfileSmall"} /\ r.m >= 1
       /\ \A j \in DOMAIN r.confs : r.confs[j] \in 1 .. 3
       /\ r.R = r.m * ConfMin(InForce(r.confs), r.prof))
RelocClauses(r) == << RelocConfigured(r), RelocShape(r), RelocFar(r), RelocNear(r), RelocCentre(r), RelocTiny(r) >>
ReconfigureClauses(r) ==
    << Cl("configuration-in-force-is-the-one-pushed",
          r.conf \in 1 .. 3 /\ r.seen = << ConfMin(r.conf, "VProfile"), ConfMin(r.conf, "VProfileSmall") >>) >>

TransformClause(r) == Cl("frame-changed-exactly-once-unless-caller-did", r.tcount = TransformsMeant(r.flag))

\* ---- per call --------------------------------------------------------------------
Clauses(r) ==
    IF r.api = "derive" THEN (IF r.raised THEN << Cl("call-returns", FALSE) >> ELSE DeriveClauses(r))
    ELSE IF r.api = "reconfigure" THEN (IF r.raised THEN << Cl("call-returns", FALSE) >> ELSE ReconfigureClauses(r))
    ELSE IF ~ (InDomain(r.api, r.gk, r.rk) /\ r.cls \in ClassesOf(r.gk)) THEN << Cl("call-in-domain", FALSE) >>
    ELSE IF r.raised THEN << Cl("call-returns", FALSE) >>
    ELSE << GridUnchanged(r) >> \o
    (CASE r.api \in {"to_array", "to_grid", "to_vector_yx"} /\ r.gk \in {"g2d", "irr"} ->
           << ReceivedInput(r), DerivedReceived(r) >> \o WrapCommon(r) \o Wrap2D(r) \o WrapVec(r)
      [] r.api \in {"to_array", "to_grid"} /\ r.gk = "g1d" ->
           WrapCommon(r) \o << Line1DClause(r), Line1DDirection(r) >>
      [] r.api = "project" /\ r.gk = "irr" ->
           << ReceivedInput(r), DerivedReceived(r) >> \o WrapCommon(r)
      [] r.api = "project" /\ r.gk = "g1d" ->
           WrapCommon(r) \o << Line1DClause(r), Line1DDirection(r) >>
      [] r.api = "project" /\ r.gk = "g2d" ->
           WrapCommon(r) \o << Ray2DClause(r), Ray2DCount(r), Ray2DDirection(r) >>
      [] r.api = "transform" ->
           << CalledOnce(r), TransformClause(r), ReceivedInput(r) >>
      [] r.api = "reloc" ->
           << CalledOnce(r), DerivedRelocated(r) >> \o RelocClauses(r)
      [] r.api \in {"stack_array", "stack_grid"} ->
           WrapCommon(r) \o Wrap2D(r) \o << TransformClause(r), DerivedRelocated(r) >> \o RelocClauses(r)
      [] OTHER -> << Cl("unknown-api", FALSE) >>)

Failed(r) == SelectSeq(Clauses(r), LAMBDA c : ~ c.ok)
FailedNames(r) == { Failed(r)[j].n : j \in DOMAIN Failed(r) }

\* signature of the failing input class (matched against the list of known findings): a record whose ONLY failing clause
\* is the one about a coordinate exactly at the profile centre is "PointAtCentre"; anything else is named by its call
Sig(r) ==
    IF FailedNames(r) = {"coordinate-at-the-centre-moved-to-exactly-the-minimum"} THEN "PointAtCentre"
    ELSE IF FailedNames(r) = {"coordinate-a-hair-from-the-centre-moved-along-its-ray-to-exactly-the-minimum"} THEN "PointNearCentre"
    ELSE IF FailedNames(r) = {"input-grid-unchanged"} THEN "InputGridOverwritten"
    ELSE IF "radial-minimum-is-the-one-configured-at-the-time-of-the-call" \in FailedNames(r) THEN "StaleConfiguration"
    ELSE r.api \o "/" \o r.gk \o (IF r.cls = "base" THEN "" ELSE ":" \o r.cls)

Want(r) ==
    IF r.api = "reconfigure" THEN << >>
    ELSE IF r.api = "derive" THEN (IF r.raised \/ ~ OpsOk(r) THEN << >>
                              ELSE [coordinates |-> IF r.gk = "g1d" THEN Cur1D(r) ELSE Cur2D(r)])
    ELSE IF ~ InDomain(r.api, r.gk, r.rk) \/ r.raised THEN << >>
    ELSE IF r.api \in {"reloc", "stack_array", "stack_grid"} /\ RelocGuard(r)
    THEN [radius2 |-> (r.R * r.S) * (r.R * r.S),
          got2 |-> [k \in DOMAIN r.q |-> IF InRange(Pair(r.q[k])) THEN Dot(Pair(r.q[k]), Pair(r.q[k])) ELSE -1],
          unchanged |-> [k \in DOMAIN r.pt |-> k \in FarIdx(r)],
          at_centre |-> { k - 1 : k \in CentreIdx(r) }, tiny |-> { k - 1 : k \in TinyIdx(r) }]
    ELSE IF r.api = "transform" THEN [tcount |-> TransformsMeant(r.flag), rid |-> Iota(NIn(r))]
    ELSE [kind |-> ContainerKind(r.api, r.gk, r.rk), elements |-> Elements(r.lst), entries |-> r.rid]

TraceInit == /\ i = 1
             /\ inst = << >> /\ phase = "trace" /\ obs = << >> /\ grid = << >> /\ hist = << >> /\ cfg = 1

TraceNext ==
    /\ i <= Len(Trace)
    /\ LET r == Trace[i]
           f == Failed(r)
       IN IF f = << >> THEN TRUE
          ELSE PrintT(ToJson([k |-> "reject", i |-> i, id |-> r.id,
                              clauses |-> [j \in DOMAIN f |-> f[j].n],
                              sig |-> Sig(r), want |-> Want(r)]))
    /\ i' = i + 1
    /\ UNCHANGED vars

TraceSpec == TraceInit /\ [][TraceNext]_<< vars, i >>
TraceAccepted == TLCGet("stats").diameter - 1 = Len(Trace)
=============================================================================
