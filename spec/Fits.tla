-------------------------------- MODULE Fits --------------------------------
(***************************************************************************)
(* C16: FITS output followed by input reproduces values, orientation and   *)
(* pixel scale.  A history machine: the file system, the DS9 flip option,  *)
(* in-memory header-data units and the sequence of library calls.          *)
(*                                                                         *)
(* Values are opaque: a CONTENT id denotes one concrete array (asymmetric, *)
(* non-square where possible; the driver owns the table).  What a call     *)
(* returns is <<content id, flipped?>>: the orientation relative to the    *)
(* native array that was written.                                          *)
(***************************************************************************)
EXTENDS Integers, Sequences, FiniteSets, TLC, Json

CONSTANTS Contents,   \* set of content ids (strings)
          Aniso,      \* subset of Contents whose pixel scales are anisotropic
          KindOf,     \* content id -> "Array2D" | "Mask2D" | "Kernel2D" | "Array1D" | "Mask1D"
          Paths,      \* set of path ids (strings); DirOf gives the directory chain each needs
          DirOf,      \* path id -> set of directory ids that must exist for the file ("" = cwd: none)
          InitDirs,   \* directories existing initially
          ImagingTriples, \* set of <<data, psf, noise map>> content triples that form a valid imaging dataset
          MaxHdus,    \* bound on in-memory HDUs
          MaxDepth    \* bound on history length (bounded machine only)

NoFile == "none"
None == [cid |-> NoFile, wflip |-> FALSE, ext |-> << >>]   \* "no such file" (a record, so that entries compare uniformly)

VARIABLES fs,     \* path -> None or [cid, wflip]   (wflip: value of the flip option when the file was written)
          dirs,   \* set of existing directories
          flip,   \* the DS9 flip option (configuration state)
          hdus,   \* sequence of in-memory HDUs [cid, wflip]
          res,    \* result of the last call
          hist    \* the calls so far (history variable; hidden from the state space by VIEW)
vars == << fs, dirs, flip, hdus, res, hist >>
view == << fs, dirs, flip, hdus, res >>

Kinds == {"Array2D", "Mask2D", "Kernel2D", "Array1D", "Mask1D"}
Dim(kind) == IF kind \in {"Array1D", "Mask1D"} THEN 1 ELSE 2
IsMask(kind) == kind \in {"Mask2D", "Mask1D"}
\* a reader of kind kr can load a file written from content c
Readable(kr, c) == /\ Dim(kr) = Dim(KindOf[c])
                   /\ IsMask(kr) = IsMask(KindOf[c])

-----------------------------------------------------------------------------
Init == \E b \in BOOLEAN :
           /\ fs = [p \in Paths |-> None]
           /\ dirs = InitDirs
           /\ flip = b
           /\ hdus = << >>
           /\ res = [a |-> "Start"]
           /\ hist = << [a |-> "Start", b |-> b] >>

\* effect operators (pure), shared by the actions below and by the trace specification
WriteOk(f, p, ow) == ~ (f[p] # None /\ ~ ow)
FsAfterWrite(f, fl, c, p, ow) == IF WriteOk(f, p, ow) THEN [f EXCEPT ![p] = [cid |-> c, wflip |-> fl, ext |-> << >>]] ELSE f
DirsAfterWrite(f, d, p, ow) == IF WriteOk(f, p, ow) THEN d \cup DirOf[p] ELSE d
ReadValue(entry, fl) == [cid |-> entry.cid, flipped |-> (entry.wflip # fl)]

\* Write content c (through the output_to_fits of its own kind) to path p.
\* Fails, leaving the file system unchanged, iff the path exists and overwrite was not requested.
\* Otherwise missing directories are created and the new content fully replaces the old.
Write(c, p, ow) ==
    /\ fs' = FsAfterWrite(fs, flip, c, p, ow)
    /\ dirs' = DirsAfterWrite(fs, dirs, p, ow)
    /\ res' = [a |-> "Write", ok |-> WriteOk(fs, p, ow)]
    /\ hist' = Append(hist, [a |-> "Write", c |-> c, p |-> p, ow |-> ow])
    /\ UNCHANGED << flip, hdus >>

\* Read path p with the from_fits of kind kr.  The flip applied on output is undone on input:
\* the value comes back flipped iff the option differs between the two ends.
ReadFile(kr, p) ==
    /\ fs[p] # None
    /\ Readable(kr, fs[p].cid)
    /\ res' = [a |-> "Read"] @@ ReadValue(fs[p], flip)
    /\ hist' = Append(hist, [a |-> "Read", kind |-> kr, p |-> p])
    /\ UNCHANGED << fs, dirs, flip, hdus >>

\* hdu_for_output of content c: an in-memory HDU
HduOut(c) ==
    /\ Len(hdus) < MaxHdus
    /\ hdus' = Append(hdus, [cid |-> c, wflip |-> flip])
    /\ res' = [a |-> "HduOut", n |-> Len(hdus) + 1]
    /\ hist' = Append(hist, [a |-> "HduOut", c |-> c])
    /\ UNCHANGED << fs, dirs, flip >>

\* from_primary_hdu of kind kr on the n-th HDU: values, orientation and (via the header) the pixel scale
HduIn(kr, n) ==
    /\ n \in DOMAIN hdus
    /\ Readable(kr, hdus[n].cid)
    /\ res' = [a |-> "HduIn", scale_from |-> hdus[n].cid] @@ ReadValue(hdus[n], flip)
    /\ hist' = Append(hist, [a |-> "HduIn", kind |-> kr, n |-> n])
    /\ UNCHANGED << fs, dirs, flip, hdus >>

\* A multi-extension file assembled (by an external FITS tool, replacing whatever is at p) from HDUs that the library
\* produced with hdu_for_output: HDU 0 is the n1-th in-memory HDU, HDU 1 the n2-th.
WriteMulti(p, n1, n2) ==
    /\ n1 \in DOMAIN hdus /\ n2 \in DOMAIN hdus
    /\ fs' = [fs EXCEPT ![p] = [cid |-> hdus[n1].cid, wflip |-> hdus[n1].wflip, ext |-> << hdus[n2] >>]]
    /\ dirs' = dirs \cup DirOf[p]
    /\ res' = [a |-> "WriteMulti", ok |-> TRUE]
    /\ hist' = Append(hist, [a |-> "WriteMulti", p |-> p, n1 |-> n1, n2 |-> n2])
    /\ UNCHANGED << flip, hdus >>

\* from_fits(..., hdu = k) of kind kr on extension k >= 1 of a multi-extension file
HduEntry(entry, k) == IF k = 0 THEN [cid |-> entry.cid, wflip |-> entry.wflip] ELSE entry.ext[k]
ReadFileHdu(kr, p, k) ==
    /\ fs[p] # None /\ k >= 1 /\ k <= Len(fs[p].ext)
    /\ Readable(kr, fs[p].ext[k].cid)
    /\ res' = [a |-> "ReadHdu"] @@ ReadValue(fs[p].ext[k], flip)
    /\ hist' = Append(hist, [a |-> "ReadHdu", kind |-> kr, p |-> p, hdu |-> k])
    /\ UNCHANGED << fs, dirs, flip, hdus >>

\* Imaging.output_to_fits(data_path, psf_path, noise_map_path, overwrite): three writes in the order data, psf, noise map,
\* stopping at the first one that fails (an implementation step that is up to three specification steps)
ImagingPaths == << "img_data", "img_psf", "img_noise" >>
RECURSIVE FsAfterSeq(_, _, _, _, _)
FsAfterSeq(f, fl, cs, ow, k) ==
    IF k > Len(cs) THEN f
    ELSE IF ~ WriteOk(f, ImagingPaths[k], ow) THEN f
    ELSE FsAfterSeq(FsAfterWrite(f, fl, cs[k], ImagingPaths[k], ow), fl, cs, ow, k + 1)
SeqOk(f, ow) == \A k \in 1 .. 3 : WriteOk(f, ImagingPaths[k], ow)
WriteImaging(cd, ck, cn, ow) ==
    /\ \A k \in 1 .. 3 : ImagingPaths[k] \in Paths
    /\ << cd, ck, cn >> \in ImagingTriples
    /\ fs' = FsAfterSeq(fs, flip, << cd, ck, cn >>, ow, 1)
    /\ dirs' = dirs \cup UNION { DirOf[ImagingPaths[k]] : k \in {j \in 1 .. 3 : \A i \in 1 .. j : WriteOk(fs, ImagingPaths[i], ow)} }
    /\ res' = [a |-> "WriteImaging", ok |-> SeqOk(fs, ow)]
    /\ hist' = Append(hist, [a |-> "WriteImaging", cd |-> cd, ck |-> ck, cn |-> cn, ow |-> ow])
    /\ UNCHANGED << flip, hdus >>

\* Imaging.from_fits: data, noise map and psf come back as written
ReadImaging ==
    /\ \A k \in 1 .. 3 : ImagingPaths[k] \in Paths /\ fs[ImagingPaths[k]] # None
    /\ << fs["img_data"].cid, fs["img_psf"].cid, fs["img_noise"].cid >> \in ImagingTriples   \* a valid dataset (positive noise, ...)
    /\ res' = [a |-> "ReadImaging", data |-> ReadValue(fs["img_data"], flip), psf |-> ReadValue(fs["img_psf"], flip),
                noise |-> ReadValue(fs["img_noise"], flip)]
    /\ hist' = Append(hist, [a |-> "ReadImaging"])
    /\ UNCHANGED << fs, dirs, flip, hdus >>

SetFlip(b) ==
    /\ flip # b
    /\ flip' = b
    /\ res' = [a |-> "SetFlip"]
    /\ hist' = Append(hist, [a |-> "SetFlip", b |-> b])
    /\ UNCHANGED << fs, dirs, hdus >>

Next == /\ Len(hist) < MaxDepth
        /\ \/ \E c \in Contents, p \in Paths, ow \in BOOLEAN : Write(c, p, ow)
           \/ \E kr \in Kinds, p \in Paths : ReadFile(kr, p)
           \/ \E c \in Contents : HduOut(c)
           \/ \E kr \in Kinds, n \in 1 .. MaxHdus : HduIn(kr, n)
           \/ \E p \in Paths, n1, n2 \in 1 .. MaxHdus : WriteMulti(p, n1, n2)
           \/ \E kr \in Kinds, p \in Paths : ReadFileHdu(kr, p, 1)
           \/ \E cd, ck, cn \in Contents, ow \in BOOLEAN : WriteImaging(cd, ck, cn, ow)
           \/ ReadImaging
           \/ \E b \in BOOLEAN : SetFlip(b)

Spec == Init /\ [][Next]_vars

-----------------------------------------------------------------------------
(* Properties *)

TypeOK == /\ \A p \in Paths : fs[p] = None \/ (fs[p].cid \in Contents /\ fs[p].wflip \in BOOLEAN /\ Len(fs[p].ext) <= 1)
          /\ dirs \subseteq UNION {DirOf[p] : p \in Paths} \cup InitDirs

\* reading back under the setting that was in force on output is the identity (values, shape, orientation)
ReadAfterWriteIsIdentity ==
    /\ (res.a = "Read" => LET p == hist[Len(hist)].p IN (fs[p].wflip = flip => ~ res.flipped))
    /\ (res.a = "HduIn" => LET n == hist[Len(hist)].n IN (hdus[n].wflip = flip => ~ res.flipped))
    /\ (res.a = "ReadHdu" => LET e == hist[Len(hist)] IN (fs[e.p].ext[e.hdu].wflip = flip => ~ res.flipped))
    /\ (res.a = "ReadImaging" => /\ (fs["img_data"].wflip = flip => ~ res.data.flipped)
                                /\ (fs["img_psf"].wflip = flip => ~ res.psf.flipped)
                                /\ (fs["img_noise"].wflip = flip => ~ res.noise.flipped))

\* a file exists only inside existing directories
FilesHaveDirectories == \A p \in Paths : fs[p] # None => DirOf[p] \subseteq dirs

\* an existing file changes only through a Write that requested overwrite, and then it is fully replaced
NoSilentOverwrite ==
    [][\A p \in Paths :
          (fs[p] # None /\ fs'[p] # fs[p]) =>
              LET e == hist'[Len(hist')] IN
                 \/ /\ e.a = "Write" /\ e.p = p /\ e.ow
                    /\ fs'[p] = [cid |-> e.c, wflip |-> flip, ext |-> << >>]
                 \/ /\ e.a = "WriteImaging" /\ e.ow /\ \E k \in 1 .. 3 : ImagingPaths[k] = p
                 \/ /\ e.a = "WriteMulti" /\ e.p = p]_vars
\* files never disappear and nothing but Write touches the file system
OnlyWriteTouchesFiles ==
    [][fs' # fs => hist'[Len(hist')].a \in {"Write", "WriteImaging", "WriteMulti"}]_vars
\* a failed write changes nothing
FailedWriteChangesNothing ==
    [][(res'.a = "Write" /\ ~ res'.ok /\ Len(hist') > Len(hist)) => fs' = fs /\ dirs' = dirs]_vars
\* a failing Imaging output stops at the first path that exists: paths after it are untouched
ImagingOutputStopsAtFirstFailure ==
    [][(res'.a = "WriteImaging" /\ ~ res'.ok /\ Len(hist') > Len(hist)) =>
          LET ow == hist'[Len(hist')].ow
              j == CHOOSE i \in 1 .. 3 : ~ WriteOk(fs, ImagingPaths[i], ow) /\ \A l \in 1 .. i-1 : WriteOk(fs, ImagingPaths[l], ow)
          IN \A k \in j .. 3 : fs'[ImagingPaths[k]] = fs[ImagingPaths[k]]]_vars

\* dump of complete behaviours for replay (evaluated as an invariant during simulation; always TRUE)
DumpBehaviour ==
    IF Len(hist) = MaxDepth THEN PrintT(ToJson([k |-> "beh", hist |-> hist])) ELSE TRUE
=============================================================================
