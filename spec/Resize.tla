------------------------------- MODULE Resize -------------------------------
(***************************************************************************)
(* C14 -- resize, pad and trim keep data centred and attached to its       *)
(* coordinates (PyAutoArray: Array2D / Mask2D resized_from, padding and    *)
(* trimming for a convolution kernel, the automatic padding performed by   *)
(* Imaging.apply_mask, the zoom window around a mask).                     *)
(*                                                                         *)
(* A frame of shape H x W has cells <<i,j>> (0-based, row i from the top,  *)
(* column j from the left).  Values are never modelled: every operation    *)
(* here only MOVES data, so it is described by the SOURCE of each output   *)
(* position -- the linear index of an input cell, or Pad ("this position   *)
(* holds the padding value": 0 for arrays, the requested value for masks). *)
(* Coordinates live on a lattice of ticks: hy, hx are HALF pixel scales in *)
(* ticks, oy, ox the origin in ticks, so pixel centres are integers.       *)
(*                                                                         *)
(* Layer 1 (meaning) is parametrised by shapes so that Trace_Resize can    *)
(* apply it to recorded calls of any size.                                 *)
(***************************************************************************)
EXTENDS Integers, Sequences, FiniteSets, TLC, Json, SequencesExt, FiniteSetsExt

CONSTANTS InShapes,     \* <<H,W>> of the arrays that are resized / padded / trimmed
          OutShapes,    \* <<H2,W2>> target shapes of resize
          KernelShapes, \* <<kh,kw>> odd kernel shapes for pad / trim
          MaskShapes,   \* <<H,W>> of the frames whose every non-empty mask is explored (auto padding, zoom)
          MaskKernels,  \* <<kh,kw>> odd kernel shapes for the automatic padding
          Buffers,      \* zoom buffers
          HalfScales,   \* half pixel scales (ticks) over which the coordinate theorems are checked
          Origins       \* origin components (ticks)

Pad == -1   \* source tag "padding / zero"

-----------------------------------------------------------------------------
(* Layer 1: meaning *)

Cells(H, W) == (0 .. H-1) \X (0 .. W-1)
Lin(c, W) == c[1] * W + c[2]
CellOf(k, W) == << k \div W, k % W >>
InFrame(c, H, W) == c[1] >= 0 /\ c[1] < H /\ c[2] >= 0 /\ c[2] < W
RowMajor(H, W) == [k \in 1 .. H*W |-> CellOf(k-1, W)]
LinSeq(U, H, W) == LET s == SelectSeq(RowMajor(H, W), LAMBDA c : c \in U)
                   IN [k \in 1 .. Len(s) |-> Lin(s[k], W)]
Identity(H, W) == [k \in 1 .. H*W |-> k-1]
Abs(x) == IF x < 0 THEN -x ELSE x

\* ---- one axis: which input index does output index t show? -------------------------------
\* Output index t of an axis resized from n to m entries shows input index t + off.
\* "Centred" is defined without a formula: the number of entries cut (or, negative, padded) on the
\* low side, off, and on the high side, n - m - off, differ by at most one.
Balanced(n, m, off) == Abs(off - (n - m - off)) <= 1
\* the same thing in closed form: exactly (n-m)/2 when the parities agree, floor or ceiling otherwise.
\* (\div is floor division, also for negative numerators.)
SameParity(n, m) == (n - m) % 2 = 0
Offsets(n, m) == IF SameParity(n, m) THEN { (n - m) \div 2 }
                 ELSE { (n - m - 1) \div 2, (n - m + 1) \div 2 }

\* ---- windows ------------------------------------------------------------------------------
\* The H2 x W2 window of an H x W frame whose top-left output cell shows input cell <<oy,ox>>.
\* Cells outside the frame, and masked cells (not in U), show Pad.
WindowSrc(H, W, U, H2, W2, oy, ox) ==
    [k \in 1 .. H2*W2 |->
        LET c == << (k-1) \div W2 + oy, ((k-1) % W2) + ox >>
        IN IF InFrame(c, H, W) /\ c \in U THEN Lin(c, W) ELSE Pad]
\* unmasked output positions (linear) of the resized mask; outside the frame the pad value decides
WindowUnmasked(H, W, U, H2, W2, oy, ox, padUnmasked) ==
    { k-1 : k \in { q \in 1 .. H2*W2 :
                      LET c == << (q-1) \div W2 + oy, ((q-1) % W2) + ox >>
                      IN IF InFrame(c, H, W) THEN c \in U ELSE padUnmasked } }

\* Resize: the centred crop / centred embedding.  A result is valid iff SOME pair of centred offsets explains it.
ValidResize(src, H, W, U, H2, W2) ==
    \E oy \in Offsets(H, H2), ox \in Offsets(W, W2) : src = WindowSrc(H, W, U, H2, W2, oy, ox)

\* composition of data movements (outer applied to the result of inner)
Compose(outer, inner) == [k \in DOMAIN outer |-> IF outer[k] = Pad THEN Pad ELSE inner[outer[k] + 1]]

\* ---- padding and trimming for an odd kernel -----------------------------------------------
PadShape(H, W, kh, kw) == << H + kh - 1, W + kw - 1 >>
TrimShape(H, W, kh, kw) == << H - (kh - 1), W - (kw - 1) >>
Trimmable(H, W, kh, kw) == H - (kh - 1) >= 1 /\ W - (kw - 1) >= 1
PadForKernel(H, W, U, kh, kw) ==
    WindowSrc(H, W, U, H + kh - 1, W + kw - 1, -(kh \div 2), -(kw \div 2))
TrimForKernel(H, W, U, kh, kw) ==
    WindowSrc(H, W, U, H - (kh - 1), W - (kw - 1), kh \div 2, kw \div 2)

\* ---- geometry: pixel centres on the tick lattice ------------------------------------------
\* centre of pixel <<i,j>> of an H x W frame: y decreases with the row index, x increases with the column index
CentreY(i, H, hy, oy) == oy + (H - 1 - 2*i) * hy
CentreX(j, W, hx, ox) == ox + (2*j - (W - 1)) * hx
Centre(c, H, W, g) == << CentreY(c[1], H, g.hy, g.oy), CentreX(c[2], W, g.hx, g.ox) >>
Geoms == [hy : HalfScales, hx : HalfScales, oy : Origins, ox : Origins]

\* ---- automatic padding when the blurring region of a mask leaves the frame -----------------
Foot(p, kh, kw) == { << p[1] + a, p[2] + b >> : a \in -(kh \div 2) .. (kh \div 2), b \in -(kw \div 2) .. (kw \div 2) }
FootLeaves(U, H, W, kh, kw) == \E p \in U : \E c \in Foot(p, kh, kw) : ~ InFrame(c, H, W)
AutoPadShape(H, W, U, kh, kw) == IF FootLeaves(U, H, W, kh, kw) THEN PadShape(H, W, kh, kw) ELSE << H, W >>
AutoPadOff(H, W, U, kh, kw) == IF FootLeaves(U, H, W, kh, kw) THEN << -(kh \div 2), -(kw \div 2) >> ELSE << 0, 0 >>
AutoPadMask(H, W, U, kh, kw) ==
    LET o == AutoPadOff(H, W, U, kh, kw) IN { << p[1] - o[1], p[2] - o[2] >> : p \in U }
\* the (coordinate, data, noise) triples of the unmasked pixels; data and noise are named by their source cell
Triples(U, H, W, g) == { << Centre(p, H, W, g), Lin(p, W), Lin(p, W) >> : p \in U }

\* ---- zoom window ---------------------------------------------------------------------------
\* A valid zoom result is ANY window (translation of the frame, zeros outside it) that contains every unmasked
\* pixel -- with a margin of b pixels on every side -- and shows each with its value.
WindowHolds(U, H2, W2, y0, x0, b) ==
    \A p \in U : /\ y0 + b <= p[1] /\ p[1] < y0 + H2 - b
                 /\ x0 + b <= p[2] /\ p[2] < x0 + W2 - b
ValidZoom(src, H, W, U, H2, W2, b) ==
    \E y0 \in -H2 .. H, x0 \in -W2 .. W :
        /\ WindowHolds(U, H2, W2, y0, x0, b)
        /\ src = WindowSrc(H, W, U, H2, W2, y0, x0)

-----------------------------------------------------------------------------
(* The same things formulated the way the implementation builds them (array_2d_util.resized_array_2d_from,   *)
(* Mask2D.zoom_region).  Layer 3 states that both formulations agree.                                         *)

\* The code takes pixel n div 2 as the centre of an axis of n entries (for even n that is the second of the two
\* central entries; the docstring speaks of the first -- both are "centred", so the difference is not a C14 matter)
\* and lets it land on entry m div 2 of the output: the window is [n div 2 - m div 2, n div 2 + m div 2 + 1).
CodeMin(n, m) == n \div 2 - m \div 2
CodeMax(n, m) == n \div 2 + m \div 2 + 1            \* exclusive; the loop runs over m or m+1 indices
CodeResizeSrc(H, W, U, H2, W2) ==
    LET ymin == CodeMin(H, H2)
        xmin == CodeMin(W, W2)
        ny == CodeMax(H, H2) - ymin
        nx == CodeMax(W, W2) - xmin
    IN [k \in 1 .. H2*W2 |->
          LET t == CellOf(k-1, W2)
              c == << ymin + t[1], xmin + t[2] >>
          IN IF t[1] < ny /\ t[2] < nx        \* visited by the double loop (writes beyond the output are skipped)
             THEN (IF InFrame(c, H, W) /\ c \in U THEN Lin(c, W) ELSE Pad)
             ELSE -3]                          \* never written: would keep np.zeros whatever the pad value

\* the two self-consistent conventions for the centre of an even axis
ConvOffset(conv, n, m) == IF conv = "upper" THEN n \div 2 - m \div 2 ELSE (n - 1) \div 2 - (m - 1) \div 2

\* zoom_region: bounding box of the unmasked pixels, the shorter side extended by int(diff/2) on both sides
MinOf(S) == CHOOSE x \in S : \A y \in S : x <= y
MaxOf(S) == CHOOSE x \in S : \A y \in S : x >= y
CodeZoomRegion(U) ==
    LET y0 == MinOf({p[1] : p \in U})
        y1 == MaxOf({p[1] : p \in U})
        x0 == MinOf({p[2] : p \in U})
        x1 == MaxOf({p[2] : p \in U})
        yl == y1 - y0
        xl == x1 - x0
        e == Abs(yl - xl) \div 2
    IN IF yl > xl THEN << y0, y1 + 1, x0 - e, x1 + e + 1 >>
       ELSE IF xl > yl THEN << y0 - e, y1 + e + 1, x0, x1 + 1 >>
       ELSE << y0, y1 + 1, x0, x1 + 1 >>
CodeZoomShape(U, b) == LET r == CodeZoomRegion(U) IN << r[2] - r[1] + 2*b, r[4] - r[3] + 2*b >>
CodeZoomSrc(H, W, U, b) ==
    LET r == CodeZoomRegion(U)
        s == CodeZoomShape(U, b)
    IN WindowSrc(H, W, U, s[1], s[2], r[1] - b, r[3] - b)

-----------------------------------------------------------------------------
(* Layer 2: the bounded machine.  Init picks an instance; one action per public call.                    *)

VARIABLES inst, phase, obs
vars == << inst, phase, obs >>

Blank == [kind |-> "none", h |-> 1, w |-> 1, u |-> {}, h2 |-> 1, w2 |-> 1, kh |-> 1, kw |-> 1, b |-> 0]

\* (written as nested choices rather than as one big union of sets, which TLC would have to normalise)
ResizeInst(s, t) ==
    [Blank EXCEPT !.kind = "resize", !.h = s[1], !.w = s[2], !.u = Cells(s[1], s[2]), !.h2 = t[1], !.w2 = t[2]]
KernelInst(s, k) ==
    [Blank EXCEPT !.kind = "kernel", !.h = s[1], !.w = s[2], !.u = Cells(s[1], s[2]), !.kh = k[1], !.kw = k[2]]
AutoPadInst(s, u, k) ==
    [Blank EXCEPT !.kind = "autopad", !.h = s[1], !.w = s[2], !.u = u, !.kh = k[1], !.kw = k[2]]
ZoomInst(s, u, b) ==
    [Blank EXCEPT !.kind = "zoom", !.h = s[1], !.w = s[2], !.u = u, !.b = b]

Init == /\ \/ \E s \in InShapes, t \in OutShapes : inst = ResizeInst(s, t)
           \/ \E s \in InShapes, k \in KernelShapes : inst = KernelInst(s, k)
           \/ \E s \in MaskShapes : \E u \in (SUBSET Cells(s[1], s[2])) \ {{}} :
                  \/ \E k \in MaskKernels : inst = AutoPadInst(s, u, k)
                  \/ \E b \in Buffers : inst = ZoomInst(s, u, b)
        /\ phase = "input"
        /\ obs = << >>

Dump(x) == PrintT(ToJson([k |-> "inst", kind |-> x.kind, h |-> x.h, w |-> x.w, u |-> LinSeq(x.u, x.h, x.w),
                          h2 |-> x.h2, w2 |-> x.w2, kh |-> x.kh, kw |-> x.kw, b |-> x.b]))

\* Array2D.resized_from / Mask2D.resized_from: any centred offset pair may be taken
DoResize ==
    /\ phase = "input" /\ inst.kind = "resize"
    /\ \E oy \in Offsets(inst.h, inst.h2), ox \in Offsets(inst.w, inst.w2) :
          obs' = [off |-> << oy, ox >>,
                  src |-> WindowSrc(inst.h, inst.w, inst.u, inst.h2, inst.w2, oy, ox)]
    /\ phase' = "resized"
    /\ Dump(inst)
    /\ UNCHANGED inst

\* Array2D.padded_before_convolution_from, then trimmed_after_convolution_from with the same kernel
DoPadTrim ==
    /\ phase = "input" /\ inst.kind = "kernel"
    /\ LET ps == PadShape(inst.h, inst.w, inst.kh, inst.kw)
           pad == PadForKernel(inst.h, inst.w, inst.u, inst.kh, inst.kw)
       IN obs' = [padshape |-> ps,
                  pad |-> pad,
                  back |-> Compose(TrimForKernel(ps[1], ps[2], Cells(ps[1], ps[2]), inst.kh, inst.kw), pad)]
    /\ phase' = "padtrimmed"
    /\ Dump(inst)
    /\ UNCHANGED inst

\* Imaging.apply_mask(mask) with a PSF of shape kh x kw
DoAutoPad ==
    /\ phase = "input" /\ inst.kind = "autopad"
    /\ LET s == AutoPadShape(inst.h, inst.w, inst.u, inst.kh, inst.kw)
           o == AutoPadOff(inst.h, inst.w, inst.u, inst.kh, inst.kw)
       IN obs' = [shape |-> s,
                  mask |-> AutoPadMask(inst.h, inst.w, inst.u, inst.kh, inst.kw),
                  src |-> WindowSrc(inst.h, inst.w, inst.u, s[1], s[2], o[1], o[2])]
    /\ phase' = "masked"
    /\ Dump(inst)
    /\ UNCHANGED inst

\* Array2D.zoomed_around_mask(buffer)
DoZoom ==
    /\ phase = "input" /\ inst.kind = "zoom"
    /\ obs' = [shape |-> CodeZoomShape(inst.u, inst.b),
               src |-> CodeZoomSrc(inst.h, inst.w, inst.u, inst.b)]
    /\ phase' = "zoomed"
    /\ Dump(inst)
    /\ UNCHANGED inst

Next == DoResize \/ DoPadTrim \/ DoAutoPad \/ DoZoom
Spec == Init /\ [][Next]_vars

-----------------------------------------------------------------------------
(* Layer 3: properties of the design, checked by TLC on every instance *)

\* the closed form of the offsets is exactly "balanced margins"
OffsetsAreTheBalancedOnes ==
    phase = "resized" =>
        \A off \in -(inst.h2 + 1) .. (inst.h + 1) : (off \in Offsets(inst.h, inst.h2)) <=> Balanced(inst.h, inst.h2, off)

\* the implementation's loop formulation writes every output cell and is one of the allowed centred windows
CodeFormulationAgrees ==
    phase = "resized" =>
        /\ CodeMin(inst.h, inst.h2) \in Offsets(inst.h, inst.h2)
        /\ CodeMin(inst.w, inst.w2) \in Offsets(inst.w, inst.w2)
        /\ CodeResizeSrc(inst.h, inst.w, inst.u, inst.h2, inst.w2)
             = WindowSrc(inst.h, inst.w, inst.u, inst.h2, inst.w2, CodeMin(inst.h, inst.h2), CodeMin(inst.w, inst.w2))
        /\ ValidResize(CodeResizeSrc(inst.h, inst.w, inst.u, inst.h2, inst.w2), inst.h, inst.w, inst.u, inst.h2, inst.w2)

\* a resize never duplicates or reorders data: every input cell appears at most once, cells keep their relative order
ResizeIsInjectiveAndMonotone ==
    phase = "resized" =>
        \A a, b \in DOMAIN obs.src :
            (a < b /\ obs.src[a] # Pad /\ obs.src[b] # Pad) => obs.src[a] < obs.src[b]

\* a crop keeps a full window, an embedding keeps everything
CropKeepsAWindowEmbeddingKeepsAll ==
    phase = "resized" =>
        LET kept == { obs.src[k] : k \in DOMAIN obs.src } \ {Pad}
            mh == IF inst.h < inst.h2 THEN inst.h ELSE inst.h2
            mw == IF inst.w < inst.w2 THEN inst.w ELSE inst.w2
        IN Cardinality(kept) = mh * mw

\* with the parity of both dimensions preserved, every surviving pixel keeps its scaled coordinate
\* (the resized structure keeps pixel scales and origin)
CoordinateAttachment ==
    phase = "resized" /\ SameParity(inst.h, inst.h2) /\ SameParity(inst.w, inst.w2) =>
        \A g \in Geoms : \A t \in Cells(inst.h2, inst.w2) :
            LET c == << t[1] + obs.off[1], t[2] + obs.off[2] >>
            IN InFrame(c, inst.h, inst.w) => Centre(t, inst.h2, inst.w2, g) = Centre(c, inst.h, inst.w, g)
\* ... and this is why the statement restricts the claim: a parity change moves the coordinates by half a pixel
ParityChangeShiftsByHalfPixel ==
    phase = "resized" /\ ~ SameParity(inst.h, inst.h2) =>
        \A g \in Geoms : \A i \in 0 .. inst.h2 - 1 :
            Abs(CentreY(i, inst.h2, g.hy, g.oy) - CentreY(i + obs.off[1], inst.h, g.hy, g.oy)) = g.hy

\* enlarging then shrinking back loses nothing, under either self-consistent convention for the centre of an even axis
GrowThenShrinkLosesNothing ==
    phase = "resized" /\ inst.h2 >= inst.h /\ inst.w2 >= inst.w =>
        \A conv \in {"upper", "lower"} :
            LET gy == ConvOffset(conv, inst.h, inst.h2)
                gx == ConvOffset(conv, inst.w, inst.w2)
                sy == ConvOffset(conv, inst.h2, inst.h)
                sx == ConvOffset(conv, inst.w2, inst.w)
                grow == WindowSrc(inst.h, inst.w, inst.u, inst.h2, inst.w2, gy, gx)
                shrink == WindowSrc(inst.h2, inst.w2, Cells(inst.h2, inst.w2), inst.h, inst.w, sy, sx)
            IN /\ gy \in Offsets(inst.h, inst.h2) /\ gx \in Offsets(inst.w, inst.w2)
               /\ sy \in Offsets(inst.h2, inst.h) /\ sx \in Offsets(inst.w2, inst.w)
               /\ Compose(shrink, grow) = Identity(inst.h, inst.w)

\* padding for an odd kernel is the parity-preserving resize; trimming undoes it; coordinates stay attached
PadIsCentredEmbedding ==
    phase = "padtrimmed" =>
        /\ ValidResize(obs.pad, inst.h, inst.w, inst.u, obs.padshape[1], obs.padshape[2])
        /\ SameParity(inst.h, obs.padshape[1]) /\ SameParity(inst.w, obs.padshape[2])
PadThenTrimIsIdentity ==
    phase = "padtrimmed" => obs.back = Identity(inst.h, inst.w)
TrimIsCentredCrop ==
    phase = "padtrimmed" /\ Trimmable(inst.h, inst.w, inst.kh, inst.kw) =>
        LET ts == TrimShape(inst.h, inst.w, inst.kh, inst.kw)
        IN ValidResize(TrimForKernel(inst.h, inst.w, inst.u, inst.kh, inst.kw), inst.h, inst.w, inst.u, ts[1], ts[2])
PadKeepsCoordinates ==
    phase = "padtrimmed" =>
        \A g \in Geoms : \A p \in Cells(inst.h, inst.w) :
            Centre(<< p[1] + inst.kh \div 2, p[2] + inst.kw \div 2 >>, obs.padshape[1], obs.padshape[2], g)
              = Centre(p, inst.h, inst.w, g)
\* Mask2D.trimmed_array_from(padded_array, image_shape): the centred crop of the padded frame to the image shape
TrimmedArrayFrom ==
    phase = "padtrimmed" =>
        LET ps == obs.padshape
            crop == WindowSrc(ps[1], ps[2], Cells(ps[1], ps[2]), inst.h, inst.w,
                              (ps[1] - inst.h) \div 2, (ps[2] - inst.w) \div 2)
        IN /\ ValidResize(crop, ps[1], ps[2], Cells(ps[1], ps[2]), inst.h, inst.w)
           /\ Compose(crop, obs.pad) = Identity(inst.h, inst.w)

\* the automatic padding leaves the multiset of (coordinate, data, noise) triples unchanged, and afterwards the
\* blurring region fits in the frame (which is what the padding is for)
AutoPaddingPreservesTriples ==
    phase = "masked" =>
        \A g \in Geoms :
            { << Centre(q, obs.shape[1], obs.shape[2], g),
                 obs.src[Lin(q, obs.shape[2]) + 1], obs.src[Lin(q, obs.shape[2]) + 1] >> : q \in obs.mask }
              = Triples(inst.u, inst.h, inst.w, g)
AutoPaddingMakesBlurringFit ==
    phase = "masked" =>
        /\ ~ FootLeaves(obs.mask, obs.shape[1], obs.shape[2], inst.kh, inst.kw)
        /\ Cardinality(obs.mask) = Cardinality(inst.u)
        /\ ValidResize(obs.src, inst.h, inst.w, inst.u, obs.shape[1], obs.shape[2])

\* the squared bounding box (plus buffer) is a window containing every unmasked pixel with its value
ZoomWindowContainsEveryUnmaskedPixelWithItsValue ==
    phase = "zoomed" =>
        /\ ValidZoom(obs.src, inst.h, inst.w, inst.u, obs.shape[1], obs.shape[2], inst.b)
        /\ { obs.src[k] : k \in DOMAIN obs.src } \ {Pad} = { Lin(p, inst.w) : p \in inst.u }
        /\ Abs(obs.shape[1] - obs.shape[2]) <= 1
=============================================================================
