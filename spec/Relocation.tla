----------------------------- MODULE Relocation -----------------------------
(***************************************************************************)
(* C18 -- border relocation only pulls outliers radially inward to the     *)
(* border; sub-pixel border index selection.                               *)
(*                                                                         *)
(* Part A (selection).  A mask is its set U of unmasked cells (Masks.tla), *)
(* every unmasked pixel k (slim order) is divided into sub[k] x sub[k]     *)
(* sub-pixels.  Coordinates live on the integer lattice of 1/24 pixel      *)
(* (sub-sizes divide 12), measured from the top / left edge of the array,  *)
(* so that every distance below is an exact integer.  For every border     *)
(* pixel the published sub-pixel index must be A sub-pixel of that pixel   *)
(* that is farthest from the centre of the bounding box of the unmasked    *)
(* region (ties are free).                                                 *)
(*                                                                         *)
(* Part B (relocation).  Points are integer pairs <<y,x>> (a lattice the   *)
(* driver scales by a tick length), the border is a sequence B of points   *)
(* (duplicates allowed).  With n = Len(B) everything is expressed in the   *)
(* n-fold magnification about the centroid c = Sum(B)/n:  Q(p) = n*p -     *)
(* Sum(B) = n*(p - c) is an integer vector, so "radius" comparisons are    *)
(* comparisons of the integers N2(Q(.)).  The result of a relocation is    *)
(* inherently real (a square root enters); the meaning layer therefore     *)
(* fixes the OUTCOME (unchanged, or moved onto the ray at the squared      *)
(* radius of a nearest border point) and the trace specification checks    *)
(* recorded fixed-point results against it with a derived rounding bound.  *)
(***************************************************************************)
EXTENDS Masks

CONSTANTS SubSizes,      \* sub-sizes for the "every map" family (divisors of 12)
          AllMapsCells,  \* frames with at most this many cells get EVERY sub-size map over SubSizes
          Patterns,      \* pattern ids (see PatternSub) used for the bigger frames
          BorderCells,   \* lattice cells from which bags of border points are drawn   (relocation machine)
          MaxBorder,     \* bags of 1 .. MaxBorder border points
          PointCells,    \* lattice cells of the point that is relocated
          HistOps,       \* entry points called in a history on ONE relocator instance          (history machine)
          HistGrids,     \* identities of the different source-plane data grids passed to it
          HistLen        \* number of calls of a history

-----------------------------------------------------------------------------
(* small helpers (linear-time folds over sequences) *)

Abs(x) == IF x < 0 THEN -x ELSE x
SeqMin(s) == LET f[k \in 1 .. Len(s)] == IF k = 1 THEN s[1]
                                          ELSE LET m == f[k-1] IN IF s[k] < m THEN s[k] ELSE m
             IN f[Len(s)]
SeqMax(s) == LET f[k \in 1 .. Len(s)] == IF k = 1 THEN s[1]
                                          ELSE LET m == f[k-1] IN IF s[k] > m THEN s[k] ELSE m
             IN f[Len(s)]
SeqSum(s) == LET f[k \in 0 .. Len(s)] == IF k = 0 THEN 0 ELSE f[k-1] + s[k] IN f[Len(s)]

-----------------------------------------------------------------------------
(* Layer 1A: meaning of the sub-border selection *)

L == 12                                   \* lattice: 1/(2L) pixel
SubC(i, a, s) == 2*L*i + (2*a + 1) * (L \div s)   \* centre of sub-row/column a (0-based) of pixel row/column i

\* sub-slim indexing: pixels in slim order, inside a pixel row-major (a = sub-row from the top, b = sub-column)
Offsets(sub) == [k \in 1 .. Len(sub) + 1 |-> SeqSum([m \in 1 .. k-1 |-> sub[m] * sub[m]])]
PixelOfSub(t, offs) == IF t < 0 \/ t >= offs[Len(offs)] THEN 0
                       ELSE CHOOSE k \in 1 .. Len(offs) - 1 : offs[k] <= t /\ t < offs[k+1]
SubPos(t, k, sub, offs) == << (t - offs[k]) \div sub[k], (t - offs[k]) % sub[k] >>
SubIndex(k, q, sub, offs) == offs[k] + q[1] * sub[k] + q[2]

ASSUME \A s \in {1, 2, 3, 4, 6, 12} : \A q \in (0 .. s-1) \X (0 .. s-1) :
           << (q[1] * s + q[2]) \div s, (q[1] * s + q[2]) % s >> = q      \* row-major index <-> sub-cell, checked once by TLC

\* the centre named by the statement: centre of the bounding box of the unmasked region, DOUBLED (so it is an integer)
Rows(u) == { c[1] : c \in u }
Cols(u) == { c[2] : c \in u }
Centre2(u) == << 2*L*(Min(Rows(u)) + Max(Rows(u)) + 1), 2*L*(Min(Cols(u)) + Max(Cols(u)) + 1) >>

\* four times the squared distance (in lattice units) of sub-pixel q of pixel c from the doubled centre ctr
Dist4(c, q, s, ctr) == (2*SubC(c[1], q[1], s) - ctr[1]) * (2*SubC(c[1], q[1], s) - ctr[1])
                     + (2*SubC(c[2], q[2], s) - ctr[2]) * (2*SubC(c[2], q[2], s) - ctr[2])
SubCells(s) == (0 .. s-1) \X (0 .. s-1)
\* the set of farthest sub-pixels (arg max; any member is a valid answer)
Best(c, s, ctr) == LET d == [q \in SubCells(s) |-> Dist4(c, q, s, ctr)]
                       m == Max({ d[q] : q \in SubCells(s) })
                   IN { q \in SubCells(s) : d[q] = m }

\* per-axis formulation (the maximiser of a sum of two independent terms)
BestAxis(i, s, c2) == { a \in 0 .. s-1 : \A o \in 0 .. s-1 :
                           Abs(2*SubC(i, a, s) - c2) >= Abs(2*SubC(i, o, s) - c2) }

\* which pixels are border pixels: two-sided as in C10 (pixels on the array boundary may or may not count as edge)
BorderMust(u, H, W) == BorderOf(EdgeMust(u, H, W), u, H, W)
BorderMay(u, H, W)  == BorderOf(EdgeMay(u, H, W), u, H, W)

\* --- the formulation the code uses ----------------------------------------------------------
\* centre = centre of the bounding box of all sub-pixel CENTRES (depends on the sub-sizes of the extreme pixels),
\* scan of the pixel's sub-pixels in index order keeping the last one that is >= the running maximum
SubOf(c, u, W, sub) == sub[Rank(c, u, W)]
CodeCentre2(u, H, W, sub) ==
    LET nfs == SlimSeq(u, H, W)
        ys == UNION { { SubC(nfs[k][1], 0, sub[k]), SubC(nfs[k][1], sub[k] - 1, sub[k]) } : k \in DOMAIN sub }
        xs == UNION { { SubC(nfs[k][2], 0, sub[k]), SubC(nfs[k][2], sub[k] - 1, sub[k]) } : k \in DOMAIN sub }
    IN << Min(ys) + Max(ys), Min(xs) + Max(xs) >>
CodeScan(c, s, ctr) ==
    LET f[t \in 0 .. s*s] == IF t = 0 THEN << 0, 0 >>          \* << running maximum, chosen index + 1 >>
                             ELSE LET pr == f[t-1]
                                      d  == Dist4(c, << (t-1) \div s, (t-1) % s >>, s, ctr)
                                  IN IF d >= pr[1] THEN << d, t >> ELSE pr
    IN << (f[s*s][2] - 1) \div s, (f[s*s][2] - 1) % s >>

-----------------------------------------------------------------------------
(* Layer 1B: meaning of the relocation *)

Dot(v, w) == v[1]*w[1] + v[2]*w[2]
N2(v) == Dot(v, v)
Cross(v, w) == v[1]*w[2] - v[2]*w[1]
D2(p, b) == (p[1]-b[1])*(p[1]-b[1]) + (p[2]-b[2])*(p[2]-b[2])
SumB(B) == << SeqSum([j \in DOMAIN B |-> B[j][1]]), SeqSum([j \in DOMAIN B |-> B[j][2]]) >>
\* n-fold magnified offset from the border centroid, given sb = SumB(B), n = Len(B)
QQ(p, sb, n) == << n*p[1] - sb[1], n*p[2] - sb[2] >>
Q(p, B) == QQ(p, SumB(B), Len(B))
RB2(B) == LET sb == SumB(B) IN [j \in DOMAIN B |-> N2(QQ(B[j], sb, Len(B)))]   \* squared border radii
RMin2(B) == SeqMin(RB2(B))
RMax2(B) == SeqMax(RB2(B))
Nearest(p, B) == LET d == [j \in DOMAIN B |-> D2(p, B[j])]
                     m == SeqMin(d)
                 IN { j \in DOMAIN B : d[j] = m }

\* The admissible outcomes for one coordinate p (squared radii in the n-fold magnification):
\*   not beyond the smallest border radius           -> unchanged
\*   otherwise, for A nearest border point j (ties are free):
\*       its radius is smaller than p's own           -> moved along the ray from the centroid to that radius
\*       else                                         -> unchanged
OutcomesWith(p, B, rb2, rmin2, sb) ==
    LET r2 == N2(QQ(p, sb, Len(B)))
    IN IF r2 <= rmin2 THEN { [moved |-> FALSE, r2 |-> r2, via |-> 0] }
       ELSE { IF rb2[j] < r2 THEN [moved |-> TRUE, r2 |-> rb2[j], via |-> j]
                             ELSE [moved |-> FALSE, r2 |-> r2, via |-> j] : j \in Nearest(p, B) }
Outcomes(p, B) == OutcomesWith(p, B, RB2(B), RMin2(B), SumB(B))

-----------------------------------------------------------------------------
(* Layer 2: bounded machines sharing the variables                          *)
(*   selection :  phase "mask"   --Select-->   "selected"                  *)
(*   relocation:  phase "border" --Relocate--> "relocated"                 *)
(*   history   :  phase "history" --Call(op,g)--> ... (HistLen calls on    *)
(*                ONE relocator instance with varying data grids)          *)

VARIABLES sub,    \* selection: sub-size of every unmasked pixel, slim order
          bord,   \* relocation: the border (sequence of points)
          pt      \* relocation: the coordinate that is relocated
rvars == << shape, U, phase, obs, sub, bord, pt >>

PatternSub(q, c) ==
    CASE q \in 1 .. 4 -> q
      [] q = 5 -> 1 + ((c[1] + c[2]) % 4)
      [] q = 6 -> 1 + ((c[1] + 2*c[2]) % 4)
      [] q = 7 -> 4 - (c[1] % 4)
      [] q = 8 -> 1 + ((3*c[1] + c[2]) % 4)
      [] q = 9 -> IF c[2] % 2 = 0 THEN 1 ELSE 4
      [] q = 10 -> 1 + ((c[1] * c[2] + c[2]) % 4)
      [] OTHER -> 1
SubMaps(u, H, W) ==
    IF H * W <= AllMapsCells THEN [1 .. Cardinality(u) -> SubSizes]
    ELSE { [k \in 1 .. Cardinality(u) |-> PatternSub(q, SlimSeq(u, H, W)[k])] : q \in Patterns }

Key(c) == 1000 * c[1] + c[2]
BorderBags == UNION { { s \in [1 .. n -> BorderCells] : \A k \in 1 .. n-1 : Key(s[k]) <= Key(s[k+1]) } : n \in 1 .. MaxBorder }

InitSel == /\ shape \in Shapes
           /\ U \in (SUBSET Cells(shape[1], shape[2])) \ {{}}
           /\ BorderMay(U, shape[1], shape[2]) # {}          \* the quantifier: masks with a non-empty border
           /\ sub \in SubMaps(U, shape[1], shape[2])
           /\ phase = "mask" /\ obs = << >> /\ bord = << >> /\ pt = << 0, 0 >>
InitRel == /\ bord \in BorderBags
           /\ pt \in PointCells
           /\ phase = "border" /\ obs = << >> /\ shape = << 1, 1 >> /\ U = {} /\ sub = << >>
\* A relocator is a value determined by (mask, sub-size map): every call is judged against the border of the data grid
\* passed to THAT call, whatever was passed before.  The history machine enumerates every call sequence; `obs` is the
\* sequence of calls made so far, each with the grid whose border the specification prescribes for it.
InitHist == /\ HistLen > 0
            /\ phase = "history" /\ obs = << >> /\ shape = << 1, 1 >> /\ U = {} /\ sub = << >>
            /\ bord = << >> /\ pt = << 0, 0 >>
RInit == InitSel \/ InitRel \/ InitHist

\* the answer of the sub-border query: for every pixel that may be a border pixel the set of valid sub-pixels
Select == /\ phase = "mask"
          /\ phase' = "selected"
          /\ obs' = LET ctr == Centre2(U)
                     IN [p \in BorderMay(U, shape[1], shape[2]) |-> Best(p, SubOf(p, U, shape[2], sub), ctr)]
          /\ PrintT(ToJson([k |-> "inst", h |-> shape[1], w |-> shape[2],
                            u |-> SlimSrc(U, shape[1], shape[2]), sub |-> sub]))
          /\ UNCHANGED << shape, U, sub, bord, pt >>

Relocate == /\ phase = "border"
            /\ phase' = "relocated"
            /\ obs' \in Outcomes(pt, bord)
            /\ PrintT(ToJson([k |-> "rinst", b |-> bord, p |-> pt, moved |-> obs'.moved, via |-> obs'.via,
                              ties |-> Cardinality(Outcomes(pt, bord))]))
            /\ UNCHANGED << shape, U, sub, bord, pt >>

Call(op, g) == /\ phase = "history"
               /\ Len(obs) < HistLen
               /\ obs' = Append(obs, [op |-> op, grid |-> g, border_of |-> g])
               /\ (Len(obs') = HistLen => PrintT(ToJson([k |-> "hinst", calls |-> obs'])))
               /\ UNCHANGED << shape, U, phase, sub, bord, pt >>

RNext == Select \/ Relocate \/ (\E op \in HistOps : \E g \in HistGrids : Call(op, g))
RSpec == RInit /\ [][RNext]_rvars

-----------------------------------------------------------------------------
(* Layer 3: properties of the design, checked by TLC on every instance *)

Selected == phase = "selected"
SS(p) == SubOf(p, U, shape[2], sub)

\* every border pixel has at least one valid sub-pixel
SelNonEmpty == Selected => \A p \in DOMAIN obs : obs[p] # {}
\* a farthest sub-pixel is always a corner sub-pixel of its pixel, and the choice separates per axis
SelCorners == Selected => \A p \in DOMAIN obs : \A q \in obs[p] :
                              q[1] \in {0, SS(p) - 1} /\ q[2] \in {0, SS(p) - 1}
SelSeparable == Selected => \A p \in DOMAIN obs :
                              obs[p] = BestAxis(p[1], SS(p), Centre2(U)[1]) \X BestAxis(p[2], SS(p), Centre2(U)[2])
\* ties exist exactly for divided pixels on a centre line of the bounding box (so "ties are free" is needed)
SelTiesOnCentreLines == Selected => \A p \in DOMAIN obs :
                              (Cardinality(obs[p]) > 1) <=>
                                  (SS(p) > 1 /\ (\/ 2*p[1] = Min(Rows(U)) + Max(Rows(U))
                                                 \/ 2*p[2] = Min(Cols(U)) + Max(Cols(U))))
\* the code-shaped formulation (centre of the box of sub-pixel CENTRES, last-maximum scan) always yields a valid choice,
\* whatever the sub-sizes of the other pixels are
SelCodeShapeAgrees == Selected => LET cc == CodeCentre2(U, shape[1], shape[2], sub)
                                  IN \A p \in DOMAIN obs : CodeScan(p, SS(p), cc) \in obs[p]
\* the code-shaped centre is never more than half a pixel (L lattice units, doubled: 2L) away from the stated centre
SelCodeCentreClose == Selected => LET a == CodeCentre2(U, shape[1], shape[2], sub)
                                      b == Centre2(U)
                                  IN Abs(a[1] - b[1]) < 2*L /\ Abs(a[2] - b[2]) < 2*L
\* sub-slim indexing: pixel k owns the indices offs[k] .. offs[k+1]-1 (consecutive blocks of sub[k]^2 starting at 0),
\* and inside a block index and sub-cell are inverse to each other (row-major)
SelIndexing == Selected => LET offs == Offsets(sub) IN
                              /\ offs[1] = 0
                              /\ \A k \in 1 .. Len(sub) :
                                    /\ offs[k+1] = offs[k] + sub[k] * sub[k]
                                    /\ PixelOfSub(offs[k], offs) = k /\ PixelOfSub(offs[k+1] - 1, offs) = k
                                    /\ \A q \in {0, sub[k] - 1} \X {0, sub[k] - 1} :
                                          LET t == SubIndex(k, q, sub, offs)
                                          IN t >= offs[k] /\ t < offs[k+1] /\ SubPos(t, k, sub, offs) = q
\* the border that may be reported contains the border that must be reported
SelBorderSandwich == Selected => BorderMust(U, shape[1], shape[2]) \subseteq BorderMay(U, shape[1], shape[2])

Relocated == phase = "relocated"
OwnR2 == N2(Q(pt, bord))

RelNeverOutward == Relocated => obs.r2 <= OwnR2
RelWithinFarthestBorder == Relocated => obs.r2 <= RMax2(bord)
RelInteriorUntouched == Relocated => (OwnR2 <= RMin2(bord) => ~ obs.moved)
RelMovedStrictlyInward == Relocated => (obs.moved => obs.r2 < OwnR2 /\ obs.r2 >= RMin2(bord) /\ obs.via \in Nearest(pt, bord))
\* a coordinate that IS a border point never moves: the border of the relocated grid is the border of the grid
\* (this is why relocating the mesh against the relocated data grid equals relocating it against the data grid)
RelBorderPointsFixed == Relocated => ((\E j \in DOMAIN bord : bord[j] = pt) => ~ obs.moved)
\* the outcome is unique unless two border points are equally near
RelDeterministicWithoutTies == Relocated => (Cardinality(Nearest(pt, bord)) = 1 => Cardinality(Outcomes(pt, bord)) = 1)
RelOutcomeExists == Relocated => Outcomes(pt, bord) # {}
\* relocation commutes with translations and with (integer) scalings of the whole instance: the same coordinates stay, the
\* same border points are nearest, squared radii scale with the square of the factor.  This is what lets the driver realise
\* one lattice instance at any exact offset and power-of-two scale and judge it against ONE expectation.
Shift(p, d) == << p[1] + d[1], p[2] + d[2] >>
Scale(p, k) == << k * p[1], k * p[2] >>
RelTranslationInvariant ==
    Relocated => \A d \in { << 7, -5 >>, << -300, 100 >>, << 0, 1000 >> } :
                    Outcomes(Shift(pt, d), [j \in DOMAIN bord |-> Shift(bord[j], d)]) = Outcomes(pt, bord)
RelScaleCovariant ==
    Relocated => \A k \in {2, 3, 16} :
                    Outcomes(Scale(pt, k), [j \in DOMAIN bord |-> Scale(bord[j], k)])
                        = { [o EXCEPT !.r2 = k * k * o.r2] : o \in Outcomes(pt, bord) }

\* no call of a history is judged against the border of a grid passed to an EARLIER call
HistOwnBorder == phase = "history" => \A k \in DOMAIN obs : obs[k].border_of = obs[k].grid
HistBounded == phase = "history" => Len(obs) <= HistLen
=============================================================================
