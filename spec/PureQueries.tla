---------------------------- MODULE PureQueries ----------------------------
(***************************************************************************)
(* C11: queries are pure -- no input mutation, no order dependence,        *)
(* deterministic.  A history machine over an object graph:                 *)
(*   objects with cached quantities (cached_property values living in the  *)
(*   instance dictionary), derivations (arithmetic, slicing, copy,         *)
(*   apply_mask, trimming, ...) that create new objects, caller-owned      *)
(*   input buffers, shared default objects, the global random generator.   *)
(*                                                                         *)
(* Contents are opaque terms: content[o] = << base, op1, op2, ... >>.      *)
(* What a read reports is the content the reported value was COMPUTED      *)
(* FROM.  The property: it is always the reading object's own content.     *)
(*                                                                         *)
(* DropCachesOnDerive = TRUE is the design that satisfies the property;    *)
(* FALSE is what copying the instance dictionary wholesale does: TLC then  *)
(* produces  Read(1,q); Derive(1,op); Read(2,q)  reporting the parent's    *)
(* content.                                                                *)
(***************************************************************************)
EXTENDS Integers, Sequences, FiniteSets, TLC, Json

CONSTANTS BaseTypes,           \* sequence: type name of each base object of the scenario
          ReadsOf,             \* type -> set of readable quantity names
          CachedOf,            \* type -> subset of ReadsOf[type] cached in the instance dictionary
          OpsOf,               \* type -> set of derivation names
          ResType,             \* op -> "same" or a type name
          CopiesDict,          \* op -> BOOLEAN: the derivation starts from a copy of the instance dictionary
          DropCachesOnDerive,  \* BOOLEAN
          MaxObjs, MaxDepth

VARIABLES n, typ, content, cache, memo, bufs, defaults, last, hist
vars == << n, typ, content, cache, memo, bufs, defaults, last, hist >>
view == << n, typ, content, cache, memo, bufs, defaults, last >>

NB == Len(BaseTypes)
NoMemo == [q \in {} |-> << >>]

Init == /\ n = NB
        /\ typ = [o \in 1 .. MaxObjs |-> IF o <= NB THEN BaseTypes[o] ELSE "none"]
        /\ content = [o \in 1 .. MaxObjs |-> IF o <= NB THEN << o >> ELSE << >>]
        /\ cache = [o \in 1 .. MaxObjs |-> {}]
        /\ memo = [o \in 1 .. MaxObjs |-> NoMemo]
        /\ bufs = 0          \* version of the caller-owned input buffers (never incremented by a pure library)
        /\ defaults = 0      \* version of the shared default objects
        /\ last = << >>
        /\ hist = << >>

\* reading quantity q of object o: served from the instance dictionary if cached there, else computed from the
\* object's own content (and then cached if q is a cached quantity)
Read(o, q) ==
  /\ o \in 1 .. n /\ q \in ReadsOf[typ[o]] /\ Len(hist) < MaxDepth
  /\ IF q \in cache[o]
     THEN /\ last' = << o, q, memo[o][q] >>
          /\ UNCHANGED << cache, memo >>
     ELSE /\ last' = << o, q, content[o] >>
          /\ IF q \in CachedOf[typ[o]]
             THEN /\ cache' = [cache EXCEPT ![o] = @ \cup {q}]
                  /\ memo' = [memo EXCEPT ![o] = [x \in DOMAIN @ \cup {q} |-> IF x = q THEN content[o] ELSE @[x]]]
             ELSE UNCHANGED << cache, memo >>
  /\ hist' = Append(hist, [a |-> "Read", o |-> o, q |-> q])
  /\ UNCHANGED << n, typ, content, bufs, defaults >>

\* deriving a new object from o
Derive(o, op) ==
  /\ o \in 1 .. n /\ op \in OpsOf[typ[o]] /\ n < MaxObjs /\ Len(hist) < MaxDepth
  /\ n' = n + 1
  /\ typ' = [typ EXCEPT ![n+1] = IF ResType[op] = "same" THEN typ[o] ELSE ResType[op]]
  /\ content' = [content EXCEPT ![n+1] = Append(content[o], op)]
  /\ LET carry == CopiesDict[op] /\ ~ DropCachesOnDerive /\ ResType[op] = "same" IN
       /\ cache' = [cache EXCEPT ![n+1] = IF carry THEN cache[o] ELSE {}]
       /\ memo' = [memo EXCEPT ![n+1] = IF carry THEN memo[o] ELSE NoMemo]
  /\ last' = << >>
  /\ hist' = Append(hist, [a |-> "Derive", o |-> o, op |-> op])
  /\ UNCHANGED << bufs, defaults >>

Next == \/ \E o \in 1 .. MaxObjs : \E q \in UNION {ReadsOf[t] : t \in DOMAIN ReadsOf} : Read(o, q)
        \/ \E o \in 1 .. MaxObjs : \E op \in UNION {OpsOf[t] : t \in DOMAIN OpsOf} : Derive(o, op)
Spec == Init /\ [][Next]_vars

-----------------------------------------------------------------------------
\* every reported value is computed from the reporting object's own content
ReadsReportOwnContent == last # << >> => last[3] = content[last[1]]
\* no step changes the content of an existing object, the caller's buffers or the shared defaults
NothingElseChanges ==
  [][/\ \A o \in 1 .. n : content'[o] = content[o] /\ typ'[o] = typ[o]
     /\ bufs' = bufs /\ defaults' = defaults]_vars
\* consequence: the value reported for (o, q) does not depend on the history (order / number of earlier accesses)
CachedValuesAreOwn == \A o \in 1 .. n : \A q \in cache[o] : memo[o][q] = content[o]
=============================================================================
