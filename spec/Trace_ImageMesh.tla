-------------------------- MODULE Trace_ImageMesh --------------------------
(***************************************************************************)
(* Validation of recorded executions of the real image-mesh code against   *)
(* ImageMesh.tla.  One record per public call (or per call history); every *)
(* record is judged (total verdicts) with named clauses; a rejected record *)
(* is printed with the failing clause names, a signature computed here     *)
(* from the INPUT of the call (call site + input class) and what the       *)
(* specification wanted.                                                   *)
(*                                                                         *)
(* Record kinds (field api):                                               *)
(*   overlay  Overlay(shape).image_plane_mesh_grid_from(mask)              *)
(*   ovmaps   total_pixels_2d_from / overlay_for_mask_from /               *)
(*            mask_for_overlay_from / overlay_via_unmasked_overlaid_from   *)
(*   count    AbstractImageMesh.mesh_pixels_per_image_pixels_from          *)
(*   chk1     check_mesh_pixels_per_image_pixels                           *)
(*   chk2     check_adapt_background_pixels                                *)
(*   wmap     AbstractImageMeshWeighted.weight_map_from                    *)
(*   gil      hilbert.gilbert2d                                            *)
(*   hbo      sparse_2d_util.create_grid_hb_order /                        *)
(*            hilbert.grid_hilbert_order_from                              *)
(*   its      inverse_transform_sampling_interpolated (both modules)       *)
(*   hil      Hilbert(...).image_plane_mesh_grid_from                      *)
(*   km       KMeans(...).image_plane_mesh_grid_from                       *)
(*   plumb    uses_adapt_images, Pixelization, mesh.mapper_grids_from      *)
(*   hist     several calls on ONE object: results depend on the current   *)
(*            arguments only                                               *)
(***************************************************************************)
EXTENDS ImageMesh, IOUtils

Trace == JsonDeserialize(IOEnv.TRACE_FILE)

VARIABLE i

Cl(n, b) == [n |-> n, ok |-> b]
Un(r) == { CellOf(r.u[k], r.w) : k \in DOMAIN r.u }
G(r) == Geo(r.h, r.w, r.sy, r.sx, r.oy, r.ox)
Pair(p) == << p[1], p[2] >>
IsPairSeq(s) == \A k \in DOMAIN s : Len(s[k]) = 2
MaskOK(r) == /\ r.h >= 1 /\ r.w >= 1 /\ Len(r.u) >= 1
             /\ \A k \in DOMAIN r.u : r.u[k] >= 0 /\ r.u[k] < r.h * r.w
GeoRecOK(r) == MaskOK(r) /\ GeoOK(G(r))
\* counts over the unmasked pixels in slim order
SlimOf(native, V, h, w) == LET s == SlimSeq(V, h, w) IN [k \in 1 .. Len(s) |-> native[Lin(s[k], w) + 1]]

\* ---- overlay --------------------------------------------------------------------------------------------------
\* r.out: the returned points on the lattice scaled by the overlay shape (Y = y S0 / u, X = x S1 / u); r.off = number of
\* coordinates that were not on that lattice
OverlayClauses(r) ==
    IF ~ (GeoRecOK(r) /\ r.s0 >= 1 /\ r.s1 >= 1 /\ IsPairSeq(r.out)) THEN << Cl("record-well-formed", FALSE) >> ELSE
    LET g == G(r)
        V == Un(r)
        S == << r.s0, r.s1 >>
        all == TLCEval(OvPoints(g, V, S))
        n == Len(all)
        idx == TLCEval([m \in DOMAIN r.out |-> IF \E k \in 1 .. n : all[k] = Pair(r.out[m])
                                               THEN (CHOOSE k \in 1 .. n : all[k] = Pair(r.out[m])) - 1 ELSE -1])
        got == { idx[m] : m \in DOMAIN idx }
        must == OvMust(V, S)
        may == OvMay(V, S)
    IN << Cl("no-exception", r.raised = ""),
          Cl("returns-Grid2DIrregular", r.typ = "Grid2DIrregular"),
          Cl("mask-argument-unchanged", r.mkept),
          Cl("points-are-overlay-cell-centres-of-the-bounding-box", r.off = 0 /\ \A m \in DOMAIN idx : idx[m] >= 0),
          Cl("row-major-overlay-order-without-repeats", \A m \in 1 .. Len(idx) - 1 : idx[m] < idx[m+1]),
          Cl("every-overlay-point-inside-an-unmasked-pixel-is-kept", must \subseteq got),
          Cl("no-overlay-point-of-a-masked-pixel-is-kept", got \subseteq (may \cup {-1})),
          Cl("number-of-points", Len(r.out) >= Cardinality(must) /\ Len(r.out) <= Cardinality(may)) >>
OverlayWant(r) ==
    IF ~ (GeoRecOK(r) /\ r.s0 >= 1 /\ r.s1 >= 1) THEN << >> ELSE
    LET g == G(r) V == Un(r) S == << r.s0, r.s1 >>
        must == OvMust(V, S)
    IN [kept |-> SelectSeq(OvPoints(g, V, S), LAMBDA P : \E k \in must : OvPoint(g, V, S, k) = P),
        on_a_boundary_either_way |-> SetToSortSeq(OvMay(V, S) \ must, <)]
OverlaySig(r) ==
    "Overlay.image_plane_mesh_grid_from:" \o
    (IF ~ (GeoRecOK(r) /\ r.s0 >= 1 /\ r.s1 >= 1) THEN "malformed"
     ELSE IF NoTie(Un(r), << r.s0, r.s1 >>) THEN "no-point-on-a-pixel-boundary" ELSE "points-on-pixel-boundaries")

\* ---- index maps -----------------------------------------------------------------------------------------------
\* r.cen: image pixel <<i,j>> of every overlay point (the argument overlaid_centres); r.tot, r.ofm, r.mfo the three results;
\* r.sel = overlay_via_unmasked_overlaid_from(tags, ofm) with tags[k] = <<k+1, -(k+1)>>
MapsClauses(r) ==
    IF ~ (MaskOK(r) /\ IsPairSeq(r.cen) /\ IsPairSeq(r.sel)
          /\ \A k \in DOMAIN r.cen : r.cen[k][1] \in 0 .. r.h-1 /\ r.cen[k][2] \in 0 .. r.w-1) THEN << Cl("record-well-formed", FALSE) >> ELSE
    LET V == Un(r)
        cen == [k \in DOMAIN r.cen |-> Pair(r.cen[k])]
        n == Len(cen)
        kept == TLCEval(KeptIdx(cen, V))
        t == Len(kept)
        mfo == TLCEval(MaskForOverlay(cen, V))
    IN << Cl("no-exception", r.raised = ""),
          Cl("total-is-the-number-of-overlay-points-in-unmasked-pixels", r.tot = t),
          Cl("overlay-for-mask-lists-the-kept-points-in-order", r.ofm = kept),
          Cl("counts-equal", Len(r.ofm) = r.tot /\ Len(r.sel) = r.tot /\ Len(r.mfo) = n),
          Cl("indices-in-range", /\ \A q \in DOMAIN r.ofm : r.ofm[q] \in 0 .. n-1
                                 /\ t > 0 => \A k \in DOMAIN r.mfo : r.mfo[k] \in 0 .. t-1),
          Cl("mask-for-overlay-inverts-overlay-for-mask",
             /\ Len(r.mfo) = n
             /\ \A q \in DOMAIN r.ofm : r.ofm[q] \in 0 .. n-1 /\ r.mfo[r.ofm[q] + 1] = q - 1
             /\ \A k \in 1 .. n : cen[k] \in V => r.mfo[k] + 1 \in DOMAIN r.ofm /\ r.ofm[r.mfo[k] + 1] = k - 1),
          Cl("discarded-point-is-paired-with-the-next-kept-point", t > 0 => r.mfo = mfo),
          Cl("gathered-points-are-the-kept-overlay-points", r.sel = [q \in 1 .. t |-> << kept[q] + 1, -(kept[q] + 1) >>]) >>
MapsWant(r) ==
    IF ~ (MaskOK(r) /\ IsPairSeq(r.cen)) THEN << >> ELSE
    LET V == Un(r) cen == [k \in DOMAIN r.cen |-> Pair(r.cen[k])]
    IN [tot |-> Len(KeptIdx(cen, V)), ofm |-> KeptIdx(cen, V), mfo |-> MaskForOverlay(cen, V)]
MapsSig(r) ==
    "overlay-index-maps:" \o
    (IF ~ (MaskOK(r) /\ IsPairSeq(r.cen)) THEN "malformed"
     ELSE LET V == Un(r) cen == [k \in DOMAIN r.cen |-> Pair(r.cen[k])] t == Len(KeptIdx(cen, V)) IN
          IF t = 0 THEN "no-point-kept" ELSE IF t = Len(cen) THEN "every-point-kept"
          ELSE IF cen[Len(cen)] \in V THEN "last-point-kept" ELSE "last-point-discarded")

\* ---- counts per image pixel -----------------------------------------------------------------------------------
PtsOK(r) == /\ GeoRecOK(r) /\ IsPairSeq(r.pts) /\ r.dy >= 1 /\ r.dx >= 1
            /\ \A k \in DOMAIN r.pts : Interior(G(r), Pair(r.pts[k]), << r.dy, r.dx >>)
PtsOf(r) == [k \in DOMAIN r.pts |-> Pair(r.pts[k])]
CountClauses(r) ==
    IF ~ PtsOK(r) THEN << Cl("record-well-formed", FALSE) >> ELSE
    LET g == G(r) V == Un(r) d == << r.dy, r.dx >> pts == PtsOf(r)
        cn == TLCEval(CountsNative(g, V, pts, d))
    IN << Cl("no-exception", r.raised = ""),
          Cl("returns-Array2D-on-the-given-mask", r.typ = "Array2D" /\ r.rmask = r.u),
          Cl("count-of-every-unmasked-pixel", Len(r.native) = r.h * r.w /\
                \A k \in 1 .. r.h * r.w : CellOf(k-1, r.w) \in V => r.native[k] = cn[k]),
          Cl("masked-pixels-hold-zero", Len(r.native) = r.h * r.w /\
                \A k \in 1 .. r.h * r.w : CellOf(k-1, r.w) \notin V => r.native[k] = 0),
          Cl("slim-is-the-row-major-gather", Len(r.native) = r.h * r.w /\ r.slim = SlimOf(r.native, V, r.h, r.w)),
          Cl("counts-add-up", SumSeq(r.slim) + PointsInMasked(g, V, pts, d) = Len(pts)) >>
CountWant(r) == IF ~ PtsOK(r) THEN << >> ELSE [native |-> CountsNative(G(r), Un(r), PtsOf(r), << r.dy, r.dx >>)]
SeveralPerPixel(r) == \E a, b \in DOMAIN r.pts : a # b /\ IndexOf(G(r), Pair(r.pts[a]), << r.dy, r.dx >>) = IndexOf(G(r), Pair(r.pts[b]), << r.dy, r.dx >>)
CountSig(r) ==
    "mesh_pixels_per_image_pixels_from:" \o
    (IF ~ PtsOK(r) THEN "malformed" ELSE IF SeveralPerPixel(r) THEN "several-points-in-one-pixel" ELSE "at-most-one-point-per-pixel")

\* ---- the two checks -------------------------------------------------------------------------------------------
SlimCounts(r) == SlimOf(CountsNative(G(r), Un(r), PtsOf(r), << r.dy, r.dx >>), Un(r), r.h, r.w)
Chk1Want(r) ==
    IF r.nos \/ r.tn < 0 THEN "returned"
    ELSE IF MinPerPixelRaises(SlimCounts(r), r.N, r.tn, r.td) THEN "raised:InversionException" ELSE "returned"
Chk1Clauses(r) ==
    IF ~ (PtsOK(r) /\ r.N >= 1 /\ r.td >= 1) THEN << Cl("record-well-formed", FALSE) >> ELSE
    << Cl("raises-exactly-when-the-Nth-fullest-pixel-holds-fewer-mesh-pixels-than-the-minimum", r.outcome = Chk1Want(r)) >>
Chk1Sig(r) ==
    "check_mesh_pixels_per_image_pixels:" \o
    (IF ~ (PtsOK(r) /\ r.N >= 1 /\ r.td >= 1) THEN "malformed"
     ELSE IF r.nos \/ r.tn < 0 THEN "check-switched-off"
     ELSE IF r.N > Len(r.u) THEN "more-pixels-asked-than-unmasked" ELSE "general")

AdOK(r) == /\ Len(r.ad) = Len(r.u) /\ r.cd >= 1 /\ r.cn >= 0 /\ r.cn <= r.cd /\ r.td >= 1
           /\ \A a, b \in DOMAIN r.ad : a # b => r.ad[a] # r.ad[b]          \* distinct values: the background set is defined
Chk2Want(r) ==
    IF r.nos \/ r.tn < 0 THEN "returned"
    ELSE IF BackgroundRaises(SlimCounts(r), r.ad, Len(r.pts), r.cn, r.cd, r.tn, r.td) THEN "raised:InversionException" ELSE "returned"
Chk2Clauses(r) ==
    IF ~ (PtsOK(r) /\ AdOK(r)) THEN << Cl("record-well-formed", FALSE) >> ELSE
    << Cl("raises-exactly-when-the-background-holds-fewer-mesh-pixels-than-the-threshold-fraction", r.outcome = Chk2Want(r)) >>
Chk2Sig(r) ==
    "check_adapt_background_pixels:" \o
    (IF ~ (PtsOK(r) /\ AdOK(r)) THEN "malformed" ELSE IF r.nos \/ r.tn < 0 THEN "check-switched-off" ELSE "general")

\* ---- weight map -----------------------------------------------------------------------------------------------
WmapOK(r) == /\ Len(r.ad) >= 1 /\ r.M >= 1 /\ r.p \in 0 .. 2 /\ r.fd >= 1 /\ r.fn >= 0 /\ r.D >= 1
             /\ \A k \in DOMAIN r.ad : r.ad[k] >= 0 /\ r.ad[k] <= r.M
             /\ \E k \in DOMAIN r.ad : r.ad[k] = r.M
WmapClauses(r) ==
    IF ~ WmapOK(r) THEN << Cl("record-well-formed", FALSE) >> ELSE
    << Cl("no-exception", r.raised = ""),
       Cl("argument-unchanged", r.inkept),
       Cl("weights-are-exact-fractions", r.off = 0),
       Cl("weight-is-the-normalised-image-to-the-power-floored", Len(r.out) = Len(r.ad) /\
             \A k \in DOMAIN r.ad : WeightOK(r.out[k], r.ad[k], r.M, r.p, r.fn, r.fd, r.D)) >>

\* ---- curves ---------------------------------------------------------------------------------------------------
PathOf(s) == [k \in DOMAIN s |-> Pair(s[k])]
GilClauses(r) ==
    IF ~ (r.w >= 1 /\ r.h >= 1 /\ IsPairSeq(r.path)) THEN << Cl("record-well-formed", FALSE) >> ELSE
    LET p == PathOf(r.path) IN
    << Cl("no-exception", r.raised = ""),
       Cl("fills-the-rectangle-visiting-every-cell-once", VisitsEveryCellOnce(p, r.w, r.h)),
       Cl("consecutive-cells-touch", KingSteps(p) /\ Diagonals(p) <= 1),
       Cl("square-curve-moves-in-unit-steps", r.w = r.h => UnitSteps(p)) >>
\* r.pts: lattice numbers << kx, ky >> with x = (kx/L - 1/2) 2R
HboClauses(r) ==
    IF ~ (r.L >= 1 /\ IsPairSeq(r.pts)) THEN << Cl("record-well-formed", FALSE) >> ELSE
    LET p == PathOf(r.pts) IN
    << Cl("no-exception", r.raised = ""),
       Cl("points-on-the-lattice-of-the-square", r.off = 0),
       Cl("every-lattice-point-of-the-square-once", VisitsEveryCellOnce(p, r.L, r.L)),
       Cl("consecutive-points-adjacent-on-the-lattice", UnitSteps(p)) >>
HboSig(r) == r.fn \o ":" \o (IF r.raised # "" THEN "raises-" \o r.raised ELSE "curve-order")

\* ---- inverse transform sampling -------------------------------------------------------------------------------
\* r.C cumulative numerators over r.D, r.n samples, r.gx / r.gy integer grid; r.ids, r.xs, r.ys = round(1024 v)
ItsOK(r) == /\ Len(r.C) >= 2 /\ r.D >= 1 /\ r.n >= 1 /\ Len(r.gx) = Len(r.C) /\ Len(r.gy) = Len(r.C)
            /\ r.C[Len(r.C)] = r.D /\ r.C[2] > 0
            /\ \A k \in 1 .. Len(r.C) - 1 : r.C[k] <= r.C[k+1]
            /\ r.D * r.n <= 100000
ItsClauses(r) ==
    IF ~ ItsOK(r) THEN << Cl("record-well-formed", FALSE) >> ELSE
    LET np == Len(r.C)
        ok(j) == LET m == SegOf(r.C, r.D, r.n, j)
                     sn == SegNum(r.C, r.D, r.n, j)
                     sd == SegDen(r.C, r.D, r.n, j)
                     dgx == r.gx[m+2] - r.gx[m+1]
                     dgy == r.gy[m+2] - r.gy[m+1]
                 IN /\ Abs(r.ids[j+1] * sd - 1024 * (m * sd + sn)) <= sd \div 2 + 3
                    /\ Abs(r.xs[j+1] * sd - 1024 * (r.gx[m+1] * sd + sn * dgx)) <= sd \div 2 + 3 * (Abs(dgx) + 1)
                    /\ Abs(r.ys[j+1] * sd - 1024 * (r.gy[m+1] * sd + sn * dgy)) <= sd \div 2 + 3 * (Abs(dgy) + 1)
    IN << Cl("no-exception", r.raised = ""),
          Cl("returns-n-samples", Len(r.ids) = r.n /\ Len(r.xs) = r.n /\ Len(r.ys) = r.n),
          Cl("sample-positions-monotone-from-the-first-point", Len(r.ids) = r.n /\ r.ids[1] = 0 /\
                (\A j \in 1 .. r.n - 1 : r.ids[j] <= r.ids[j+1]) /\ r.ids[r.n] <= 1024 * (np - 1)),
          Cl("sample-j-is-the-cumulative-probability-quantile-j-over-n-1", Len(r.ids) = r.n /\ Len(r.xs) = r.n /\ Len(r.ys) = r.n /\
                \A j \in 0 .. r.n - 1 : ok(j)) >>
ItsWant(r) == IF ~ ItsOK(r) THEN << >> ELSE
              [seg |-> [j \in 1 .. r.n |-> SegOf(r.C, r.D, r.n, j-1)], num |-> [j \in 1 .. r.n |-> SegNum(r.C, r.D, r.n, j-1)],
               den |-> [j \in 1 .. r.n |-> SegDen(r.C, r.D, r.n, j-1)]]

\* ---- Hilbert image mesh ---------------------------------------------------------------------------------------
\* the library's own notion of a circular mask: as many unmasked pixels in the central row as in the central column,
\* "central" = the pixel containing the mask centre (two candidates when the centre is on a pixel boundary)
RowCount(V, a) == Cardinality({ c \in V : c[1] = a })
ColCount(V, b) == Cardinality({ c \in V : c[2] = b })
CRows(g, V) == RowsTouching(g, MaskCentreY(g, V), 1)
CCols(g, V) == ColsTouching(g, MaskCentreX(g, V), 1)
Circular(g, V) == \A a \in CRows(g, V), b \in CCols(g, V) : RowCount(V, a) = ColCount(V, b)
NotCircular(g, V) == \A a \in CRows(g, V), b \in CCols(g, V) : RowCount(V, a) # ColCount(V, b)
Q == 64   \* fixed-point unit: 1/64 half-tick
HilOK(r) == GeoRecOK(r) /\ IsPairSeq(r.out) /\ r.pixels >= 1 /\ Len(r.st) = 4 /\ r.st[2] >= 1
\* r.st = << minimum mesh pixels per pixel (-2: no settings, -1: None), N, background threshold numerator over 2 (-1: None),
\*          background fraction numerator over 2 >>: the settings the mesh forwards to the two checks.  Three outcomes do not depend
\* on where the points fall: no pixel can hold more than `pixels` points; an empty background holds none; zero is never undercut.
HilMustRaise(r) == r.st[1] > r.pixels \/ (r.st[3] > 0 /\ r.st[4] = 0)
HilMustPass(r) == r.st[1] <= 0 /\ r.st[3] <= 0
HilClauses(r) ==
    IF ~ HilOK(r) THEN << Cl("record-well-formed", FALSE) >> ELSE
    LET g == G(r) V == Un(r) IN
    IF r.sy # r.sx THEN << Cl("anisotropic-pixel-scales-are-refused", r.raised \in {"MaskException", "PixelizationException"}) >>
    ELSE IF NotCircular(g, V) THEN << Cl("non-circular-mask-is-refused", r.raised = "PixelizationException") >>
    ELSE IF ~ Circular(g, V) THEN << >>      \* the centre sits on a pixel boundary and the two readings disagree: not judged
    ELSE
    LET nrow == RowCount(V, CHOOSE a \in CRows(g, V) : TRUE)
        Rq == nrow * (r.sy \div 2) * Q                                       \* mask.circular_radius in fixed point
        Hq == r.h * (r.sy \div 2) * Q
        Wq == r.w * (r.sx \div 2) * Q
        fy == 2 * HilbertFirstInDisc[2] - 193   fx == 2 * HilbertFirstInDisc[1] - 193     \* << kx, ky >>: the curve's first / last
        ly == 2 * HilbertLastInDisc[2] - 193    lx == 2 * HilbertLastInDisc[1] - 193      \* point inside the circle (ImageMesh.tla)
        positive == r.wfn > 0 \/ r.wp = 0                                    \* every weight on the curve is positive
    IN IF HilMustRaise(r) THEN << Cl("settings-that-no-mesh-can-meet-raise", r.raised = "InversionException") >>
       ELSE IF ~ HilMustPass(r) /\ r.raised = "InversionException" THEN << >>   \* the outcome depends on the inexact positions: not judged
       ELSE
       << Cl("no-exception", r.raised = ""),
          Cl("returns-Grid2DIrregular", r.typ = "Grid2DIrregular"),
          Cl("number-of-points-is-pixels", Len(r.out) = r.pixels),
          Cl("every-point-inside-the-circle-of-the-mask-radius-about-the-mask-origin",
             \A k \in DOMAIN r.out : r.out[k][1] * r.out[k][1] + r.out[k][2] * r.out[k][2] <= (Rq + 1) * (Rq + 1)),
          Cl("every-point-inside-the-frame",
             \A k \in DOMAIN r.out : Abs(r.out[k][1]) <= Hq + 1 /\ Abs(r.out[k][2]) <= Wq + 1),
          Cl("first-point-is-the-first-curve-point-inside-the-circle",
             positive /\ Len(r.out) >= 1 => Abs(193 * r.out[1][1] - fy * Rq) <= 2 * 193 /\ Abs(193 * r.out[1][2] - fx * Rq) <= 2 * 193),
          Cl("last-point-is-the-last-curve-point-inside-the-circle",
             positive /\ Len(r.out) >= 2 => Abs(193 * r.out[Len(r.out)][1] - ly * Rq) <= 2 * 193
                                            /\ Abs(193 * r.out[Len(r.out)][2] - lx * Rq) <= 2 * 193),
          \* weight_power 0: all weights are 1 -> the points are the equal quantiles of the curve inside the circle
          Cl("uniform-weights-sample-the-curve-at-equal-quantiles",
             r.wp = 0 /\ Len(r.out) = r.pixels /\ r.pixels >= 2 =>
                LET N == HilbertPointsInDisc  n == r.pixels  C == HilbertCurveInDisc IN
                \A j \in 0 .. n - 1 :
                    LET m == UniformSeg(N, n, j)
                        f == UniformNum(N, n, j)
                        ey == (2 * C[m+1][2] - 193) * (n-1) + 2 * f * (C[m+2][2] - C[m+1][2])     \* over 193 (n-1), times Rq
                        ex == (2 * C[m+1][1] - 193) * (n-1) + 2 * f * (C[m+2][1] - C[m+1][1])
                    IN /\ Abs(193 * (n-1) * r.out[j+1][1] - Rq * ey) <= 2 * 193 * (n-1)
                       /\ Abs(193 * (n-1) * r.out[j+1][2] - Rq * ex) <= 2 * 193 * (n-1)) >>
HilSig(r) ==
    "Hilbert.image_plane_mesh_grid_from:" \o
    (IF ~ HilOK(r) THEN "malformed" ELSE IF r.sy # r.sx THEN "anisotropic"
     ELSE IF NotCircular(G(r), Un(r)) THEN "non-circular-mask" ELSE r.via)

\* ---- KMeans image mesh ----------------------------------------------------------------------------------------
\* r.out relative to the mask origin in units of 1/64 half-tick
Orient(p, q, c) == (q[1] - p[1]) * (c[2] - p[2]) - (q[2] - p[2]) * (c[1] - p[1])
KmOK(r) == /\ GeoRecOK(r) /\ IsPairSeq(r.out) /\ r.pixels >= 1 /\ Len(r.ad) = Len(r.u) /\ r.M >= 1 /\ r.wp \in 0 .. 2 /\ r.wfd >= 1 /\ r.wfn >= 0
           /\ \A k \in DOMAIN r.ad : r.ad[k] >= 0 /\ r.ad[k] <= r.M
\* weight of the k-th unmasked pixel (slim order) times M^p wfd: (a/M)^p floored at wfn/wfd
KmWeight(r, k) == IF Pow(r.ad[k], r.wp) * r.wfd < r.wfn * Pow(r.M, r.wp) THEN r.wfn * Pow(r.M, r.wp) ELSE Pow(r.ad[k], r.wp) * r.wfd
KmClauses(r) ==
    IF ~ KmOK(r) THEN << Cl("record-well-formed", FALSE) >> ELSE
    LET g == G(r) V == Un(r)
        P == { << (CentreY(g, c[1]) - g.oy) * Q, (CentreX(g, c[2]) - g.ox) * Q >> : c \in V }
        \* directed pairs with the whole set on their left-or-on side: the sides of the convex hull (both ways when collinear)
        sides == TLCEval({ e \in P \X P : e[1] # e[2] /\ \A t \in P : Orient(e[1], e[2], t) >= 0 })
        ys == { p[1] : p \in P }   xs == { p[2] : p \in P }
    IN IF r.pixels > Cardinality(V)
       THEN << Cl("more-mesh-pixels-than-image-pixels-is-refused", r.raised # "") >>
       ELSE << Cl("no-exception", r.raised = ""),
               Cl("returns-Grid2DIrregular", r.typ = "Grid2DIrregular"),
               Cl("number-of-points-is-pixels", Len(r.out) = r.pixels),
               Cl("every-point-inside-the-convex-hull-of-the-unmasked-pixel-centres",
                  \A k \in DOMAIN r.out :
                      LET c == Pair(r.out[k]) IN
                      /\ c[1] >= Min(ys) - 1 /\ c[1] <= Max(ys) + 1 /\ c[2] >= Min(xs) - 1 /\ c[2] <= Max(xs) + 1
                      /\ \A e \in sides : Orient(e[1], e[2], c) >= -(Abs(e[2][1] - e[1][1]) + Abs(e[2][2] - e[1][2]))),
               \* one cluster: its centre is the centroid of the unmasked pixel centres weighted by the weight map
               Cl("single-mesh-pixel-is-the-weighted-centroid",
                  r.pixels = 1 /\ Len(r.out) = 1 =>
                     LET sl == SlimSeq(V, r.h, r.w)
                         sw == SumSeq([k \in 1 .. Len(sl) |-> KmWeight(r, k)])
                         my == SumSeq([k \in 1 .. Len(sl) |-> KmWeight(r, k) * (CentreY(g, sl[k][1]) - g.oy) * Q])
                         mx == SumSeq([k \in 1 .. Len(sl) |-> KmWeight(r, k) * (CentreX(g, sl[k][2]) - g.ox) * Q])
                     IN Abs(r.out[1][1] * sw - my) <= 2 * sw /\ Abs(r.out[1][2] * sw - mx) <= 2 * sw) >>
KmSig(r) == "KMeans.image_plane_mesh_grid_from:" \o
            (IF ~ KmOK(r) THEN "malformed" ELSE IF r.pixels > Len(r.u) THEN "more-mesh-pixels-than-image-pixels" ELSE r.via)

\* ---- plumbing -------------------------------------------------------------------------------------------------
\* r.flags: << class name, uses_adapt_images >>; r.pix: one entry per aa.Pixelization(image_mesh, mesh) that was built:
\* object tags (small integers given by the driver to the objects it passed in, -1 for an object it did not create)
ExpectedFlag(cls) == cls \in {"Hilbert", "KMeans"}
PlumbClauses(r) ==
    << Cl("uses_adapt_images-flag", \A k \in DOMAIN r.flags : r.flags[k][1] \in {"Overlay", "Hilbert", "KMeans"} /\ r.flags[k][2] = ExpectedFlag(r.flags[k][1])),
       Cl("pixelization-keeps-its-image-mesh-and-mesh", \A k \in DOMAIN r.pix : r.pix[k].im_kept = r.pix[k].im /\ r.pix[k].mesh_kept = r.pix[k].mesh),
       Cl("pixelization-exposes-the-mapper-grids-of-its-mesh", \A k \in DOMAIN r.pix : r.pix[k].fn_of_mesh),
       Cl("mapper-grids-carry-the-given-image-plane-mesh-grid", \A k \in DOMAIN r.pix :
             /\ r.pix[k].raised = ""
             /\ r.pix[k].grid_kept = r.pix[k].grid \/ (r.pix[k].grid_kept = -1 /\ r.pix[k].pts_kept = r.pix[k].pts)
             /\ r.pix[k].pts_kept = r.pix[k].pts),
       Cl("mapper-grids-carry-the-given-mask-and-adapt-data", \A k \in DOMAIN r.pix : r.pix[k].mask_kept = r.pix[k].mask /\ r.pix[k].ad_kept = r.pix[k].ad),
       Cl("mesh-requiring-an-image-mesh-refuses-none", r.none_refused) >>

\* ---- call histories -------------------------------------------------------------------------------------------
\* r.steps: the calls made on ONE object in order: [mk = mask number, ad = adapt image number, ex = power of two the adapt image
\* was multiplied by, fp = fingerprint of the returned array]
HistClauses(r) ==
    << Cl("equal-arguments-give-equal-results-whatever-was-called-before",
          \A a, b \in DOMAIN r.steps : r.steps[a].mk = r.steps[b].mk /\ r.steps[a].ad = r.steps[b].ad /\ r.steps[a].ex = r.steps[b].ex
                                         => r.steps[a].fp = r.steps[b].fp),
       Cl("adapt-data-rescaled-by-a-power-of-two-gives-the-same-mesh",
          \A a, b \in DOMAIN r.steps : r.steps[a].mk = r.steps[b].mk /\ r.steps[a].ad = r.steps[b].ad => r.steps[a].fp = r.steps[b].fp),
       Cl("same-results-on-a-fresh-object", \A a \in DOMAIN r.steps : r.steps[a].fresh = "" \/ r.steps[a].fresh = r.steps[a].fp) >>
HistSig(r) == "history:" \o r.cls \o
              (IF \E a, b \in DOMAIN r.steps : a < b /\ r.steps[a].mk = r.steps[b].mk /\ r.steps[a].ad = r.steps[b].ad
               THEN ":argument-repeated" ELSE ":no-argument-repeated")

\* ---- dispatch -------------------------------------------------------------------------------------------------
Clauses(r) ==
    CASE r.api = "overlay" -> OverlayClauses(r)
      [] r.api = "ovmaps"  -> MapsClauses(r)
      [] r.api = "count"   -> CountClauses(r)
      [] r.api = "chk1"    -> Chk1Clauses(r)
      [] r.api = "chk2"    -> Chk2Clauses(r)
      [] r.api = "wmap"    -> WmapClauses(r)
      [] r.api = "gil"     -> GilClauses(r)
      [] r.api = "hbo"     -> HboClauses(r)
      [] r.api = "its"     -> ItsClauses(r)
      [] r.api = "hil"     -> HilClauses(r)
      [] r.api = "km"      -> KmClauses(r)
      [] r.api = "plumb"   -> PlumbClauses(r)
      [] r.api = "hist"    -> HistClauses(r)
      [] OTHER -> << Cl("unknown-api", FALSE) >>
Want(r) ==
    CASE r.api = "overlay" -> OverlayWant(r)
      [] r.api = "ovmaps"  -> MapsWant(r)
      [] r.api = "count"   -> CountWant(r)
      [] r.api = "chk1"    -> IF PtsOK(r) /\ r.N >= 1 /\ r.td >= 1 THEN << Chk1Want(r) >> ELSE << >>
      [] r.api = "chk2"    -> IF PtsOK(r) /\ AdOK(r) THEN << Chk2Want(r) >> ELSE << >>
      [] r.api = "its"     -> ItsWant(r)
      [] OTHER -> << >>
Sig(r) ==
    CASE r.api = "overlay" -> OverlaySig(r)
      [] r.api = "ovmaps"  -> MapsSig(r)
      [] r.api = "count"   -> CountSig(r)
      [] r.api = "chk1"    -> Chk1Sig(r)
      [] r.api = "chk2"    -> Chk2Sig(r)
      [] r.api = "wmap"    -> r.cls \o ".weight_map_from:power-" \o ToString(r.p)
      [] r.api = "gil"     -> "gilbert2d:" \o (IF r.w = r.h THEN "square" ELSE "rectangle")
      [] r.api = "hbo"     -> HboSig(r)
      [] r.api = "its"     -> r.fn \o ":" \o (IF r.raised # "" THEN "raises-" \o r.raised ELSE "sampling")
      [] r.api = "hil"     -> HilSig(r)
      [] r.api = "km"      -> KmSig(r)
      [] r.api = "plumb"   -> "plumbing:" \o r.cls
      [] r.api = "hist"    -> HistSig(r)
      [] OTHER -> r.api

Failed(r) == SelectSeq(Clauses(r), LAMBDA c : ~ c.ok)

TraceInit == /\ i = 1
             /\ phase = "trace" /\ fr = << 1, 1 >> /\ U = {} /\ ov = << 0, 0 >> /\ bk = NoBk
             /\ gl = << 0, 0 >> /\ path = << >> /\ hist = << >> /\ memo = << >> /\ res = << >>

TraceNext ==
    /\ i <= Len(Trace)
    /\ LET r == Trace[i]
           f == Failed(r)
       IN IF f = << >> THEN TRUE
          ELSE PrintT(ToJson([k |-> "reject", i |-> i, id |-> r.id,
                              clauses |-> [j \in DOMAIN f |-> f[j].n],
                              sig |-> Sig(r), want |-> Want(r)]))
    /\ i' = i + 1
    /\ UNCHANGED vars

TraceSpec == TraceInit /\ [][TraceNext]_<< vars, i >>
TraceAccepted == TLCGet("stats").diameter - 1 = Len(Trace)
=============================================================================
