---------------------------- MODULE Convolution ----------------------------
(***************************************************************************)
(* C03 -- masked PSF blurring of PyAutoArray (operators/convolver.py) is   *)
(* the true two-dimensional convolution restricted to the mask.            *)
(*                                                                         *)
(* All numbers are integers: the drivers feed the real code with small     *)
(* integers times a power of two, so IEEE arithmetic is exact and the      *)
(* float results divided by the known scale are the integers used here.    *)
(*                                                                         *)
(* Conventions.  A frame is H x W, cells <<i,j>> 0-based, row-major linear *)
(* index Lin = i*W + j.  A native image is a sequence of length H*W        *)
(* (position Lin+1).  A mask is the set U of unmasked cells; a slim vector *)
(* is a sequence over the row-major order of U.  A kernel kh x kw is a     *)
(* flat row-major sequence K, entry (a,b) at K[a*kw + b + 1].              *)
(*                                                                         *)
(* Layer 1 (meaning) takes every shape as a parameter, so the bounded      *)
(* machine below and Trace_Convolution (records carry their own shapes)    *)
(* use the same operators.  Mask operators come from Masks.tla.            *)
(***************************************************************************)
EXTENDS Integers, Sequences, FiniteSets, TLC, Json, SequencesExt

CONSTANTS Families,    \* set of <<H, W, kh, kw, r0, c0, rh, rw>>: frame, odd kernel shape, and a window
                       \* (top-left cell, size) inside which every non-empty mask is explored
          Variants,    \* subset of {"pos", "signed"}: the two kernels with identifiable entries
          EvenKernels, \* set of <<kh, kw>> with an even side: these must be rejected
          StructFamilies, \* set of <<H, W, kh, kw, r0, c0, rh, rw, level, masks>>: every STRUCTURED kernel of that shape
                       \* (zero / cancelling / generic rows and columns, derivative kernels, single entries, zero
                       \* padding; level "light" or "full") on the full window (masks = "full") or on every
                       \* non-empty mask of the window (masks = "all")
          SimFamilies  \* set of <<H, W, kh, kw, r0, c0, rh, rw>>: every mask of the window x EVERY combination of
                       \* the simulator options that keep a simulation noise-free

\* the mask vocabulary of Masks.tla (its machine is not used here)
M == INSTANCE Masks WITH Shapes <- {}, KernelShapes <- {}, shape <- <<1, 1>>, U <- {}, phase <- "", obs <- << >>

-----------------------------------------------------------------------------
(* Layer 1: meaning *)

Cells(H, W) == M!Cells(H, W)
Lin(c, W) == M!Lin(c, W)
CellOf(n, W) == M!CellOf(n, W)
InFrame(c, H, W) == M!InFrame(c, H, W)
RowMajor(H, W) == M!RowMajor(H, W)
SlimSeq(u, H, W) == M!SlimSeq(u, H, W)
FootLeaves(u, H, W, kh, kw) == M!FootLeaves(u, H, W, kh, kw)

\* The blurring region of a mask for an odd kernel: masked cells of the frame within the kernel footprint of an
\* unmasked cell, in row-major order.  (Arithmetic form of Masks!Blurring, evaluated to an explicit sequence / set;
\* theorem BlurringIsMasksBlurring states that both are the same set.)
InFoot(c, p, kh, kw) == /\ c[1] - p[1] \in -(kh \div 2) .. (kh \div 2)
                        /\ c[2] - p[2] \in -(kw \div 2) .. (kw \div 2)
BlSeq(u, H, W, kh, kw) == SelectSeq(RowMajor(H, W), LAMBDA c : c \notin u /\ \E p \in u : InFoot(c, p, kh, kw))
Blurring(u, H, W, kh, kw) == ToSet(BlSeq(u, H, W, kh, kw))

Sum(s) == FoldLeft(LAMBDA a, b : a + b, 0, s)
IsOdd(n) == n % 2 = 1
OddKernel(kh, kw) == IsOdd(kh) /\ IsOdd(kw)

\* Kernel entry n (flat, row-major) sits at this offset from the kernel centre: the CENTRED kernel Kc has
\* Kc[Offsets[n]] = K[n], and Kc[d] = 0 for every other offset d.
Offsets(kh, kw) == [n \in 1 .. kh*kw |-> << ((n-1) \div kw) - (kh \div 2), ((n-1) % kw) - (kw \div 2) >>]
Centred(K, kh, kw, d) ==
    LET a == d[1] + kh \div 2
        b == d[2] + kw \div 2
    IN IF a >= 0 /\ a < kh /\ b >= 0 /\ b < kw THEN K[a * kw + b + 1] ELSE 0

\* a native image read at any integer position: zero outside the frame
ImgAt(img, c, H, W) == IF InFrame(c, H, W) THEN img[Lin(c, W) + 1] ELSE 0

\* Full 2D convolution of a native image with the centred kernel, zero outside the frame:
\*   (img * K)[t] = SUM over offsets d of Kc[d] * img[t - d]      ("flipped": the image index runs against d)
Full(img, K, H, W, kh, kw, t) ==
    LET off == Offsets(kh, kw)
    IN Sum([n \in 1 .. kh*kw |-> K[n] * ImgAt(img, <<t[1] - off[n][1], t[2] - off[n][2]>>, H, W)])

\* whole-frame convolution (what Kernel2D.convolved_array_from computes on an unmasked array)
WholeFrame(img, K, H, W, kh, kw) == [n \in 1 .. H*W |-> Full(img, K, H, W, kh, kw, CellOf(n-1, W))]
\* ... read on a sequence of cells (= GatherOn(WholeFrame(..), cells, W), without evaluating the other cells)
WholeFrameOn(img, K, H, W, kh, kw, cells) == [k \in 1 .. Len(cells) |-> Full(img, K, H, W, kh, kw, cells[k])]

\* gather a native image onto a sequence of cells
GatherOn(native, cells, W) == [k \in 1 .. Len(cells) |-> native[Lin(cells[k], W) + 1]]

\* The combined native image: image values on the mask u, blurring values on the blurring region B, 0 elsewhere.
Combine(u, B, H, W, img, blur) ==
    [n \in 1 .. H*W |-> LET c == CellOf(n-1, W)
                        IN IF c \in u THEN img[M!Rank(c, u, W)]
                           ELSE IF c \in B THEN blur[M!Rank(c, B, W)]
                           ELSE 0]

\* The property: blurring (image, blurring image) = the full convolution of the combined image, read on the mask.
\* (B is passed in so that callers evaluate the blurring region once.)
MaskedBlurB(u, B, K, H, W, kh, kw, img, blur) ==
    LET comb == Combine(u, B, H, W, img, blur)
        us == SlimSeq(u, H, W)
    IN [k \in 1 .. Len(us) |-> Full(comb, K, H, W, kh, kw, us[k])]
MaskedBlur(u, K, H, W, kh, kw, img, blur) == MaskedBlurB(u, Blurring(u, H, W, kh, kw), K, H, W, kh, kw, img, blur)

\* the same, given one native image that holds arbitrary values ("junk") outside mask and blurring region
MaskedBlurOfNative(u, K, H, W, kh, kw, native) ==
    MaskedBlur(u, K, H, W, kh, kw, GatherOn(native, SlimSeq(u, H, W), W), GatherOn(native, BlSeq(u, H, W, kh, kw), W))

Zeros(n) == [k \in 1 .. n |-> 0]
Unit(n, j) == [k \in 1 .. n |-> IF k = j THEN 1 ELSE 0]
\* blurring without a blurring image: nothing but the image on the mask enters (= a blurring image of zeros,
\* theorem ScatterIsMaskedBlur)
NoBlur(u, K, H, W, kh, kw, img) == MaskedBlurB(u, {}, K, H, W, kh, kw, img, << >>)

\* Blurring a mapping matrix (sequence of |u| rows, each a sequence of P entries) = the image operator on each column.
Column(mat, p) == [k \in 1 .. Len(mat) |-> mat[k][p]]
BlurMatrix(u, K, H, W, kh, kw, mat) ==
    IF Len(mat) = 0 THEN << >>
    ELSE LET P == Len(mat[1])
             cols == [p \in 1 .. P |-> NoBlur(u, K, H, W, kh, kw, Column(mat, p))]
         IN [k \in 1 .. Len(mat) |-> [p \in 1 .. P |-> cols[p][k]]]

\* The operator written as a table: the coefficient with which source cell s enters target cell t.
\* (Theorem OperatorTableIsDefinitionOnBasis below: it is the definition applied to basis images.)
Couple(K, kh, kw, s, t) == Centred(K, kh, kw, <<t[1] - s[1], t[2] - s[2]>>)
OpTable(sources, targets, K, kh, kw) ==
    [a \in 1 .. Len(sources) |-> [b \in 1 .. Len(targets) |-> Couple(K, kh, kw, sources[a], targets[b])]]
OpImage(u, K, H, W, kh, kw) == OpTable(SlimSeq(u, H, W), SlimSeq(u, H, W), K, kh, kw)
OpBlur(u, K, H, W, kh, kw) == OpTable(BlSeq(u, H, W, kh, kw), SlimSeq(u, H, W), K, kh, kw)

\* applying operator tables (rows = sources) to vectors
ApplyOp(op, v, nTargets) == [b \in 1 .. nTargets |-> Sum([a \in 1 .. Len(op) |-> v[a] * op[a][b]])]
AddSeq(x, y) == [k \in 1 .. Len(x) |-> x[k] + y[k]]

-----------------------------------------------------------------------------
(* Second formulation, structured like Convolver.__init__ / frame_at_coordinates_jit / convolve_jit /       *)
(* convolve_matrix_jit: for every source pixel a FRAME, the list of (target slim index, kernel entry) pairs  *)
(* obtained by sliding over the kernel entries (a,b) with target = source - half + (a,b); convolution is a   *)
(* scatter-accumulate over the frames.                                                                       *)

KIdx(kh, kw) == [n \in 1 .. kh*kw |-> << (n-1) \div kw, (n-1) % kw >>]

SlimIndex(c, u, W) == M!Rank(c, u, W) - 1    \* 0-based position of an unmasked cell in the slim order

FrameAt(s, u, K, H, W, kh, kw) ==
    LET cand == [n \in 1 .. kh*kw |->
                    LET ab == KIdx(kh, kw)[n]
                        x  == << s[1] - kh \div 2 + ab[1], s[2] - kw \div 2 + ab[2] >>
                    IN [x |-> x, kv |-> K[n]]]
        kept == SelectSeq(cand, LAMBDA e : InFrame(e.x, H, W) /\ e.x \in u)
    IN [n \in 1 .. Len(kept) |-> [idx |-> SlimIndex(kept[n].x, u, W), kv |-> kept[n].kv]]

ImageFrames(u, K, H, W, kh, kw) ==
    LET us == SlimSeq(u, H, W) IN [k \in 1 .. Len(us) |-> FrameAt(us[k], u, K, H, W, kh, kw)]
BlurringFrames(u, K, H, W, kh, kw) ==
    LET bs == BlSeq(u, H, W, kh, kw) IN [k \in 1 .. Len(bs) |-> FrameAt(bs[k], u, K, H, W, kh, kw)]

\* one frame as a dense row over the targets (a frame never lists a target twice, the sum is for totality)
FrameRow(frame, nOut) ==
    [v \in 1 .. nOut |-> Sum([e \in 1 .. Len(frame) |-> IF frame[e].idx = v - 1 THEN frame[e].kv ELSE 0])]

\* scatter-accumulate: out[v] += value[k] * kernel entry, for every entry (v, kernel entry) of frame k
FrameRows(frames, nOut) == [k \in 1 .. Len(frames) |-> FrameRow(frames[k], nOut)]
ApplyRows(rows, values, nOut) == [v \in 1 .. nOut |-> Sum([k \in 1 .. Len(rows) |-> values[k] * rows[k][v]])]
Scatter(frames, values, nOut) == ApplyRows(FrameRows(frames, nOut), values, nOut)

ConvolveByFrames(fr, img, blur, nOut) == AddSeq(Scatter(fr.img, img, nOut), Scatter(fr.blur, blur, nOut))

\* column-wise blurring of a matrix through the image frames; entries equal to zero are skipped (a sparsity
\* shortcut that is sound exactly because 0 * k = 0; skipping more than the zeros is not)
ScatterMatrix(frames, mat, nOut) ==
    IF Len(mat) = 0 THEN << >>
    ELSE LET P == Len(mat[1])
             rows == FrameRows(frames, nOut)
             col(p) == ApplyRows(rows, [k \in 1 .. Len(mat) |-> IF mat[k][p] # 0 THEN mat[k][p] ELSE 0], nOut)
             cols == [p \in 1 .. P |-> col(p)]
         IN [k \in 1 .. nOut |-> [p \in 1 .. P |-> cols[p][k]]]

\* the operator realised by a list of frames, as a table (rows = sources): obtained by blurring basis vectors
FramesOp(frames, nOut) ==
    LET rows == FrameRows(frames, nOut)
    IN [a \in 1 .. Len(frames) |-> ApplyRows(rows, Unit(Len(frames), a), nOut)]

-----------------------------------------------------------------------------
(* Kernels and probe data of the bounded machine *)

\* distinct entries: the value identifies the kernel position, so operator tables show WHICH entry couples s to t
KernelOf(v, kh, kw) ==
    [n \in 1 .. kh*kw |-> IF v = "signed" /\ (((n-1) \div kw) + ((n-1) % kw)) % 2 = 1 THEN -n ELSE n]

\* ---- structured kernels: zeros and cancellations ------------------------------------------------------
\* A kernel given by its rows; the transpose of a flat h x w kernel (a flat w x h kernel); a centred embedding
\* of a small kernel into a larger zero kernel (what "zero-padded PSF" means); a single non-zero entry.
FromRows(rows, kh, kw) == [n \in 1 .. kh*kw |-> rows[((n-1) \div kw) + 1][((n-1) % kw) + 1]]
Transposed(k, h, w) == [n \in 1 .. w*h |-> k[((n-1) % h) * w + ((n-1) \div h) + 1]]
Padded(k, kh, kw, KHH, KWW) ==
    [n \in 1 .. KHH*KWW |-> LET a == ((n-1) \div KWW) - ((KHH - kh) \div 2)
                               b == ((n-1) % KWW) - ((KWW - kw) \div 2)
                           IN IF a >= 0 /\ a < kh /\ b >= 0 /\ b < kw THEN k[a * kw + b + 1] ELSE 0]
Singles(kh, kw) == { [n \in 1 .. kh*kw |-> IF n = j THEN 5 ELSE 0] : j \in 1 .. kh*kw }

\* Row alphabets by width: a zero row, rows that SUM TO ZERO WITH NON-ZERO ENTRIES (antisymmetric / asymmetric),
\* a generic row, a row with one off-centre entry.
Letters(w, level) ==
    CASE w = 1 -> {<<0>>, <<3>>, <<-3>>}
      [] w = 3 -> IF level = "full" THEN {<<0,0,0>>, <<1,0,-1>>, <<2,-3,1>>, <<1,2,3>>, <<0,0,5>>}
                  ELSE {<<0,0,0>>, <<1,0,-1>>, <<1,2,3>>}
      [] w = 5 -> IF level = "full" THEN {<<0,0,0,0,0>>, <<1,-2,0,3,-2>>, <<1,2,0,-2,-1>>, <<1,2,3,4,5>>}
                  ELSE {<<0,0,0,0,0>>, <<1,-2,0,3,-2>>, <<1,2,3,4,5>>}
      [] OTHER -> {}
ZeroOrGeneric(w) == CASE w = 1 -> {<<0>>, <<3>>} [] w = 3 -> {<<0,0,0>>, <<1,2,3>>}
                      [] w = 5 -> {<<0,0,0,0,0>>, <<1,2,3,4,5>>} [] OTHER -> {}
\* every kernel whose first and last row range over `outer` and whose other rows range over `inner`
RowKernels(kh, kw, outer, inner) ==
    { FromRows(rows, kh, kw) : rows \in { f \in [1 .. kh -> outer \cup inner] :
                                              \A a \in 1 .. kh : f[a] \in (IF a = 1 \/ a = kh THEN outer ELSE inner) } }
\* ... by rows and (transposing the kw x kh row kernels) by columns
PatternKernels(kh, kw, level) ==
    LET innerR == IF kh = 3 /\ kw = 3 /\ level = "full" THEN Letters(kw, level)
                  ELSE IF level = "full" THEN Letters(kw, "light") ELSE ZeroOrGeneric(kw)
        innerC == IF kh = 3 /\ kw = 3 /\ level = "full" THEN Letters(kh, level)
                  ELSE IF level = "full" THEN Letters(kh, "light") ELSE ZeroOrGeneric(kh)
    IN RowKernels(kh, kw, Letters(kw, level), innerR)
         \cup { Transposed(k, kw, kh) : k \in RowKernels(kw, kh, Letters(kh, level), innerC) }

\* derivative / difference kernels (3x3): Sobel, Prewitt, Laplacians, Roberts-like diagonal, emboss
Named3 == { <<1,0,-1, 2,0,-2, 1,0,-1>>, <<1,2,1, 0,0,0, -1,-2,-1>>, <<1,0,-1, 1,0,-1, 1,0,-1>>, <<1,1,1, 0,0,0, -1,-1,-1>>,
            <<-1,-1,-1, -1,8,-1, -1,-1,-1>>, <<0,1,0, 1,-4,1, 0,1,0>>, <<1,0,0, 0,0,0, 0,0,-1>>, <<-2,-1,0, -1,1,1, 0,1,2>> }
\* zero-padded kernels: 3x3 (or 3x1, 1x3) kernels embedded in the centre of the larger shape
PaddedKernels(kh, kw) ==
    LET ih == IF kh >= 3 THEN 3 ELSE 1
        iw == IF kw >= 3 THEN 3 ELSE 1
        small == IF ih = 3 /\ iw = 3 THEN Named3 \cup {KernelOf("pos", 3, 3), KernelOf("signed", 3, 3)}
                 ELSE {KernelOf("pos", ih, iw), KernelOf("signed", ih, iw)} \cup PatternKernels(ih, iw, "light")
    IN IF kh > ih \/ kw > iw THEN { Padded(k, ih, iw, kh, kw) : k \in small } ELSE {}

StructKernels(kh, kw, level) ==
    PatternKernels(kh, kw, level) \cup Singles(kh, kw) \cup PaddedKernels(kh, kw)
        \cup (IF kh = 3 /\ kw = 3 THEN Named3 ELSE {})

\* ---- simulation ----------------------------------------------------------------------------------------
\* The non-negative kernel 1..n whose centre is raised so that the entries sum to a power of two (the normalised
\* kernel K/sum is then exact in binary floating point); simulated data are counted in units of 1/sum.
SumTo(k) == Sum(k)
Pow2Kernel(kh, kw) ==
    LET s == (kh*kw * (kh*kw + 1)) \div 2
        q == CHOOSE p \in {1, 2, 4, 8, 16, 32, 64, 128, 256, 512, 1024} : p >= s /\ p < 2 * s
        c == (kh \div 2) * kw + (kw \div 2) + 1
    IN [n \in 1 .. kh*kw |-> IF n = c THEN n + q - s ELSE n]

\* Every combination of the SimulatorImaging options that keep the simulated data noise-free
\* (add_poisson_noise_to_data = FALSE throughout):
\*   sky      background_sky_level, in data units (0, small, large, negative, very negative)
\*   subtract subtract_background_sky
\*   norm     "raw": unnormalised kernel, normalize_psf=True; "unit_norm": unit-sum kernel, normalize_psf=True;
\*            "unit_asis": unit-sum kernel, normalize_psf=False; "raw_asis": unnormalised kernel, normalize_psf=False
\*            (data and fit are then both made with the unnormalised kernel)
\*   noise    "const1" / "const8th": include_poisson_noise_in_noise_map=False with noise_if_add_noise_false 1 / 0.125;
\*            "poisson": include_poisson_noise_in_noise_map=True (noise-free data, realistic noise map; Poisson
\*            deviates are drawn from image + sky, which the API admits only when that is non-negative)
SimOptionSet == { o \in [sky : {0, 3, 64, -1, -200}, subtract : BOOLEAN, norm : {"raw", "unit_norm", "unit_asis", "raw_asis"},
                          noise : {"const1", "const8th", "poisson"}] : ~ (o.noise = "poisson" /\ o.sky < -1) }
NoSim == [sky |-> 0, subtract |-> TRUE, norm |-> "none", noise |-> "none"]

\* the sky that the returned data still contain
SkyLeft(o) == IF o.subtract THEN 0 ELSE o.sky
\* The documented steps of the simulation with noise off: 2) convolve with the PSF, 3) add the background sky,
\* 4) (no noise), 5) subtract the background sky if requested.
SimulatedData(img, K, H, W, kh, kw, o) ==
    LET convolved == WholeFrame(img, K, H, W, kh, kw)
        withSky   == [n \in 1 .. H*W |-> convolved[n] + o.sky]
    IN [n \in 1 .. H*W |-> IF o.subtract THEN withSky[n] - o.sky ELSE withSky[n]]

\* a signed native probe image with distinct values everywhere (also outside mask and blurring region: "junk")
ProbeImage(H, W) == [n \in 1 .. H*W |-> IF n % 3 = 0 THEN -n ELSE n]
\* a positive probe image (simulated data)
ProbeImagePos(H, W) == [n \in 1 .. H*W |-> 2 + ((7 * n) % 5) + (n % 2)]
\* a signed probe matrix with 2 columns, containing zeros, positive and negative entries
ProbeMatrix(n) == [k \in 1 .. n |-> << IF k % 2 = 0 THEN -k ELSE k, IF k % 3 = 0 THEN 0 ELSE 2 - k >>]

-----------------------------------------------------------------------------
(* Layer 2: the bounded machine.                                                                             *)
(*   Init       chooses frame, kernel shape, kernel (identifiable / structured / simulation kernel), simulator *)
(*              options and a mask inside the family window.                                                  *)
(*   Construct  = Convolver(mask, kernel): rejects even kernels, otherwise builds the frame tables.          *)
(*   Extract    = convolve_image / convolve_image_no_blurring on basis images: the operator the frames       *)
(*                realise; the instance and the operator tables of the DEFINITION are dumped for replay.     *)
(*   Simulate   = SimulatorImaging(noise off).via_image_from -> apply_mask -> convolver.convolve_image of the *)
(*                generating image (through the frame tables).                                               *)

VARIABLES shape, ks, variant, kern, simopt, U, phase, frames, op, sim
vars == << shape, ks, variant, kern, simopt, U, phase, frames, op, sim >>

Window(f) == { << f[5] + a, f[6] + b >> : a \in 0 .. f[7] - 1, b \in 0 .. f[8] - 1 }

Init == /\ phase = "input"
        /\ frames = << >>
        /\ op = << >>
        /\ sim = << >>
        /\ \/ \E f \in Families :
                 /\ shape = << f[1], f[2] >>
                 /\ ks = << f[3], f[4] >>
                 /\ variant \in Variants
                 /\ kern = KernelOf(variant, f[3], f[4])
                 /\ simopt = NoSim
                 /\ U \in (SUBSET Window(f)) \ {{}}
           \/ \E f \in StructFamilies :
                 /\ shape = << f[1], f[2] >>
                 /\ ks = << f[3], f[4] >>
                 /\ variant = "struct"
                 /\ kern \in StructKernels(f[3], f[4], f[9])
                 /\ simopt = NoSim
                 /\ U \in (IF f[10] = "all" THEN (SUBSET Window(f)) \ {{}} ELSE {Window(f)})
           \/ \E f \in SimFamilies :
                 /\ shape = << f[1], f[2] >>
                 /\ ks = << f[3], f[4] >>
                 /\ variant = "sim"
                 /\ kern = Pow2Kernel(f[3], f[4])
                 /\ simopt \in SimOptionSet
                 /\ U \in (SUBSET Window(f)) \ {{}}
           \/ /\ ks \in EvenKernels
              /\ variant \in Variants
              /\ kern = KernelOf(variant, ks[1], ks[2])
              /\ simopt = NoSim
              /\ shape = << 7, 7 >>
              /\ U = {<< 3, 3 >>}

HH == shape[1]
WW == shape[2]
KH == ks[1]
KW == ks[2]
Kern == kern

Construct ==
    /\ phase = "input"
    /\ IF OddKernel(KH, KW)
       THEN /\ phase' = "built"
            /\ frames' = [img |-> ImageFrames(U, Kern, HH, WW, KH, KW), blur |-> BlurringFrames(U, Kern, HH, WW, KH, KW)]
       ELSE /\ phase' = "rejected"
            /\ frames' = << >>
            /\ PrintT(ToJson([k |-> "inst", h |-> HH, w |-> WW, kh |-> KH, kw |-> KW, variant |-> variant,
                              u |-> M!SlimSrc(U, HH, WW), even |-> TRUE]))
    /\ UNCHANGED << shape, ks, variant, kern, simopt, U, op, sim >>

Extract ==
    /\ phase = "built"
    /\ phase' = "observed"
    /\ op' = [img |-> FramesOp(frames.img, Cardinality(U)), blur |-> FramesOp(frames.blur, Cardinality(U))]
    /\ PrintT(ToJson([k |-> "inst", h |-> HH, w |-> WW, kh |-> KH, kw |-> KW, variant |-> variant,
                      u |-> M!SlimSrc(U, HH, WW), even |-> FALSE, kern |-> Kern, simopt |-> simopt,
                      opi |-> OpImage(U, Kern, HH, WW, KH, KW), opb |-> OpBlur(U, Kern, HH, WW, KH, KW)]))
    /\ UNCHANGED << shape, ks, variant, kern, simopt, U, frames, sim >>

Simulate ==
    /\ phase = "observed"
    /\ variant = "sim"
    /\ phase' = "simulated"
    /\ LET nat == ProbeImagePos(HH, WW)
           us  == SlimSeq(U, HH, WW)
       IN sim' = [data  |-> GatherOn(SimulatedData(nat, Kern, HH, WW, KH, KW, simopt), us, WW),
                  model |-> ConvolveByFrames(frames, GatherOn(nat, us, WW),
                                             GatherOn(nat, BlSeq(U, HH, WW, KH, KW), WW), Cardinality(U))]
    /\ UNCHANGED << shape, ks, variant, kern, simopt, U, frames, op >>

\* A call on the built convolver that is refused part-way (e.g. a blurring image with more entries than the blurring
\* region): an exception for the caller, and NOTHING else -- the frame tables and the operator every later call
\* realises are unchanged (no state may survive a failed call).
FailedCall ==
    /\ phase = "observed"
    /\ variant \in {"pos", "signed"}
    /\ phase' = "observed-after-failed-call"
    /\ UNCHANGED << shape, ks, variant, kern, simopt, U, frames, op, sim >>

Next == Construct \/ Extract \/ Simulate \/ FailedCall
Spec == Init /\ [][Next]_vars

-----------------------------------------------------------------------------
(* Layer 3: design-level theorems, checked by TLC on every instance *)

Built == phase \in {"built", "observed", "simulated", "observed-after-failed-call"}
Seen == phase = "observed"
NU == Cardinality(U)
NB == Cardinality(Blurring(U, HH, WW, KH, KW))

\* the families only contain masks whose kernel footprint stays inside the frame (the property's quantifier)
FootprintInside == OddKernel(KH, KW) => ~ FootLeaves(U, HH, WW, KH, KW)

\* even kernels never get frame tables; odd kernels always do
EvenKernelRejected ==
    /\ phase = "rejected" => ~ OddKernel(KH, KW)
    /\ Built => OddKernel(KH, KW)

\* the operator table is the definition applied to basis images (image part and blurring part)
OperatorTableIsDefinitionOnBasis ==
    Seen => LET k  == Kern
                us == SlimSeq(U, HH, WW)
                bs == BlSeq(U, HH, WW, KH, KW)
                oi == OpImage(U, k, HH, WW, KH, KW)
                ob == OpBlur(U, k, HH, WW, KH, KW)
                unit(s) == [n \in 1 .. HH*WW |-> IF n = Lin(s, WW) + 1 THEN 1 ELSE 0]   \* native basis image
                resp(s) == LET e == unit(s) IN [b \in 1 .. Len(us) |-> Full(e, k, HH, WW, KH, KW, us[b])]
            IN /\ \A a \in 1 .. Len(us) : resp(us[a]) = oi[a]
               /\ \A a \in 1 .. Len(bs) : resp(bs[a]) = ob[a]
               \* and a basis vector of either kind combines to that native basis image
               /\ \A a \in 1 .. Len(us) : Combine(U, ToSet(bs), HH, WW, Unit(Len(us), a), Zeros(Len(bs))) = unit(us[a])
               /\ Len(bs) > 0 => Combine(U, ToSet(bs), HH, WW, Zeros(Len(us)), Unit(Len(bs), Len(bs))) = unit(bs[Len(bs)])

\* the arithmetic blurring region used here is the blurring set of Masks.tla (C10)
BlurringIsMasksBlurring == Built => Blurring(U, HH, WW, KH, KW) = M!Blurring(U, HH, WW, KH, KW)

\* the frame tables (second formulation) realise exactly that operator -- for EVERY kernel, whatever zeros or
\* cancelling rows / columns it has: no part of a kernel can be dropped on account of its sum
FramesImplementDefinition ==
    Seen => /\ op.img = OpImage(U, Kern, HH, WW, KH, KW)
            /\ op.blur = OpBlur(U, Kern, HH, WW, KH, KW)

\* after a failed call the convolver still realises exactly the operator of the definition
FailedCallLeavesOperator ==
    phase = "observed-after-failed-call" =>
        /\ frames = [img |-> ImageFrames(U, Kern, HH, WW, KH, KW), blur |-> BlurringFrames(U, Kern, HH, WW, KH, KW)]
        /\ FramesOp(frames.img, NU) = OpImage(U, Kern, HH, WW, KH, KW)
        /\ FramesOp(frames.blur, NU) = OpBlur(U, Kern, HH, WW, KH, KW)
        /\ op.img = OpImage(U, Kern, HH, WW, KH, KW)

\* genuinely zero-padded kernels, and only those, are the same operator as their unpadded core: removing a border
\* row pair / column pair leaves the operator unchanged iff every ENTRY of the pair is zero (for a mask whose
\* blurring region reaches the border offsets, as all families here do)
PaddingIsEntrywise ==
    (Seen /\ variant = "struct" /\ KH >= 3) =>
        LET core == [n \in 1 .. (KH-2)*KW |-> Kern[n + KW]]
            borderZero == \A n \in 1 .. KW : Kern[n] = 0 /\ Kern[(KH-1)*KW + n] = 0
            sameOp == /\ OpImage(U, core, HH, WW, KH-2, KW) = op.img
                      /\ OpTable(BlSeq(U, HH, WW, KH, KW), SlimSeq(U, HH, WW), core, KH-2, KW) = op.blur
        IN borderZero <=> sameOp

\* ... and on a signed image with junk outside mask and blurring region the scatter-accumulate gives the definition
ScatterIsMaskedBlur ==
    Seen => LET nat == ProbeImage(HH, WW)
                k   == Kern
                img == GatherOn(nat, SlimSeq(U, HH, WW), WW)
                bl  == GatherOn(nat, BlSeq(U, HH, WW, KH, KW), WW)
                def == MaskedBlurOfNative(U, k, HH, WW, KH, KW, nat)
            IN /\ ConvolveByFrames(frames, img, bl, NU) = def
               /\ Scatter(frames.img, img, NU) = NoBlur(U, k, HH, WW, KH, KW, img)
               /\ NoBlur(U, k, HH, WW, KH, KW, img) = MaskedBlur(U, k, HH, WW, KH, KW, img, Zeros(Len(bl)))
               \* linearity: the definition is the operator tables applied to the two vectors
               /\ def = AddSeq(ApplyOp(OpImage(U, k, HH, WW, KH, KW), img, NU), ApplyOp(OpBlur(U, k, HH, WW, KH, KW), bl, NU))
               \* whole-frame convolution agrees with the masked blurring on the mask, whatever lies outside
               \* mask + blurring region (the probe image is non-zero everywhere)
               /\ WholeFrameOn(nat, k, HH, WW, KH, KW, SlimSeq(U, HH, WW)) = def

\* the matrix shortcut (skip exact zeros) is the image operator applied to every column, for signed matrices
MatrixIsColumnwise ==
    Seen => LET m == ProbeMatrix(NU) IN ScatterMatrix(frames.img, m, NU) = BlurMatrix(U, Kern, HH, WW, KH, KW, m)

\* hence simulate (whole frame, any noise-free option combination) -> mask -> fit with the generating image: the data,
\* less the sky that was declared left in, are fitted with a residual of exactly zero
SimulateThenFitResidualZero ==
    Seen => LET nat  == ProbeImagePos(HH, WW)
                us   == SlimSeq(U, HH, WW)
                conv == WholeFrameOn(nat, Kern, HH, WW, KH, KW, us)
                model == MaskedBlurOfNative(U, Kern, HH, WW, KH, KW, nat)
            IN /\ conv = model
               /\ conv = GatherOn(WholeFrame(nat, Kern, HH, WW, KH, KW), us, WW)
               /\ \A sky \in {0, 3, 64, -1, -200} : \A sub \in BOOLEAN :
                     LET o == [sky |-> sky, subtract |-> sub, norm |-> "raw", noise |-> "const1"]
                     IN [k \in 1 .. NU |-> (conv[k] + sky - (IF sub THEN sky ELSE 0)) - SkyLeft(o) - model[k]] = Zeros(NU)
\* the same, as the simulator's step sequence and the frame tables compute it
SimulatedDataFitsGeneratingImage ==
    phase = "simulated" =>
        /\ Len(sim.data) = NU /\ Len(sim.model) = NU
        /\ \A k \in 1 .. NU : sim.data[k] - SkyLeft(simopt) - sim.model[k] = 0
        /\ simopt.subtract => sim.data = WholeFrameOn(ProbeImagePos(HH, WW), Kern, HH, WW, KH, KW, SlimSeq(U, HH, WW))

\* every unmasked pixel couples to itself through the central kernel entry; homogeneity in the kernel
CentreAndHomogeneity ==
    Seen => /\ \A a \in 1 .. NU : op.img[a][a] = Kern[(KH \div 2) * KW + KW \div 2 + 1]
            /\ OpImage(U, [n \in 1 .. KH*KW |-> 2 * Kern[n]], HH, WW, KH, KW)
                 = [a \in 1 .. NU |-> [b \in 1 .. NU |-> 2 * op.img[a][b]]]

\* frames never exceed the kernel size and only point at unmasked pixels
FrameShape ==
    Built => /\ Len(frames.img) = NU /\ Len(frames.blur) = NB
             /\ \A k \in 1 .. NU : Len(frames.img[k]) \in 1 .. KH*KW
             /\ \A k \in 1 .. NB : Len(frames.blur[k]) \in 1 .. KH*KW
             /\ \A k \in 1 .. NU : \A e \in 1 .. Len(frames.img[k]) : frames.img[k][e].idx \in 0 .. NU-1
=============================================================================
