------------------------------ MODULE NormalEq ------------------------------
(***************************************************************************)
(* C04: data vector and curvature matrix equal the normal equations in     *)
(* both formalisms.                                                        *)
(*                                                                         *)
(* Exact domain: everything is a small integer; the driver scales real     *)
(* quantities by known powers of two / sub-size squares:                   *)
(*   K  kernel (kh x kw integers),  cells[s] = <<i,j>> of slim pixel s,    *)
(*   w[s] = 4 / sigma_s^2  (sigma in {1/2,1,2} -> w in {16,4,1}),          *)
(*   d[s] data,  objects o with integer mapping matrix M_o (n x p_o)       *)
(*   (= real matrix times the object's scale), a flag `reg` (has           *)
(*   regularization) and `mapper` (pixelization mapper vs function list).  *)
(*                                                                         *)
(* Layer 1 (meaning): B = column-wise blurred mapping matrix of all        *)
(*   objects in order, D = B' W d, F = B' W B + eps on unregularised       *)
(*   diagonal entries.                                                     *)
(* Second formulation (w-tilde, as documented): WD[s] and WT[s0][s1]       *)
(*   noise-weighted PSF overlaps with per-axis half widths,                *)
(*   F_mm = M' WT M, mapper x function blocks through WD-like sums.        *)
(* Layer 2: Init picks an instance of the family, Compute evaluates both.  *)
(* Layer 3: WTildeEqualsMapping, Symmetric, BlocksFollowObjectOrder,       *)
(*   DiagonalTermOnlyOnUnregularised, Homogeneity.                         *)
(***************************************************************************)
EXTENDS Integers, Sequences, FiniteSets, TLC, Json, IOUtils, FiniteSetsExt, SequencesExt, Folds

\* instance family: JSON array of records
\*   {n, kh, kw, K:[[..]], cells:[[i,j]..], w:[..], d:[..],
\*    objs:[{p, M:[[..] n rows], reg:bool, mapper:bool, eps4:int (the diagonal term in the object's integer units)}]}
Insts == JsonDeserialize(IOEnv.INST_FILE)

SumOver(S, f(_)) == FoldSet(LAMBDA x, acc : acc + f(x), 0, S)

-----------------------------------------------------------------------------
(* Layer 1: meaning *)
KAt(I, a, b) == IF a >= 0 /\ a < I.kh /\ b >= 0 /\ b < I.kw THEN I.K[a+1][b+1] ELSE 0
\* coupling of source pixel s into target pixel t by the flipped, centred kernel: K[t - s + half]
Couple(I, t, s) == KAt(I, I.cells[t][1] - I.cells[s][1] + I.kh \div 2, I.cells[t][2] - I.cells[s][2] + I.kw \div 2)

\* total parameters and the column layout: object o occupies columns Off(o)+1 .. Off(o)+p_o, in list order
NObj(I) == Len(I.objs)
RECURSIVE Off(_, _)
Off(I, o) == IF o = 1 THEN 0 ELSE Off(I, o-1) + I.objs[o-1].p
Total(I) == Off(I, NObj(I)) + I.objs[NObj(I)].p
ObjOf(I, c) == CHOOSE o \in 1 .. NObj(I) : c > Off(I, o) /\ c <= Off(I, o) + I.objs[o].p
ColIn(I, c) == c - Off(I, ObjOf(I, c))
\* the concatenated mapping matrix entry
MAt(I, s, c) == I.objs[ObjOf(I, c)].M[s][ColIn(I, c)]

\* B[t][c]: blurred mapping matrix
BAt(I, t, c) == SumOver(1 .. I.n, LAMBDA s : Couple(I, t, s) * MAt(I, s, c))
BMat(I) == [t \in 1 .. I.n |-> [c \in 1 .. Total(I) |-> BAt(I, t, c)]]

\* D = B' W d ; F = B' W B + eps on unregularised diagonal
DVec(I, B) == [c \in 1 .. Total(I) |-> SumOver(1 .. I.n, LAMBDA t : B[t][c] * I.w[t] * I.d[t])]
NoReg(I, c) == ~ I.objs[ObjOf(I, c)].reg
FMat(I, B) == [a \in 1 .. Total(I) |-> [b \in 1 .. Total(I) |->
                 SumOver(1 .. I.n, LAMBDA t : B[t][a] * B[t][b] * I.w[t])
                 + (IF a = b /\ NoReg(I, a) THEN I.objs[ObjOf(I, a)].eps4 ELSE 0)]]

\* reconstruction-to-data map for an integer parameter vector sv
MapData(I, B, sv) == [t \in 1 .. I.n |-> SumOver(1 .. Total(I), LAMBDA c : B[t][c] * sv[c])]

-----------------------------------------------------------------------------
(* second formulation: the w-tilde formalism as documented *)
\* data term: for slim pixel s, sum over kernel offsets k of K[k] * (w d)[s + k - half]   (unmasked neighbours only)
WD(I) == [s \in 1 .. I.n |-> SumOver(1 .. I.n, LAMBDA t : Couple(I, t, s) * I.w[t] * I.d[t])]
\* overlap: WT[s0][s1] = sum_t K[t - s0 + half] K[t - s1 + half] w[t]
WT(I) == [s0 \in 1 .. I.n |-> [s1 \in 1 .. I.n |->
            SumOver(1 .. I.n, LAMBDA t : Couple(I, t, s0) * Couple(I, t, s1) * I.w[t])]]
DVecW(I) == LET wd == WD(I) IN
            [c \in 1 .. Total(I) |-> SumOver(1 .. I.n, LAMBDA s : MAt(I, s, c) * wd[s])]
FMatW(I) == LET wt == WT(I) IN
            [a \in 1 .. Total(I) |-> [b \in 1 .. Total(I) |->
               SumOver(1 .. I.n, LAMBDA s0 : MAt(I, s0, a) * SumOver(1 .. I.n, LAMBDA s1 : wt[s0][s1] * MAt(I, s1, b)))
               + (IF a = b /\ NoReg(I, a) THEN I.objs[ObjOf(I, a)].eps4 ELSE 0)]]

-----------------------------------------------------------------------------
(* Layer 2: machine *)
VARIABLES inst, phase, B, D, F
vars == << inst, phase, B, D, F >>

Init == /\ inst \in 1 .. Len(Insts)
        /\ phase = "given" /\ B = << >> /\ D = << >> /\ F = << >>

Compute == /\ phase = "given"
           /\ LET I == Insts[inst] b == BMat(I) IN
                /\ B' = b /\ D' = DVec(I, b) /\ F' = FMat(I, b)
           /\ phase' = "computed"
           /\ UNCHANGED inst

Next == Compute
Spec == Init /\ [][Next]_vars

-----------------------------------------------------------------------------
(* Layer 3: design-level theorems *)
Done == phase = "computed"
II == Insts[inst]
WTildeEqualsMapping == Done => D = DVecW(II) /\ F = FMatW(II)
Symmetric == Done => \A a, b \in 1 .. Total(II) : F[a][b] = F[b][a]
\* the block of objects (oa, ob) depends only on those two objects (order = list order)
BlocksFollowObjectOrder ==
  Done => \A oa, ob \in 1 .. NObj(II) : \A ca \in 1 .. II.objs[oa].p, cb \in 1 .. II.objs[ob].p :
             F[Off(II, oa) + ca][Off(II, ob) + cb]
               = SumOver(1 .. II.n, LAMBDA t :
                    SumOver(1 .. II.n, LAMBDA s : Couple(II, t, s) * II.objs[oa].M[s][ca])
                  * SumOver(1 .. II.n, LAMBDA s : Couple(II, t, s) * II.objs[ob].M[s][cb]) * II.w[t])
                 + (IF oa = ob /\ ca = cb /\ ~ II.objs[oa].reg THEN II.objs[oa].eps4 ELSE 0)
DiagonalTermOnlyOnUnregularised ==
  Done => \A c \in 1 .. Total(II) :
            F[c][c] - SumOver(1 .. II.n, LAMBDA t : B[t][c] * B[t][c] * II.w[t]) = (IF NoReg(II, c) THEN II.objs[ObjOf(II, c)].eps4 ELSE 0)
\* doubling the kernel quadruples the curvature and doubles the data vector (what makes the scaling by 2^e sound)
Homogeneity ==
  Done => LET I2 == [II EXCEPT !.K = [a \in 1 .. II.kh |-> [b \in 1 .. II.kw |-> 2 * II.K[a][b]]],
                                  !.objs = [o \in DOMAIN II.objs |-> [II.objs[o] EXCEPT !.eps4 = 4 * @]]]
              b2 == BMat(I2)
          IN DVec(I2, b2) = [c \in 1 .. Total(II) |-> 2 * D[c]] /\ FMat(I2, b2) = [a \in 1 .. Total(II) |-> [b \in 1 .. Total(II) |-> 4 * F[a][b]]]
=============================================================================
