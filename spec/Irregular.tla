------------------------------ MODULE Irregular ------------------------------
(***************************************************************************)
(* X02 -- irregular coordinate containers and distance queries are         *)
(* order-preserving and exact on the lattice.                              *)
(*                                                                         *)
(* A coordinate is a pair <<y,x>> of integers (lattice units; the driver   *)
(* multiplies by a tick length).  A grid is a SEQUENCE of coordinates:     *)
(* order and repetitions matter.  Everything below is stated for           *)
(* sequences, so the same operators judge Grid2DIrregular /                *)
(* Grid2DIrregularUniform (the sequence given by the caller) and Grid2D    *)
(* (the sequence of the unmasked pixels in slim order, Masks.tla).         *)
(*                                                                         *)
(* Squared distances are exact integers.  Distances are inherently real:   *)
(* the meaning layer fixes the squared value, the trace specification      *)
(* judges recorded fixed-point roots with a derived rounding bound, and    *)
(* demands the exact root where the squared distance is a perfect square.  *)
(* The removal threshold is a distance whose square is the half-integer    *)
(* dd2/2 (dd2 odd): no coordinate is ever exactly at the threshold.        *)
(* Where several coordinates are equally near, any of them is a valid      *)
(* answer (ties are free).                                                 *)
(***************************************************************************)
EXTENDS Masks

CONSTANTS Lattice,     \* set of integers; the bounded machine draws coordinates from Lattice \X Lattice
          OrderedLen,  \* every ORDERED list of 1 .. OrderedLen coordinates is enumerated
          MaxLen,      \* lists of OrderedLen+1 .. MaxLen coordinates are enumerated as bags (non-decreasing order)
          RefCells,    \* reference coordinates of the queries (set of <<y,x>>), also the pair-grid coordinates
          Dist2s,      \* odd integers dd2: removal distance squared = dd2 / 2
          Buffers,     \* integer buffers of extent_with_buffer_from
          Upscales,    \* upscale factors of from_grid_sparse_uniform_upscale
          Geoms        \* <<sy,sx,oy,ox>>: pixel scales (2*sy, 2*sx), origin (oy, ox) of the uniform-grid machine

-----------------------------------------------------------------------------
(* helpers: linear folds over sequences *)

Abs(x) == IF x < 0 THEN -x ELSE x
SeqMin(s) == LET f[k \in 1 .. Len(s)] == IF k = 1 THEN s[1]
                                          ELSE LET m == f[k-1] IN IF s[k] < m THEN s[k] ELSE m
             IN f[Len(s)]
SeqMax(s) == LET f[k \in 1 .. Len(s)] == IF k = 1 THEN s[1]
                                          ELSE LET m == f[k-1] IN IF s[k] > m THEN s[k] ELSE m
             IN f[Len(s)]
Concat(groups) == LET f[k \in 0 .. Len(groups)] == IF k = 0 THEN << >> ELSE f[k-1] \o groups[k]
                  IN f[Len(groups)]
IsSquare(n) == \E s \in 0 .. 400 : s * s = n
Isqrt(n) == CHOOSE s \in 0 .. 400 : s * s = n

-----------------------------------------------------------------------------
(* Layer 1: meaning *)

Pt(s) == << s[1], s[2] >>
D2(p, q) == (p[1] - q[1]) * (p[1] - q[1]) + (p[2] - q[2]) * (p[2] - q[2])

\* a container holds exactly the given entries in the given order; several groups are held one after the other
Held(groups) == Concat(groups)

\* entry k of the squared-distance query
SqDists(P, c) == [k \in DOMAIN P |-> D2(P[k], c)]

\* removal: a coordinate goes iff it is closer than the threshold to ANY reference coordinate
Near(p, C, dd2) == \E j \in DOMAIN C : 2 * D2(p, C[j]) < dd2
Keep(P, C, dd2) == SelectSeq(P, LAMBDA p : ~ Near(p, C, dd2))
KeepIdx(P, C, dd2) == SelectSeq([k \in DOMAIN P |-> k], LAMBDA k : ~ Near(P[k], C, dd2))

\* furthest squared distance of entry k to any OTHER entry (defined for lists of two or more entries)
Furthest2(P) == [k \in DOMAIN P |-> Max({ D2(P[k], P[j]) : j \in DOMAIN P \ {k} })]
\* the formulation the code uses: the maximum over ALL entries, the entry itself included
CodeFurthest2(P) == [k \in DOMAIN P |-> SeqMax([j \in DOMAIN P |-> D2(P[k], P[j])])]

\* nearest entries of P to q (a set: ties are free)
NearestIdx(P, q) == LET d == [j \in DOMAIN P |-> D2(P[j], q)]
                        m == SeqMin(d)
                    IN { j \in DOMAIN P : d[j] = m }
NearestPts(P, q) == { P[j] : j \in NearestIdx(P, q) }
\* the formulation the code uses: a scan keeping the first strictly smaller entry
CodeArgMin(P, q) == LET f[k \in 1 .. Len(P)] == IF k = 1 THEN 1
                                                 ELSE IF D2(P[k], q) < D2(P[f[k-1]], q) THEN k ELSE f[k-1]
                    IN f[Len(P)]

\* summaries: coordinate-wise extremes of the entries
Ys(P) == { P[k][1] : k \in DOMAIN P }
Xs(P) == { P[k][2] : k \in DOMAIN P }
Minima(P) == << Min(Ys(P)), Min(Xs(P)) >>
Maxima(P) == << Max(Ys(P)), Max(Xs(P)) >>
Interior(P) == << Max(Ys(P)) - Min(Ys(P)), Max(Xs(P)) - Min(Xs(P)) >>
Extent(P) == << Min(Xs(P)), Max(Xs(P)), Min(Ys(P)), Max(Ys(P)) >>          \* [x_min, x_max, y_min, y_max]
ExtentBuf(P, b) == << Min(Xs(P)) - b, Max(Xs(P)) + b, Min(Ys(P)) - b, Max(Ys(P)) + b >>

\* ray-tracing helper: entry k minus deflection k
Deflected(P, D) == [k \in DOMAIN P |-> << P[k][1] - D[k][1], P[k][2] - D[k][2] >>]
\* y and x lists zipped
ZipYX(ys, xs) == [k \in DOMAIN ys |-> << ys[k], xs[k] >>]

\* uniform geometry g = <<sy,sx,oy,ox>> on an H x W frame: centre of pixel <<i,j>> (row 0 on top = largest y)
Centre(c, H, W, g) == << g[3] + g[1] * ((H - 1) - 2 * c[1]), g[4] + g[2] * (2 * c[2] - (W - 1)) >>
GridPts(u, H, W, g) == LET s == SlimSeq(u, H, W) IN [k \in DOMAIN s |-> Centre(s[k], H, W, g)]
PixelsToPts(px, H, W, g) == [k \in DOMAIN px |-> Centre(Pt(px[k]), H, W, g)]

\* upscaling by f: every entry is replaced, in place, by the f x f sub-pixel centres of a pixel of
\* scale (2 f ey, 2 f ex) centred on it -- sub-rows from the top (largest y first), sub-columns from the left
Upscaled(P, f, e) ==
    [t \in 1 .. Len(P) * f * f |->
        LET k == ((t - 1) \div (f * f)) + 1
            a == ((t - 1) % (f * f)) \div f
            b == (t - 1) % f
        IN << P[k][1] + f * e[1] - (2 * a + 1) * e[1], P[k][2] - f * e[2] + (2 * b + 1) * e[2] >>]

\* Grid2D.grid_with_coordinates_within_distance_removed_from as the code builds it: a new mask that masks the near pixels
\* (and keeps the masked ones masked), then the grid of that mask
RemovedCells(u, P, H, W, C, dd2) == { c \in u : ~ Near(P[Rank(c, u, W)], C, dd2) }

-----------------------------------------------------------------------------
(* Layer 2: bounded machines sharing the variables                         *)
(*   list machine :  "given" --Construct--> "held" --<query>--> "answered" *)
(*   grid machine :  "grid"  --GridHold-->  "gridheld" --GridRemove--> "removed" *)

VARIABLES pts,    \* the coordinates (list machine: given by the caller; grid machine: pixel centres in slim order)
          geom,   \* grid machine: the geometry
          arg     \* the query and its arguments
ivars == << shape, U, phase, obs, pts, geom, arg >>

Key(c) == 1000 * c[1] + c[2]
Coords == Lattice \X Lattice
Lists == UNION ({ [1 .. n -> Coords] : n \in 1 .. OrderedLen } \cup
                { { s \in [1 .. n -> Coords] : \A k \in 1 .. n-1 : Key(s[k]) <= Key(s[k+1]) } : n \in OrderedLen + 1 .. MaxLen })
RefSeqs == { << c >> : c \in RefCells } \cup { << c, d >> : c \in RefCells, d \in RefCells }

InitList == /\ pts \in Lists
            /\ phase = "given" /\ obs = << >> /\ arg = << >> /\ geom = << >>
            /\ shape = << 1, 1 >> /\ U = {}
InitGrid == /\ shape \in Shapes
            /\ U \in (SUBSET Cells(shape[1], shape[2])) \ {{}}
            /\ geom \in Geoms
            /\ pts = GridPts(U, shape[1], shape[2], geom)
            /\ phase = "grid" /\ obs = << >> /\ arg = << >>
IInit == InitList \/ InitGrid

keepList == UNCHANGED << shape, U, pts, geom >>

\* the constructor: every view of the container is the given list
Construct == /\ phase = "given"
             /\ phase' = "held"
             /\ obs' = [array |-> Held(<< pts >>), in_list |-> Held(<< pts >>), slim |-> Held(<< pts >>), native |-> Held(<< pts >>)]
             /\ arg' = << "construct" >>
             /\ PrintT(ToJson([k |-> "inst", pts |-> pts]))
             /\ keepList

Summarise == /\ phase = "held" /\ phase' = "answered"
             /\ arg' = << "summaries" >>
             /\ obs' = [minima |-> Minima(pts), maxima |-> Maxima(pts), interior |-> Interior(pts), extent |-> Extent(pts),
                        buffed |-> [b \in Buffers |-> ExtentBuf(pts, b)]]
             /\ keepList

SquaredDistances(c) == /\ phase = "held" /\ phase' = "answered"
                       /\ arg' = << "sqdist", c >>
                       /\ obs' = SqDists(pts, c)
                       /\ keepList

Furthest == /\ phase = "held" /\ phase' = "answered"
            /\ Len(pts) >= 2
            /\ arg' = << "furthest" >>
            /\ obs' = Furthest2(pts)
            /\ keepList

\* the closest coordinate of the grid for one coordinate q of the pair grid: any nearest one
Closest(q) == /\ phase = "held" /\ phase' = "answered"
              /\ arg' = << "closest", q >>
              /\ obs' \in NearestPts(pts, q)
              /\ keepList

RemoveNear(C, dd2) == /\ phase = "held" /\ phase' = "answered"
                  /\ arg' = << "remove", C, dd2 >>
                  /\ obs' = Keep(pts, C, dd2)
                  /\ keepList

\* deflection grids: a constant vector, the grid itself, the grid reversed
DeflKinds == { << "self", << 0, 0 >> >>, << "reversed", << 0, 0 >> >> } \cup { << "constant", c >> : c \in RefCells }
DeflectionOf(P, kd) == CASE kd[1] = "self" -> P
                         [] kd[1] = "reversed" -> [k \in DOMAIN P |-> P[Len(P) + 1 - k]]
                         [] OTHER -> [k \in DOMAIN P |-> kd[2]]
Deflect(kd) == /\ phase = "held" /\ phase' = "answered"
               /\ arg' = << "deflect", DeflectionOf(pts, kd) >>
               /\ obs' = Deflected(pts, DeflectionOf(pts, kd))
               /\ keepList

Upscale(f) == /\ phase = "held" /\ phase' = "answered"
              /\ arg' = << "upscale", f >>
              /\ obs' = Upscaled(pts, f, << 1, 2 >>)
              /\ keepList

GridHold == /\ phase = "grid" /\ phase' = "gridheld"
            /\ arg' = << "construct" >>
            /\ obs' = pts
            /\ PrintT(ToJson([k |-> "ginst", h |-> shape[1], w |-> shape[2], u |-> SlimSrc(U, shape[1], shape[2]), g |-> geom]))
            /\ keepList

\* the code-shaped removal on a uniform grid: new mask, then the grid of the new mask
GridRemove(C, dd2) ==
    /\ phase = "gridheld" /\ phase' = "removed"
    /\ arg' = << "remove", C, dd2 >>
    /\ obs' = LET u2 == RemovedCells(U, pts, shape[1], shape[2], C, dd2)
              IN [u2 |-> u2, pts2 |-> GridPts(u2, shape[1], shape[2], geom)]
    /\ keepList

INext == \/ Construct \/ Summarise \/ Furthest
         \/ (\E c \in RefCells : SquaredDistances(c) \/ Closest(c))
         \/ (\E C \in RefSeqs : \E dd2 \in Dist2s : RemoveNear(C, dd2) \/ GridRemove(C, dd2))
         \/ (\E kd \in DeflKinds : Deflect(kd))
         \/ (\E f \in Upscales : Upscale(f))
         \/ GridHold
ISpec == IInit /\ [][INext]_ivars

-----------------------------------------------------------------------------
(* Layer 3: properties of the design, checked by TLC on every instance *)

Asked(q) == phase = "answered" /\ arg[1] = q
IsSubSeqAt(s, P, idx) == /\ Len(s) = Len(idx)
                         /\ \A k \in DOMAIN idx : s[k] = P[idx[k]]
                         /\ \A k \in 1 .. Len(idx) - 1 : idx[k] < idx[k+1]

\* every view of the container is the list that was given, entry for entry
ViewsRoundTrip == phase = "held" => obs.array = pts /\ obs.in_list = pts /\ obs.slim = pts /\ obs.native = pts
\* concatenation of groups keeps every entry at its place (checked on the two-group splits of the list)
GroupsConcatenate == phase = "held" => \A n \in 0 .. Len(pts) :
                         Held(<< SubSeq(pts, 1, n), SubSeq(pts, n + 1, Len(pts)) >>) = pts

\* squared distances: one per entry, non-negative, zero exactly at the reference coordinate, invariant under a common shift
SqDistSane == Asked("sqdist") =>
                 /\ Len(obs) = Len(pts)
                 /\ \A k \in DOMAIN pts : obs[k] >= 0 /\ (obs[k] = 0 <=> pts[k] = arg[2])
                 /\ \A t \in RefCells : SqDists([k \in DOMAIN pts |-> << pts[k][1] + t[1], pts[k][2] + t[2] >>],
                                                << arg[2][1] + t[1], arg[2][2] + t[2] >>) = obs
\* the removal keeps a subsequence (order preserved), splits the list exactly, and never sits on the threshold
RemoveIsOrderedSplit ==
    Asked("remove") => LET idx == KeepIdx(pts, arg[2], arg[3]) IN
                          /\ IsSubSeqAt(obs, pts, idx)
                          /\ \A k \in DOMAIN pts : (k \in ToSet(idx)) <=> (\A j \in DOMAIN arg[2] : 2 * D2(pts[k], arg[2][j]) > arg[3])
                          /\ \A k \in DOMAIN pts : \A j \in DOMAIN arg[2] : 2 * D2(pts[k], arg[2][j]) # arg[3]
\* removing for several reference coordinates = removing for one after the other; a larger distance removes more
RemoveComposes ==
    Asked("remove") => /\ (Len(arg[2]) = 2 => obs = Keep(Keep(pts, << arg[2][1] >>, arg[3]), << arg[2][2] >>, arg[3]))
                       /\ \A d \in Dist2s : d >= arg[3] => Len(Keep(pts, arg[2], d)) <= Len(obs)
\* the code-shaped furthest distance (maximum over all entries, itself included) is the furthest distance to another
\* entry; the largest value is attained by at least two entries (the two ends of a diameter)
FurthestCodeShapeAgrees == Asked("furthest") => obs = CodeFurthest2(pts)
FurthestIsDiameterTwice ==
    Asked("furthest") => LET m == SeqMax(obs) IN Cardinality({ k \in DOMAIN obs : obs[k] = m }) >= 2
\* any answer of the closest query is an entry of the grid that no other entry beats; the code-shaped scan gives one
ClosestValid == Asked("closest") => /\ \E j \in DOMAIN pts : pts[j] = obs
                                    /\ \A j \in DOMAIN pts : D2(obs, arg[2]) <= D2(pts[j], arg[2])
ClosestCodeShapeValid == phase = "held" => \A q \in RefCells : CodeArgMin(pts, q) \in NearestIdx(pts, q)
\* summaries bracket every entry, are attained, and are ordered -- wherever the list lies relative to zero
SummariesBracket ==
    Asked("summaries") =>
        /\ \A k \in DOMAIN pts : /\ obs.minima[1] <= pts[k][1] /\ pts[k][1] <= obs.maxima[1]
                                 /\ obs.minima[2] <= pts[k][2] /\ pts[k][2] <= obs.maxima[2]
        /\ \E k \in DOMAIN pts : pts[k][1] = obs.minima[1]
        /\ \E k \in DOMAIN pts : pts[k][2] = obs.maxima[2]
        /\ obs.interior[1] >= 0 /\ obs.interior[2] >= 0
        /\ obs.extent = << obs.minima[2], obs.maxima[2], obs.minima[1], obs.maxima[1] >>
        /\ \A b \in Buffers : /\ obs.buffed[b][2] - obs.buffed[b][1] = obs.interior[2] + 2 * b
                              /\ obs.buffed[b][4] - obs.buffed[b][3] = obs.interior[1] + 2 * b
                              /\ obs.buffed[b][1] <= obs.extent[1] /\ obs.buffed[b][4] >= obs.extent[4]
\* a list wholly on one side of zero has its extremes on that side (zero is not special)
SummariesOneSided ==
    Asked("summaries") => /\ ((\A k \in DOMAIN pts : pts[k][1] > 0) => obs.minima[1] > 0)
                          /\ ((\A k \in DOMAIN pts : pts[k][2] < 0) => obs.maxima[2] < 0)
\* deflecting by D and then by -D gives the grid back; deflecting by the grid itself gives the origin
DeflectInverse ==
    Asked("deflect") => /\ Deflected(obs, [k \in DOMAIN arg[2] |-> << -arg[2][k][1], -arg[2][k][2] >>]) = pts
                        /\ (arg[2] = pts => \A k \in DOMAIN obs : obs[k] = << 0, 0 >>)
\* the f*f sub-coordinates of entry k follow each other, average to entry k and stay inside its pixel
UpscaleSane ==
    Asked("upscale") => LET f == arg[2] IN
        /\ Len(obs) = Len(pts) * f * f
        /\ \A k \in DOMAIN pts :
              LET blk == [t \in 1 .. f * f |-> obs[(k - 1) * f * f + t]] IN
              /\ SeqMax([t \in 1 .. f*f |-> blk[t][1]]) + SeqMin([t \in 1 .. f*f |-> blk[t][1]]) = 2 * pts[k][1]
              /\ SeqMax([t \in 1 .. f*f |-> blk[t][2]]) + SeqMin([t \in 1 .. f*f |-> blk[t][2]]) = 2 * pts[k][2]
              /\ \A t \in 1 .. f * f : Abs(blk[t][1] - pts[k][1]) < f * 1 /\ Abs(blk[t][2] - pts[k][2]) < f * 2
              /\ blk[1][1] >= blk[f*f][1] /\ blk[1][2] <= blk[f*f][2]
\* the code-shaped removal on a uniform grid (mask the near pixels, take the grid of the new mask) keeps exactly the
\* far coordinates in their order: selecting commutes with the slim order
GridRemovalIsKeep ==
    phase = "removed" => /\ obs.pts2 = Keep(pts, arg[2], arg[3])
                         /\ obs.u2 \subseteq U
                         /\ SlimSeq(obs.u2, shape[1], shape[2]) =
                               SelectSeq(SlimSeq(U, shape[1], shape[2]), LAMBDA c : c \in obs.u2)
=============================================================================
