----------------------------- MODULE MaskShapes -----------------------------
(***************************************************************************)
(* X07: the geometric mask constructors of PyAutoArray unmask exactly the  *)
(* pixels whose centres satisfy the documented inequality, and the mask    *)
(* summaries are functions of the current unmasked set.                    *)
(*                                                                         *)
(* Everything is an integer number of HALF-TICKS u (as in Geometry.tla):   *)
(* pixel scales are multiples of 4u, origins multiples of 2u, so pixel     *)
(* centres are even.  A radius is given by R2 = 2 r^2 (in u^2).  For the   *)
(* generic instances R2 is ODD: r^2 is a half-integer and no pixel centre  *)
(* is at distance exactly r.  EVEN R2 = 2 d^2 (d an integer) are the       *)
(* boundary probes: a pixel centre exactly on the circle is unmasked       *)
(* ("within" the radius, <=); the driver emits them only where the float   *)
(* arithmetic of the code is exact (dyadic tick, power-of-two scales).     *)
(*                                                                         *)
(* A geometry is g = [h, w, sy, sx, oy, ox].  CONVENTION of the shape       *)
(* constructors (the code base's, shared with C02 and C12): the `centre`   *)
(* of a shape is measured in the frame's own centred coordinates, i.e.     *)
(* RELATIVE TO THE MASK ORIGIN; pixel centres enter the radial test with   *)
(* origin (0,0).  The `origin` handed to a constructor is only attached to *)
(* the resulting mask: the boolean array is the same for every origin      *)
(* (that is translation covariance in this convention: nothing depends on  *)
(* where the origin is, only on positions relative to it).  The summaries  *)
(* (mask_centre, zoom offsets ...) use the mask's own coordinates, origin  *)
(* included.                                                               *)
(*                                                                         *)
(* A mask is its set U of UNMASKED cells <<i,j>> (0-based, row i from the  *)
(* top, column j from the left).                                           *)
(*                                                                         *)
(* Layer 1 (meaning) takes g / U as parameters so that the bounded         *)
(* machines below and the trace specification share the same operators.    *)
(***************************************************************************)
EXTENDS Integers, Sequences, FiniteSets, TLC, Json, SequencesExt, FiniteSetsExt

CONSTANTS ShapeFrames,     \* set of <<H,W>>: frames of the constructor machine
          ShapeScalePairs, \* set of <<sy,sx>> (multiples of 4)
          OriginCentres,   \* set of << <<oy,ox>>, <<cy,cx>> >>: origin handed to the constructor and centre (relative to it)
          FarR2,           \* set of odd R2: generic radii (about zero ... beyond the frame)
          Ells,            \* set of <<qn,qd,c,s,n>>: axis ratio qn/qd (qn odd), rotation cos = c/n, sin = s/n (n odd)
          EllPairs,        \* set of << ell, ell >> (inner, outer) for the elliptical annulus
          Kinds,           \* subset of {"circular","annular","anti_annular","elliptical","elliptical_annular"}
          Probes,          \* BOOLEAN: also radii that pass exactly through pixel centres (circular, annular, anti-annular)
          PixFrames,       \* set of <<H,W>>: every non-empty pixel list of these frames is turned into a mask
          Buffers,         \* set of buffers for from_pixel_coordinates / buffed_mask_2d_from
          SumFrames,       \* set of <<H,W>>: every mask of these frames is summarised
          SumGeoms,        \* set of <<sy,sx,oy,ox>> for the summaries
          HistFrames,      \* set of <<H,W>>: every non-empty mask of these frames starts histories on one Mask2D object
          HistGeoms,       \* set of <<sy,sx,oy,ox>> for the histories
          HistOrders,      \* set of read orders (integers; the driver maps them to permutations of the summary names)
          HistDepth,       \* number of steps of a history (the last one is a read)
          ForgetOnEdit     \* BOOLEAN: an in-place edit forgets every remembered summary (TRUE is the design rule)

-----------------------------------------------------------------------------
(* Layer 1a: geometry (the pixel-centre formula of C02, copied because Geometry.tla declares constants) *)

Sq(a) == a * a
Abs(a) == IF a < 0 THEN -a ELSE a
Geo(h, w, sy, sx, oy, ox) == [h |-> h, w |-> w, sy |-> sy, sx |-> sx, oy |-> oy, ox |-> ox]
WellFormed(g) == /\ g.h >= 1 /\ g.w >= 1
                 /\ g.sy > 0 /\ g.sx > 0 /\ g.sy % 4 = 0 /\ g.sx % 4 = 0
                 /\ g.oy % 2 = 0 /\ g.ox % 2 = 0
Cells(g) == (0 .. g.h - 1) \X (0 .. g.w - 1)
Flat(g, c) == c[1] * g.w + c[2]
CellOfFlat(g, k) == << k \div g.w, k % g.w >>
SetLin(S, g) == { Flat(g, c) : c \in S }
LinSeq(S, g) == SetToSortSeq(SetLin(S, g), <)
OfLin(s, g) == { CellOfFlat(g, s[k]) : k \in DOMAIN s }
InFrame(g, c) == c[1] >= 0 /\ c[1] < g.h /\ c[2] >= 0 /\ c[2] < g.w

\* "pixel (i,j) has centre y = origin_y + ((H-1)/2 - i) s_y,  x = origin_x + (j - (W-1)/2) s_x" (any integers i, j)
CentreY(g, i) == g.oy + (g.h - 1 - 2*i) * (g.sy \div 2)
CentreX(g, j) == g.ox + (2*j - g.w + 1) * (g.sx \div 2)
Centre(g, c) == << CentreY(g, c[1]), CentreX(g, c[2]) >>

-----------------------------------------------------------------------------
(* Layer 1b: the shape-based constructors.  p = [kind, cy, cx, r, e1, e2]: the centre <<cy,cx>> is measured       *)
(* relative to the mask origin (pixel centres with origin (0,0)), r the sequence of radii as R2 = 2 r^2, e1 / e2 *)
(* ellipses [qn, qd, c, s, n].  g.oy, g.ox do not enter any operator of this layer.                              *)

Centre0Y(g, i) == (g.h - 1 - 2*i) * (g.sy \div 2)
Centre0X(g, j) == (2*j - g.w + 1) * (g.sx \div 2)
Dy(g, c, p) == Centre0Y(g, c[1]) - p.cy
Dx(g, c, p) == Centre0X(g, c[2]) - p.cx
D2(g, c, p) == Sq(Dy(g, c, p)) + Sq(Dx(g, c, p))

\* Ellipse e: axis ratio q = qn/qd (minor/major), major axis rotated counter-clockwise from the positive x-axis by
\* the angle with cosine c/n and sine s/n (y increases upward).  xr (along the major axis) and yr (along the minor
\* axis) times n; elliptical radius^2 = (xr^2 + (yr/q)^2) / n^2.
EllNum(g, c, p, e) == Sq(e.qn) * Sq(Dx(g, c, p) * e.c + Dy(g, c, p) * e.s)
                      + Sq(e.qd) * Sq(Dy(g, c, p) * e.c - Dx(g, c, p) * e.s)
EllLim(e, R2) == R2 * Sq(e.n) * Sq(e.qn)
EllOk(e) == e.qn % 2 = 1 /\ e.n % 2 = 1 /\ e.qn >= 1 /\ e.qd >= e.qn /\ Sq(e.c) + Sq(e.s) = Sq(e.n)

\* "within" a radius is <=, "outside of" an inner radius is >= (for odd R2 the two are complementary)
Unmasked(g, c, p) ==
    LET d2 == 2 * D2(g, c, p) IN
    CASE p.kind = "circular"     -> d2 <= p.r[1]
      [] p.kind = "annular"      -> d2 >= p.r[1] /\ d2 <= p.r[2]
      [] p.kind = "anti_annular" -> d2 <= p.r[1] \/ (d2 >= p.r[2] /\ d2 <= p.r[3])
      [] p.kind = "elliptical"   -> 2 * EllNum(g, c, p, p.e1) <= EllLim(p.e1, p.r[1])
      [] p.kind = "elliptical_annular" -> /\ 2 * EllNum(g, c, p, p.e1) >= EllLim(p.e1, p.r[1])
                                          /\ 2 * EllNum(g, c, p, p.e2) <= EllLim(p.e2, p.r[2])
      [] OTHER -> FALSE
ShapeSet(g, p) == { c \in Cells(g) : Unmasked(g, c, p) }

\* The same sets formulated the way the code computes them: the shape centre is first converted to the pixel-space
\* centre  (H-1)/2 - cy/sy,  (W-1)/2 + cx/sx  (kept times 2 sy / 2 sx), offsets are measured from
\* it with y increasing DOWNWARD, the rotation enters as  theta = atan2(y_down, x) + angle.
PixCentre2(g, p) == << (g.h - 1) * g.sy - 2 * p.cy, (g.w - 1) * g.sx + 2 * p.cx >>
CodeYs2(g, c, p) == 2 * c[1] * g.sy - PixCentre2(g, p)[1]         \* 2 * y_scaled (downward)
CodeXs2(g, c, p) == 2 * c[2] * g.sx - PixCentre2(g, p)[2]         \* 2 * x_scaled
CodeEllNum4(g, c, p, e) ==
    LET xe == CodeXs2(g, c, p) * e.c - CodeYs2(g, c, p) * e.s     \* 2 n r cos(theta + phi)
        ye == CodeYs2(g, c, p) * e.c + CodeXs2(g, c, p) * e.s     \* 2 n r sin(theta + phi)
    IN Sq(e.qn) * Sq(xe) + Sq(e.qd) * Sq(ye)                      \* = 4 EllNum
CodeUnmasked(g, c, p) ==
    LET d8 == 2 * (Sq(CodeYs2(g, c, p)) + Sq(CodeXs2(g, c, p)))   \* = 8 D2
    IN CASE p.kind = "circular"     -> d8 <= 4 * p.r[1]
         [] p.kind = "annular"      -> 4 * p.r[2] >= d8 /\ d8 >= 4 * p.r[1]
         [] p.kind = "anti_annular" -> 4 * p.r[1] >= d8 \/ (4 * p.r[3] >= d8 /\ d8 >= 4 * p.r[2])
         [] p.kind = "elliptical"   -> 2 * CodeEllNum4(g, c, p, p.e1) <= 4 * EllLim(p.e1, p.r[1])
         [] p.kind = "elliptical_annular" -> /\ 2 * CodeEllNum4(g, c, p, p.e1) >= 4 * EllLim(p.e1, p.r[1])
                                             /\ 2 * CodeEllNum4(g, c, p, p.e2) <= 4 * EllLim(p.e2, p.r[2])
         [] OTHER -> FALSE

\* the same frame with another origin / the same call with the centre moved by d = <<dy,dx>>
ShiftGeo(g, d) == [g EXCEPT !.oy = g.oy + d[1], !.ox = g.ox + d[2]]
ShiftPar(p, d) == [p EXCEPT !.cy = p.cy + d[1], !.cx = p.cx + d[2]]

\* Radii that put a chosen pixel t just outside / just inside (the tightest test of every inequality): the odd
\* numbers next to the pixel's own 2 d^2 (which is even).  Probes: the even 2 d^2 itself when d is a whole number.
OddBelow(x) == IF x % 2 = 1 THEN x ELSE x - 1
IsSquare(n) == \E k \in 0 .. 200 : k * k = n
TightCirc(g, p) == { r \in UNION { { 2 * D2(g, t, p) - 1, 2 * D2(g, t, p) + 1 } : t \in Cells(g) } : r >= 1 }
ProbeCirc(g, p) == { 2 * D2(g, t, p) : t \in { t \in Cells(g) : IsSquare(D2(g, t, p)) } }
TightEll(g, p, e) ==
    LET k == Sq(e.n) * Sq(e.qn)
        lo(t) == OddBelow((2 * EllNum(g, t, p, e)) \div k)
    IN { r \in UNION { { lo(t), lo(t) + 2 } : t \in Cells(g) } : r >= 1 }

NoEll == [qn |-> 1, qd |-> 1, c |-> 1, s |-> 0, n |-> 1]
EllOf5(t) == [qn |-> t[1], qd |-> t[2], c |-> t[3], s |-> t[4], n |-> t[5]]
Par(kind, ctr, r, e1, e2) == [kind |-> kind, cy |-> ctr[1], cx |-> ctr[2], r |-> r, e1 |-> e1, e2 |-> e2]

\* well-formed calls: radii in increasing order (inner < outer < outer_2); even radii (probes) only for the circular
\* shapes, whose float arithmetic can be exact; the ellipses need odd radii (no pixel centre on the boundary), and so
\* does the first outer radius of the anti-annulus (the documentation puts a pixel exactly on it both "within" the
\* masked annulus and "within" the unmasked one)
ParOk(p) == /\ \A k \in DOMAIN p.r : p.r[k] >= 0
            /\ (p.kind \in {"elliptical", "elliptical_annular"} => \A k \in DOMAIN p.r : p.r[k] % 2 = 1)
            /\ (p.kind = "anti_annular" => Len(p.r) = 3 /\ p.r[2] % 2 = 1)
            /\ (p.kind \in {"annular", "elliptical_annular"} => Len(p.r) = 2 /\ p.r[1] < p.r[2])
            /\ (p.kind = "anti_annular" => Len(p.r) = 3 /\ p.r[1] < p.r[2] /\ p.r[2] < p.r[3])
            /\ (p.kind \in {"circular", "elliptical"} => Len(p.r) = 1)
            /\ EllOk(p.e1) /\ EllOk(p.e2)

\* the bounded family of constructor calls for geometry g and centre ctr
Params(g, ctr) ==
    LET p0 == Par("circular", ctr, << 1 >>, NoEll, NoEll)
        T  == TightCirc(g, p0)
        P  == IF Probes THEN ProbeCirc(g, p0) ELSE {}
    IN  (IF "circular" \in Kinds THEN { Par("circular", ctr, << r >>, NoEll, NoEll) : r \in T \cup P \cup FarR2 } ELSE {})
        \cup (IF "annular" \in Kinds
              THEN { Par("annular", ctr, << a, b >>, NoEll, NoEll) : a \in T \cup P, b \in FarR2 }
                   \cup { Par("annular", ctr, << a, b >>, NoEll, NoEll) : a \in FarR2, b \in T \cup P }
              ELSE {})
        \cup (IF "anti_annular" \in Kinds
              THEN { Par("anti_annular", ctr, << a, b, c >>, NoEll, NoEll) : a \in T \cup P, b \in FarR2, c \in FarR2 }
                   \cup { Par("anti_annular", ctr, << a, b, c >>, NoEll, NoEll) : a \in FarR2, b \in T, c \in FarR2 }
                   \cup { Par("anti_annular", ctr, << a, b, c >>, NoEll, NoEll) : a \in FarR2, b \in FarR2, c \in T \cup P }
              ELSE {})
        \cup (IF "elliptical" \in Kinds
              THEN UNION { { Par("elliptical", ctr, << r >>, EllOf5(e), NoEll) : r \in TightEll(g, p0, EllOf5(e)) \cup FarR2 }
                           : e \in Ells }
              ELSE {})
        \cup (IF "elliptical_annular" \in Kinds
              THEN UNION { LET e1 == EllOf5(ep[1])  e2 == EllOf5(ep[2]) IN
                           { Par("elliptical_annular", ctr, << a, b >>, e1, e2) : a \in TightEll(g, p0, e1), b \in FarR2 }
                           \cup { Par("elliptical_annular", ctr, << a, b >>, e1, e2) : a \in FarR2, b \in TightEll(g, p0, e2) }
                           : ep \in EllPairs }
              ELSE {})

-----------------------------------------------------------------------------
(* Layer 1c: masks from pixel coordinates, buffing, the small utilities *)

\* every cell within `b` pixels (in all 8 directions: Chebyshev distance) of a cell of S, clipped to the frame
Buffed(S, g, b) == { c \in Cells(g) : \E q \in S : Abs(c[1] - q[1]) <= b /\ Abs(c[2] - q[2]) <= b }
\* the 4-neighbour (city-block) growth, which the documentation does NOT describe (used for a non-vacuity check)
Buffed4(S, g, b) == { c \in Cells(g) : \E q \in S : Abs(c[1] - q[1]) + Abs(c[2] - q[2]) <= b }
\* formulated like the code: every unmasked cell stamps its (2b+1) x (2b+1) window, cells outside the frame skipped
Window(q, b) == ((q[1] - b) .. (q[1] + b)) \X ((q[2] - b) .. (q[2] + b))
CodeBuffed(S, g, b) == UNION { { c \in Window(q, b) : InFrame(g, c) } : q \in S }

OnRing(g, c) == c[1] = 0 \/ c[2] = 0 \/ c[1] = g.h - 1 \/ c[2] = g.w - 1
\* rescaling by a whole factor k >= 1: every pixel becomes a k x k block; the outer ring of the result is masked
RescaleUp(U, g, k) ==
    LET g2 == [g EXCEPT !.h = g.h * k, !.w = g.w * k]
    IN { c \in Cells(g2) : ~ OnRing(g2, c) /\ << c[1] \div k, c[2] \div k >> \in U }
\* rescaling by 1/k (k divides both sides): a pixel of the result is unmasked iff its k x k block had at least one
\* unmasked pixel; the outer ring of the result is masked
RescaleDown(U, g, k) ==
    LET g2 == [g EXCEPT !.h = g.h \div k, !.w = g.w \div k]
    IN { c \in Cells(g2) : ~ OnRing(g2, c) /\ \E q \in U : << q[1] \div k, q[2] \div k >> = c }
\* what a nearest-sample reduction by 1/2 returns instead (one pixel of every block decides; only used to classify)
SampleDown2(U, g) ==
    LET g2 == [g EXCEPT !.h = g.h \div 2, !.w = g.w \div 2]
    IN { c \in Cells(g2) : ~ OnRing(g2, c) /\ << 2 * c[1] + 1, 2 * c[2] + 1 >> \in U }

-----------------------------------------------------------------------------
(* Layer 1d: the summaries of a mask (functions of the unmasked set U, U # {} except for the three counts) *)

BBox(U) == << Min({ c[1] : c \in U }), Max({ c[1] : c \in U }), Min({ c[2] : c \in U }), Max({ c[2] : c \in U }) >>

\* mask_centre: centre of the bounding box of the unmasked pixel coordinates (pixel centres are even: exact halves)
MaskCentre(g, U) == LET b == BBox(U) IN << (CentreY(g, b[1]) + CentreY(g, b[2])) \div 2,
                                          (CentreX(g, b[3]) + CentreX(g, b[4])) \div 2 >>
\* shape_native_masked_pixels: extent in pixels of the bounding box (+1: both ends count)
MaskedShape(U) == LET b == BBox(U) IN << b[2] - b[1] + 1, b[4] - b[3] + 1 >>
\* zoom_centre (times 2): centre of the bounding box in pixel indices
ZoomCentre2(U) == LET b == BBox(U) IN << b[1] + b[2], b[3] + b[4] >>
\* zoom_offset_pixels (times 2): zoom centre minus the central pixel ((H-1)/2, (W-1)/2)
ZoomOffsetPix2(g, U) == << ZoomCentre2(U)[1] - (g.h - 1), ZoomCentre2(U)[2] - (g.w - 1) >>
\* zoom_offset_scaled: that offset in scaled units (y grows upward, rows grow downward)
ZoomOffsetScaled(g, U) == << - (g.sy \div 2) * ZoomOffsetPix2(g, U)[1], (g.sx \div 2) * ZoomOffsetPix2(g, U)[2] >>
\* zoom_region <<y0, y1, x0, x1>> (rows y0 .. y1-1, columns x0 .. x1-1; may leave the frame): the bounding box with
\* its shorter side extended by the same whole number of pixels on both ends, as close to a square as that allows
ZoomRegion(U) ==
    LET b == BBox(U)
        ly == b[2] - b[1]
        lx == b[4] - b[3]
        e == Abs(ly - lx) \div 2
    IN IF ly > lx THEN << b[1], b[2] + 1, b[3] - e, b[4] + e + 1 >>
       ELSE IF lx > ly THEN << b[1] - e, b[2] + e + 1, b[3], b[4] + 1 >>
       ELSE << b[1], b[2] + 1, b[3], b[4] + 1 >>
ZoomShape(U) == LET r == ZoomRegion(U) IN << r[2] - r[1], r[4] - r[3] >>
\* zoom_mask_unmasked: an entirely unmasked mask of the zoom shape, same pixel scales, centred on the zoom centre
ZoomGeo(g, U) == Geo(ZoomShape(U)[1], ZoomShape(U)[2], g.sy, g.sx,
                     g.oy + ZoomOffsetScaled(g, U)[1], g.ox + ZoomOffsetScaled(g, U)[2])

\* is_circular / circular_radius: "the central row and column of the mask (based on the mask centre)".  When the
\* mask centre lies on the boundary between two rows (columns) either of them is a central row (column).
RowCands(U) == LET s == ZoomCentre2(U)[1] IN IF s % 2 = 0 THEN { s \div 2 } ELSE { (s - 1) \div 2, (s + 1) \div 2 }
ColCands(U) == LET s == ZoomCentre2(U)[2] IN IF s % 2 = 0 THEN { s \div 2 } ELSE { (s - 1) \div 2, (s + 1) \div 2 }
RowCnt(U, r) == Cardinality({ c \in U : c[1] = r })
ColCnt(U, k) == Cardinality({ c \in U : c[2] = k })
\* the choice made by floor(x + 1/2) in exact arithmetic: the lower row / the right column
CodeRow(U) == (ZoomCentre2(U)[1] + 1) \div 2
CodeCol(U) == (ZoomCentre2(U)[2] + 1) \div 2
\* circ: 1 circular, 0 not circular, 2 "raises MaskException" (different pixel scales);  rad: the radius in
\* half-ticks (central row count times half the pixel scale), -1 when circular_radius raises MaskException
CircVal(g, U) ==
    IF g.sy # g.sx THEN [circ |-> 2, rad |-> -1]
    ELSE IF RowCnt(U, CodeRow(U)) = ColCnt(U, CodeCol(U))
         THEN [circ |-> 1, rad |-> RowCnt(U, CodeRow(U)) * (g.sy \div 2)]
         ELSE [circ |-> 0, rad |-> -1]
ValidCirc(g, U, circ, rad) ==
    IF g.sy # g.sx THEN circ = 2 /\ rad = -1
    ELSE \E r \in RowCands(U), k \in ColCands(U) :
            IF RowCnt(U, r) = ColCnt(U, k) THEN circ = 1 /\ rad = RowCnt(U, r) * (g.sy \div 2)
                                           ELSE circ = 0 /\ rad = -1

\* everything a user can read from a non-empty mask
Summary(g, U) ==
    [ npix |-> Cardinality(U), all_false |-> U = Cells(g), all_true |-> U = {},
      centre |-> MaskCentre(g, U), smp |-> MaskedShape(U),
      zc2 |-> ZoomCentre2(U), zop2 |-> ZoomOffsetPix2(g, U), zos |-> ZoomOffsetScaled(g, U),
      zr |-> ZoomRegion(U), zsn |-> ZoomShape(U), zgeo |-> ZoomGeo(g, U),
      circ |-> CircVal(g, U).circ, rad |-> CircVal(g, U).rad ]

\* premise under which a disc made by Mask2D.circular must report itself as circular with a radius within one pixel
\* of the one given: equal pixel scales, the centre on a pixel centre or on a pixel corner (the same in both axes),
\* the whole disc inside the frame, at least one pixel unmasked
DiscInfinite(g, p, m) == { c \in ((0 - m) .. (g.h - 1 + m)) \X ((0 - m) .. (g.w - 1 + m)) : 2 * D2(g, c, p) <= p.r[1] }
CircPremise(g, p) ==
    /\ p.kind = "circular" /\ g.sy = g.sx
    /\ LET ay == (Centre0Y(g, 0) - p.cy) % g.sy
           ax == (Centre0X(g, 0) - p.cx) % g.sx
       IN (ay = 0 /\ ax = 0) \/ (ay = g.sy \div 2 /\ ax = g.sx \div 2)
    /\ ShapeSet(g, p) # {}
    /\ DiscInfinite(g, p, 1) = ShapeSet(g, p)
RadiusWithinOnePixel(g, p, rad) ==
    /\ rad >= 0
    /\ 2 * Sq(rad + g.sy) >= p.r[1]
    /\ (rad >= g.sy => 2 * Sq(rad - g.sy) <= p.r[1])

-----------------------------------------------------------------------------
(* Layer 1e: histories on one mask object *)

HStep(op, cell, val, ord) == [op |-> op, cell |-> cell, val |-> val, ord |-> ord]
ApplyEdit(cur, e, g) == IF e.val = 0 THEN cur \cup { CellOfFlat(g, e.cell) } ELSE cur \ { CellOfFlat(g, e.cell) }
\* the unmasked set after the first k steps of a history that started from U0
RECURSIVE MaskAfter(_, _, _, _)
MaskAfter(U0, steps, k, g) ==
    IF k = 0 THEN U0
    ELSE LET m == MaskAfter(U0, steps, k - 1, g)
         IN IF steps[k].op = "edit" THEN ApplyEdit(m, steps[k], g) ELSE m

-----------------------------------------------------------------------------
(* Layer 2: the bounded machines.  Init chooses the input; one action per public call.                         *)
(*   mode "shape": one constructor call (and its inverted twin)                                               *)
(*   mode "pix"  : Mask2D.from_pixel_coordinates / buffed_mask_2d_from on every pixel list                    *)
(*   mode "sum"  : every summary of every mask                                                                *)
(*   mode "hist" : ReadAll / Edit / ReadAll ... on ONE mask object that may remember what it computed         *)

VARIABLES mode, g, par, U, phase, obs
vars == << mode, g, par, U, phase, obs >>

NoPar == << >>
InitShape == /\ mode = "shape"
             /\ \E f \in ShapeFrames, sc \in ShapeScalePairs, oc \in OriginCentres :
                   /\ g = Geo(f[1], f[2], sc[1], sc[2], oc[1][1], oc[1][2])
                   /\ par \in { p \in Params(g, oc[2]) : ParOk(p) }
             /\ U = {}
             /\ obs = << >>
InitPix == /\ mode = "pix"
           /\ g \in { Geo(f[1], f[2], 4, 4, 0, 0) : f \in PixFrames }
           /\ U \in (SUBSET Cells(g)) \ {{}}
           /\ par \in { [b |-> b] : b \in Buffers }
           /\ obs = << >>
InitSum == /\ mode = "sum"
           /\ g \in { Geo(f[1], f[2], q[1], q[2], q[3], q[4]) : f \in SumFrames, q \in SumGeoms }
           /\ U \in SUBSET Cells(g)
           /\ par = NoPar
           /\ obs = << >>
NoCache == << >>
InitHist == /\ mode = "hist"
            /\ g \in { Geo(f[1], f[2], q[1], q[2], q[3], q[4]) : f \in HistFrames, q \in HistGeoms }
            /\ U \in (SUBSET Cells(g)) \ {{}}
            /\ par = NoPar
            /\ obs = [cur |-> U, cache |-> NoCache, log |-> << >>, last |-> << >>]
Init == /\ (InitShape \/ InitPix \/ InitSum \/ InitHist)
        /\ phase = "new"

\* Mask2D.circular / circular_annular / circular_anti_annular / elliptical / elliptical_annular (invert False and True)
MakeShape ==
    /\ mode = "shape" /\ phase = "new"
    /\ phase' = "seen"
    /\ obs' = [ u |-> SetLin(ShapeSet(g, par), g),
                inv |-> SetLin(Cells(g) \ ShapeSet(g, par), g),
                code |-> SetLin({ c \in Cells(g) : CodeUnmasked(g, c, par) }, g) ]
    /\ PrintT(ToJson([k |-> "inst", mode |-> "shape", g |-> g, par |-> par]))
    /\ UNCHANGED << mode, g, par, U >>

\* Mask2D.from_pixel_coordinates(pixel_coordinates = U, buffer = b) / mask_2d_util.buffed_mask_2d_from(mask of U, b)
MakePix ==
    /\ mode = "pix" /\ phase = "new"
    /\ phase' = "seen"
    /\ obs' = [ u |-> Buffed(U, g, par.b), code |-> CodeBuffed(U, g, par.b) ]
    /\ PrintT(ToJson([k |-> "inst", mode |-> "pix", h |-> g.h, w |-> g.w, u |-> LinSeq(U, g), b |-> par.b]))
    /\ UNCHANGED << mode, g, par, U >>

\* every summary of Mask2D(mask of U, pixel scales, origin)
Summarise ==
    /\ mode = "sum" /\ phase = "new"
    /\ phase' = "seen"
    /\ obs' = IF U = {} THEN [ npix |-> 0, all_false |-> FALSE, all_true |-> TRUE ] ELSE Summary(g, U)
    /\ PrintT(ToJson([k |-> "inst", mode |-> "sum", g |-> g, u |-> LinSeq(U, g)]))
    /\ UNCHANGED << mode, g, par, U >>

\* ---- the history machine ----
\* The object MAY remember the circular radius it computed (the code base does: a cached property); the design rule
\* is that every in-place edit forgets it (ForgetOnEdit).  A read returns the remembered value when there is one.
CircNow(o) == IF o.cache = NoCache THEN CircVal(g, o.cur) ELSE o.cache
HistDump(log2) ==
    (Len(log2) = HistDepth) =>
        PrintT(ToJson([k |-> "hist", g |-> g, u |-> LinSeq(U, g), steps |-> log2]))
\* all summaries of the object are read, in the order number `ord`
HReadAll ==
    /\ mode = "hist" /\ Len(obs.log) < HistDepth
    /\ \E ord \in HistOrders :
          /\ (Len(obs.log) = HistDepth - 1) => ord = Min(HistOrders)      \* (one final read per history)
          /\ LET cv == CircNow(obs)
                 log2 == Append(obs.log, HStep("read", 0, 0, ord))
             IN /\ obs' = [obs EXCEPT !.cache = cv, !.log = log2,
                                      !.last = [Summary(g, obs.cur) EXCEPT !.circ = cv.circ, !.rad = cv.rad]]
                /\ HistDump(log2)
    /\ UNCHANGED << mode, g, par, U, phase >>
\* mask[i, j] = True / False in place (the mask stays non-empty)
HEdit ==
    /\ mode = "hist" /\ Len(obs.log) < HistDepth - 1
    /\ \E c \in Cells(g) :
          LET e == HStep("edit", Flat(g, c), IF c \in obs.cur THEN 1 ELSE 0, 0)
              new == ApplyEdit(obs.cur, e, g)
          IN /\ new # {}
             /\ obs' = [obs EXCEPT !.cur = new, !.cache = IF ForgetOnEdit THEN NoCache ELSE obs.cache,
                                   !.log = Append(obs.log, e), !.last = << >>]
    /\ UNCHANGED << mode, g, par, U, phase >>

Next == MakeShape \/ MakePix \/ Summarise \/ HReadAll \/ HEdit
Spec == Init /\ [][Next]_vars

-----------------------------------------------------------------------------
(* Layer 3: properties of the design, checked by TLC on every instance *)

SeenShape == mode = "shape" /\ phase = "seen"
InputsWellFormed == WellFormed(g) /\ (mode = "shape" => ParOk(par))

\* the definition and the code-like formulation agree; invert is the exact complement
ShapeFormulationsAgree ==
    SeenShape => /\ obs.u = obs.code
                 /\ obs.u \cup obs.inv = 0 .. g.h * g.w - 1 /\ obs.u \cap obs.inv = {}

\* the five shapes are related as the documentation says
ShapesAreRadialSets ==
    SeenShape =>
      LET disc(R2) == { c \in Cells(g) : 2 * D2(g, c, par) <= R2 }
          hole(R2) == { c \in Cells(g) : 2 * D2(g, c, par) < R2 }
          S == ShapeSet(g, par)
          round(e) == [e EXCEPT !.qn = 1, !.qd = 1]
      IN /\ (par.kind = "circular" => S = disc(par.r[1]))
         /\ (par.kind = "annular" => S = disc(par.r[2]) \ hole(par.r[1]))
         /\ (par.kind = "anti_annular" => S = disc(par.r[1]) \cup (disc(par.r[3]) \ hole(par.r[2])))
         /\ (par.kind = "elliptical" =>
               /\ S \subseteq disc(par.r[1])                      \* inside the circle of the major-axis radius
               /\ ShapeSet(g, [par EXCEPT !.e1 = round(par.e1)]) = disc(par.r[1])
               \* a half turn of the ellipse changes nothing
               /\ ShapeSet(g, [par EXCEPT !.e1 = [par.e1 EXCEPT !.c = - par.e1.c, !.s = - par.e1.s]]) = S)
         /\ (par.kind = "elliptical_annular" =>
               ShapeSet(g, [par EXCEPT !.e1 = round(par.e1), !.e2 = round(par.e2)]) = disc(par.r[2]) \ hole(par.r[1]))

\* Translation covariance in the constructors' convention: the mask does not depend on the origin (it is the same
\* set for every origin, in the definition and in the code-like formulation alike);
\* shifting the centre by whole pixels moves the mask by that many pixels (clipped to the frame).
ShapeTranslationCovariance ==
    SeenShape =>
      /\ \A d \in { << g.sy, 0 >>, << 0, - g.sx >>, << 2 * g.sy, 3 * g.sx >>, << -6, 10 >>, << - g.oy, - g.ox >> } :
            /\ ShapeSet(ShiftGeo(g, d), par) = ShapeSet(g, par)
            /\ { c \in Cells(g) : CodeUnmasked(ShiftGeo(g, d), c, par) } = ShapeSet(g, par)
      /\ \A k \in { << 1, 0 >>, << 0, 1 >>, << -1, 2 >> } :
            \* (a shift up by k[1] pixels lowers the row index, a shift right by k[2] pixels raises the column index;
            \*  Unmasked is defined for pixels outside the frame too)
            ShapeSet(g, ShiftPar(par, << k[1] * g.sy, k[2] * g.sx >>))
              = { c \in Cells(g) : Unmasked(g, << c[1] + k[1], c[2] - k[2] >>, par) }

\* a disc that satisfies CircPremise reports itself: circular, with a radius within one pixel of the one given
CircularMaskReportsItself ==
    (SeenShape /\ CircPremise(g, par)) =>
        LET S == ShapeSet(g, par) IN
        \A r \in RowCands(S), k \in ColCands(S) :
            /\ RowCnt(S, r) = ColCnt(S, k)
            /\ RadiusWithinOnePixel(g, par, RowCnt(S, r) * (g.sy \div 2))
            /\ ValidCirc(g, S, 1, RowCnt(S, r) * (g.sy \div 2))

\* buffing: the definition, the code-like stamping and b single steps agree; growth is by Chebyshev distance
BuffedIsChebyshevDilation ==
    (mode = "pix" /\ phase = "seen") =>
        /\ obs.u = obs.code
        /\ U \subseteq obs.u
        /\ Buffed(U, g, 0) = U
        /\ (par.b >= 1 => Buffed(Buffed(U, g, par.b - 1), g, 1) = obs.u)
        /\ Buffed4(U, g, par.b) \subseteq obs.u
        /\ (par.b = 1 => \A c \in U : \A q \in Cells(g) : (Abs(q[1] - c[1]) = 1 /\ Abs(q[2] - c[2]) = 1) => q \in obs.u)

\* the summaries hang together
SeenSum == mode = "sum" /\ phase = "seen" /\ U # {}
SummariesConsistent ==
    SeenSum =>
      LET b == BBox(U)  zr == obs.zr  zg == obs.zgeo IN
      /\ obs.npix >= 1 /\ obs.npix <= g.h * g.w /\ (obs.all_false <=> obs.npix = g.h * g.w) /\ ~ obs.all_true
      /\ \A c \in U : b[1] <= c[1] /\ c[1] <= b[2] /\ b[3] <= c[2] /\ c[2] <= b[4]
      \* the zoom offset is the mask centre seen from the origin
      /\ << g.oy + obs.zos[1], g.ox + obs.zos[2] >> = obs.centre
      \* the zoom region contains the bounding box, is centred on it, and is a square unless parity forbids it
      /\ zr[1] <= b[1] /\ b[2] < zr[2] /\ zr[3] <= b[3] /\ b[4] < zr[4]
      /\ zr[1] + zr[2] - 1 = b[1] + b[2] /\ zr[3] + zr[4] - 1 = b[3] + b[4]
      /\ Abs(obs.zsn[1] - obs.zsn[2]) <= 1
      /\ ((obs.smp[1] - obs.smp[2]) % 2 = 0 => obs.zsn[1] = obs.zsn[2])
      /\ Max({ obs.zsn[1], obs.zsn[2] }) = Max({ obs.smp[1], obs.smp[2] })
      \* the zoomed mask's pixels coincide with the parent's pixels of the zoom region (inside or outside the frame)
      /\ \A a \in 0 .. zg.h - 1, k \in 0 .. zg.w - 1 : Centre(zg, << a, k >>) = Centre(g, << zr[1] + a, zr[3] + k >>)
      /\ zg.sy = g.sy /\ zg.sx = g.sx
      \* circularity: the exact-arithmetic choice is one of the admissible central rows / columns
      /\ CodeRow(U) \in RowCands(U) /\ CodeCol(U) \in ColCands(U)
      /\ ValidCirc(g, U, obs.circ, obs.rad)
SummariesOfEmptyMask ==
    (mode = "sum" /\ phase = "seen" /\ U = {}) => obs.npix = 0 /\ obs.all_true /\ ~ obs.all_false

\* histories: the current mask is the fold of the logged edits; whatever the object remembers is the value of the
\* CURRENT mask (true because every edit forgets it); hence every read describes the current entries
HistoryMaskIsTheFoldOfItsEdits ==
    mode = "hist" => obs.cur = MaskAfter(U, obs.log, Len(obs.log), g) /\ obs.cur # {}
HistoryCacheIsCoherent ==
    (mode = "hist" /\ obs.cache # NoCache) => obs.cache = CircVal(g, obs.cur)
EveryReadDescribesTheCurrentMask ==
    (mode = "hist" /\ obs.last # << >>) => obs.last = Summary(g, obs.cur)
=============================================================================
