------------------------------ MODULE Triangles ------------------------------
(***************************************************************************)
(* Triangle sets of PyAutoArray (C20): up-sampling, neighbourhoods, index  *)
(* selection, the two representations (integer coordinates / vertex+index  *)
(* arrays) and containment of a shape's reference point.                   *)
(*                                                                         *)
(* Exact domain.  A point is <<x, y>> with INTEGER components counted in   *)
(* fine units (uF, vF).  For the equilateral lattice of side s,            *)
(*     uF = (s/2)/F0  along x,   vF = (s*sqrt(3)/4)/F0  along y,           *)
(* F0 = 2^(MaxLevel+2): the lattice triangle with integer coordinate       *)
(* (cx,cy) and flip f has the vertices (cx, 2cy+f), (cx+f, 2cy-f),         *)
(* (cx-f, 2cy-f) in units (s/2, s*sqrt(3)/4); every up-sampling halves     *)
(* the unit, and the quarter of the finest unit carries the reference      *)
(* points of shapes.  4/uF^2 times the squared real distance of two lattice*)
(* points is Q(a,b) = 4dx^2 + 3dy^2, an integer: lengths are compared      *)
(* exactly without sqrt(3).  Vertex arrays that are not on such a lattice  *)
(* (irregular ArrayTriangles(indices, vertices), with_vertices) live on an *)
(* ordinary integer grid; what is claimed about them needs no metric: the  *)
(* neighbour across an edge is the half-turn image b + c - a.              *)
(*                                                                         *)
(* A triangle is a sequence <<a, b, c>> of points; as a geometric object   *)
(* it is its vertex set VSet(t) (vertex order is representation detail).   *)
(***************************************************************************)
EXTENDS Integers, Sequences, FiniteSets, TLC, Json, SequencesExt, FiniteSetsExt

CONSTANTS Families,    \* set of <<r, n>>: all sets of 1..n integer coordinates in (-r..r)^2 are initial inputs
          MaxLevel,    \* number of up-samplings explored
          MaxPath,     \* number of public calls per behaviour
          MaxLenUp,    \* up_sample / neighborhood are explored on sets of at most that many triangles
          MaxLenObs,   \* containing_indices is explored on sets of at most that many triangles
          MaxLenSel,   \* for_indexes is explored on sets of at most that many triangles
          SelAllMax,   \* all non-empty index subsets are explored on sets of at most that many triangles
          FreeFamilies \* set of <<gx, gy, nv, nt>>: vertex/index arrays with nv distinct vertices on the integer grid
                       \* (0..gx-1) x (0..gy-1) and 2..nt non-degenerate triangles that use all of them are initial inputs

-----------------------------------------------------------------------------
(* Layer 1: meaning (from the property statement; parametrised, reused by   *)
(* Trace_Triangles)                                                        *)

Absv(x) == IF x < 0 THEN -x ELSE x
Sgn(x) == IF x > 0 THEN 1 ELSE IF x < 0 THEN -1 ELSE 0
SumSeq(s) == FoldSeq(LAMBDA a, b : a + b, 0, s)

\* twice the signed area of (a, b, c)
Cross(a, b, c) == (b[1] - a[1]) * (c[2] - a[2]) - (b[2] - a[2]) * (c[1] - a[1])
Area2(t) == Absv(Cross(t[1], t[2], t[3]))
TotalArea2(T) == SumSeq([k \in DOMAIN T |-> Area2(T[k])])
VSet(t) == {t[1], t[2], t[3]}
Geo(T) == [k \in DOMAIN T |-> VSet(T[k])]
\* the same triangles, with multiplicity, in any order (without repeated triangles this is equality of sets and lengths)
SameBag(S, T) ==
    LET gs == Geo(S)
        gt == Geo(T)
        ss == ToSet(gs)
    IN /\ Len(S) = Len(T)
       /\ ss = ToSet(gt)
       /\ (Cardinality(ss) = Len(S) \/ ToBag(gs) = ToBag(gt))
SameSet(S, T) == ToSet(Geo(S)) = ToSet(Geo(T))

\* point in the closed / open triangle (orientation tests; s is the orientation of t)
InClosedS(p, t, s) == s * Cross(t[1], t[2], p) >= 0 /\ s * Cross(t[2], t[3], p) >= 0 /\ s * Cross(t[3], t[1], p) >= 0
InOpenS(p, t, s) == s * Cross(t[1], t[2], p) > 0 /\ s * Cross(t[2], t[3], p) > 0 /\ s * Cross(t[3], t[1], p) > 0
InClosed(p, t) == LET s == Sgn(Cross(t[1], t[2], t[3])) IN s # 0 /\ InClosedS(p, t, s)
InOpen(p, t) == LET s == Sgn(Cross(t[1], t[2], t[3])) IN s # 0 /\ InOpenS(p, t, s)
\* every vertex of g lies in the closed triangle t
TriInside(g, t) == LET s == Sgn(Cross(t[1], t[2], t[3]))
                   IN s # 0 /\ InClosedS(g[1], t, s) /\ InClosedS(g[2], t, s) /\ InClosedS(g[3], t, s)

\* two non-degenerate triangles have disjoint interiors iff the line through an edge of one of them separates them
Separates(a, b, o, g) == LET so == Sgn(Cross(a, b, o)) IN \A v \in VSet(g) : Sgn(Cross(a, b, v)) * so <= 0
EdgeSep(t, g) == \/ Separates(t[1], t[2], t[3], g) \/ Separates(t[2], t[3], t[1], g) \/ Separates(t[3], t[1], t[2], g)
\* (bounding boxes that do not overlap are a special case -- an axis-parallel separating line -- tested first
\* because it is cheap and decides most pairs)
Lo(t, d) == LET a == t[1][d] b == t[2][d] c == t[3][d] IN IF a <= b THEN (IF a <= c THEN a ELSE c) ELSE (IF b <= c THEN b ELSE c)
Hi(t, d) == LET a == t[1][d] b == t[2][d] c == t[3][d] IN IF a >= b THEN (IF a >= c THEN a ELSE c) ELSE (IF b >= c THEN b ELSE c)
BoxSep(g, h) == \/ Hi(g, 1) <= Lo(h, 1) \/ Hi(h, 1) <= Lo(g, 1) \/ Hi(g, 2) <= Lo(h, 2) \/ Hi(h, 2) <= Lo(g, 2)
InteriorsDisjoint(g, h) == Area2(g) > 0 /\ Area2(h) > 0 /\ (BoxSep(g, h) \/ EdgeSep(g, h) \/ EdgeSep(h, g))
PairwiseDisjoint(T) == \A i, j \in DOMAIN T : i < j => InteriorsDisjoint(T[i], T[j])

\* ---- up-sampling ----------------------------------------------------------
\* G (indices into R) are four triangles of one quarter the area of p each, inside p, with pairwise disjoint
\* interiors (hence they cover p exactly: their areas add up to the area of p), and every vertex of p is a vertex
\* of one of them.
TilesExactly(p, R, G) ==
    /\ Cardinality(G) = 4
    /\ \A j \in G : 4 * Area2(R[j]) = Area2(p) /\ TriInside(R[j], p)
    /\ \A i, j \in G : i < j => InteriorsDisjoint(R[i], R[j])
    /\ \A v \in VSet(p) : \E j \in G : v \in VSet(R[j])
InsideIdx(p, R) == {j \in DOMAIN R : TriInside(R[j], p)}

\* What the statement asks of the result R of up-sampling the set P.  When the triangles of P do not overlap, the
\* members of R inside a parent are exactly its four tiles.  When P has overlapping / repeated triangles (not a
\* tiling to begin with) only the overlap-insensitive part is decidable per parent and is required.
UpSampled(P, R) ==
    /\ Len(R) = 4 * Len(P)
    /\ TotalArea2(R) = TotalArea2(P)
    /\ IF PairwiseDisjoint(P)
       THEN \A k \in DOMAIN P : LET G == InsideIdx(P[k], R) IN Cardinality(G) = 4 /\ TilesExactly(P[k], R, G)
       ELSE /\ \A j \in DOMAIN R : \E k \in DOMAIN P : TriInside(R[j], P[k]) /\ 4 * Area2(R[j]) = Area2(P[k])
            /\ \A k \in DOMAIN P : \A v \in VSet(P[k]) :
                   \E j \in DOMAIN R : TriInside(R[j], P[k]) /\ 4 * Area2(R[j]) = Area2(P[k]) /\ v \in VSet(R[j])

\* the midpoint subdivision ("a new vertex at the midpoint of each edge") -- the design's way to up-sample
EvenSum(a, b) == (a[1] + b[1]) % 2 = 0 /\ (a[2] + b[2]) % 2 = 0
Halvable(t) == EvenSum(t[1], t[2]) /\ EvenSum(t[2], t[3]) /\ EvenSum(t[3], t[1])
Mid(a, b) == << (a[1] + b[1]) \div 2, (a[2] + b[2]) \div 2 >>
Children(t) ==
    LET m12 == Mid(t[1], t[2])
        m23 == Mid(t[2], t[3])
        m31 == Mid(t[3], t[1])
    IN << <<t[1], m12, m31>>, <<t[2], m23, m12>>, <<t[3], m31, m23>>, <<m12, m23, m31>> >>
ChildrenAll(P) == FlattenSeq([k \in DOMAIN P |-> Children(P[k])])

\* ---- neighbourhood --------------------------------------------------------
\* lattice metric: 4/uF^2 * |a-b|^2
Q(a, b) == 4 * (a[1] - b[1]) * (a[1] - b[1]) + 3 * (a[2] - b[2]) * (a[2] - b[2])
Equilateral(t) == Q(t[1], t[2]) > 0 /\ Q(t[1], t[2]) = Q(t[2], t[3]) /\ Q(t[2], t[3]) = Q(t[3], t[1])
\* a2 is the mirror image of a in the line through b and c (the two circles about b and c meet in a and a2 only)
IsMirror(a2, a, b, c) == a2 # a /\ Q(a2, b) = Q(a, b) /\ Q(a2, c) = Q(a, c)
Nxt(k) == (k % 3) + 1
\* The neighbour of t across the edge opposite to vertex k: the triangle that shares that edge and is the image of t
\* under the half-turn about the edge's midpoint (a goes to b + c - a).  This is what "edge-reflected" means for an
\* arbitrary vertex array; for an equilateral triangle it is also the mirror image in the edge (theorem
\* MirrorIsPointReflection below).
Across(t, k) ==
    LET a == t[k]
        b == t[Nxt(k)]
        c == t[Nxt(Nxt(k))]
    IN << <<b[1] + c[1] - a[1], b[2] + c[2] - a[2]>>, b, c >>
IsEdgeReflection(n, t, k) ==
    LET a == t[k]
        b == t[Nxt(k)]
        c == t[Nxt(Nxt(k))]
    IN n[2] = b /\ n[3] = c /\ IsMirror(n[1], a, b, c)
NbrSet(P) == UNION { {VSet(t), VSet(Across(t, 1)), VSet(Across(t, 2)), VSet(Across(t, 3))} : t \in ToSet(P) }
Neighbourhood(P, R) == ToSet(Geo(R)) = NbrSet(P)      \* every original, its three reflections, nothing else
\* ... each of them once (where the arithmetic of the instance is exact, coincident vertices are identical vertices)
NoNeighbourTwice(P, R) == Len(R) = Cardinality(NbrSet(P))

\* the code's formulation on a vertex/index array (array.py neighborhood): the 4n triangles (the three reflections
\* of every triangle, then the originals), their distinct vertices in lexicographic order, every triangle as the
\* ascending triple of its vertex positions, the distinct triples in lexicographic order.
Sort3(t) == LET lo == IF t[1] <= t[2] THEN (IF t[1] <= t[3] THEN t[1] ELSE t[3]) ELSE (IF t[2] <= t[3] THEN t[2] ELSE t[3])
                hi == IF t[1] >= t[2] THEN (IF t[1] >= t[3] THEN t[1] ELSE t[3]) ELSE (IF t[2] >= t[3] THEN t[2] ELSE t[3])
            IN << lo, t[1] + t[2] + t[3] - lo - hi, hi >>
Lex3Lt(a, b) == a[1] < b[1] \/ (a[1] = b[1] /\ (a[2] < b[2] \/ (a[2] = b[2] /\ a[3] < b[3])))

\* ---- selection ------------------------------------------------------------
\* idx: 1-based positions.  The selected triangles, geometrically identical, each as often as selected.
Selected(P, idx) == [k \in DOMAIN idx |-> P[idx[k]]]
Selection(P, idx, R) == (\A k \in DOMAIN idx : idx[k] \in DOMAIN P) /\ SameBag(R, Selected(P, idx))

\* ---- representations ------------------------------------------------------
FlipOf(c, fl) == LET odd == (c[1] + c[2]) % 2 # 0 IN IF odd # fl THEN -1 ELSE 1
\* the triangle of integer coordinate c on the lattice whose unit is w fine units, shifted by (xo, yo)
TriOf(c, fl, w, xo, yo) ==
    LET f == FlipOf(c, fl)
    IN << <<xo + c[1] * w, yo + (2 * c[2] + f) * w>>,
          <<xo + (c[1] + f) * w, yo + (2 * c[2] - f) * w>>,
          <<xo + (c[1] - f) * w, yo + (2 * c[2] - f) * w>> >>
TrisOf(cs, fl, w, xo, yo) == [k \in DOMAIN cs |-> TriOf(cs[k], fl, w, xo, yo)]
\* vertex/index form: triangle k is <<V[I[k][1]], V[I[k][2]], V[I[k][3]]>>
FromVI(V, I) == [k \in DOMAIN I |-> << V[I[k][1]], V[I[k][2]], V[I[k][3]] >>]
LexLt(a, b) == a[1] < b[1] \/ (a[1] = b[1] /\ a[2] < b[2])
VerticesOf(T) == SetToSortSeq(UNION {VSet(T[k]) : k \in DOMAIN T}, LexLt)
PosIn(V, p) == CHOOSE j \in DOMAIN V : V[j] = p
IndicesOf(T, V) == [k \in DOMAIN T |-> << PosIn(V, T[k][1]), PosIn(V, T[k][2]), PosIn(V, T[k][3]) >>]
NbrAll(T) == [k \in DOMAIN T |-> Across(T[k], 1)] \o [k \in DOMAIN T |-> << T[k][1], Across(T[k], 2)[1], T[k][3] >>]
             \o [k \in DOMAIN T |-> << T[k][1], T[k][2], Across(T[k], 3)[1] >>] \o T
NbrVI(T) ==
    LET all == NbrAll(T)
        V == VerticesOf(all)
        I == IndicesOf(all, V)
        U == SetToSortSeq({ Sort3(I[k]) : k \in DOMAIN I }, Lex3Lt)
    IN FromVI(V, U)
\* packing an ascending triple of positions < m into one integer (a faster way to find the distinct triples) is
\* faithful exactly when the base m is the number of vertices the positions refer to
PackedKey(t, m) == (t[1] * m + t[2]) * m + t[3]

\* ---- containment ----------------------------------------------------------
\* A shape is [kind, p, vs]: point p = <<x, y>>; circle p = <<x, y, r>>; square p = <<top, bottom, left, right>>;
\* polygon / triangle vs = vertices.  Its reference point is the centre (point, circle, square) or the mean of
\* its vertices.  RefDen * reference point = RefNum (kept as a fraction: no rounding).
RefDen(s) == CASE s.kind \in {"point", "circle"} -> 1
               [] s.kind = "square" -> 2
               [] OTHER -> Len(s.vs)
RefNum(s) == CASE s.kind \in {"point", "circle"} -> << s.p[1], s.p[2] >>
               [] s.kind = "square" -> << s.p[3] + s.p[4], s.p[1] + s.p[2] >>
               [] OTHER -> << SumSeq([k \in DOMAIN s.vs |-> s.vs[k][1]]), SumSeq([k \in DOMAIN s.vs |-> s.vs[k][2]]) >>
Scaled(t, d) == [k \in 1 .. 3 |-> << d * t[k][1], d * t[k][2] >>]
RefStrictlyInside(s, t) == RefDen(s) > 0 /\ InOpen(RefNum(s), Scaled(t, RefDen(s)))
MustReport(s, T) == {k \in DOMAIN T : RefStrictlyInside(s, T[k])}
\* "reported whenever the reference point lies inside": one direction only; rep = set of 1-based positions
ContainsOK(s, T, rep) == MustReport(s, T) \subseteq rep /\ rep \subseteq DOMAIN T

\* the code's formulation: barycentric coordinates a, b, c of q all in [0, 1] (exact, as fractions n/den)
BaryReports(q, t) ==
    LET x1 == t[1][1]  y1 == t[1][2]
        x2 == t[2][1]  y2 == t[2][2]
        x3 == t[3][1]  y3 == t[3][2]
        den == (y2 - y3) * (x1 - x3) + (x3 - x2) * (y1 - y3)
        na == (y2 - y3) * (q[1] - x3) + (x3 - x2) * (q[2] - y3)
        nb == (y3 - y1) * (q[1] - x3) + (x1 - x3) * (q[2] - y3)
        nc == den - na - nb
        In01(n) == 0 <= n * Sgn(den) /\ n * Sgn(den) <= Absv(den)
    IN den # 0 /\ In01(na) /\ In01(nb) /\ In01(nc)

-----------------------------------------------------------------------------
(* Layer 2: the bounded machine.  Two kinds of initial input: coordinate    *)
(* sets (below) and irregular vertex/index arrays (InitFree, variable       *)
(* `free`, action NeighborhoodVI formulated like array.py).  For coordinate *)
(* sets the state is the integer-coordinate                                 *)
(* representation as the implementation keeps it (coordinates, flipped      *)
(* flag, y offset, level); its actions are formulated like the code         *)
(* (parity-dependent child / neighbour offsets).  Layer 3 states that this  *)
(* formulation has the meaning of layer 1.                                  *)

VARIABLES coords,   \* sequence of <<cx, cy>>
          flipped,  \* BOOLEAN
          level,    \* number of up-samplings so far
          yoff,     \* y offset in fine units (x offset never changes: 0)
          last,     \* name of the last action
          prev,     \* the triangles before the last action
          path,     \* the calls made so far (for replay into the implementation)
          init,     \* the initial input (for replay)
          free      \* vertex-array inputs: the triangles as vertex triples on the integer grid (<< >> otherwise)
vars == << coords, flipped, level, yoff, last, prev, path, init, free >>

Fine(l) == 2 ^ (MaxLevel - l + 2)         \* fine units per lattice unit at level l (a quarter unit is >= 1)
IsFree == free # << >>
Tris == IF IsFree THEN free ELSE TrisOf(coords, flipped, Fine(level), 0, yoff)

Cells(r) == (-r .. r) \X (-r .. r)
InitSets == UNION { UNION { kSubset(n, Cells(f[1])) : n \in 1 .. f[2] } : f \in Families }

InitCoord == /\ \E S \in InitSets : coords = SetToSortSeq(S, LexLt)
             /\ flipped \in BOOLEAN
             /\ level = 0 /\ yoff = 0 /\ last = "init" /\ prev = << >> /\ path = << >> /\ free = << >>
             /\ init = [c |-> coords, fl |-> flipped, v |-> << >>, ix |-> << >>]

\* irregular vertex/index arrays: nv distinct grid points (lexicographic order), 2..nt non-degenerate triangles (ascending
\* position triples) that together use every vertex -- shared and unshared vertices, overlapping and elongated triangles
NonDegenerate(V, t) == Cross(V[t[1]], V[t[2]], V[t[3]]) # 0
TriplesOf(V) == { t \in { SetToSortSeq(s, <) : s \in kSubset(3, DOMAIN V) } : NonDegenerate(V, t) }
\* the grid straddles the origin: negative and positive whole-number coordinates (rounding towards zero differs from
\* rounding down only for negative numbers)
GridAxis(n) == (-(n \div 2)) .. (n - 1 - (n \div 2))
FreeInputs(f) ==
    UNION { LET V == SetToSortSeq(Vs, LexLt)
                tr == TriplesOf(V)
            IN { [v |-> V, ix |-> SetToSortSeq(I, Lex3Lt)] :
                     I \in { J \in UNION { kSubset(n, tr) : n \in 2 .. (IF f[4] <= Cardinality(tr) THEN f[4] ELSE Cardinality(tr)) } :
                                UNION { ToSet(t) : t \in J } = DOMAIN V } }
          : Vs \in kSubset(f[3], GridAxis(f[1]) \X GridAxis(f[2])) }
\* the triangles in fine units: one grid step is FreeUnit fine units, so that the midpoints of two up-samplings are
\* representable (a grid step of one whole number has half- and quarter-integer midpoints)
FreeUnit == 2 ^ MaxLevel
ScaleV(V) == [k \in DOMAIN V |-> << FreeUnit * V[k][1], FreeUnit * V[k][2] >>]
InitFree == /\ \E inp \in UNION { FreeInputs(f) : f \in FreeFamilies } :
                  /\ free = FromVI(ScaleV(inp.v), inp.ix)
                  /\ init = [c |-> << >>, fl |-> FALSE, v |-> inp.v, ix |-> inp.ix]
            /\ coords = << >> /\ flipped = FALSE /\ level = 0 /\ yoff = 0
            /\ last = "init" /\ prev = << >> /\ path = << >>

Init == InitCoord \/ InitFree

Count(a) == Cardinality({k \in DOMAIN path : path[k].a = a})
\* a behaviour ends with the containment queries, or one call after an index selection (a selected subset of an
\* initial input is itself an initial input; the call after it shows that flip state and offsets were kept)
Live == /\ last # "obs" /\ Len(path) < MaxPath
        /\ (Count("sel") = 1 => last = "sel")
Dump(p) == PrintT(ToJson([k |-> "beh", c |-> init.c, fl |-> init.fl, v |-> init.v, ix |-> init.ix, path |-> p]))
Step(a, t, q) == [a |-> a, t |-> t, q |-> q]

\* coordinate_array.py up_sample: four children per triangle, offsets depend on the flip of the parent; the unit
\* halves, the y offset moves down by one new unit, the result is always in the `flipped` state
ChildCoords(c, f) ==
    IF f = 1 THEN << <<2*c[1], 2*c[2]>>, <<2*c[1] + 1, 2*c[2]>>, <<2*c[1] - 1, 2*c[2]>>, <<2*c[1], 2*c[2] + 1>> >>
             ELSE << <<2*c[1], 2*c[2]>>, <<2*c[1] + 1, 2*c[2] + 1>>, <<2*c[1] - 1, 2*c[2] + 1>>, <<2*c[1], 2*c[2] + 1>> >>
UpSample ==
    /\ Live /\ ~ IsFree /\ level < MaxLevel /\ Len(coords) <= MaxLenUp
    /\ coords' = FlattenSeq([k \in DOMAIN coords |-> ChildCoords(coords[k], FlipOf(coords[k], flipped))])
    /\ flipped' = TRUE
    /\ level' = level + 1
    /\ yoff' = yoff - Fine(level + 1)
    /\ prev' = Tris /\ last' = "up"
    /\ path' = Append(path, Step("up", << >>, << >>))
    /\ Dump(path')
    /\ UNCHANGED << init, free >>

\* coordinate_array.py neighborhood: the triangle itself, left, right, and below (upright) / above (flipped); unique
NbrCoords(c, f) == { c, <<c[1] + 1, c[2]>>, <<c[1] - 1, c[2]>>, <<c[1], c[2] - f>> }
Neighborhood ==
    /\ Live /\ ~ IsFree /\ Count("nbr") = 0 /\ Len(coords) <= MaxLenUp
    /\ coords' = SetToSortSeq(UNION { NbrCoords(coords[k], FlipOf(coords[k], flipped)) : k \in DOMAIN coords }, LexLt)
    /\ prev' = Tris /\ last' = "nbr"
    /\ path' = Append(path, Step("nbr", << >>, << >>))
    /\ Dump(path')
    /\ UNCHANGED << flipped, level, yoff, init, free >>

\* array.py neighborhood on an irregular vertex/index array, and the neighbourhood of that neighbourhood
NeighborhoodVI ==
    /\ IsFree /\ last # "obs" /\ Len(path) < 2 /\ Len(free) <= (IF level > 0 THEN MaxLenUp ELSE MaxLenSel)
    /\ free' = NbrVI(free)
    /\ prev' = free /\ last' = "nbr"
    /\ path' = Append(path, Step("nbr", << >>, << >>))
    /\ Dump(path')
    /\ UNCHANGED << coords, flipped, level, yoff, init >>

\* abstract.py / array.py up_sample on a vertex/index array: the four midpoint children of every triangle
UpSampleVI ==
    /\ IsFree /\ last # "obs" /\ Count("nbr") = 0 /\ level < MaxLevel /\ Len(path) < 2 /\ Len(free) <= MaxLenUp
    /\ free' = ChildrenAll(free)
    /\ level' = level + 1
    /\ prev' = free /\ last' = "up"
    /\ path' = Append(path, Step("up", << >>, << >>))
    /\ Dump(path')
    /\ UNCHANGED << coords, flipped, yoff, init >>

\* containing_indices on a vertex/index array: every point of the half-step lattice strictly inside some triangle
QueriesVI ==
    LET st == FreeUnit \div (2 ^ (level + 1))
        xs == UNION { {free[k][1][1], free[k][2][1], free[k][3][1]} : k \in DOMAIN free }
        ys == UNION { {free[k][1][2], free[k][2][2], free[k][3][2]} : k \in DOMAIN free }
    IN { q \in { <<Min(xs) + a * st, Min(ys) + b * st>> : a \in 0 .. ((Max(xs) - Min(xs)) \div st), b \in 0 .. ((Max(ys) - Min(ys)) \div st) } :
           \E k \in DOMAIN free : InOpen(q, free[k]) }
ObserveVI ==
    /\ IsFree /\ last \in {"init", "up"} /\ level < MaxLevel /\ Len(free) <= 2 * MaxLenObs
    /\ last' = "obs"
    /\ path' = Append(path, Step("obs", << >>, SetToSeq(QueriesVI)))
    /\ Dump(path')
    /\ UNCHANGED << coords, flipped, level, yoff, prev, init, free >>

\* for_indexes: the index subsets explored
SelFamily(n) ==
    IF n <= SelAllMax THEN (SUBSET (1 .. n)) \ {{}}
    ELSE { {1}, {n}, {k \in 1 .. n : k % 2 = 0}, (1 .. n) \ {2}, {k \in 1 .. n : k % 3 = 1} }
Select ==
    /\ Live /\ ~ IsFree /\ Count("sel") = 0 /\ Count("nbr") = 0 /\ Len(coords) <= MaxLenSel
    /\ \E S \in SelFamily(Len(coords)) :
          LET idx == SetToSortSeq(S, <)
          IN /\ coords' = [k \in DOMAIN idx |-> coords[idx[k]]]
             /\ path' = Append(path, Step("sel", Selected(Tris, idx), << >>))
    /\ prev' = Tris /\ last' = "sel"
    /\ Dump(path')
    /\ UNCHANGED << flipped, level, yoff, init, free >>

\* containing_indices: the queries are all points of the quarter-unit lattice strictly inside one of the triangles
QStep == Fine(level) \div 4
Queries ==
    UNION { LET t == Tris[k]
                xs == {t[1][1], t[2][1], t[3][1]}
                ys == {t[1][2], t[2][2], t[3][2]}
            IN { q \in { <<Min(xs) + a * QStep, Min(ys) + b * QStep>> : a \in 0 .. 8, b \in 0 .. 8 } : InOpen(q, t) }
          : k \in DOMAIN coords }
Observe ==
    /\ Live /\ ~ IsFree /\ last # "sel" /\ Len(coords) <= MaxLenObs
    /\ last' = "obs"
    /\ path' = Append(path, Step("obs", << >>, SetToSeq(Queries)))
    /\ Dump(path')
    /\ UNCHANGED << coords, flipped, level, yoff, prev, init, free >>

Next == UpSample \/ Neighborhood \/ NeighborhoodVI \/ UpSampleVI \/ ObserveVI \/ Select \/ Observe
Spec == Init /\ [][Next]_vars

-----------------------------------------------------------------------------
(* Layer 3: design-level theorems, checked by TLC in every reachable state  *)

W == Fine(level)
\* the coordinate lattice: equilateral triangles of side 2W (area 2W*2W/2), no two overlapping (distinct coordinates)
LatticeShape == \A k \in DOMAIN coords : Equilateral(Tris[k]) /\ Area2(Tris[k]) = 4 * W * W
                                         /\ Q(Tris[k][1], Tris[k][2]) = 16 * W * W
\* (a selection or an observation creates no new triangle: checked where the set is new)
NewSet == last \in {"init", "up", "nbr"}
LatticeDisjoint == NewSet /\ ~ IsFree => (\A i, j \in DOMAIN coords : i < j => coords[i] # coords[j]) /\ PairwiseDisjoint(Tris)
\* midpoints stay on the fine lattice down to the last level
MidpointsRepresentable == level < MaxLevel /\ last \in {"init", "up"} => \A k \in DOMAIN Tris : Halvable(Tris[k])

\* the parity-dependent child offsets are the midpoint subdivision ...
UpIsMidpointSubdivision == last = "up" => SameBag(Tris, ChildrenAll(prev))
\* ... the midpoint subdivision tiles exactly, quadruples the count, conserves the area, keeps the vertices ...
MidpointSubdivisionTiles ==
    last = "up" => /\ \A k \in DOMAIN prev : TilesExactly(prev[k], Children(prev[k]), 1 .. 4)
                   /\ Len(Tris) = 4 * Len(prev)
                   /\ TotalArea2(Tris) = TotalArea2(prev)
                   /\ (UNION {VSet(prev[k]) : k \in DOMAIN prev}) \subseteq (UNION {VSet(Tris[k]) : k \in DOMAIN Tris})
\* ... and is accepted by the postcondition the trace specification applies to the implementation
UpAccepted == last = "up" => UpSampled(prev, Tris)

\* on the lattice the mirror image of a vertex in the opposite edge is the point reflection b + c - a
MirrorIsPointReflection ==
    last = "nbr" /\ ~ IsFree => \A k \in DOMAIN prev : \A j \in 1 .. 3 : IsEdgeReflection(Across(prev[k], j), prev[k], j)
\* the parity-dependent neighbour offsets are the edge reflections, and nothing else
NbrIsReflections == last = "nbr" => Neighbourhood(prev, Tris) /\ NoNeighbourTwice(prev, Tris)
\* ... also in the vertex/index formulation on irregular arrays, whose distinct position triples are distinct
\* triangles; packed keys with the neighbourhood's own vertex count as base tell them apart (a smaller base, such
\* as the vertex count of the input, need not: the positions of reflected vertices exceed it)
NbrVIIsNeighbourhood ==
    last = "nbr" /\ IsFree =>
        LET V == VerticesOf(Tris)
            S == { Sort3(t) : t \in ToSet(IndicesOf(Tris, V)) }
            m == Len(V)
        IN /\ Cardinality(S) = Len(Tris)
           /\ Len(VerticesOf(prev)) < m
           /\ \A s, t \in S : s # t => PackedKey(<<s[1] - 1, s[2] - 1, s[3] - 1>>, m) # PackedKey(<<t[1] - 1, t[2] - 1, t[3] - 1>>, m)

\* selection keeps geometry (flip state and offsets travel with the coordinates)
SelFaithful == last = "sel" => /\ Tris = path[Len(path)].t
                               /\ \A k \in DOMAIN Tris : \E j \in DOMAIN prev : Tris[k] = prev[j]

\* vertex/index form and coordinate form describe the same triangles
ReprAgree == LET V == VerticesOf(Tris) IN FromVI(V, IndicesOf(Tris, V)) = Tris

\* barycentric test (code) reports every triangle that strictly contains the query, and only closed-containing ones;
\* a query is strictly inside exactly one triangle of a lattice set
ContainSound ==
    last = "obs" =>
        \A q \in ToSet(path[Len(path)].q) :
            /\ \A k \in DOMAIN Tris : (InOpen(q, Tris[k]) => BaryReports(q, Tris[k]))
                                      /\ (BaryReports(q, Tris[k]) => InClosed(q, Tris[k]))
            /\ LET n == Cardinality({k \in DOMAIN Tris : InOpen(q, Tris[k])})
               IN IF IsFree THEN n >= 1 ELSE n = 1     \* (the triangles of an irregular array may overlap)
=============================================================================
